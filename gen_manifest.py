#!/usr/bin/env python3
"""Regenerates MANIFEST.json from the table below (kept in one place so the
manifest is always valid and the not_applicable list is always current)."""
import json
import subprocess

BASELINE_OFF = ("cd /repo && go build ./... && go test -mod=mod -json -vet=off -count=1 -timeout 25m ./... "
                "> /tmp/vg-baseline.json; grep -c '\"Action\":\"pass\"' /tmp/vg-baseline.json")

# id -> (technique, level text, level note, design ref)
CLAIMS = {
    "C01": (
        "path-sensitive enumeration of every return of the request-body adapters' Read (named results and boolean phis resolved along the path, pure expressions canonicalised) for the provenance of io.EOF; dominance of sendBuffer() by a successful advanceToStage(stageSend); who-may-call the stage helpers; must-pass of the buffer reset; path enumeration of the stage function's decision table (skip / decompress / decode / encode / recompress) and direction-indexed side selection of codec and compression pool",
        "Very narrow claim at level 'other': five structural clauses of 'same count, nothing dropped or prefixed, every needed conversion step taken with the right side's codec' (C01.1-C01.6 plus the shared clauses C07.6, C08.1, C08.3, C08.4, C09.1, C09.7, C10.1). Field-for-field equality of message values across codecs/compressions is value semantics and is NOT decided by this family (see DESIGN.md, D12 is out of reach).",
        "Trusts io.Reader/bytes.Buffer contracts. Everything about payload values is outside the claim.",
        "DESIGN.md section 6, C01",
    ),
    "C08": (
        "forward dataflow (typestate {zero, nonzero, unknown}) of the envelope cursor with branch refinement; must-pass of the cursor update after each envelope copy with the dominating length comparison it needs; offset/decrement shape of the writer-side accumulation",
        "Narrow claim at level 'other': the structural preconditions for segmentation independence that the adapters' state machines rely on (C08.1-C08.5 plus the shared clauses C01.1, C10.6, C16.5); equality of outputs over all split points is a schedule/value property and is not decided.",
        "Trusts go/ssa dominators and the structural identification of the adapters (Read method + envelope array + cursor).",
        "DESIGN.md section 6, C08",
    ),
    "C09": (
        "path-sensitive provenance of the payload read's error, dominated reportError calls in both Close methods, constant folding of all envelope decoders/encoders over the 256 flag bytes, error-discipline check (non-nil edge never reaches the success continuation) at every codec/compression/framing call, missing-status witness",
        "Decides that the code has no path turning truncated / malformed input into a clean end (C09.1-C09.8 plus the shared clauses C03.14, C04.8), for every call site rather than sampled cut points. Level 'other'; enumeration of byte offsets and hangs are not decided.",
        "Trusts io.CopyN/ReadFull contracts and the accepted-idiom table in checker/vg/c09.go.",
        "DESIGN.md section 6, C09",
    ),
    "C10": (
        "limit vocabulary: origin tracing to the maxMsgBufferBytes field, dominating comparisons, one-level function-result and parameter summaries; enumeration of every reader->buffer copy, Grow and accumulating Write at request time; exact 'LimitReader(limit+1) then n > limit' idiom; resource_exhausted constant",
        "Decides that no request-time path buffers wire or decompressed bytes without a limit-derived bound and that exceeding is detectable and reported as resource_exhausted (C10.1-C10.7). Level 'other'; the resident multiple of L and codec-internal allocation are not decided.",
        "Trusts the enumeration of copy primitives (ReadFrom, io.Copy/CopyBuffer/CopyN/ReadAll, Buffer.Write in Write methods, Grow).",
        "DESIGN.md section 6, C10",
    ),
    "C11": (
        "interval proof of table indices; fixpoint over guards for method calls through nil-able collaborators (non-nil tests, dominating calls, correlated flags and sentinels, all-call-sites); enumeration of panic/assert/go constructs and call-graph cycles at request time; divisor analysis; who-may-call WriteHeader",
        "Partial claim at level 'other': absence of the locally judgeable crash/wedge constructs (C11.1-C11.13 plus the shared clauses C08.1). Totality over all inputs, termination and state-dependent slice bounds are NOT decided.",
        "Trusts the collaborator identification ('x, _ = v.(I)' stores) and the list of bounded recursions in checker/vg/c11.go.",
        "DESIGN.md section 6, C11",
    ),
    "C14": (
        "pooled-buffer ownership typestate (no use / second release after Put, release-then-clear on every exit path, swap discipline by path enumeration), error-cell guard before touching buffer-aliasing fields, lock-before-fields and deferred unlock, lock-set comparison between reader-side and writer-side roots with a known-findings file",
        "Structural necessary conditions of isolation and race freedom (C14.1-C14.4 plus the shared clauses C03.13, C11.13), decided for every path. The reader-side reportError race is a genuine defect recorded as known finding KF-1 (per cell and root); any other shared cell is reported. Level 'other'; interleaving semantics are not decided.",
        "Trusts sync.Pool semantics; the reachability used for C14.3 relies on a separately checked invariant (responseWriter.delegate is the caller's writer).",
        "DESIGN.md section 6, C14",
    ),
    "C16": (
        "must-pass of the per-message flush after each completed message (path-sensitive in the re-framing writer), flusher lookup order by dominance of type assertions, table of endMustBeInHeaders implementers, path classification of WriteHeader (flushed vs. legitimately held back), unit-bounded reads of the client body, single-message invariant for un-enveloped bodies",
        "Structural preconditions of message-by-message progress (C16.1-C16.5 plus the shared clauses C11.13); liveness over a real HTTP/2 connection is not decided. Level 'other'.",
        "Trusts http.Flusher contract.",
        "DESIGN.md section 6, C16",
    ),
    "C02": (
        "origin tracing of the request metadata and negotiated server cells, dominating membership facts, read=>delete pairing on header maps, constant folding of envelope encoders/decoders over all 256 flag bytes, origin equality between envelope length and payload bound, dominating limit checks for narrowing conversions, constant extraction of the Content-Type prefixes each protocol writes and path-sensitive reading of the request classifier's content-type tests against the wire formats' table",
        "Structural necessary conditions of 'the backend sees a valid request in a protocol/codec/compression it accepts', decided for every path and every call site (C02.1-C02.10 plus the shared clauses C12.4, C17.4). Level 'other': a rule set over the SSA form; values of headers and payload bytes are not decided.",
        "Trusts go/types + go/ssa, the constant folder in checker/vg/fold.go (pure integer/boolean fragments only), the wire-format reference tables in checker/vg/envelope.go.",
        "DESIGN.md section 6, C02",
    ),
    "C03": (
        "who-may-call over the call graph, dominating guard facts (endWritten / headersFlushed / error cell), must-pass of flag stores on every exit path, origin equality envelope length <-> bound, Content-Length <-> written buffer pairing, per-path evidence rules for error-cell stores and Content-Encoding announcements, Content-Type prefix table per client protocol",
        "Structural necessary conditions of 'exactly one valid terminal disposition, frames and Content-Length agree with the bytes written' (C03.1-C03.15 plus the shared clauses C01.4, C01.6), decided path-completely. Level 'other'.",
        "Trusts go/types + go/ssa and the module call graph. Does not decide validity of body bytes or declared compression for un-enveloped clients.",
        "DESIGN.md section 6, C03",
    ),
    "C04": (
        "interval analysis of table indices under dominating comparisons, extraction of the RPC->HTTP literal and constant folding of the HTTP->RPC switch over 100..599 compared with the published mapping, constant folding of the percent-escape predicate over all 256 bytes, reachability of the mapping from every server protocol, writer/reader key-set agreement, constant evaluation of the separators with which the gRPC-Web in-body trailer block is split",
        "Decides that no out-of-range code can index past the tables, that both code tables equal the published mapping for every input in their finite domain, that all five backends use them, and that gRPC status keys / percent-encoding are written and read as pairs (C04.1-C04.8 plus the shared clauses C03.4, C03.9). Level 'other'; tables are finite so the table clauses are exhaustive.",
        "Trusts the reference tables transcribed in checker/vg/c04.go from the Connect/gRPC specifications, and the folder's integer semantics.",
        "DESIGN.md section 6, C04",
    ),
    "C05": (
        "effect enumeration of every http.Header mutation reachable from ServeHTTP, classification by key origin (constant control key vs. key derived from a ranged header entry), move-deletes-source pairing, consumption of responseEnd.trailers by every RPC client encoder, read=>delete pairing of gRPC status keys",
        "Frame condition: nothing but protocol control keys and whole-entry relocations ever changes a header map, on either leg, for any key set (C05.1-C05.7 plus the shared clauses C03.12). Level 'other'.",
        "Trusts the control-key table in checker/vg/c05.go and net/http's TrailerPrefix contract. Does not decide canonicalisation of arbitrary keys or -bin value encoding.",
        "DESIGN.md section 6, C05",
    ),
    "C06": (
        "encoding-class origin tracing of the matcher's path argument, who-may-decode under the matcher, path-sensitive enumeration of the trie walk (short-circuit conditions resolved per path), dominating 'no existing entry' facts for table stores",
        "Decides that the matcher sees the still-encoded path and decodes captures once, the literal/*/** precedence with 405 semantics, 404-vs-success construction, and that no route or method entry is ever overwritten (C06.1-C06.6). Level 'other'.",
        "Trusts net/url's EscapedPath contract. Does not decide the template grammar or capture arithmetic.",
        "DESIGN.md section 6, C06",
    ),
    "C07": (
        "return-origin check of the parameter setter, AST extraction of the two protoreflect.Kind switches compared with every declared Kind, path ordering of the three binding phases, source-coverage agreement between the needs-preparation predicate and the preparer",
        "Only necessary clauses are decided (C07.1-C07.8 plus the shared clauses C11.12); the to-REST-and-back identity itself is a value property and is not decided. Level 'other' (narrow).",
        "Trusts go/types constant values for the Kind enumeration.",
        "DESIGN.md section 6, C07",
    ),
    "C12": (
        "may-return fixpoint of the 'no timeout' sentinel over the call graph with errors.Is filtering facts, dominating facts at every store of the deadline cell, whole-struct copy check, sibling agreement of the five target encoders and six extractors, operator whitelist on the numeric path of each duration encoder, constant folding of the gRPC unit table",
        "Decides that the unbounded-sentinel can never become a rejection, that the deadline cell is written only by successful extraction and reaches the encoder unmodified, that every target encodes and every client form decodes it, and that encoders only truncate (C12.1-C12.6). Level 'other'.",
        "Trusts time.Duration accessor semantics. Does not decide numeric error bounds or the REST float parse.",
        "DESIGN.md section 6, C12",
    ),
    "C13": (
        "effect summaries of every function that may run before a delegating dispatch (request struct fields, URL fields, header-map contents, body use), save-before-mutate and restore-on-every-path checks, writer-parameter identity, exact three-atom pass-through condition",
        "Frame condition for pass-through and unknown-endpoint delegation: every request cell that may be written before the dispatch is restored from a value saved before the first mutation; the response writer is not wrapped; the pass-through decision is exactly the three equalities (C13.1-C13.3). Level 'other'.",
        "Trusts http.Request.WithContext (shallow copy) and http.Header.Clone (deep copy).",
        "DESIGN.md section 6, C13",
    ),
    "C15": (
        "write-effect enumeration over everything reachable from ServeHTTP against the configuration graph rooted at Transcoder (with a positive control rooted at NewTranscoder), must-pass Reset / deferred Put on pooled objects, who-may-touch the sync.Pools, capacity guard, absence of other cross-request state; commutativity analysis of every request-time loop over a Go map (injective key derivations, idempotent writes, counters, collect-then-sort, existence tests)",
        "Frame argument for history independence: request-time code writes nothing that outlives the RPC, and the only survivors (pooled buffers, (de)compressors) are reset before use on every path (C15.1-C15.4 plus the shared clauses C03.13, C14.1, C14.4); and that the outcome is a function of the request at all: no request-time loop over a Go map lets the randomised iteration order reach the outcome (C15.5). Level 'other'.",
        "Trusts sync.Pool and Reset contracts. Does not decide capacity-dependent behaviour or state inside dependencies.",
        "DESIGN.md section 6, C15",
    ),
    "C17": (
        "return-shape check of NewTranscoder, error-propagation check at every static call of an error-returning module function under NewTranscoder, structural witnesses (guard edge leads only to error returns) for each listed validation, loop-carried-flag analysis, path-sensitive binding condition of rule selectors, copy-per-iteration and map-replacement checks for option resolution, cycle analysis of the template parser's segment loop (every iteration passes the seen-'**' test)",
        "Decides that configuration errors are never swallowed, that each validation named by the property exists as an error edge, that a selector binds only on exact match or wildcard prefix, and that per-service options override (not mutate) defaults (C17.1-C17.5 plus the shared clauses C06.2). Level 'other'; the exact accept/reject boundary is not decided.",
        "Trusts go/ssa loop structure (dominators).",
        "DESIGN.md section 6, C17",
    ),
    "C18": (
        "SSA path/dominance rules: must-pass-through and may-reach over the CFG of ServeHTTP and its callees, who-may-call over a CHA call graph, origin tracing of the cancel/context pair, read/delete effect sets of each client protocol's header extraction against the headers validation inspects afterwards",
        "Structural necessary conditions decided for every path of the code (not sampled): one dispatch event per path, none after/before a rejection, dispatch only under a successful validation (or not-found + unknown handler), deferred cancel paired with the context handed to the handler, no goroutines/timers, a rejection signal validation still reads is not removed unread by a protocol's extraction. Level 'other': a static rule set, close to complete for this property because the property is about the shape of control flow.",
        "Trusts go/types + go/ssa lowering, the module call graph (static + CHA + signature-matched function values; VTA cross-check in thorough), and net/http calling ServeHTTP once per request. Does not decide what handlers do after returning.",
        "DESIGN.md section 6, C18",
    ),
    "C19": (
        "path-sensitive enumeration of the GET predicates and of method resolution (boolean phis resolved per path), dominating facts at the GET return of the request-line builder, origin check of every store to Request.Method, must-pass of the keep-store in the query accessor",
        "Decides that GET is accepted only for NO_SIDE_EFFECTS methods with HTTP method GET, issued only under the three-way conjunction and within the URL limit, and carries no body (C19.1-C19.4 plus the shared clauses C02.10). Level 'other'; exactness of the URL length arithmetic and GET/POST message equality are not decided.",
        "Trusts descriptorpb's enum constant.",
        "DESIGN.md section 6, C19",
    ),
    "C20": (
        "must-pass of the dynamicpb fallback on the NotFound edge, enumeration of generated-type assumptions (proto.GetExtension, single-value assertions, package-level descriptors used on messages), range-loop must-pass in the gRPC wrapper, path-sensitive identity condition for choosing global types, enumeration of descriptor identity comparisons",
        "Only necessary clauses of schema-source independence are decided (C20.1-C20.5); equivalence of dynamic and generated schemas over all traffic is metamorphic and not decided. Level 'other' (narrow).",
        "Trusts protoregistry/dynamicpb contracts.",
        "DESIGN.md section 6, C20",
    ),
}

NOT_APPLICABLE = {
}

PENDING_REASON = "static rules for this property are designed (DESIGN.md section 6) but not yet registered in this commit; no check is claimed until it is green and validated against mutants"


def rule_list(pid, text):
    """Replaces the hand-written '(Cnn.a-Cnn.b plus the shared clauses ...)' of a level text by
    the rule ids the evidence of the last run actually lists, so the manifest cannot lag behind."""
    import os, re
    f = f"/verif/evidence/{pid}.json"
    if not os.path.exists(f):
        return text
    ev = json.load(open(f))
    ids = []
    for r in ev.get("coverage", {}).get("rules", []):
        if re.fullmatch(r"C\d\d\.\d+", r["id"]) and r["id"] not in ids:
            ids.append(r["id"])
    key = lambda i: (i[:3], int(i[4:]))
    own = sorted([i for i in ids if i.startswith(pid + ".")], key=key)
    shared = sorted([i for i in ids if not i.startswith(pid + ".")], key=key)
    if not own:
        return text
    repl = "(rules " + ", ".join(own) + ("; shared clauses " + ", ".join(shared) if shared else "") + ")"
    new, n = re.subn(r"\(C\d\d\.\d+[^()]*\)", repl, text, count=1)
    return new if n else text + " " + repl


def main():
    props = [json.loads(l)["id"] for l in open("/verif/properties.jsonl")]
    checks = []
    for pid in props:
        if pid not in CLAIMS:
            continue
        tech, text, note, ref = CLAIMS[pid]
        text = rule_list(pid, text)
        checks.append({
            "property_id": pid,
            "quick_cmd": f"./run.sh {pid} quick",
            "thorough_cmd": f"./run.sh {pid} thorough",
            "evidence_file": f"/verif/evidence/{pid}.json",
            "replay_cmd_template": "./run.sh --replay {path}",
            "engine": "vgcheck",
            "level_claimed": {"category": "other", "text": text, "design_ref": ref},
            "level_note": note,
            "technique": "static analysis: " + tech,
        })
    na = []
    for pid in props:
        if pid in CLAIMS:
            continue
        na.append({"property_id": pid, "reason": NOT_APPLICABLE.get(pid, PENDING_REASON)})
    fix_commits = subprocess.run(["git", "-C", "/repo", "log", "--format=%h %s", "--grep=^fix:"],
                                 capture_output=True, text=True).stdout.strip().splitlines()
    manifest = {
        "version": 1,
        "setup_cmd": "./run.sh --build",
        "hooks": {
            "guard": "verif",
            "enable": "no hooks: the checks are purely static and build nothing of /repo with a tag; the guard name is declared for form only",
            "baseline_off_cmd": "cd /repo && go build ./... && go test -mod=mod -vet=off -count=1 -timeout 25m ./...",
            "source_commits": [],
            "add_only": True,
        },
        "engines": [{
            "name": "vgcheck",
            "path": "/verif/checker",
            "serves_properties": sorted(CLAIMS),
            "kind_free_text": "repository-specific static analyser (go/packages + go/ssa + module call graph): dominance facts, origin tracing, effect summaries, path queries, table extraction; one rule file per property under checker/vg",
        }],
        "checks": checks,
        "not_applicable": na,
        "notes": ("Technique family: static analysis only. Every check loads /repo's working tree, type-checks it and lowers it to SSA on every run; "
                  "nothing of vanguard-go is executed. Exit 0 = all obligations discharged (KNOWN-FINDING lines allowed), 1 = VIOLATION, 3 = CHECKER-ERROR "
                  "(tree does not compile, anchor unresolved, rule instance floor not met, obligation undecided). "
                  "Genuine defects repaired in /repo as 'fix:' commits: " + "; ".join(fix_commits)),
    }
    with open("/verif/MANIFEST.json", "w") as f:
        json.dump(manifest, f, indent=1)
        f.write("\n")


if __name__ == "__main__":
    main()

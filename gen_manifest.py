#!/usr/bin/env python3
"""Regenerates MANIFEST.json from the table below (kept in one place so the
manifest is always valid and the not_applicable list is always current)."""
import json
import subprocess

BASELINE_OFF = ("cd /repo && go build ./... && go test -mod=mod -json -vet=off -count=1 -timeout 25m ./... "
                "> /tmp/vg-baseline.json; grep -c '\"Action\":\"pass\"' /tmp/vg-baseline.json")

# id -> (technique, level text, level note, design ref)
CLAIMS = {
    "C18": (
        "SSA path/dominance rules: must-pass-through and may-reach over the CFG of ServeHTTP and its callees, who-may-call over a CHA call graph, origin tracing of the cancel/context pair",
        "Structural necessary conditions decided for every path of the code (not sampled): one dispatch event per path, none after/before a rejection, dispatch only under a successful validation (or not-found + unknown handler), deferred cancel paired with the context handed to the handler, no goroutines/timers. Level 'other': a static rule set, close to complete for this property because the property is about the shape of control flow.",
        "Trusts go/types + go/ssa lowering, the module call graph (static + CHA + signature-matched function values; VTA cross-check in thorough), and net/http calling ServeHTTP once per request. Does not decide what handlers do after returning.",
        "DESIGN.md section 6, C18",
    ),
}

NOT_APPLICABLE = {
}

PENDING_REASON = "static rules for this property are designed (DESIGN.md section 6) but not yet registered in this commit; no check is claimed until it is green and validated against mutants"


def main():
    props = [json.loads(l)["id"] for l in open("/verif/properties.jsonl")]
    checks = []
    for pid in props:
        if pid not in CLAIMS:
            continue
        tech, text, note, ref = CLAIMS[pid]
        checks.append({
            "property_id": pid,
            "quick_cmd": f"./run.sh {pid} quick",
            "thorough_cmd": f"./run.sh {pid} thorough",
            "evidence_file": f"/verif/evidence/{pid}.json",
            "replay_cmd_template": "./run.sh --replay {path}",
            "engine": "vgcheck",
            "level_claimed": {"category": "other", "text": text, "design_ref": ref},
            "level_note": note,
            "technique": "static analysis: " + tech,
        })
    na = []
    for pid in props:
        if pid in CLAIMS:
            continue
        na.append({"property_id": pid, "reason": NOT_APPLICABLE.get(pid, PENDING_REASON)})
    fix_commits = subprocess.run(["git", "-C", "/repo", "log", "--format=%h %s", "--grep=^fix:"],
                                 capture_output=True, text=True).stdout.strip().splitlines()
    manifest = {
        "version": 1,
        "setup_cmd": "./run.sh --build",
        "hooks": {
            "guard": "verif",
            "enable": "no hooks: the checks are purely static and build nothing of /repo with a tag; the guard name is declared for form only",
            "baseline_off_cmd": "cd /repo && go build ./... && go test -mod=mod -vet=off -count=1 -timeout 25m ./...",
            "source_commits": [],
            "add_only": True,
        },
        "engines": [{
            "name": "vgcheck",
            "path": "/verif/checker",
            "serves_properties": sorted(CLAIMS),
            "kind_free_text": "repository-specific static analyser (go/packages + go/ssa + module call graph): dominance facts, origin tracing, effect summaries, path queries, table extraction; one rule file per property under checker/vg",
        }],
        "checks": checks,
        "not_applicable": na,
        "notes": ("Technique family: static analysis only. Every check loads /repo's working tree, type-checks it and lowers it to SSA on every run; "
                  "nothing of vanguard-go is executed. Exit 0 = all obligations discharged (KNOWN-FINDING lines allowed), 1 = VIOLATION, 3 = CHECKER-ERROR "
                  "(tree does not compile, anchor unresolved, rule instance floor not met, obligation undecided). "
                  "Genuine defects repaired in /repo as 'fix:' commits: " + "; ".join(fix_commits)),
    }
    with open("/verif/MANIFEST.json", "w") as f:
        json.dump(manifest, f, indent=1)
        f.write("\n")


if __name__ == "__main__":
    main()

#!/usr/bin/env python3
# usage: record_fix.py DNN CNN <commit> <rule> <hunt finding or -> < two lines on stdin
#   line 1: what failed - the text of the "fixed:" line in known_findings.json
#   line 2: the cell for the table in DESIGN.md section 14 - the input that failed, what happens now
# Appends the fixed: line, the section-14 row and, if a hunt finding is named, its FIXED_SINCE entry.
import sys, json, re
d, prop, commit, rule, finding = sys.argv[1:6]
lines = sys.stdin.read().strip().split('\n')
what, cell = lines[0].strip(), lines[1].strip()
p = '/verif/known_findings.json'
s = open(p).read()
i = s.rindex('"fixed: ')
j = s.index('\n', i)
entry = json.dumps(f"fixed: property={prop} {commit} {what}; rule {rule} (reproducer notes/triage_{d}_test.go.txt)")
s = s[:j] + ',\n  ' + entry + s[j:]
json.loads(s)
open(p, 'w').write(s)
p = '/verif/DESIGN.md'
s = open(p).read()
rows = [m for m in re.finditer(r'^\| D\d+ \|.*$', s, re.M)]
last = rows[-1]
row = f"| {d} | {rule} | {cell} Reproducer: `notes/triage_{d}_test.go.txt` | `{commit}` |"
s = s[:last.end()] + '\n' + row + s[last.end():]
open(p, 'w').write(s)
if finding != '-':
    p = '/verif/tools/gen_open_findings.py'
    s = open(p).read()
    s = s.replace("FIXED_SINCE = {\n", f"FIXED_SINCE = {{\n '{finding}':'{d}',", 1)
    open(p, 'w').write(s)
print('recorded', d)

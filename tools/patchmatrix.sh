#!/bin/bash
# usage: patchmatrix.sh <outdir> <dir-with-patch.diff>...
# applies each patch to a scratch copy of /repo, runs every property, prints the rule keys that fire.
OUT=$1; shift
mkdir -p "$OUT"
/verif/run.sh --build
run_one() {
	DIR=$1
	ID=$(echo "$DIR" | sed 's#/*$##; s#.*/\([^/]*/[^/]*\)$#\1#; s#/#_#g')
	D=$(mktemp -d /tmp/vgm.XXXXXX)
	rsync -a --exclude .git /repo/ "$D/"
	if ! (cd "$D" && patch -s -p1 < "$DIR/patch.diff" >/dev/null 2>&1); then echo "$ID: PATCH-FAILED"; rm -rf "$D"; return; fi
	/verif/bin/vgcheck -repo "$D" -property all -known /verif/known_findings.json > "$OUT/$ID.log" 2>&1
	rm -rf "$D"
	HITS=$(grep -A1 '^VIOLATION' "$OUT/$ID.log" | grep -o 'C[0-9][0-9]\.[0-9a-z]*|[^:]*' | sort -u | paste -sd';')
	ERRS=$(grep -c '^CHECKER-ERROR' "$OUT/$ID.log")
	echo "$ID: hits=[${HITS}] checker_errors=$ERRS"
}
for DIR in "$@"; do
	run_one "$DIR" &
	while [ "$(jobs -r | wc -l)" -ge 8 ]; do sleep 1; done
done
wait

#!/usr/bin/env python3
"""Regenerates the machine-derived tables of DESIGN.md (between the
<!-- BEGIN:... --> / <!-- END:... --> markers) from evidence/*.json,
seeded/*/meta.json, benign/ and known_findings.json."""
import json, glob, os, re

def rules_table():
    out = ["| rule | what it decides | instances on the current tree | floor |", "|---|---|---|---|"]
    for f in sorted(glob.glob('/verif/evidence/C*.json')):
        ev = json.load(open(f))
        for r in ev['coverage'].get('rules', []):
            if r['id'] in ('GRAPH', 'CONFIG', 'SELFTEST', 'CONTROL'):
                continue
            out.append(f"| {r['id']} | {r['text']} | {r['instances']} | {r['floor']} |")
    return "\n".join(out)

def seeds_table():
    out = ["| seeded change | property it was written against | what it needs to manifest (author's words, abridged) | detected by |", "|---|---|---|---|"]
    for d in sorted(glob.glob('/verif/seeded/*/')):
        sid = os.path.basename(d.rstrip('/'))
        meta = json.load(open(d + 'meta.json'))
        readme = open(d + 'README.md').read() if os.path.exists(d + 'README.md') else ''
        first = ' '.join(readme.split())[:220].replace('|', '/')
        det = '; '.join(meta.get('detected_by', [])) or ('**missed** - ' + meta.get('missed_reason', 'see section 12'))
        out.append(f"| {sid} | {meta.get('property')} | {first} | {det} |")
    return "\n".join(out)

def summary():
    metas = [json.load(open(f)) for f in glob.glob('/verif/seeded/*/meta.json')]
    det = sum(1 for m in metas if m.get('detected_by'))
    ben = len(glob.glob('/verif/benign/*/patch.diff'))
    return f"{len(metas)} confirmed seeded changes, {det} detected, {len(metas)-det} missed; {ben} behaviour-preserving refactorings in the false-alarm corpus"

def main():
    p = '/verif/DESIGN.md'
    s = open(p).read()
    for name, fn in (('RULES', rules_table), ('SEEDS', seeds_table), ('SEEDSUMMARY', summary)):
        b, e = f'<!-- BEGIN:{name} -->', f'<!-- END:{name} -->'
        if b in s and e in s:
            s = s[:s.index(b) + len(b)] + "\n" + fn() + "\n" + s[s.index(e):]
    open(p, 'w').write(s)

if __name__ == '__main__':
    main()

#!/usr/bin/env python3
"""Reads the logs written by tools/seedmatrix.sh and records, in each
seeded/<id>/meta.json, which rule keys fired for that change."""
import json, os, re, sys, glob
out = sys.argv[1] if len(sys.argv) > 1 else '/tmp/seedmatrix'
for d in sorted(glob.glob('/verif/seeded/*/')):
    sid = os.path.basename(d.rstrip('/'))
    log = os.path.join(out, sid + '.log')
    if not os.path.exists(log):
        continue
    txt = open(log).read()
    hits = sorted(set(re.findall(r'^  \S+: (C\d\d\.\d+\|.*?)(?:\|#\d+)?: ', txt, re.M)))
    errs = len(re.findall(r'^CHECKER-ERROR', txt, re.M))
    mp = os.path.join(d, 'meta.json')
    meta = json.load(open(mp))
    meta['detected_by'] = hits
    meta['checker_errors'] = errs
    meta['status'] = 'detected' if hits else 'missed'
    meta['checked_with'] = 'tools/seedmatrix.sh: patch applied to a scratch copy of /repo, vgcheck -property all (every registered property, quick tier), copy removed'
    json.dump(meta, open(mp, 'w'), indent=1)
    print(sid, meta['status'], len(hits))

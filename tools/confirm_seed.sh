#!/bin/sh
# usage: confirm_seed.sh <src dir with patch.diff demo_test.go README.md> <seed id> <property>
# Confirms a seeded change in a scratch worktree of /repo: clean tree: demo passes;
# with patch: full suite passes, demo fails.  Writes /verif/seeded/<id>/ on success.
set -u
SRC=$1; ID=$2; PROP=$3
export PATH=/opt/veriftools/go1.26.8/bin:$PATH GOTOOLCHAIN=local GOFLAGS=-mod=mod GOPROXY=off GOSUMDB=off GOWORK=off
WT=$(mktemp -d /tmp/cs.XXXXXX)
rmdir "$WT"
git -C /repo worktree add --detach "$WT" HEAD -q || exit 2
cleanup() { git -C /repo worktree remove --force "$WT" 2>/dev/null; rm -rf "$WT"; }
trap cleanup EXIT
LOG=$(mktemp)
cp "$SRC/demo_test.go" "$WT/zz_seed_demo_test.go"
TESTS=$(grep -o 'func TestSeeded[A-Za-z0-9_]*' "$SRC/demo_test.go" | sed 's/func //' | paste -sd'|')
cd "$WT"
go test -vet=off -count=1 -run "^($TESTS)\$" . >"$LOG" 2>&1; CLEAN_DEMO=$?
git apply "$SRC/patch.diff" || { echo "$ID: patch does not apply"; exit 3; }
go test -vet=off -count=1 -run "^($TESTS)\$" . >>"$LOG" 2>&1; MUT_DEMO=$?
rm zz_seed_demo_test.go
go build ./... >>"$LOG" 2>&1; BUILD=$?
go test -vet=off -count=1 ./... >>"$LOG" 2>&1; SUITE=$?
echo "$ID: clean_demo_exit=$CLEAN_DEMO mutant_demo_exit=$MUT_DEMO build=$BUILD suite_exit=$SUITE"
if [ $CLEAN_DEMO -eq 0 ] && [ $MUT_DEMO -ne 0 ] && [ $BUILD -eq 0 ] && [ $SUITE -eq 0 ]; then
	mkdir -p /verif/seeded/$ID
	cp "$SRC/patch.diff" "$SRC/demo_test.go" /verif/seeded/$ID/
	cp "$SRC/README.md" /verif/seeded/$ID/README.md
	python3 - "$ID" "$PROP" "$TESTS" <<'PY'
import json,sys,subprocess
sid,prop,tests=sys.argv[1:4]
head=subprocess.run(['git','-C','/repo','rev-parse','--short','HEAD'],capture_output=True,text=True).stdout.strip()
readme=open(f'/verif/seeded/{sid}/README.md').read()
meta={"id":sid,"property":prop,"base_commit":head,"demo_tests":tests.split('|'),
 "needs_to_manifest":"see README.md (written by the independent sub-agent that produced the change)",
 "confirmed":{"clean_tree_demo":"pass","patched_demo":"fail","patched_build":"ok","patched_full_suite":"pass",
   "how":"tools/confirm_seed.sh: scratch git worktree of /repo HEAD under /tmp; go test -run demo on clean tree; git apply patch.diff; go test -run demo; go build ./...; go test -vet=off -count=1 ./... ; worktree removed"},
 "detected_by":[],"status":"unclassified"}
json.dump(meta,open(f'/verif/seeded/{sid}/meta.json','w'),indent=1)
PY
	echo "$ID: CONFIRMED"
else
	echo "$ID: NOT CONFIRMED"; tail -20 "$LOG"
fi
rm -f "$LOG"

#!/bin/sh
# usage: mutcheck.sh [-R] <patch> <prop> [<prop>...]
# Copies /repo (without .git) to a scratch dir, applies the patch (-R: reversed),
# runs the given properties' quick checks against the copy and removes it.
set -eu
REV=""
if [ "$1" = "-R" ]; then REV="-R"; shift; fi
PATCH=$1; shift
D=$(mktemp -d /tmp/vgm.XXXXXX)
trap 'rm -rf "$D"' EXIT
rsync -a --exclude .git /repo/ "$D/"
(cd "$D" && patch -s -p1 $REV < "$PATCH")
/verif/run.sh --build
for P in "$@"; do
	/verif/bin/vgcheck -repo "$D" -property "$P" -known /verif/known_findings.json 2>&1 | grep -E '^(VIOLATION|CHECKER-ERROR|KNOWN|property=|  [a-z_./]+:[0-9]+:)' | sed "s#$D/##g" || true
done

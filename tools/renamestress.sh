#!/bin/bash
# usage: renamestress.sh <outdir> [batchsize]
# Rename tolerance stress test: every unexported identifier of the library that a rule mentions
# (collected from the rule sources and the declaration snapshot) is renamed with `gofmt -r`
# in a scratch copy of /repo, in batches; every property is then evaluated on the copy.
# A behaviour-preserving rename must leave all checks silent (exit 0, no VIOLATION/CHECKER-ERROR).
set -u
OUT=$1; BATCH=${2:-8}
export PATH=/opt/veriftools/go1.26.8/bin:$PATH GOTOOLCHAIN=local GOFLAGS=-mod=mod GOPROXY=off GOSUMDB=off GOWORK=off
mkdir -p "$OUT"
cd /verif/checker
grep -oh 'MustFunc("[^"]*")\|MustField("[^"]*", "[^"]*")\|MustNamed("[^"]*")\|MethodOf([a-zA-Z]*, "[^"]*")\|p\.Func("[^"]*")\|p\.Iface("[^"]*")\|p\.Field("[^"]*", "[^"]*")\|p\.Named("[^"]*")\|N([^)]*) [!=]= "[^"]*"\|FuncName([a-z]*) == "[^"]*"\|case "[^"]*"' vg/c*.go vg/env*.go vg/effects.go vg/load.go vg/ssau.go vg/contenttype.go vg/maporder.go \
 | grep -o '"[^"]*"' | tr -d '"' | sed 's/^(\*\?[A-Za-z]*)\.//' | sort -u > "$OUT/mentioned.txt"
python3 - "$OUT" <<'PY'
import json,sys
out=sys.argv[1]
d=json.load(open('/verif/checker/anchors/decls.json'))
names=set(l.strip() for l in open(out+'/mentioned.txt'))
decl=set()
for t in d['types']:
    if t['pkg']=='':
        decl.add(t['name'])
        for f in t.get('fields',[]): decl.add(f['name'])
        for m in t.get('methods',[]): decl.add(m['name'])
for f in d['funcs']:
    if f['pkg']=='': decl.add(f['name'])
for g in d['globals']:
    if g['pkg']=='': decl.add(g['name'])
builtin={'close','len','cap','new','make','append','copy','delete','panic','print','error','string','int','bool','byte'}
cand=sorted(n for n in names if n in decl and n[0].islower() and n not in builtin)
open(out+'/idents.txt','w').write('\n'.join(cand)+'\n')
print(len(cand),'identifiers')
PY
run_batch() {
	ID=$1; shift
	D=$(mktemp -d /tmp/vgr.XXXXXX)
	rsync -a --exclude .git /repo/ "$D/"
	APPLIED=""
	for n in "$@"; do
		( cd "$D" && cp -r . "../$(basename $D).bak" && gofmt -r "$n -> ${n}Rn" -w *.go vanguardgrpc/*.go 2>/dev/null && go build ./... 2>/dev/null && go vet . >/dev/null 2>&1 ) \
			&& APPLIED="$APPLIED $n" \
			|| { rm -rf "$D"; mv "/tmp/$(basename $D).bak" "$D"; echo "batch$ID: skipped $n (rename does not compile)"; continue; }
		rm -rf "/tmp/$(basename $D).bak"
	done
	/verif/bin/vgcheck -repo "$D" -property all -known /verif/known_findings.json > "$OUT/batch$ID.log" 2>&1
	rm -rf "$D"
	HITS=$(grep -A1 '^VIOLATION' "$OUT/batch$ID.log" | grep -o 'C[0-9][0-9]\.[0-9a-z]*|[^:]*' | sort -u | paste -sd';')
	ERRS=$(grep '^CHECKER-ERROR' "$OUT/batch$ID.log" | cut -c1-160 | paste -sd';')
	echo "batch$ID:$APPLIED => hits=[${HITS}] errors=[${ERRS}]"
}
/verif/run.sh --build
mapfile -t IDS < "$OUT/idents.txt"
i=0; b=0
while [ $i -lt ${#IDS[@]} ]; do
	run_batch $b "${IDS[@]:$i:$BATCH}" &
	i=$((i+BATCH)); b=$((b+1))
	while [ "$(jobs -r | wc -l)" -ge 5 ]; do sleep 2; done
done
wait

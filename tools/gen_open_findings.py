#!/usr/bin/env python3
"""Regenerates DESIGN.md section 14.2 (between <!-- BEGIN:OPENFINDINGS --> / <!-- END:OPENFINDINGS -->)
from notes/hunt/TRIAGE.md (the triage of the round-4 defect hunt against the tree of that time)
and the FIXED_SINCE table below (findings repaired after the triage, with their defect ids)."""
import re
FIXED_SINCE = {
 'C01/finding5':'D70','C02/finding1':'D70','C03/finding1':'D70', 'C01/finding4':'D70', 'C12/finding5':'D69', 'C04/finding10':'D68', 'C02/finding10':'D43','C04/finding4':'D44','C04/finding9':'D45','C11/finding2':'D46','C02/finding4':'D47','C09/finding7':'D47',
 'C02/finding6':'D48','C02/finding12':'D49','C02/finding5':'D50','C09/finding4':'D52','C17/finding2':'D53','C19/finding3':'D54',
 'C20/finding5':'D55','C09/finding3':'D56','C04/finding3':'D57','C03/finding3':'D58','C04/finding7':'D58','C01/finding6':'D59','C02/finding2':'D59',
 'C01/finding2':'D60','C06/finding2':'D64','C09/finding8':'D65','C20/finding1':'D67','C10/finding6':'D61','C10/finding4':'D62','C19/finding4':'D63','C02/finding3':'D60 (unary half; the client-streaming REST mapping still concatenates JSON documents)',
}
rows=[]
for line in open('/verif/notes/hunt/TRIAGE.md'):
    if not line.startswith('| C'): continue
    raw=line.strip()
    raw=raw[1:-1] if raw.endswith('|') else raw[1:]
    cells=[c.strip() for c in re.split(r'\s\|\s|\s\|$', raw)]
    rows.append(cells)
out=["| finding (`notes/hunt/`) | what the hunter showed on the real code | hunter's assessment (a = small safe fix, b = debatable / by design, c = needs redesign) |","|---|---|---|"]
nopen=nfixed=0
fixed_lines=[]
for c in rows:
    f,title,status=c[0],c[1],c[2]
    if 'no longer' in status:
        continue
    if f in FIXED_SINCE:
        nfixed+=1
        fixed_lines.append(f"{f} -> {FIXED_SINCE[f]}")
        continue
    nopen+=1
    assess=''
    for cell in reversed(c[3:]):
        if cell.strip():
            assess=cell.strip(); break
    assess=assess.replace('|','/').lstrip('/ ').strip()
    out.append(f"| {f} | {title[:170].replace('|','/')} | {assess[:300]} |")
text=(f"{nopen} findings of the hunt still reproduce on the current tree and were not repaired; {nfixed} were repaired after the triage "
      f"({'; '.join(fixed_lines)}).\n\n"+'\n'.join(out))
p='/verif/DESIGN.md'
s=open(p).read()
b,e='<!-- BEGIN:OPENFINDINGS -->','<!-- END:OPENFINDINGS -->'
s=s[:s.index(b)+len(b)]+'\n'+text+'\n'+s[s.index(e):]
open(p,'w').write(s)
print(nopen,'open',nfixed,'fixed since')

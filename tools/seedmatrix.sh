#!/bin/bash
# usage: seedmatrix.sh [seed-id ...]
# For every confirmed seeded change under /verif/seeded (or the ones named), and for the
# revert of every "fix:" commit of /repo, applies the change to a scratch copy of /repo,
# runs ALL registered properties once (vgcheck -property all) and prints which rule keys fire.
set -u
cd /verif
./run.sh --build
OUT=${MATRIX_OUT:-/tmp/seedmatrix}
mkdir -p "$OUT"
run_one() {
	ID=$1; PATCH=$2; REV=$3
	D=$(mktemp -d /tmp/vgm.XXXXXX)
	rsync -a --exclude .git /repo/ "$D/"
	if ! (cd "$D" && patch -s -p1 $REV < "$PATCH" >/dev/null 2>&1); then echo "$ID: PATCH-FAILED"; rm -rf "$D"; return; fi
	/verif/bin/vgcheck -repo "$D" -property all -known /verif/known_findings.json > "$OUT/$ID.log" 2>&1
	rm -rf "$D"
	HITS=$(grep -A1 '^VIOLATION' "$OUT/$ID.log" | grep -o 'C[0-9][0-9]\.[0-9a-z]*|[^:]*' | sort -u | paste -sd';')
	ERRS=$(grep -c '^CHECKER-ERROR' "$OUT/$ID.log")
	echo "$ID: hits=[${HITS}] checker_errors=$ERRS"
}
if [ $# -gt 0 ]; then
	for ID in "$@"; do run_one "$ID" "/verif/seeded/$ID/patch.diff" ""; done
	exit 0
fi
for dir in /verif/seeded/*/; do
	ID=$(basename "$dir")
	run_one "$ID" "$dir/patch.diff" "" &
	while [ "$(jobs -r | wc -l)" -ge 6 ]; do sleep 1; done
done
wait
for c in $(git -C /repo log --format=%h --grep='^fix:' ); do
	git -C /repo show "$c" > "$OUT/fix-$c.patch"
	run_one "revert-$c" "$OUT/fix-$c.patch" "-R" &
	while [ "$(jobs -r | wc -l)" -ge 6 ]; do sleep 1; done
done
wait

package vg

import (
	"fmt"
	"go/token"
	"go/types"
	"os"

	"golang.org/x/tools/go/ssa"
)

func init() {
	register(&PropertySpec{
		ID: "C16",
		Explanation: "Liveness over a real HTTP/2 connection is a runtime matter and is NOT decided. Decided are its structural preconditions: " +
			"(C16.1) after every complete message the per-message flush is called: in the re-encoding writer every path from the successful write of the message bytes to the return passes it; in the re-framing writer every path (enumerated path-sensitively) from a successfully processed envelope to a return either flushes, hands the trailer on, waits for more bytes of the same unit (the 'len(data) < remaining' edge) or is an error path - so a zero-length message cannot be left unflushed; " +
			"(C16.2) the per-message flush really flushes when nothing is held back, ending an RPC flushes, the flusher is obtained before dispatch and its absence aborts the RPC, and the flusher lookup prefers the writer's own Flush/FlushError over unwrapping; " +
			"(C16.3) headers are held back only for client protocols whose outcome must precede the body (exactly Connect unary GET/POST and REST declare endMustBeInHeaders), all other paths flush headers before the body adapter is installed; " +
			"(C16.4) the request-body adapters read the client body only in units they are about to hand out: the 5-byte envelope, a payload bounded by the decoded length, or the whole body when the client protocol has no envelopes - and an un-enveloped body yields exactly one message; " +
			"(C16.5) the handler-visible Flush() has no effect on buffering state. " +
			"Not decided: absence of deadlock end-to-end, HTTP/2 flow control, timing.",
		Run: runC16,
	})
}

func runC16(c *Ctx) {
	defer runC16CloseDoesNotRead(c)
	p := c.P
	defer runC16NextEnvelopeAfterFlush(c)
	defer runC16NoUpfrontReadUnlessNeeded(c)
	defer c.ImportRules("C11", "C11.13")
	rwT := types.NewPointer(p.MustNamed("responseWriter"))
	rwFlushMsg := p.MethodOf(rwT, "flushMessage")
	if rwFlushMsg == nil {
		fatalf("anchor=responseWriter.flushMessage not found")
	}
	callsTo := func(targets ...*ssa.Function) func(ssa.Instruction) bool {
		return func(in ssa.Instruction) bool {
			ci, ok := in.(ssa.CallInstruction)
			if !ok {
				return false
			}
			for _, cal := range p.CalleesAt(ci) {
				for _, t := range targets {
					if cal == t {
						return true
					}
				}
			}
			return false
		}
	}

	// the response is being held back whole (responseWriter.buf != nil): the per-message flush
	// is a no-op there by design, whether the test sits in the flush helper or at its call sites
	rwBufF := p.MustField("responseWriter", "buf")
	bufferingEdge := func(from *ssa.BasicBlock, succ int) bool {
		if len(from.Instrs) == 0 {
			return false
		}
		iff, ok := from.Instrs[len(from.Instrs)-1].(*ssa.If)
		if !ok {
			return false
		}
		b, ok := iff.Cond.(*ssa.BinOp)
		if !ok || !IsNilConst(b.Y) || LoadedField(b.X) != rwBufF {
			return false
		}
		return b.Op == token.NEQ && succ == 0 || b.Op == token.EQL && succ == 1
	}

	// ---------------------------------------------------------------- C16.1
	c.Rule("C16.1", "the per-message flush follows every complete message", 2)
	tw := types.NewPointer(p.MustNamed("transformingWriter"))
	twFlush := p.MethodOf(tw, "flushMessage")
	n := 0
	for _, call := range Calls(twFlush) {
		if !IsCallTo(call, "(*bytes.Buffer).WriteTo") {
			continue
		}
		n++
		// on the success edge of the write
		cv := call.(*ssa.Call)
		var errV ssa.Value
		for _, ref := range *cv.Referrers() {
			if ex, ok := ref.(*ssa.Extract); ok && ex.Index == 1 {
				errV = ex
			}
		}
		edgeOK := func(from *ssa.BasicBlock, succ int) bool {
			if iff, ok := from.Instrs[len(from.Instrs)-1].(*ssa.If); ok {
				if b, ok := iff.Cond.(*ssa.BinOp); ok && b.X == errV && IsNilConst(b.Y) {
					if b.Op == token.NEQ && succ == 0 || b.Op == token.EQL && succ == 1 {
						return false // error edge
					}
				}
			}
			return !bufferingEdge(from, succ)
		}
		okFlush, path := MustPassToExit(twFlush, call, callsTo(rwFlushMsg), IsReturn, edgeOK)
		c.Check(okFlush, "C16.1", FuncName(twFlush), "flush-after-message-written", call.Pos(),
			"every success path from writing the re-encoded message to the return passes the per-message flush",
			"a success path returns after writing a message without the per-message flush: the message stays in the connection buffer until later output ("+witnessString(p, path)+")")
	}
	if n == 0 {
		c.Bad("C16.1", FuncName(twFlush), "flush-after-message-written", twFlush.Pos(), "no write of the re-encoded message found: shape changed")
	}
	ew := types.NewPointer(p.MustNamed("envelopingWriter"))
	ewWrite := p.MethodOf(ew, "Write")
	ewEnv := p.MethodOf(ew, "handleEnvelopeWritten")
	ewTrailer := p.MethodOf(ew, "handleTrailer")
	remF := p.MustField("envelopingWriter", "remainingBytes")
	ewErrF := p.MustField("envelopingWriter", "err")
	if ewWrite == nil || ewEnv == nil || ewTrailer == nil {
		fatalf("anchor=envelopingWriter methods not found")
	}
	for _, call := range Calls(ewWrite) {
		if !callsTo(ewEnv)(call) {
			continue
		}
		c.CountSite()
		cv := call.(*ssa.Call)
		// start on the success edge
		var start *ssa.BasicBlock
		var from *ssa.BasicBlock
		for _, ref := range *cv.Referrers() {
			if b, ok := ref.(*ssa.BinOp); ok && IsNilConst(b.Y) {
				for _, r2 := range *b.Referrers() {
					if iff, ok := r2.(*ssa.If); ok {
						from = iff.Block()
						if b.Op == token.NEQ {
							start = from.Succs[1]
						} else {
							start = from.Succs[0]
						}
					}
				}
			}
		}
		if start == nil {
			c.Unknown("C16.1", FuncName(ewWrite), "after-envelope", call.Pos(), "the envelope handler's error is not tested in the recognised form")
			continue
		}
		isEnd := func(in ssa.Instruction) bool {
			if IsReturn(in) {
				return true
			}
			return callsTo(rwFlushMsg, ewTrailer, ewEnv)(in)
		}
		paths, ok := EnumPaths(start, from, isEnd, 0)
		if !ok {
			c.Unknown("C16.1", FuncName(ewWrite), "after-envelope", call.Pos(), "too many paths")
			continue
		}
		bad := 0
		var example string
		for _, cp := range paths {
			if !IsReturn(cp.End) {
				continue // reached a flush, the trailer handler or the next envelope
			}
			// acceptable returns: waiting for more bytes of this unit, or an error path
			waiting, errPath := false, false
			for cond, truth := range cp.Truth {
				b, ok := cond.(*ssa.BinOp)
				if !ok {
					continue
				}
				if IsNilConst(b.Y) && LoadedField(b.X) == rwBufF && (b.Op == token.NEQ) == truth {
					errPath = true // held-back response: nothing to flush yet, by design
				}
				if b.Op == token.LSS && truth && LoadedField(b.Y) == remF {
					if lc, ok := b.X.(*ssa.Call); ok && CalleeName(lc) == "builtin len" {
						waiting = true
					}
				}
				if b.Op == token.NEQ && truth && IsNilConst(b.Y) {
					if LoadedField(b.X) == ewErrF {
						errPath = true
					}
					if ex, ok := cp.ResolveAt(b.X, b.Block()).(*ssa.Extract); ok && ex.Index == 1 {
						errPath = true
					}
				}
			}
			if !waiting && !errPath {
				bad++
				if example == "" {
					example = p.Pos(instrPos(cp.End))
				}
			}
		}
		c.Check(bad == 0, "C16.1", FuncName(ewWrite), "after-envelope", call.Pos(),
			"after an envelope was processed every path flushes the completed message, hands on the trailer, waits for more bytes of the unit, or is an error path ("+itoa(len(paths))+" paths)",
			itoa(bad)+" path(s) return to the handler after an envelope was processed without flushing and without waiting for payload bytes (return at "+example+"): a zero-length message is left unflushed and a strictly alternating peer deadlocks")
	}

	// ---------------------------------------------------------------- C16.2
	c.Rule("C16.2", "the per-message flush reaches the real Flusher; ending flushes; the flusher is mandatory and found in the right order", 5)
	isRealFlush := func(in ssa.Instruction) bool {
		ci, ok := in.(ssa.CallInstruction)
		if !ok {
			return false
		}
		cc := ci.Common()
		return cc.IsInvoke() && N(cc.Method) == "Flush" && isNamed(cc.Value.Type(), "net/http", "Flusher")
	}
	{
		// on the buf == nil edge the real flush is on every path
		paths, ok := EnumPaths(rwFlushMsg.Blocks[0], nil, IsReturn, 0)
		good := ok
		nNil := 0
		for _, cp := range paths {
			held := false
			for cond, truth := range cp.Truth {
				if b, ok := cond.(*ssa.BinOp); ok && LoadedField(b.X) == rwBufF && IsNilConst(b.Y) {
					if b.Op == token.NEQ && truth || b.Op == token.EQL && !truth {
						held = true
					}
				}
			}
			if held {
				continue
			}
			nNil++
			flushed := false
			for _, b := range cp.Blocks {
				for _, in := range b.Instrs {
					if isRealFlush(in) {
						flushed = true
					}
				}
			}
			if !flushed {
				good = false
			}
		}
		c.Check(good && nNil > 0, "C16.2", FuncName(rwFlushMsg), "flushes-when-not-holding-back", rwFlushMsg.Pos(),
			"when no hold-back buffer exists the underlying http.Flusher is invoked on every path",
			"the per-message flush can return without invoking the underlying Flusher although nothing is being held back")
	}
	reportEnd := p.MethodOf(rwT, "reportEnd")
	flushHeaders := p.MethodOf(rwT, "flushHeaders")
	_, isEmitter, isEndEncode := endEmitters(p)
	ForEachInstr(reportEnd, func(in ssa.Instruction) {
		emits := isEndEncode(in) || callsTo(flushHeaders)(in)
		if ci, ok := in.(ssa.CallInstruction); ok && !emits {
			for _, cal := range p.CalleesAt(ci) {
				if isEmitter[cal] && cal != reportEnd {
					emits = true
				}
			}
		}
		if emits {
			okF, path := MustPassToExit(reportEnd, in, isRealFlush, IsReturn, nil)
			c.Check(okF, "C16.2", FuncName(reportEnd), "end-is-flushed", in.Pos(),
				"after the end of the RPC was written the underlying Flusher is invoked on every path", "the end of the RPC can be written without a flush: "+witnessString(p, path))
		}
	})
	handle := p.MustFunc("(*operation).handle")
	asFl := p.MustFunc("asFlusher")
	var flCall *ssa.Call
	for _, call := range Calls(handle) {
		if callsTo(asFl)(call) {
			flCall, _ = call.(*ssa.Call)
		}
	}
	if flCall == nil {
		c.Bad("C16.2", FuncName(handle), "flusher-obtained", handle.Pos(), "the flusher is not looked up before the handler is dispatched")
	} else {
		for _, call := range Calls(handle) {
			if !isHandlerDispatch(call) {
				continue
			}
			okNN := false
			for _, f := range FactsAt(call.Block()) {
				if cmp, ok := f.AsCmp(); ok && cmp.Op == token.NEQ && cmp.X == ssa.Value(flCall) && IsNilConst(cmp.Y) {
					okNN = true
				}
			}
			c.Check(okNN, "C16.2", FuncName(handle), "flusher-mandatory", call.Pos(),
				"the handler is dispatched only with a non-nil flusher", "the handler can be dispatched without a usable flusher (nothing would ever be flushed per message)")
		}
	}
	// lookup order in asFlusher: Flusher, then FlushError, then Unwrap
	{
		var order []string
		var asserts []*ssa.TypeAssert
		ForEachInstr(asFl, func(in ssa.Instruction) {
			if ta, ok := in.(*ssa.TypeAssert); ok && ta.CommaOk {
				asserts = append(asserts, ta)
			}
		})
		kind := func(ta *ssa.TypeAssert) string {
			it, ok := ta.AssertedType.Underlying().(*types.Interface)
			if !ok {
				return "?"
			}
			for i := 0; i < it.NumMethods(); i++ {
				switch N(it.Method(i)) {
				case "Flush":
					return "Flush"
				case "FlushError":
					return "FlushError"
				case "Unwrap":
					return "Unwrap"
				}
			}
			return "?"
		}
		good := len(asserts) == 3
		for i, ta := range asserts {
			order = append(order, kind(ta))
			if i > 0 && !asserts[i-1].Block().Dominates(ta.Block()) {
				good = false
			}
		}
		good = good && len(order) == 3 && order[0] == "Flush" && order[1] == "FlushError" && order[2] == "Unwrap"
		c.Check(good, "C16.2", FuncName(asFl), "lookup-order", asFl.Pos(),
			"the writer's own Flush, then FlushError, are preferred over Unwrap (as http.ResponseController does)",
			"the flusher lookup order is "+joinStr(order)+": a decorating writer that buffers and implements both Flush and Unwrap is bypassed, its bytes never become visible per message")
	}

	// ---------------------------------------------------------------- C16.3
	c.Rule("C16.3", "headers are held back only for end-must-be-in-headers client protocols", 4)
	emb := p.Iface("clientProtocolEndMustBeInHeaders")
	cph := p.Iface("clientProtocolHandler")
	if emb == nil || cph == nil {
		fatalf("anchor=clientProtocolEndMustBeInHeaders / clientProtocolHandler not found")
	}
	eph := p.Iface("envelopedProtocolHandler")
	for _, t := range p.Implementers(cph) {
		impl := types.Implements(t, emb) || types.Implements(types.NewPointer(t), emb)
		streaming := types.Implements(t, eph) || types.Implements(types.NewPointer(t), eph)
		if impl {
			m := p.MethodOf(t, "endMustBeInHeaders")
			allTrue := true
			ForEachInstr(m, func(in ssa.Instruction) {
				if ret, ok := in.(*ssa.Return); ok {
					if b, isC := ConstBool(ret.Results[0]); !isC || !b {
						allTrue = false
					}
				}
			})
			c.Check(!streaming && allTrue, "C16.3", typeName(t), "end-in-headers-only-for-unary-forms", m.Pos(),
				"declares endMustBeInHeaders (constant true) and is not an enveloped (streaming) protocol",
				"an enveloped/streaming client protocol declares endMustBeInHeaders, or a unary form returns a non-constant: streaming responses would be buffered to the end")
		} else {
			c.Check(streaming, "C16.3", typeName(t), "streaming-forms-do-not-hold-back", token.NoPos,
				"streaming client protocol does not implement endMustBeInHeaders", "a non-enveloped client protocol does not declare endMustBeInHeaders: its error outcome could not precede the body")
		}
	}
	writeHeader := p.MethodOf(rwT, "WriteHeader")
	wF := p.MustField("responseWriter", "w")
	ForEachInstr(writeHeader, func(in ssa.Instruction) {
		st, ok := in.(*ssa.Store)
		if !ok {
			return
		}
		fa, ok := st.Addr.(*ssa.FieldAddr)
		if !ok || FieldOfAddr(fa) != wF {
			return
		}
		// message-carrying adapters only
		isMsg := false
		for _, l := range Origins(st.Val) {
			if l.Kind == "alloc" {
				if n, ok := l.V.Type().(*types.Pointer).Elem().(*types.Named); ok && (N(n.Obj()) == "envelopingWriter" || N(n.Obj()) == "transformingWriter") {
					isMsg = true
				}
			}
		}
		if !isMsg {
			return
		}
		paths, ok := EnumPaths(writeHeader.Blocks[0], nil, func(x ssa.Instruction) bool { return x == in }, 0)
		if !ok {
			c.Unknown("C16.3", FuncName(writeHeader), "install-adapter", st.Pos(), "too many paths")
			return
		}
		good := len(paths) > 0
		for _, cp := range paths {
			flushed, held, heldUnderFlag := false, false, false
			for _, b := range cp.Blocks {
				for _, x := range b.Instrs {
					if callsTo(flushHeaders)(x) {
						flushed = true
					}
					if s2, ok := x.(*ssa.Store); ok {
						if fa2, ok := s2.Addr.(*ssa.FieldAddr); ok && FieldOfAddr(fa2) == rwBufF && !IsNilConst(s2.Val) {
							held = true
						}
					}
				}
			}
			for cond, truth := range cp.Truth {
				if !truth {
					continue
				}
				for _, l := range Origins(cond) {
					if l.Kind == "call" && l.Call.Common().IsInvoke() && N(l.Call.Common().Method) == "endMustBeInHeaders" {
						heldUnderFlag = true
					}
				}
			}
			if !(flushed && !held) && !(held && heldUnderFlag && !flushed) {
				good = false
			}
		}
		c.Check(good, "C16.3", FuncName(writeHeader), "install-adapter", st.Pos(),
			"every path that installs a message-carrying body adapter either flushed the headers, or holds the body back under endMustBeInHeaders()==true",
			"a path installs the body adapter with headers neither flushed nor legitimately held back (or holds back without the client protocol requiring it): a streaming client sees no headers/messages until the end")
	})

	// ---------------------------------------------------------------- C16.4
	c.Rule("C16.4", "reader adapters never read ahead of the message they hand out; an un-enveloped body is exactly one message", 4)
	ebT, _ := envTypes(p)
	clientEnvF := p.MustField("operation", "clientEnveloper")
	for _, ra := range readerAdapters(p) {
		rF := p.Field(N(ra.typ.Obj()), "r")
		if rF == nil {
			fatalf("anchor=%s.r (wrapped body) not found", N(ra.typ.Obj()))
		}
		for _, fn := range SortedFuncs(p.Reach(ra.read)) {
			if !p.inScope(fn) {
				continue
			}
			for _, call := range Calls(fn) {
				cc := call.Common()
				// uses of the wrapped body as a reader argument / receiver
				var bodyArgIdx = -1
				for i, a := range cc.Args {
					if f := LoadedField(a); f == rF {
						bodyArgIdx = i
					}
					if prm, ok := strip(a).(*ssa.Parameter); ok && N(prm) == "reader" && N(fn) == "readRequestMessage" {
						bodyArgIdx = i
					}
				}
				if cc.IsInvoke() && LoadedField(cc.Value) == rF && N(cc.Method) == "Read" {
					c.Bad("C16.4", FuncName(fn), "raw-body-read", call.Pos(), "the client body is read directly, outside the unit-bounded forms")
					continue
				}
				if bodyArgIdx < 0 {
					continue
				}
				name := CalleeName(call)
				if cals := p.CalleesAt(call); len(cals) > 0 && p.inScope(cals[0]) && !cc.IsInvoke() {
					continue // handed to a module function as its reader parameter: analysed there
				}
				switch name {
				case "io.ReadFull":
					dst, ok := cc.Args[1].(*ssa.Slice)
					okEnv := ok && sliceIsOverArray(dst, ebT)
					if ok && !okEnv && dst.High != nil {
						// a payload read sized by the decoded envelope length is also one unit
						for _, l := range Origins(dst.High) {
							if l.Kind == "call" && l.Call.Common().StaticCallee() != nil && N(l.Call.Common().StaticCallee()) == "processRequestEnvelope" {
								okEnv = true
							}
						}
					}
					c.Check(okEnv, "C16.4", FuncName(fn), "unit:envelope", call.Pos(),
						"reads exactly one unit (ReadFull into the 5-byte envelope array, or a slice sized by the decoded length)", "ReadFull on the client body with a destination that is neither the envelope array nor sized by the decoded envelope length")
				case "io.CopyN":
					bounded := false
					for _, l := range Origins(cc.Args[2]) {
						if l.Kind == "call" && (l.Call.Common().StaticCallee() != nil && N(l.Call.Common().StaticCallee()) == "processRequestEnvelope") {
							bounded = true
						}
					}
					c.Check(bounded, "C16.4", FuncName(fn), "unit:payload", call.Pos(),
						"reads exactly the decoded envelope's payload length", "CopyN on the client body with a count that is not the decoded envelope length")
				case "io.LimitReader":
					bounded := false
					for _, l := range Origins(cc.Args[1]) {
						if l.Kind == "call" || l.Kind == "load" {
							bounded = true
						}
					}
					c.Check(bounded, "C16.4", FuncName(fn), "unit:payload-limit", call.Pos(), "payload reader limited to the decoded length", "LimitReader on the client body without the decoded length")
				default:
					// whole-body forms: allowed only when the client has no envelopes
					okWhole := false
					for _, f := range FactsAt(call.Block()) {
						if cmp, ok := f.AsCmp(); ok && cmp.Op == token.EQL && IsNilConst(cmp.Y) && LoadedField(cmp.X) == clientEnvF {
							okWhole = true
						}
						// integer sentinel msgLen == -1 that is the phi input of the clientEnveloper == nil edge
						if cmp, ok := f.AsCmp(); ok && cmp.Op == token.EQL {
							if k, isK := ConstInt(cmp.Y); isK && k == -1 {
								if ph, ok := cmp.X.(*ssa.Phi); ok {
									for i, e := range ph.Edges {
										if kk, isKK := ConstInt(e); isKK && kk == -1 {
											for _, ff := range FactsOnEdge(ph.Block().Preds[i], ph.Block()) {
												if c2, ok := ff.AsCmp(); ok && c2.Op == token.EQL && IsNilConst(c2.Y) && LoadedField(c2.X) == clientEnvF {
													okWhole = true
												}
											}
										}
									}
								}
							}
						}
					}
					if name == "invoke io.ReadCloser.Close" || name == "invoke io.Closer.Close" {
						continue
					}
					c.Check(okWhole, "C16.4", FuncName(fn), "unit:whole-body:"+name, call.Pos(),
						"the whole body is consumed as one unit only when the client protocol has no envelopes", "the client body is handed to "+name+" without the 'client protocol has no envelopes' guard: messages beyond the one being handed out are read ahead")
				}
			}
		}
	}
	// the wrapped body installed as (part of) a message source: hardLimitReader{r: body} / current = body
	envLenF := p.MustField("envelope", "length")
	wholeGuard := func(b *ssa.BasicBlock) bool {
		for _, f := range p.FactsAtInter(b) { // also the facts at the single call site of an extracted helper (refactoring B21_r6)
			if cmp, ok := f.AsCmp(); ok && cmp.Op == token.EQL && IsNilConst(cmp.Y) && LoadedField(cmp.X) == clientEnvF {
				return true
			}
			if cmp, ok := f.AsCmp(); ok && cmp.Op == token.EQL {
				if k, isK := ConstInt(cmp.Y); isK && k == -1 {
					if ph, ok := cmp.X.(*ssa.Phi); ok {
						for i, e := range ph.Edges {
							if kk, isKK := ConstInt(e); isKK && kk == -1 {
								for _, ff := range FactsOnEdge(ph.Block().Preds[i], ph.Block()) {
									if c2, ok := ff.AsCmp(); ok && c2.Op == token.EQL && IsNilConst(c2.Y) && LoadedField(c2.X) == clientEnvF {
										return true
									}
								}
							}
						}
					}
				}
			}
		}
		return false
	}
	for _, ra := range readerAdapters(p) {
		rF := p.Field(N(ra.typ.Obj()), "r")
		for _, fn := range SortedFuncs(p.Reach(ra.read)) {
			if !p.inScope(fn) {
				continue
			}
			ForEachInstr(fn, func(in ssa.Instruction) {
				st, ok := in.(*ssa.Store)
				if !ok {
					return
				}
				isBody := LoadedField(st.Val) == rF
				if prm, ok := strip(st.Val).(*ssa.Parameter); ok && N(prm) == "reader" && N(fn) == "readRequestMessage" {
					isBody = true
				}
				if !isBody {
					return
				}
				// a reader built over the body together with a byte budget taken from the
				// decoded envelope's length hands out exactly one unit
				if fa, ok := st.Addr.(*ssa.FieldAddr); ok {
					if al, ok := fa.X.(*ssa.Alloc); ok {
						budget := false
						for _, ref := range *al.Referrers() {
							fa2, ok := ref.(*ssa.FieldAddr)
							if !ok || fa2 == fa || !isIntegerLike(FieldOfAddr(fa2).Type()) {
								continue
							}
							for _, r2 := range *fa2.Referrers() {
								st2, ok := r2.(*ssa.Store)
								if !ok || st2.Addr != ssa.Value(fa2) {
									continue
								}
								v := strip(st2.Val)
								if fv, ok := v.(*ssa.Field); ok && FieldOfVal(fv) == envLenF {
									budget = true
								}
								for _, l := range Origins(st2.Val) {
									if os.Getenv("VG_DEBUG") != "" {
										fmt.Fprintf(os.Stderr, "C16.4 budget origin: kind=%s v=%v field=%v\n", l.Kind, l.V, l.Field)
									}
									if fv, ok := l.V.(*ssa.Field); ok && FieldOfVal(fv) == envLenF {
										budget = true
									}
									if l.Kind == "load" && l.Field == envLenF {
										budget = true
									}
									if l.Kind == "call" && l.Call.Common().IsInvoke() && N(l.Call.Common().Method) == "decodeEnvelope" {
										budget = true // (a field of) the decoded envelope
									}
								}
							}
						}
						if budget {
							c.OK("C16.4", FuncName(fn), "unit:payload-budget", st.Pos(), "the body is wrapped in a reader whose byte budget is the decoded envelope length: one unit")
							return
						}
					}
				}
				c.Check(wholeGuard(st.Block()), "C16.4", FuncName(fn), "unit:whole-body-source", st.Pos(),
					"the client body as a whole becomes a message source only when the client protocol has no envelopes",
					"the whole client body is installed as a message source without the 'client protocol has no envelopes' guard: later messages are consumed ahead of time")
			})
		}
	}
	// un-enveloped body = exactly one message (envelopingReader.prepareNext)
	er := p.MustNamed("envelopingReader")
	prepNext := p.MethodOf(types.NewPointer(er), "prepareNext")
	curF := p.MustField("envelopingReader", "current")
	serverEnvF := p.MustField("operation", "serverEnveloper")
	ForEachInstr(prepNext, func(in ssa.Instruction) {
		st, ok := in.(*ssa.Store)
		if !ok {
			return
		}
		fa, ok := st.Addr.(*ssa.FieldAddr)
		if !ok || FieldOfAddr(fa) != curF {
			return
		}
		facts := FactsAt(st.Block())
		clientNil, serverNil, curNil := false, false, false
		for _, f := range facts {
			cmp, ok := f.AsCmp()
			if !ok || !IsNilConst(cmp.Y) {
				continue
			}
			switch LoadedField(cmp.X) {
			case clientEnvF:
				if cmp.Op == token.EQL {
					clientNil = true
				}
			case serverEnvF:
				if cmp.Op == token.EQL {
					serverNil = true
				}
			case curF:
				if cmp.Op == token.EQL {
					curNil = true
				}
			}
		}
		if !clientNil || serverNil {
			return // enveloped client (one store per envelope) or pure pass-through
		}
		c.Check(curNil, "C16.4", FuncName(prepNext), "single-message-body", st.Pos(),
			"for a client without envelopes the source is installed only while none was installed before (the body is exactly one message)",
			"for a client without envelopes a new message source can be installed although one was already handed out: after the body is exhausted empty messages are produced forever and the backend never sees end of stream")
	})

	// ---------------------------------------------------------------- C16.5
	c.Rule("C16.5", "the handler-visible Flush() does not change buffering state", 1)
	fl := p.MethodOf(rwT, "Flush")
	if fl == nil {
		fatalf("anchor=responseWriter.Flush not found")
	}
	effects := 0
	ForEachInstr(fl, func(in ssa.Instruction) {
		switch in.(type) {
		case *ssa.Store, *ssa.MapUpdate:
			effects++
		case ssa.CallInstruction:
			if !isRealFlush(in) {
				effects++
			}
		}
	})
	c.Check(effects == 0, "C16.5", FuncName(fl), "no-state-change", fl.Pos(),
		"Flush() stores nothing and calls nothing but (at most) the underlying Flusher", "the handler-visible Flush() changes response-writer state: handlers that flush and handlers that do not are forwarded differently")
}

// runC16NextEnvelopeAfterFlush: C16.6 (seed C16g).  The re-framing writer flushes after each
// complete message, and the flush sits on the path that completes a message's payload.  The state
// 'expecting the next envelope' (writingEnvelope = true) therefore means 'the previous message was
// flushed'.  A second way into that state - e.g. a shortcut for a zero-length message taken right
// after its envelope was processed - leaves the rewritten envelope unflushed in the HTTP/2 writer:
// in a strict ping-pong the client never sees the (empty) answer.  So outside the initialisation,
// every store of writingEnvelope = true is preceded, on every path from the function's entry, by
// the response writer's flushMessage.
func runC16NextEnvelopeAfterFlush(c *Ctx) {
	p := c.P
	c.Rule("C16.6", "the re-framing writer expects the next envelope only after the finished message was flushed", 1)
	ewT := types.NewPointer(p.MustNamed("envelopingWriter"))
	wenvF := p.MustField("envelopingWriter", "writingEnvelope")
	initF := p.MustField("envelopingWriter", "initialized")
	n := 0
	for _, fn := range readerFuncs(p, ewT) {
		// the initialisation (it sets the 'initialized' flag) starts in that state by definition
		isInit := len(StoresToField(fn, initF)) > 0
		if isInit {
			continue
		}
		for _, st := range StoresToField(fn, wenvF) {
			b, isK := ConstBool(st.Val)
			if !isK || !b {
				continue
			}
			n++
			bufF := p.MustField("responseWriter", "buf")
			isFlush := func(in ssa.Instruction) bool {
				// the decision 'held back (nothing to flush yet) or flush' made at the call site
				// instead of inside flushMessage (benign B8_r4): a test of the hold-back buffer
				if iff, isIf := in.(*ssa.If); isIf {
					if b, isB := iff.Cond.(*ssa.BinOp); isB && IsNilConst(b.Y) && LoadedField(b.X) == bufF {
						return true
					}
				}
				ci, ok := in.(ssa.CallInstruction)
				if !ok {
					return false
				}
				sc := ci.Common().StaticCallee()
				return sc != nil && N(sc) == "flushMessage"
			}
			found, path := PathQuery{Target: func(in ssa.Instruction) bool { return in == ssa.Instruction(st) }, Avoid: isFlush}.Search(fn, nil)
			c.Check(!found, "C16.6", FuncName(fn), "next-envelope-state-after-flush", st.Pos(),
				"every path to this return to the 'expecting an envelope' state flushed the finished message first",
				"the writer returns to the 'expecting the next envelope' state on a path that did not flush ("+witnessString(p, path)+"): a message completed on that path (a zero-length one, say) stays in the client connection's buffer until something else is written - a client that waits for it before sending its next message waits forever")
		}
	}
	if n == 0 {
		c.Bad("C16.6", "envelopingWriter", "next-envelope-state-after-flush", token.NoPos, "no transition back to the 'expecting an envelope' state found outside the initialisation: shape changed")
	}
}

// runC16NoUpfrontReadUnlessNeeded: C16.7 (seed C16i).  Normally the backend handler is invoked as
// soon as the request's head is validated, and request messages are transformed lazily as the
// handler reads them - that is what lets a handler speak first in a bidi stream.  The one
// exception is a target whose request LINE is built from the first message (REST, Connect GET):
// only then may the dispatcher read a message from the client's body before it invokes the
// handler.  So a read of the client's body in the dispatching function, ahead of the dispatch, is
// dominated by the true outcome of a condition that derives from nothing but the request-line
// builder's requiresMessageToProvideRequestLine.
func runC16NoUpfrontReadUnlessNeeded(c *Ctx) {
	p := c.P
	c.Rule("C16.7", "a request message is read ahead of the dispatch only when the target's request line needs it", 1)
	handle := p.MustFunc("(*operation).handle")
	rrm := p.MustFunc("(*operation).readRequestMessage")
	n := 0
	for _, call := range Calls(handle) {
		if call.Common().StaticCallee() != rrm {
			continue
		}
		n++
		ok := false
		for _, f := range FactsAt(call.Block()) {
			if !f.Truth {
				continue
			}
			ls := Origins(f.Cond)
			only := len(ls) > 0
			fromBuilder := false
			for _, l := range ls {
				switch {
				case l.Kind == "call" && l.Call.Common().IsInvoke() && N(l.Call.Common().Method) == "requiresMessageToProvideRequestLine":
					fromBuilder = true
				case l.Kind == "const":
				default:
					only = false
				}
			}
			if only && fromBuilder {
				ok = true
			}
		}
		c.Check(ok, "C16.7", FuncName(handle), "upfront-read-only-for-request-line", call.Pos(),
			"the read of the first request message ahead of the dispatch is guarded by the request-line builder's answer alone",
			"the dispatcher reads a request message from the client before it invokes the handler under a condition wider than 'the target's request line is built from the first message': for those requests the handler is no longer entered when the stream opens, and a handler that speaks first deadlocks against a client that waits for it")
	}
	if n == 0 {
		c.OK("C16.7", FuncName(handle), "upfront-read-only-for-request-line", handle.Pos(), "the dispatcher never reads the client's body itself")
	}
}

// runC16CloseDoesNotRead: C16.8 (seed C16k).  A handler may finish a stream first: it sends its
// last message, closes the request body and returns, and only then do the trailers / the
// end-of-stream frame reach the client - which is what makes a client that is still waiting stop
// sending.  So Close of a request-body adapter must return promptly: nothing reachable from it
// reads from the wrapped body (a "drain what the handler left unread, as net/http does" blocks
// until the client half-closes, which it will not do before it has seen the end of the stream).
func runC16CloseDoesNotRead(c *Ctx) {
	p := c.P
	c.Rule("C16.8", "Close of a request-body adapter never reads from the client's stream", 2)
	for _, ra := range readerAdapters(p) {
		pt := types.NewPointer(ra.typ)
		cl := p.MethodOf(pt, "Close")
		if cl == nil {
			continue
		}
		bad := ""
		// reachable from Close, not following the Close of the wrapped body itself (an interface
		// call that the call graph resolves to every Close in the package)
		reach := map[*ssa.Function]bool{cl: true}
		work := []*ssa.Function{cl}
		for len(work) > 0 {
			fn := work[0]
			work = work[1:]
			for _, call := range Calls(fn) {
				if call.Common().IsInvoke() && N(call.Common().Method) == "Close" {
					continue
				}
				for _, cal := range p.CalleesAt(call) {
					if p.inScope(cal) && !reach[cal] {
						reach[cal] = true
						work = append(work, cal)
					}
				}
			}
		}
		for _, fn := range SortedFuncs(reach) {
			if !p.inScope(fn) {
				continue
			}
			for _, call := range Calls(fn) {
				cc := call.Common()
				if cc.IsInvoke() && N(cc.Method) == "Read" && isNamed(cc.Value.Type(), "io", "Reader") || cc.IsInvoke() && N(cc.Method) == "Read" && isNamed(cc.Value.Type(), "io", "ReadCloser") {
					bad = p.Pos(call.Pos()) + " (Read)"
				}
				if IsCallTo(call, "io.Copy", "io.CopyN", "io.CopyBuffer", "io.ReadAll", "io.ReadFull", "io.ReadAtLeast", "(*bytes.Buffer).ReadFrom") {
					bad = p.Pos(call.Pos()) + " (" + CalleeName(call) + ")"
				}
			}
		}
		c.Check(bad == "", "C16.8", FuncName(cl), "close-does-not-read", cl.Pos(),
			"nothing reachable from Close reads from a stream",
			"Close of the request-body adapter reads from a stream at "+bad+": draining the client's stream blocks until the client half-closes; a handler that ends a bidi stream first (sends its last message, closes the body, returns) then never gets to deliver the end of the stream, and the client - which waits for it before half-closing - deadlocks with it")
	}
}

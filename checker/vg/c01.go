package vg

import (
	"go/token"
	"go/types"

	"golang.org/x/tools/go/ssa"
)

func init() {
	register(&PropertySpec{
		ID: "C01",
		Explanation: "The property as a whole - equality of message VALUES after decompress/decode/encode/compress over all payloads, codecs and per-frame flag choices - lives in protobuf/JSON/gzip value semantics and is NOT decided (deciding it needs the pipeline to be evaluated, concretely or symbolically: a different technique family; defect class D12 of DESIGN.md section 7 is out of reach). Decided are three structural clauses of 'same count, nothing dropped or prefixed': " +
			"(C01.1) in every request-body adapter's Read, on every path (enumerated path-sensitively, named results and boolean phis resolved along the path) an error that stems from the per-message source is returned only when it is known not to be io.EOF or when the returned byte count is known to be zero - end-of-message is never reported as end-of-stream together with data; " +
			"(C01.2) the bytes handed on come from message.sendBuffer() only after advanceToStage(stageSend) returned nil on that path, and the stage helpers (decompress/compress/decode/encode) are called from advanceToStage only; " +
			"(C01.3) message.reset leaves an empty buffer on every path (pool Get or Reset). " +
			"Envelope length = bytes delivered (C02.4/C03.3), buffers never shared (C14.1), envelope before payload (C08.1) and codec errors not swallowed (C09.4) are further necessary conditions checked under those ids.",
		Assumptions: []string{"io.Reader contract: a reader may return n>0 together with io.EOF", "(*bytes.Buffer).Read returns io.EOF only when empty"},
		Run:         runC01,
	})
}

// runC01EmptyUnenvelopedMessage: C01.7 (defect D59).  The body of a client whose protocol has no
// envelopes IS the one message of the request - also when it is empty (the all-defaults message).
// The message reader reports 'zero bytes' as io.EOF; where the re-encoding reader receives that
// for the first message, the only paths on which it may give up (store its error cell) are those
// that know the client is enveloped (for which EOF really is the end of the stream), that this is
// not the first message, or that the error is not io.EOF.  Giving up on any other path drops the
// client's message: the backend sees a request without any message.
func runC01EmptyUnenvelopedMessage(c *Ctx) {
	p := c.P
	c.Rule("C01.7", "an empty body from a client without envelopes is one (empty) message on the re-encoding path, not the end of the stream", 1)
	rrm := p.MustFunc("(*operation).readRequestMessage")
	cliEnvF := p.MustField("operation", "clientEnveloper")
	trT := types.NewPointer(p.MustNamed("transformingReader"))
	read := p.MethodOf(trT, "Read")
	errF := p.MustField("transformingReader", "err")
	firstF := p.MustField("transformingReader", "consumedFirst")
	if read == nil {
		fatalf("anchor=transformingReader.Read not found")
	}
	n := 0
	for _, fn := range readerFuncs(p, trT) {
		ei := errorResultIndex(fn.Signature)
		for _, call := range Calls(fn) {
			if call.Common().StaticCallee() != rrm {
				continue
			}
			n++
			isGiveUp := func(in ssa.Instruction) bool {
				if ret, ok := in.(*ssa.Return); ok && ei >= 0 {
					rv := ReturnValues(ret)
					return ei < len(rv) && !IsNilConst(rv[ei])
				}
				st, ok := in.(*ssa.Store)
				if !ok {
					return false
				}
				fa, ok := st.Addr.(*ssa.FieldAddr)
				return ok && FieldOfAddr(fa) == errF && !IsNilConst(st.Val)
			}
			isEnd := func(in ssa.Instruction) bool {
				if isGiveUp(in) || IsReturn(in) {
					return true
				}
				// the loop's next round / the success continuation: stop at the next call of the reader or of markReady
				if ci, ok := in.(ssa.CallInstruction); ok && in != ssa.Instruction(call) {
					if sc := ci.Common().StaticCallee(); sc != nil && (N(sc) == "markReady" || N(sc) == "prepareMessage") {
						return true
					}
				}
				return false
			}
			// start right after the call, within its block: enumerate from the block, ignoring instructions up to the call
			started := false
			endAfter := func(in ssa.Instruction) bool {
				if in == ssa.Instruction(call) {
					started = true
					return false
				}
				if in.Block() == call.Block() && !started {
					return false
				}
				return isEnd(in)
			}
			paths, ok := EnumPaths(call.Block(), nil, endAfter, 0)
			if !ok {
				c.Unknown("C01.7", FuncName(fn), "empty-body-is-a-message", call.Pos(), "too many paths")
				continue
			}
			bad := 0
			for _, cp := range paths {
				if !isGiveUp(cp.End) {
					continue
				}
				excused := false
				for cond, truth := range cp.Truth {
					// the error is nil?  then this is not the error edge at all
					if b, isB := cond.(*ssa.BinOp); isB && IsNilConst(b.Y) {
						if isErrorType(b.X.Type()) && (b.Op == token.NEQ && !truth || b.Op == token.EQL && truth) {
							excused = true
						}
						// knows the client is enveloped
						if LoadedField(b.X) == cliEnvF && (b.Op == token.EQL && !truth || b.Op == token.NEQ && truth) {
							excused = true
						}
					}
					if ic, isC := cond.(*ssa.Call); isC && IsCallTo(ic, "errors.Is") && !truth {
						excused = true // not io.EOF
					}
					if LoadedField(cond) == firstF && truth {
						excused = true // not the first message
					}
				}
				if !excused {
					bad++
				}
			}
			c.Check(bad == 0, "C01.7", FuncName(fn), "empty-body-is-a-message", call.Pos(),
				"the reader gives up after the message reader's error only on paths that know the client is enveloped, the message is not the first, or the error is not io.EOF",
				itoa(bad)+" path(s) store the reader's error cell after the message reader reported io.EOF for the first message without knowing that the client's protocol has envelopes: for a client without envelopes the (empty) body is the one message of the request, and it is dropped - the backend sees a request with no message at all")
		}
	}
	if n == 0 {
		c.Bad("C01.7", FuncName(read), "empty-body-is-a-message", read.Pos(), "no method of the re-encoding reader calls the message reader: shape changed")
	}
}

// runC01OneMessageTargets: C01.8 (defect D60).  A target whose protocol has no envelopes reads ONE
// body; unless the method is client-streaming (where the REST mapping deliberately concatenates
// chunks) that body is one message.  Both request readers strip the client's envelopes, so a
// second message from an enveloped client would be glued to the first (for protobuf,
// concatenation is a merge: the backend runs on a blend of both).  Hence: every path on which a
// reader goes on to deliver a message knows that this is the first one, or that the target has
// envelopes / the method takes a stream - by a direct test of serverEnveloper or through a
// boolean module function that reads it.
func runC01OneMessageTargets(c *Ctx) {
	p := c.P
	c.Rule("C01.8", "a request reader delivers a further message only where it knows the target can take more than one", 2)
	srvEnvF := p.MustField("operation", "serverEnveloper")
	readsSrvEnv := map[*ssa.Function]bool{}
	for _, fn := range p.Funcs {
		if !p.inScope(fn) || fn.Signature.Results().Len() != 1 || !isBoolType(fn.Signature.Results().At(0).Type()) {
			continue
		}
		ForEachInstr(fn, func(in ssa.Instruction) {
			if fa, ok := in.(*ssa.FieldAddr); ok && FieldOfAddr(fa) == srvEnvF {
				readsSrvEnv[fn] = true
			}
		})
	}
	knowsMany := func(cp CFGPath, firstKnown func(cond ssa.Value, truth bool) bool) bool {
		for cond, truth := range cp.Truth {
			if firstKnown(cond, truth) {
				return true
			}
			if b, ok := cond.(*ssa.BinOp); ok && IsNilConst(b.Y) && LoadedField(b.X) == srvEnvF {
				if b.Op == token.EQL && !truth || b.Op == token.NEQ && truth {
					return true
				}
			}
			if call, ok := cond.(*ssa.Call); ok && !truth {
				if sc := call.Call.StaticCallee(); sc != nil && readsSrvEnv[sc] {
					return true
				}
			}
		}
		return false
	}
	check := func(fn *ssa.Function, from ssa.Instruction, isDeliver func(ssa.Instruction) bool, firstKnown func(ssa.Value, bool) bool, construct string) {
		started := false
		isEnd := func(in ssa.Instruction) bool {
			if in == from {
				started = true
				return false
			}
			if in.Block() == from.Block() && !started {
				return false
			}
			return isDeliver(in) || IsReturn(in)
		}
		paths, ok := EnumPaths(from.Block(), nil, isEnd, 0)
		if !ok {
			c.Unknown("C01.8", FuncName(fn), construct, from.Pos(), "too many paths")
			return
		}
		bad, nDel := 0, 0
		for _, cp := range paths {
			if !isDeliver(cp.End) {
				continue
			}
			nDel++
			if !knowsMany(cp, firstKnown) {
				bad++
			}
		}
		c.Check(bad == 0 && nDel > 0, "C01.8", FuncName(fn), construct, from.Pos(),
			"every path from here to the delivery of the message knows it is the first, or that the target takes more than one",
			itoa(bad)+" path(s) go on to deliver this message without knowing that it is the first one or that the target can take more than one (serverEnveloper != nil / client-streaming): for a unary method towards a protocol without envelopes a second message is glued to the first in the one body the backend reads")
	}
	n := 0
	// (a) the re-encoding reader: from the message reader's call to prepareMessage
	rrm := p.MustFunc("(*operation).readRequestMessage")
	trT := types.NewPointer(p.MustNamed("transformingReader"))
	firstF := p.MustField("transformingReader", "consumedFirst")
	_ = rrm
	{
		callsRRM := map[*ssa.Function]bool{rrm: true}
		for _, fn := range readerFuncs(p, trT) {
			for _, call := range Calls(fn) {
				if call.Common().StaticCallee() == rrm {
					callsRRM[fn] = true
				}
			}
		}
		isPrep := func(in ssa.Instruction) bool {
			ci, ok := in.(ssa.CallInstruction)
			return ok && ci.Common().StaticCallee() != nil && N(ci.Common().StaticCallee()) == "prepareMessage"
		}
		for _, fn := range readerFuncs(p, trT) {
			delivers := false
			ForEachInstr(fn, func(in ssa.Instruction) {
				if isPrep(in) {
					delivers = true
				}
			})
			if !delivers {
				continue
			}
			for _, call := range Calls(fn) {
				sc := call.Common().StaticCallee()
				if sc == nil || !callsRRM[sc] || sc == fn {
					continue
				}
				if r, _ := MayReach(fn, call, isPrep); !r {
					continue
				}
				n++
				check(fn, call, isPrep, func(cond ssa.Value, truth bool) bool {
					if LoadedField(cond) == firstF && !truth {
						return true
					}
					// the error edge is not a delivery of a further message
					if b, ok := cond.(*ssa.BinOp); ok && IsNilConst(b.Y) && isErrorType(b.X.Type()) && (b.Op == token.NEQ && truth || b.Op == token.EQL && !truth) {
						return true
					}
					return false
				}, "further-message-needs-capable-target")
			}
		}
	}
	// (b) the re-framing reader: from the envelope decode to the installation of the payload source
	erT := types.NewPointer(p.MustNamed("envelopingReader"))
	curF := p.MustField("envelopingReader", "current")
	if pn := p.MethodOf(erT, "prepareNext"); pn != nil {
		for _, fn := range p.Family(pn) {
			for _, call := range Calls(fn) {
				cc := call.Common()
				if !cc.IsInvoke() || N(cc.Method) != "decodeEnvelope" {
					continue
				}
				n++
				check(fn, call, func(in ssa.Instruction) bool {
					st, ok := in.(*ssa.Store)
					if !ok {
						return false
					}
					fa, ok := st.Addr.(*ssa.FieldAddr)
					return ok && FieldOfAddr(fa) == curF && !IsNilConst(st.Val)
				}, func(cond ssa.Value, truth bool) bool {
					if b, ok := cond.(*ssa.BinOp); ok && IsNilConst(b.Y) && LoadedField(b.X) == curF {
						return b.Op == token.EQL && truth || b.Op == token.NEQ && !truth
					}
					return false
				}, "further-message-needs-capable-target")
			}
		}
	}
	if n < 2 {
		c.Bad("C01.8", "request readers", "further-message-needs-capable-target", token.NoPos, "fewer than two message acquisition sites found in the request readers ("+itoa(n)+"): shape changed")
	}
}

func runC01(c *Ctx) {
	defer runC01BinaryCodecKeepsUnknown(c)
	defer runC01DecodedCountUsed(c)
	// clause shared with C20: the message types a schema is decoded with are the schema's own
	defer c.ImportRules("C20", "C20.4")
	// clause shared with C09: envelope flag bits are decoded by the client's own protocol
	defer c.ImportRules("C09", "C09.3")
	defer runC01EmptyUnenvelopedMessage(c)
	defer runC01OneMessageTargets(c)
	p := c.P
	// clauses this property shares with others (see DESIGN.md section 6a)
	defer c.ImportRules("C08", "C08.1", "C08.3", "C08.4")
	defer c.ImportRules("C09", "C09.1", "C09.7")
	defer c.ImportRules("C10", "C10.1")
	defer c.ImportRules("C07", "C07.6")

	// ---------------------------------------------------------------- C01.1
	c.Rule("C01.1", "end-of-message of the per-message source is never returned as io.EOF together with data", 3)
	ras := readerAdapters(p)
	if len(ras) < 2 {
		fatalf("anchor=request-body adapters: found %d", len(ras))
	}
	for _, ra := range ras {
		fn := ra.read
		paths, ok := EnumPaths(fn.Blocks[0], nil, IsReturn, 20000)
		if !ok {
			c.Unknown("C01.1", FuncName(fn), "paths", fn.Pos(), "too many paths to enumerate")
			continue
		}
		type verdict struct {
			ok      bool
			n       int
			example string
		}
		perReturn := map[*ssa.Return]*verdict{}
		var order []*ssa.Return
		for _, cp := range paths {
			ret := cp.End.(*ssa.Return)
			if ret.Block() == fn.Recover || len(ret.Results) != 2 {
				continue
			}
			errV := cp.Deref(ret.Results[1])
			// does the error stem from a payload read?
			ex, isEx := errV.(*ssa.Extract)
			if !isEx {
				continue
			}
			call, isCall := ex.Tuple.(*ssa.Call)
			if !isCall || !ra.isPayloadRead(call) {
				continue
			}
			v := perReturn[ret]
			if v == nil {
				v = &verdict{ok: true}
				perReturn[ret] = v
				order = append(order, ret)
			}
			v.n++
			// (i) known not EOF
			notEOF := false
			for cond, truth := range cp.Truth {
				ic, ok := cond.(*ssa.Call)
				if !ok || !IsCallTo(ic, "errors.Is") || truth {
					continue
				}
				if cp.Deref(ic.Call.Args[0]) == errV {
					if g, ok := ic.Call.Args[1].(*ssa.UnOp); ok {
						if gl, ok := g.X.(*ssa.Global); ok && N(gl) == "EOF" {
							notEOF = true
						}
					}
				}
				_ = cond
			}
			// also: err compared with io.EOF directly
			for cond, truth := range cp.Truth {
				if b, ok := cond.(*ssa.BinOp); ok && (b.Op == token.NEQ && truth || b.Op == token.EQL && !truth) {
					if cp.Deref(b.X) == errV {
						if g, ok := b.Y.(*ssa.UnOp); ok {
							if gl, ok := g.X.(*ssa.Global); ok && N(gl) == "EOF" {
								notEOF = true
							}
						}
					}
				}
			}
			// (ii) count known zero
			countZero := false
			cnt := cp.Canon(ret.Results[0])
			if cnt == "0" {
				countZero = true
			}
			for cond, truth := range cp.Truth {
				b, ok := cond.(*ssa.BinOp)
				if !ok {
					continue
				}
				k, isK := ConstInt(b.Y)
				if !isK || k != 0 {
					continue
				}
				if cp.Canon(b.X) != cnt {
					continue
				}
				if b.Op == token.GTR && !truth || b.Op == token.EQL && truth || b.Op == token.NEQ && !truth || b.Op == token.LEQ && truth {
					countZero = true
				}
			}
			if !notEOF && !countZero {
				v.ok = false
				if v.example == "" {
					v.example = "returned count " + cnt + " is not known to be zero and the error is not known to differ from io.EOF"
				}
			}
		}
		if len(order) == 0 {
			c.Trivial("C01.1", FuncName(fn), "no-inner-error-returned", fn.Pos(), "no return passes on an error of the per-message source")
		}
		for _, ret := range order {
			v := perReturn[ret]
			c.Check(v.ok, "C01.1", FuncName(fn), "inner-error-return", ret.Pos(),
				"on all "+itoa(v.n)+" path(s) the per-message source's error is returned only if it is not io.EOF or no bytes are returned with it",
				"a path returns the per-message source's error where it may be io.EOF while bytes (envelope and/or payload) are returned with it: "+v.example+" - an empty or exactly-consumed message ends the stream for the backend and later messages are dropped")
		}
	}

	// ---------------------------------------------------------------- C01.2
	c.Rule("C01.2", "the send buffer is used only after a successful advance to the send stage; stage helpers are private to advanceToStage", 6)
	msgT := types.NewPointer(p.MustNamed("message"))
	adv := p.MethodOf(msgT, "advanceToStage")
	sendBuf := p.MethodOf(msgT, "sendBuffer")
	if adv == nil || sendBuf == nil {
		fatalf("anchor=message.advanceToStage/sendBuffer not found")
	}
	stageSend, _ := p.Lookup("stageSend").(*types.Const)
	if stageSend == nil {
		fatalf("anchor=stageSend constant not found")
	}
	for _, e := range p.Callers(sendBuf) {
		fn := e.Caller
		c.CountSite()
		// must-pass: a call advanceToStage(_, stageSend) whose error was tested nil dominates this call
		good := false
		for _, f := range FactsAt(e.Site.Block()) {
			cmp, ok := f.AsCmp()
			if !ok || cmp.Op != token.EQL || !IsNilConst(cmp.Y) {
				continue
			}
			call, ok := cmp.X.(*ssa.Call)
			if !ok {
				continue
			}
			for _, cal := range p.CalleesAt(call) {
				if cal == adv {
					if k, isK := ConstInt(call.Call.Args[2]); isK && itoa(int(k)) == stageSend.Val().ExactString() {
						good = true
					}
				}
			}
		}
		c.Check(good, "C01.2", FuncName(fn), "send-after-advance", e.Site.Pos(),
			"sendBuffer() is dominated by advanceToStage(stageSend) == nil", "the send buffer is taken without a dominating successful advanceToStage(stageSend): bytes of an earlier stage (still compressed / not re-encoded) can be sent")
	}
	for _, name := range []string{"decompress", "compress", "decode", "encode"} {
		h := p.MethodOf(msgT, name)
		if h == nil {
			fatalf("anchor=message.%s not found", name)
		}
		var outside []string
		for _, e := range p.Callers(h) {
			if !p.OnlyCalledWithin(e.Caller, adv) {
				outside = append(outside, FuncName(e.Caller))
			}
		}
		c.Check(len(outside) == 0 && len(p.Callers(h)) > 0, "C01.2", "message."+name, "called-only-by-advanceToStage", h.Pos(),
			"the stage helper is called from advanceToStage only (buffer and stage stay in sync)", "the stage helper is also called from "+joinStr(outside)+": the message's buffer can get out of sync with its stage")
	}
	// advanceToStage stores the new stage on every success path that did work
	stageF := p.MustField("message", "stage")
	{
		paths, ok := EnumPaths(adv.Blocks[0], nil, IsReturn, 0)
		if !ok {
			c.Unknown("C01.2", FuncName(adv), "paths", adv.Pos(), "too many paths")
		}
		bad := 0
		for _, cp := range paths {
			ret := cp.End.(*ssa.Return)
			if !IsNilConst(cp.Deref(ret.Results[0])) {
				continue
			}
			// success: either stage already equals target (fact newStage == m.stage), a recursive call, or a store to stage on the path
			stored, same, rec := false, false, false
			for _, b := range cp.Blocks {
				for _, in := range b.Instrs {
					if st, ok := in.(*ssa.Store); ok {
						if fa, ok := st.Addr.(*ssa.FieldAddr); ok && FieldOfAddr(fa) == stageF {
							if _, isParam := st.Val.(*ssa.Parameter); isParam {
								stored = true
							}
						}
					}
				}
			}
			for cond, truth := range cp.Truth {
				if b, ok := cond.(*ssa.BinOp); ok && b.Op == token.EQL && truth {
					if _, isParam := b.X.(*ssa.Parameter); isParam && LoadedField(b.Y) == stageF {
						same = true
					}
				}
			}
			if call, ok := cp.Deref(ret.Results[0]).(*ssa.Call); ok {
				_ = call
				rec = true
			}
			if !stored && !same && !rec {
				bad++
			}
		}
		c.Check(bad == 0, "C01.2", FuncName(adv), "success-sets-stage", adv.Pos(),
			"every nil return either found the message already at the target stage or stored the target stage",
			itoa(bad)+" success path(s) return nil without recording the new stage")
	}

	// ---------------------------------------------------------------- C01.4
	c.Rule("C01.4", "the pipeline's decision table: work is skipped only when nothing has to change, and every needed stage helper is on the path", 4)
	sameCodecF := p.MustField("message", "sameCodec")
	sameComprF := p.MustField("message", "sameCompression")
	wasComprF := p.MustField("message", "wasCompressed")
	helper := map[string]*ssa.Function{}
	for _, n := range []string{"decompress", "compress", "decode", "encode"} {
		helper[n] = p.MethodOf(msgT, n)
	}
	{
		// the decision function, and the continuation(s) it tail-calls when it was split in two
		decision := []*ssa.Function{adv}
		isDecision := map[*ssa.Function]bool{adv: true}
		for i := 0; i < len(decision) && i < 4; i++ {
			ForEachInstr(decision[i], func(in ssa.Instruction) {
				ret, ok := in.(*ssa.Return)
				if !ok || len(ret.Results) != 1 {
					return
				}
				call, ok := ret.Results[0].(*ssa.Call)
				if !ok {
					return
				}
				cal := call.Call.StaticCallee()
				if cal == nil || isDecision[cal] || !p.OnlyCalledWithin(cal, adv) || len(cal.Blocks) == 0 {
					return
				}
				// a genuine tail call: the result is returned and not looked at (a call whose
				// error is tested before it is returned is a mid-flight helper, inlined below)
				for _, ref := range *call.Referrers() {
					switch ref.(type) {
					case *ssa.Return, *ssa.DebugRef:
					default:
						return
					}
				}
				for _, h := range helper {
					if h == cal {
						return
					}
				}
				isDecision[cal] = true
				decision = append(decision, cal)
			})
		}
		var paths []CFGPath
		for _, df := range decision {
			ps, ok := EnumPaths(df.Blocks[0], nil, IsReturn, 0)
			if !ok {
				c.Unknown("C01.4", FuncName(df), "paths", df.Pos(), "too many paths")
			}
			for _, cp := range ps {
				// a tail call into a continuation is judged there
				if call, isCall := cp.End.(*ssa.Return).Results[0].(*ssa.Call); isCall {
					if cal := call.Call.StaticCallee(); cal != nil && isDecision[cal] && cal != adv {
						continue
					}
				}
				paths = append(paths, cp)
			}
		}
		type verdict struct {
			bad int
			why string
		}
		res := map[string]*verdict{"skip-only-when-nothing-changes": {}, "decompress-before-decode": {}, "encode-when-codec-differs": {}, "recompress-when-compressed": {}, "compress-when-peer-cannot-be-told": {}}
		// (defect D70) the message-level flag 'the outgoing leg has no envelope to say "this one is
		// not compressed" while its headers declare a compression'; absent on trees without the repair
		alwaysF := p.Field("message", "compressAlways")
		counted := 0
		// one success path may expand into several variants when it calls a helper of the
		// decision function in mid-flight (a case body moved into its own method): each
		// success path of the helper is inlined
		type variant struct {
			seq               []string
			truth             map[*types.Var]bool
			recursive, stored bool
		}
		flags := []*types.Var{sameCodecF, wasComprF, sameComprF}
		if alwaysF != nil {
			flags = append(flags, alwaysF)
		}
		truthOf := func(cp CFGPath) map[*types.Var]bool {
			out := map[*types.Var]bool{}
			for cond, truth := range cp.Truth {
				for _, f := range flags {
					if LoadedField(cond) == f {
						out[f] = truth
					}
				}
			}
			return out
		}
		isHelper := func(fn *ssa.Function) bool {
			for _, h := range helper {
				if h == fn {
					return true
				}
			}
			return false
		}
		var variantsOf func(cp CFGPath, depth int) []variant
		var successVariants func(fn *ssa.Function, depth int) []variant
		successVariants = func(fn *ssa.Function, depth int) []variant {
			ps, ok := EnumPaths(fn.Blocks[0], nil, IsReturn, 0)
			if !ok {
				c.Unknown("C01.4", FuncName(fn), "paths", fn.Pos(), "too many paths")
				return nil
			}
			ei := errorResultIndex(fn.Signature)
			var out []variant
			for _, cp := range ps {
				rv := ReturnValues(cp.End.(*ssa.Return))
				if ei < 0 || ei >= len(rv) || !IsNilConst(cp.Deref(rv[ei])) || !cp.FieldConsistent() {
					continue
				}
				out = append(out, variantsOf(cp, depth)...)
			}
			return out
		}
		variantsOf = func(cp CFGPath, depth int) []variant {
			vs := []variant{{truth: truthOf(cp)}}
			for _, b := range cp.Blocks {
				for _, in := range b.Instrs {
					if ci, ok := in.(ssa.CallInstruction); ok {
						for _, cal := range p.CalleesAt(ci) {
							for n, h := range helper {
								if cal == h {
									for i := range vs {
										vs[i].seq = append(append([]string{}, vs[i].seq...), n)
									}
								}
							}
							if cal == adv {
								for i := range vs {
									vs[i].recursive = true
								}
							}
							// a mid-flight helper of the decision function
							if depth < 2 && cal != adv && !isDecision[cal] && !isHelper(cal) && len(cal.Blocks) > 0 && p.inScope(cal) &&
								cal.Signature.Recv() != nil && isPtrTo(cal.Signature.Recv().Type(), RootPath, "message") && p.OnlyCalledWithin(cal, adv) && errorResultIndex(cal.Signature) >= 0 {
								hv := successVariants(cal, depth+1)
								var next []variant
								for _, v := range vs {
									for _, h := range hv {
										conflict := false
										merged := map[*types.Var]bool{}
										for k, t := range v.truth {
											merged[k] = t
										}
										for k, t := range h.truth {
											if old, seen := merged[k]; seen && old != t {
												conflict = true
											}
											merged[k] = t
										}
										if conflict {
											continue
										}
										next = append(next, variant{seq: append(append([]string{}, v.seq...), h.seq...), truth: merged, recursive: v.recursive || h.recursive, stored: v.stored || h.stored})
									}
								}
								vs = next
							}
						}
					}
					if st, ok := in.(*ssa.Store); ok {
						if fa, ok := st.Addr.(*ssa.FieldAddr); ok && FieldOfAddr(fa) == stageF {
							for i := range vs {
								vs[i].stored = true
							}
						}
					}
				}
			}
			return vs
		}
		var all []variant
		for _, cp := range paths {
			ret := cp.End.(*ssa.Return)
			if !IsNilConst(cp.Deref(ret.Results[0])) {
				continue
			}
			if !cp.FieldConsistent() {
				continue // infeasible: repeated loads of the same flag / stage disagree
			}
			all = append(all, variantsOf(cp, 0)...)
		}
		for _, v := range all {
			seq, recursive, storedStage := v.seq, v.recursive, v.stored
			tv := func(f *types.Var) (val, known bool) {
				t, ok := v.truth[f]
				return t, ok
			}
			has := func(n string) bool {
				for _, x := range seq {
					if x == n {
						return true
					}
				}
				return false
			}
			counted++
			sc, scK := tv(sameCodecF)
			wc, wcK := tv(wasComprF)
			sm, smK := tv(sameComprF)
			if storedStage && !recursive && len(seq) == 0 {
				// work skipped
				okSkip := scK && sc && (wcK && !wc || smK && sm)
				if !okSkip {
					res["skip-only-when-nothing-changes"].bad++
				}
			}
			if has("decode") && wcK && wc {
				okOrder := false
				for i, x := range seq {
					if x == "decompress" {
						for _, y := range seq[i+1:] {
							if y == "decode" {
								okOrder = true
							}
						}
					}
				}
				if !okOrder {
					res["decompress-before-decode"].bad++
				}
			}
			if !recursive && storedStage && len(seq) > 0 && !has("decode") && !has("decompress") {
				// the decoded -> send leg
				if scK && !sc && !has("encode") {
					res["encode-when-codec-differs"].bad++
				}
				if wcK && wc && !has("compress") {
					res["recompress-when-compressed"].bad++
				}
			}
			if !recursive && storedStage && !has("decode") && wcK && !wc {
				// a leg that ends at the send stage with a message that arrived uncompressed: leaving
				// it uncompressed is right only where the peer can be told (an envelope flag), i.e.
				// on paths that know the compress-always flag is false; and it is never decompressed
				ca, caK := false, false
				if alwaysF != nil {
					ca, caK = tv(alwaysF)
				}
				if (!has("compress") && !(caK && !ca)) || has("decompress") {
					res["compress-when-peer-cannot-be-told"].bad++
				}
			}
			if !recursive && storedStage && has("decompress") && !has("decode") && !has("compress") {
				// read -> send with same codec: decompress must be followed by compress
				res["recompress-when-compressed"].bad++
			}
		}
		for _, k := range []string{"skip-only-when-nothing-changes", "decompress-before-decode", "encode-when-codec-differs", "recompress-when-compressed", "compress-when-peer-cannot-be-told"} {
			text := map[string][2]string{
				"skip-only-when-nothing-changes":    {"the stage is advanced without any work only on paths with sameCodec true and (wasCompressed false or sameCompression true)", "a path advances the message to the send stage without decoding/re-encoding or re-compressing although codec or compression differ: bytes in the source encoding are sent under the target's content-type"},
				"decompress-before-decode":          {"a compressed message is decompressed before it is decoded", "a path decodes a message that was compressed without decompressing it first"},
				"encode-when-codec-differs":         {"when the codecs differ the decoded message is re-encoded before it is sent", "a path sends without re-encoding although the codecs differ"},
				"compress-when-peer-cannot-be-told": {"a message that arrived uncompressed goes out uncompressed only on paths that know the outgoing leg can say so (the compress-always flag is false), and is never decompressed", "a message that arrived with its compressed flag unset is sent on as it is (or run through the decompressor) on a path that does not know whether the outgoing leg has an envelope flag to say so: to a peer without envelopes (Connect unary, REST) it goes out uncompressed under a Content-Encoding that declares a compression"},
				"recompress-when-compressed":        {"a message that arrived compressed is re-compressed for the outgoing leg (the envelope flag says so)", "a path leaves a message that arrived compressed uncompressed (or only decompresses it) while its envelope flag / declared encoding says compressed"},
			}[k]
			c.Check(res[k].bad == 0 && counted > 0, "C01.4", FuncName(adv), k, adv.Pos(), text[0]+" ("+itoa(counted)+" success paths)", itoa(res[k].bad)+" path(s): "+text[1])
		}
	}

	// ---------------------------------------------------------------- C01.5
	c.Rule("C01.5", "each stage helper uses the source side's codec/compression to read and the destination side's to write", 4)
	isReqF := p.MustField("message", "isRequest")
	type sideSel struct {
		got          string
		isReq, known bool
	}
	// sidesOf: the (side.field, direction) pairs a value selected by direction can take.  The
	// selection may be a phi in the function itself or the result of a helper that selects.
	var sidesOf func(v ssa.Value, depth int) ([]sideSel, bool)
	sidesOf = func(v ssa.Value, depth int) ([]sideSel, bool) {
		if depth > 3 {
			return nil, false
		}
		describe := func(e ssa.Value, facts []Fact) (sideSel, bool) {
			f := LoadedField(e)
			side := ""
			if PathOfHasSide(e, "client") {
				side = "client"
			} else if PathOfHasSide(e, "server") {
				side = "server"
			}
			if f == nil || side == "" {
				return sideSel{}, false
			}
			ss := sideSel{got: side + "." + N(f)}
			for _, fct := range facts {
				if LoadedField(fct.Cond) == isReqF {
					ss.isReq, ss.known = fct.Truth, true
				}
			}
			return ss, true
		}
		switch x := v.(type) {
		case *ssa.Phi:
			var out []sideSel
			for i, e := range x.Edges {
				if sub, isSel := e.(*ssa.Phi); isSel {
					ss, ok := sidesOf(sub, depth+1)
					if !ok {
						return nil, false
					}
					out = append(out, ss...)
					continue
				}
				ss, ok := describe(e, FactsOnEdge(x.Block().Preds[i], x.Block()))
				if !ok {
					return nil, false
				}
				out = append(out, ss)
			}
			return out, len(out) > 0
		case *ssa.Call:
			cal := x.Call.StaticCallee()
			if cal == nil || !p.inScope(cal) || len(cal.Blocks) == 0 {
				return nil, false
			}
			var out []sideSel
			okAll := true
			ForEachInstr(cal, func(in ssa.Instruction) {
				ret, isRet := in.(*ssa.Return)
				if !isRet || ret.Block() == cal.Recover || !okAll {
					return
				}
				rv := ReturnValues(ret)
				if len(rv) != 1 {
					okAll = false
					return
				}
				if _, isPhi := rv[0].(*ssa.Phi); isPhi {
					ss, ok := sidesOf(rv[0], depth+1)
					if !ok {
						okAll = false
						return
					}
					out = append(out, ss...)
					return
				}
				ss, ok := describe(rv[0], FactsAt(ret.Block()))
				if !ok {
					okAll = false
					return
				}
				out = append(out, ss)
			})
			return out, okAll && len(out) > 0
		case *ssa.Parameter:
			// the selection was made by the callers and handed in (refactoring B21_r4): every
			// call site must be static and is judged like a selection made here
			fnp := x.Parent()
			idx := -1
			for i, q := range fnp.Params {
				if q == x {
					idx = i
				}
			}
			edges := p.Callers(fnp)
			if idx < 0 || len(edges) == 0 {
				return nil, false
			}
			var out []sideSel
			for _, e := range edges {
				if e.Kind != "static" || e.Site == nil || idx >= len(e.Site.Common().Args) {
					return nil, false
				}
				ss, ok := sidesOf(e.Site.Common().Args[idx], depth+1)
				if !ok {
					return nil, false
				}
				out = append(out, ss...)
			}
			return out, len(out) > 0
		}
		return nil, false
	}
	judge := func(sels []sideSel, onRequest, onResponse []string) (bool, []string) {
		good := len(sels) >= 2
		var seen []string
		haveReq, haveResp := false, false
		in := func(s string, set []string) bool {
			for _, x := range set {
				if x == s {
					return true
				}
			}
			return false
		}
		for _, ss := range sels {
			seen = append(seen, ss.got)
			if !ss.known || ss.isReq && !in(ss.got, onRequest) || !ss.isReq && !in(ss.got, onResponse) {
				good = false
			}
			if ss.known && ss.isReq {
				haveReq = true
			}
			if ss.known && !ss.isReq {
				haveResp = true
			}
		}
		return good && haveReq && haveResp, seen
	}
	type want struct {
		helper, method        string
		onRequest, onResponse []string
	}
	for _, w := range []want{
		{"decode", "Unmarshal", []string{"client.codec"}, []string{"server.codec"}},
		{"encode", "MarshalAppend", []string{"server.codec"}, []string{"client.codec"}},
	} {
		fn := helper[w.helper]
		n := 0
		for _, call := range Calls(fn) {
			cc := call.Common()
			if !cc.IsInvoke() || N(cc.Method) != w.method {
				continue
			}
			n++
			sels, ok := sidesOf(cc.Value, 0)
			good, seen := judge(sels, w.onRequest, w.onResponse)
			c.Check(ok && good, "C01.5", FuncName(fn), "codec-side:"+w.method, call.Pos(),
				w.helper+" uses "+joinStr(w.onRequest)+" for requests and "+joinStr(w.onResponse)+" for responses",
				w.helper+" does not pick the codec by direction as (request: "+joinStr(w.onRequest)+", response: "+joinStr(w.onResponse)+"); found "+joinStr(seen)+": messages are parsed or produced with the other leg's codec")
		}
		if n == 0 {
			c.Bad("C01.5", FuncName(fn), "codec-side:"+w.method, fn.Pos(), "no "+w.method+" call through a codec found: shape changed")
		}
	}
	// The response compression is not renegotiated: both sides' respCompression cells are stored
	// together from the same value (checked here), so either names the response's compression.
	respBoth := []string{"client.respCompression", "server.respCompression"}
	{
		rcF := p.MustField("clientProtocolDetails", "respCompression")
		rsF := p.MustField("serverProtocolDetails", "respCompression")
		okTogether, nStores := true, 0
		for _, fn := range p.Funcs {
			var cvals, svals []ssa.Value
			for _, st := range StoresToField(fn, rcF) {
				cvals = append(cvals, st.Val)
			}
			for _, st := range StoresToField(fn, rsF) {
				svals = append(svals, st.Val)
			}
			if len(cvals)+len(svals) == 0 {
				continue
			}
			nStores++
			if len(cvals) != 1 || len(svals) != 1 || cvals[0] != svals[0] {
				okTogether = false
			}
		}
		if !okTogether || nStores == 0 {
			// the two cells can differ: each helper must then use the side its direction reads from / writes to
			respBoth = nil
		}
	}
	for _, w := range []want{
		{"decompress", "decompressLimited", []string{"client.reqCompression"}, []string{"server.respCompression"}},
		{"compress", "compress", []string{"server.reqCompression"}, []string{"client.respCompression"}},
	} {
		if respBoth != nil {
			w.onResponse = respBoth
		}
		fn := helper[w.helper]
		n := 0
		for _, call := range Calls(fn) {
			sc := call.Common().StaticCallee()
			if sc == nil || sc.Signature.Recv() == nil || !isPtrTo(sc.Signature.Recv().Type(), RootPath, "compressionPool") || len(call.Common().Args) == 0 {
				continue
			}
			if N(sc) == "Name" {
				continue
			}
			n++
			sels, ok := sidesOf(call.Common().Args[0], 0)
			good, seen := judge(sels, w.onRequest, w.onResponse)
			c.Check(ok && good, "C01.5", FuncName(fn), "compression-side", call.Pos(),
				w.helper+" uses "+joinStr(w.onRequest)+" for requests and "+joinStr(w.onResponse)+" for responses",
				w.helper+" does not select the compression pool by direction as (request: "+joinStr(w.onRequest)+", response: "+joinStr(w.onResponse)+"); found "+joinStr(seen))
		}
		if n == 0 {
			c.Bad("C01.5", FuncName(fn), "compression-side", fn.Pos(), "no call through a compression pool found: shape changed")
		}
	}

	// ---------------------------------------------------------------- C01.6
	// A message declared compressed must be a stream of that compression, also when it is empty
	// (a zero-length payload under 'compressed' is not a valid gzip/zstd stream): the compress
	// helper may succeed without calling the pool only when there is no pool.
	c.Rule("C01.6", "the compress stage helper succeeds without compressing only when no compression is configured", 1)
	{
		fn := helper["compress"]
		paths, ok := EnumPaths(fn.Blocks[0], nil, IsReturn, 0)
		if !ok {
			c.Unknown("C01.6", FuncName(fn), "paths", fn.Pos(), "too many paths")
		}
		bad, nOK := 0, 0
		for _, cp := range paths {
			ret := cp.End.(*ssa.Return)
			if !IsNilConst(cp.Deref(ret.Results[0])) {
				continue
			}
			nOK++
			compressed, noPool := false, false
			for _, b := range cp.Blocks {
				for _, in := range b.Instrs {
					if ci, isC := in.(ssa.CallInstruction); isC {
						if sc := ci.Common().StaticCallee(); sc != nil && sc.Signature.Recv() != nil && isPtrTo(sc.Signature.Recv().Type(), RootPath, "compressionPool") && N(sc) != "Name" {
							compressed = true
						}
					}
				}
			}
			for cond, truth := range cp.Truth {
				if b, isB := cond.(*ssa.BinOp); isB && isPtrTo(b.X.Type(), RootPath, "compressionPool") && IsNilConst(b.Y) {
					if b.Op == token.EQL && truth || b.Op == token.NEQ && !truth {
						noPool = true
					}
				}
			}
			if !compressed && !noPool {
				bad++
			}
		}
		c.Check(bad == 0 && nOK > 0, "C01.6", FuncName(fn), "no-op-only-without-pool", fn.Pos(),
			"every successful return either compressed the buffer or knows that no compression is configured ("+itoa(nOK)+" success paths)",
			itoa(bad)+" success path(s) skip the compression although a compression is configured: the message is sent uncompressed (or empty) under an envelope flag / Content-Encoding that says compressed")
	}

	// ---------------------------------------------------------------- C01.9
	// (seeds C09h, C01h) The other stage helpers and the built-in codecs do their work on every
	// successful path.  `decode` succeeds only through the codec's Unmarshal or a body preparer,
	// `encode` only through MarshalAppend / a body preparer: a fast path for 'nothing to do'
	// (an empty buffer) makes zero bytes a valid JSON message.  And a built-in codec's Unmarshal
	// succeeds only by handing the bytes to the protobuf runtime's unmarshal, which is also what
	// resets the target: the message object is reused for every message of a stream, so a fast
	// path for zero bytes delivers the previous message again.
	c.Rule("C01.9", "decode/encode and the built-in codecs' Unmarshal succeed only by doing the work (no fast path for empty input)", 4)
	{
		work := map[string][]string{
			"decode": {"Unmarshal", "UnmarshalField", "prepareUnmarshalledRequest", "prepareUnmarshalledResponse"},
			"encode": {"MarshalAppend", "MarshalAppendStable", "MarshalAppendField", "prepareMarshalledRequest", "prepareMarshalledResponse"},
		}
		checkDoesWork := func(fn *ssa.Function, names []string, label, bad string) {
			paths, ok := EnumPaths(fn.Blocks[0], nil, IsReturn, 0)
			if !ok {
				c.Unknown("C01.9", FuncName(fn), label, fn.Pos(), "too many paths")
				return
			}
			ei := errorResultIndex(fn.Signature)
			nOK, nBad := 0, 0
			for _, cp := range paths {
				rv := ReturnValues(cp.End.(*ssa.Return))
				if ei < 0 || ei >= len(rv) {
					continue
				}
				res := cp.Deref(rv[ei])
				did := false
				for _, b := range cp.Blocks {
					for _, in := range b.Instrs {
						ci, isC := in.(ssa.CallInstruction)
						if !isC {
							continue
						}
						cc := ci.Common()
						nm := ""
						if cc.IsInvoke() {
							nm = N(cc.Method)
						} else if sc := cc.StaticCallee(); sc != nil {
							nm = N(sc)
						}
						for _, w := range names {
							if nm == w {
								did = true
							}
						}
					}
				}
				if did {
					nOK++
					continue
				}
				if IsNilConst(res) {
					nBad++
				}
			}
			c.Check(nBad == 0 && nOK > 0, "C01.9", FuncName(fn), label, fn.Pos(),
				"every successful return went through "+joinStr(names)+" ("+itoa(nOK)+" working paths)",
				itoa(nBad)+" path(s) return success without calling any of "+joinStr(names)+": "+bad)
		}
		for _, n := range []string{"decode", "encode"} {
			checkDoesWork(helper[n], work[n], n+"-does-the-work",
				"a fast path (empty buffer, 'nothing to do') lets input through that the codec would reject - zero bytes are not a JSON message - or leaves the previous content in place")
		}
		codecI := p.Iface("Codec")
		if codecI == nil {
			fatalf("anchor=Codec interface not found")
		}
		for _, t := range p.Implementers(codecI) {
			um := p.MethodOf(t, "Unmarshal")
			if um == nil || !p.inScope(um) || um.Synthetic != "" {
				continue
			}
			checkDoesWork(um, []string{"Unmarshal"}, "codec-unmarshal-does-the-work",
				"the target message is reused for every message of a stream and only the runtime's Unmarshal resets it: a fast path for zero bytes (the all-defaults message) delivers the previous message of the stream again")
		}
	}

	// ---------------------------------------------------------------- C01.3
	c.Rule("C01.3", "a reused message starts with an empty buffer", 1)
	reset := p.MethodOf(msgT, "reset")
	bufF := p.MustField("message", "buf")
	if reset == nil {
		fatalf("anchor=message.reset not found")
	}
	isEmptying := func(in ssa.Instruction) bool {
		switch x := in.(type) {
		case *ssa.Store:
			if fa, ok := x.Addr.(*ssa.FieldAddr); ok && FieldOfAddr(fa) == bufF {
				for _, l := range Origins(x.Val) {
					if l.Kind == "call" {
						for _, cal := range p.CalleesAt(l.Call) {
							if FuncName(cal) == "(*bufferPool).Get" {
								return true
							}
						}
					}
				}
			}
		case ssa.CallInstruction:
			if IsCallTo(x, "(*bytes.Buffer).Reset") && LoadedField(x.Common().Args[0]) == bufF {
				return true
			}
		}
		return false
	}
	okReset, path := MustPassToExit(reset, nil, isEmptying, IsReturn, nil)
	c.Check(okReset, "C01.3", FuncName(reset), "buffer-emptied", reset.Pos(),
		"every path through reset installs a fresh pool buffer or Resets the existing one",
		"a path through reset keeps the previous message's bytes in the buffer (message k+1 is prefixed with message k): "+witnessString(p, path))
}

// readerFuncs: the methods of a reader adapter type (and closures inside them).
func readerFuncs(p *Prog, recvT types.Type) []*ssa.Function {
	set := map[*ssa.Function]bool{}
	for _, fn := range p.Funcs {
		top := fn
		for top.Parent() != nil {
			top = top.Parent()
		}
		if top.Signature.Recv() != nil && types.Identical(top.Signature.Recv().Type(), recvT) {
			set[fn] = true
		}
	}
	return SortedFuncs(set)
}

// runC01BinaryCodecKeepsUnknown: C01.10 (seed C01l).  The transcoder sits between peers whose
// schema may be newer than its own: fields it does not know are carried in the message's unknown
// set and written out again, so a decode/re-encode leg (Connect GET with encoding=proto, any
// body-preparing leg) is still the identity.  That holds only as long as the options of the
// built-in binary codec neither discard unknown fields nor merge into the reused target.
// Decided over every construction of google.golang.org/protobuf/proto.UnmarshalOptions in the
// shipped packages: DiscardUnknown and Merge are never set to anything but constant false.
func runC01BinaryCodecKeepsUnknown(c *Ctx) {
	p := c.P
	c.Rule("C01.10", "the binary codec's unmarshal options neither discard unknown fields nor merge", 1)
	n := 0
	for _, fn := range p.Funcs {
		if !p.inScope(fn) {
			continue
		}
		seen := map[ssa.Value]bool{}
		ForEachInstr(fn, func(in ssa.Instruction) {
			st, ok := in.(*ssa.Store)
			if !ok {
				return
			}
			fa, ok := st.Addr.(*ssa.FieldAddr)
			if !ok {
				return
			}
			f := FieldOfAddr(fa)
			owner := fa.X.Type()
			if pt, isP := owner.(*types.Pointer); isP {
				owner = pt.Elem()
			}
			nm, isN := owner.(*types.Named)
			if !isN || nm.Obj().Pkg() == nil || nm.Obj().Pkg().Path() != "google.golang.org/protobuf/proto" || nm.Obj().Name() != "UnmarshalOptions" {
				return
			}
			if !seen[fa.X] {
				seen[fa.X] = true
				n++
			}
			if f.Name() != "DiscardUnknown" && f.Name() != "Merge" {
				return
			}
			k, isK := ConstBool(st.Val)
			c.Check(isK && !k, "C01.10", FuncName(fn), "binary-codec-options:"+f.Name(), st.Pos(),
				f.Name()+" is constant false",
				"the binary codec's unmarshal options set "+f.Name()+": fields the transcoder's schema does not know are dropped (or a reused message accumulates earlier content) on every leg that decodes and re-encodes, although the call succeeds - the backend receives fewer fields than the client sent")
		})
	}
	if n == 0 {
		c.Bad("C01.10", "package", "binary-codec-options", token.NoPos, "no construction of proto.UnmarshalOptions found in the shipped packages: shape changed")
	} else {
		c.OK("C01.10", "package", "binary-codec-options", token.NoPos, itoa(n)+" construction(s) of proto.UnmarshalOptions, none sets DiscardUnknown or Merge")
	}
}

// runC01DecodedCountUsed: C01.11 (seed C01o).  base64's Decode fills a caller-supplied buffer that
// was sized with DecodedLen - an upper bound: for padded input it is up to two bytes more than
// what is written - and returns the number of bytes written.  The decoded value is dst[:n]; using
// dst whole appends NUL bytes to every bytes field bound from a path or query whose base64 text
// is padded, and the RPC still succeeds.  Structural, for every call of
// (*base64.Encoding).Decode / (*base32.Encoding).Decode / hex.Decode in the shipped packages: the
// count result is used as the upper bound of a slice expression over the destination.
func runC01DecodedCountUsed(c *Ctx) {
	p := c.P
	c.Rule("C01.11", "the buffer a base64/hex Decode filled is cut to the count the decoder returned", 1)
	n := 0
	for _, fn := range p.Funcs {
		if !p.inScope(fn) {
			continue
		}
		for _, ci := range Calls(fn) {
			call, ok := ci.(*ssa.Call)
			if !ok || !IsCallTo(call, "(*encoding/base64.Encoding).Decode", "(*encoding/base32.Encoding).Decode", "encoding/hex.Decode") {
				continue
			}
			n++
			args := call.Call.Args
			dst := args[len(args)-2]
			cut := false
			for _, ref := range *call.Referrers() {
				ex, ok := ref.(*ssa.Extract)
				if !ok || ex.Index != 0 || ex.Referrers() == nil {
					continue
				}
				for _, r2 := range *ex.Referrers() {
					if sl, ok := r2.(*ssa.Slice); ok && sl.High == ssa.Value(ex) && (sl.X == dst || strip(sl.X) == strip(dst)) {
						cut = true
					}
				}
			}
			c.Check(cut, "C01.11", FuncName(fn), "decoded-count-cuts-buffer", call.Pos(),
				"the destination is re-sliced to the returned count",
				"the count returned by Decode is not used to cut the destination: the buffer was sized with DecodedLen (an upper bound), so padded input leaves trailing NUL bytes in the decoded value and the message arrives altered")
		}
	}
	if n == 0 {
		c.Trivial("C01.11", "*", "decoded-count-cuts-buffer", token.NoPos, "no Decode into a caller-sized buffer in the shipped packages (DecodeString forms allocate exactly)")
	}
}

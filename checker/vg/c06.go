package vg

import (
	"go/token"
	"go/types"
	"strings"

	"golang.org/x/tools/go/ssa"
)

func init() {
	register(&PropertySpec{
		ID: "C06",
		Explanation: "Decides: (C06.1) the path handed to the REST route matcher originates only from still-encoded sources (URL.EscapedPath()/RawPath), never from the decoded URL.Path, and inside the matcher percent-decoding happens in exactly one place (variable capture), never on an already decoded value and never before literal comparison; " +
			"(C06.2) in the trie walk the lookups are ordered literal, '*', '**' and each later lookup is reached only on paths where the earlier alternative produced neither a target nor a method set (path-sensitive over the short-circuit conditions) - an all-literal template therefore takes precedence and a path match with the wrong HTTP method ends the search with 405; " +
			"(C06.3) not-found is returned only where the matcher returned neither target nor methods (REST) or the exact-path map lookup missed (RPC), 405 errors carry Allow, success in the REST branch requires a target; " +
			"(C06.4) no table entry is ever overwritten: route insertion and method registration store only under a dominating 'no existing entry' test, hence the tables are a function of the set of registrations, not their order. " +
			"Not decided: correctness of the template grammar, capture index arithmetic, %2F handling inside the decoder, completeness of backtracking.",
		Assumptions: []string{"net/url's EscapedPath returns RawPath when it is a valid encoding of Path"},
		Run:         runC06,
	})
}

func isDecoderCall(c ssa.CallInstruction) bool {
	if IsCallTo(c, "net/url.PathUnescape", "net/url.QueryUnescape") {
		return true
	}
	if sc := c.Common().StaticCallee(); sc != nil && sc.Pkg != nil && sc.Pkg.Pkg.Path() == RootPath && N(sc) == "pathUnescape" {
		return true
	}
	return false
}

// encodingClass classifies a leaf as raw / decoded / neutral.
func encodingClass(l Leaf) string {
	switch l.Kind {
	case "load":
		if l.Field != nil && l.Field.Pkg() != nil && l.Field.Pkg().Path() == "net/url" {
			switch N(l.Field) {
			case "Path":
				return "decoded"
			case "RawPath", "RawQuery":
				return "raw"
			}
		}
		if l.Field != nil && l.Field.Pkg() != nil && l.Field.Pkg().Path() == "net/http" && N(l.Field) == "RequestURI" {
			return "raw"
		}
	case "call":
		if IsCallTo(l.Call, "(*net/url.URL).EscapedPath") {
			return "raw"
		}
		if IsCallTo(l.Call, "(*net/url.URL).Query", "net/url.PathUnescape", "net/url.QueryUnescape") || isDecoderCall(l.Call) {
			return "decoded"
		}
	case "const":
		return "neutral"
	}
	return "unknown"
}

func runC06(c *Ctx) {
	defer runC06SeparatorByPosition(c)
	defer runC06ExactMethodBeforeWildcard(c)
	// clause shared with C07: path captures are applied whenever the template has variables
	defer c.ImportRules("C07", "C07.4")
	p := c.P
	// clause shared with C07: a query parameter cannot replace what the path template captured
	defer c.ImportRules("C07", "C07.9")
	resolve := p.MustFunc("(*operation).resolveMethod")
	match := p.MustFunc("(*routeTrie).match")
	findTarget := p.MustFunc("(*routeTrie).findTarget")

	// ---------------------------------------------------------------- C06.1
	c.Rule("C06.1", "the matcher sees the still-encoded path; captures are percent-decoded exactly once", 4)
	nMatch := 0
	for _, fn := range p.Funcs {
		for _, call := range Calls(fn) {
			isMatch := false
			for _, cal := range p.CalleesAt(call) {
				if cal == match {
					isMatch = true
				}
			}
			if !isMatch {
				continue
			}
			nMatch++
			c.CountSite()
			arg := call.Common().Args[1]
			var bad []string
			nRaw := 0
			for _, l := range Origins(arg) {
				switch encodingClass(l) {
				case "raw":
					nRaw++
				case "neutral":
				default:
					bad = append(bad, l.String())
				}
			}
			c.Check(len(bad) == 0 && nRaw > 0, "C06.1", FuncName(fn), "matcher-input-raw", call.Pos(),
				"the path given to the route matcher is the still percent-encoded request path",
				"the path given to the route matcher may come from a decoded or unknown source ("+joinStr(bad)+"): escapes would be decoded twice and literals compared in the wrong alphabet")
		}
	}
	if nMatch == 0 {
		c.Bad("C06.1", FuncName(resolve), "matcher-input-raw", resolve.Pos(), "no call of the route matcher found")
	}
	// decoders under match: only in the capture function, applied to raw segments
	capture := p.MustFunc("(routeTargetVar).capture")
	nDec := 0
	for _, fn := range SortedFuncs(p.Reach(match)) {
		if !p.inScope(fn) || FuncName(fn) == "pathUnescape" {
			continue
		}
		for _, call := range Calls(fn) {
			if !isDecoderCall(call) {
				continue
			}
			nDec++
			okPlace := fn == capture
			okArg := true
			for _, l := range Origins(call.Common().Args[0]) {
				if l.Kind == "call" && isDecoderCall(l.Call) {
					okArg = false
				}
			}
			c.Check(okPlace && okArg, "C06.1", FuncName(fn), "decode-once", call.Pos(),
				"percent-decoding happens in the capture function, on a value that was not decoded before",
				"percent-decoding under the matcher outside variable capture or on an already decoded value")
		}
	}
	c.Check(nDec >= 1, "C06.1", FuncName(capture), "decoder-present", capture.Pos(),
		"variable capture percent-decodes the captured segments", "no percent-decoding of captured segments found: captures would be delivered still encoded")
	// the capture's output is built from the decoder's result
	okOut := false
	for _, call := range Calls(capture) {
		if IsCallTo(call, "(*strings.Builder).WriteString") {
			for _, l := range Origins(call.Common().Args[1]) {
				if l.Kind == "call" && isDecoderCall(l.Call) && l.Index == 0 {
					okOut = true
				}
			}
		}
	}
	c.Check(okOut, "C06.1", FuncName(capture), "capture-emits-decoded", capture.Pos(),
		"the captured value is assembled from the decoder's results", "the captured value is not assembled from the decoder's results")

	// ---------------------------------------------------------------- C06.2
	c.Rule("C06.2", "trie lookups are ordered literal, *, ** and each later one is reached only when the earlier yielded neither target nor methods", 3)
	childrenFld := p.MustField("routeTrie", "children")
	type lk struct {
		in   *ssa.Lookup
		kind string
	}
	var lks []lk
	ForEachInstr(findTarget, func(in ssa.Instruction) {
		l, ok := in.(*ssa.Lookup)
		if !ok || LoadedField(l.X) != childrenFld {
			return
		}
		kind := "literal"
		if s, isS := ConstString(l.Index); isS {
			kind = s
		}
		lks = append(lks, lk{l, kind})
	})
	byKind := map[string]*ssa.Lookup{}
	for _, l := range lks {
		if byKind[l.kind] != nil {
			c.Unknown("C06.2", FuncName(findTarget), "lookup:"+l.kind, l.in.Pos(), "more than one child lookup of this kind: shape not recognised")
		}
		byKind[l.kind] = l.in
	}
	lit, star, dstar := byKind["literal"], byKind["*"], byKind["**"]
	if lit == nil || star == nil || dstar == nil {
		c.Bad("C06.2", FuncName(findTarget), "lookups", findTarget.Pos(), "the trie walk does not have the three child lookups (segment, \"*\", \"**\")")
	} else {
		// key of the literal lookup is the request segment (element of the path parameter)
		okKey := false
		for _, l := range Origins(lit.Index) {
			if l.Kind == "load" || l.Kind == "param" {
				okKey = true
			}
		}
		c.Check(okKey, "C06.2", FuncName(findTarget), "literal-key", lit.Pos(),
			"the first lookup is keyed by the request's own segment", "the first child lookup is not keyed by the request segment")
		// later lookups only after earlier alternatives failed completely
		exhausted := func(cp CFGPath, l *ssa.Lookup) bool {
			// child == nil on this path?
			for cond, truth := range cp.Truth {
				b, ok := cond.(*ssa.BinOp)
				if !ok {
					continue
				}
				if (b.Op == token.NEQ && !truth || b.Op == token.EQL && truth) && (b.X == ssa.Value(l) && IsNilConst(b.Y) || b.Y == ssa.Value(l) && IsNilConst(b.X)) {
					return true
				}
			}
			// recursive call on that child returned (nil, nil)
			var rec *ssa.Call
			for _, ref := range *l.Referrers() {
				if call, ok := ref.(*ssa.Call); ok && len(call.Call.Args) > 0 && call.Call.Args[0] == ssa.Value(l) {
					rec = call
				}
			}
			if rec == nil {
				return false
			}
			nilRes := map[int]bool{}
			for cond, truth := range cp.Truth {
				b, ok := cond.(*ssa.BinOp)
				if !ok {
					continue
				}
				isNil := b.Op == token.NEQ && !truth || b.Op == token.EQL && truth
				if !isNil {
					continue
				}
				var side ssa.Value
				if IsNilConst(b.Y) {
					side = b.X
				} else if IsNilConst(b.X) {
					side = b.Y
				}
				if ex, ok := side.(*ssa.Extract); ok && ex.Tuple == ssa.Value(rec) {
					nilRes[ex.Index] = true
				}
			}
			return nilRes[0] && nilRes[1]
		}
		checkAfter := func(later *ssa.Lookup, laterName string, earlier ...*ssa.Lookup) {
			paths, ok := EnumPaths(findTarget.Blocks[0], nil, func(in ssa.Instruction) bool { return in == ssa.Instruction(later) }, 0)
			if !ok || len(paths) == 0 {
				c.Unknown("C06.2", FuncName(findTarget), "order:"+laterName, later.Pos(), "could not enumerate the paths to this lookup")
				return
			}
			good := true
			for _, cp := range paths {
				for _, e := range earlier {
					onPath := false
					for _, b := range cp.Blocks {
						if b == e.Block() {
							onPath = true
						}
					}
					if !onPath || !exhausted(cp, e) {
						good = false
					}
				}
			}
			c.Check(good, "C06.2", FuncName(findTarget), "order:"+laterName, later.Pos(),
				"reached only after every earlier alternative was tried and yielded neither a target nor a method set",
				"the "+laterName+" alternative can be tried although an earlier, more specific alternative matched the path (target or method set non-nil) or was not tried: precedence / 405 semantics break")
		}
		checkAfter(star, "\"*\"", lit)
		checkAfter(dstar, "\"**\"", lit, star)
		// ... and the later alternatives ARE tried: the result of an earlier alternative's
		// recursive walk is returned only when it found something
		fallsThrough := func(l *ssa.Lookup, name string) {
			var rec *ssa.Call
			for _, ref := range *l.Referrers() {
				if call, ok := ref.(*ssa.Call); ok && len(call.Call.Args) > 0 && call.Call.Args[0] == ssa.Value(l) {
					rec = call
				}
			}
			if rec == nil {
				c.Unknown("C06.2", FuncName(findTarget), "falls-through:"+name, l.Pos(), "no recursive walk of this child found")
				return
			}
			paths, ok := EnumPaths(rec.Block(), nil, IsReturn, 0)
			if !ok {
				c.Unknown("C06.2", FuncName(findTarget), "falls-through:"+name, l.Pos(), "too many paths")
				return
			}
			good, n := true, 0
			for _, cp := range paths {
				ret := cp.End.(*ssa.Return)
				returnsRec := false
				for _, r := range ret.Results {
					if ex, ok := cp.ResolveAt(r, ret.Block()).(*ssa.Extract); ok && ex.Tuple == ssa.Value(rec) {
						returnsRec = true
					}
				}
				if !returnsRec {
					continue
				}
				n++
				found := false
				for cond, truth := range cp.Truth {
					b, ok := cond.(*ssa.BinOp)
					if !ok {
						continue
					}
					notNil := b.Op == token.NEQ && truth || b.Op == token.EQL && !truth
					if !notNil {
						continue
					}
					side := b.X
					if IsNilConst(b.X) {
						side = b.Y
					}
					if ex, ok := side.(*ssa.Extract); ok && ex.Tuple == ssa.Value(rec) {
						found = true
					}
				}
				if !found {
					good = false
				}
			}
			c.Check(good && n > 0, "C06.2", FuncName(findTarget), "falls-through:"+name, rec.Pos(),
				"the walk of this child is final only when it found a target or a method set; otherwise the next alternative is tried",
				"the result of walking the "+name+" child is returned even when it found nothing: a sibling alternative (\"*\" after a literal, \"**\" after \"*\") that matches the request is never tried and an accepted binding is unreachable")
		}
		fallsThrough(lit, "literal")
		fallsThrough(star, "\"*\"")
	}

	// ---------------------------------------------------------------- C06.3
	c.Rule("C06.3", "404 only when nothing matched; REST success requires a target; RPC paths resolve by exact map lookup", 4)
	notFound := p.Global("errNotFound")
	methodsFld := p.MustField("Transcoder", "methods")
	restTargetFld := p.MustField("operation", "restTarget")
	{
		family := p.Family(resolve)
		var paths []CFGPath
		for _, rf := range family {
			ps, ok := EnumPaths(rf.Blocks[0], nil, IsReturn, 0)
			if !ok {
				c.Unknown("C06.3", FuncName(rf), "paths", rf.Pos(), "too many paths")
			}
			for _, cp := range ps {
				if !ForwardsMember(cp.End.(*ssa.Return), family) {
					paths = append(paths, cp)
				}
			}
		}
		var matchCall ssa.Value
		var rpcLookup *ssa.Lookup
		for _, rf := range family {
			for _, call := range Calls(rf) {
				for _, cal := range p.CalleesAt(call) {
					if cal == match {
						matchCall = call.Value()
					}
				}
			}
			ForEachInstr(rf, func(in ssa.Instruction) {
				if l, ok := in.(*ssa.Lookup); ok && LoadedField(l.X) == methodsFld {
					rpcLookup = l
				}
			})
		}
		if rpcLookup == nil {
			c.Bad("C06.3", FuncName(resolve), "rpc-lookup", resolve.Pos(), "RPC-style paths are not resolved by a lookup in the method table")
		} else {
			okKey := true
			n := 0
			for _, l := range Origins(rpcLookup.Index) {
				n++
				if !(l.Kind == "load" && l.Field != nil && N(l.Field) == "Path" && len(l.Ops) == 0) {
					okKey = false
				}
			}
			c.Check(okKey && n > 0, "C06.3", FuncName(resolve), "rpc-lookup-exact", rpcLookup.Pos(),
				"RPC paths are looked up by the exact request path (map equality, no prefixing or trimming)",
				"the RPC method lookup key is not the unmodified request path")
		}
		seenNF, seenOK := 0, 0
		for _, cp := range paths {
			ret := cp.End.(*ssa.Return)
			v := cp.ResolveAt(ret.Results[0], ret.Block())
			inREST := false
			for _, b := range cp.Blocks {
				if mc, ok := matchCall.(*ssa.Call); ok && b == mc.Block() {
					inREST = true
				}
			}
			if len(ret.Results) == 0 {
				continue
			}
			switch {
			case originIsGlobal(v, notFound):
				seenNF++
				good := false
				if inREST {
					noTarget, noMethods := false, false
					for cond, truth := range cp.Truth {
						b, ok := cond.(*ssa.BinOp)
						if !ok {
							continue
						}
						if LoadedField(b.X) == restTargetFld && IsNilConst(b.Y) && (b.Op == token.NEQ && !truth || b.Op == token.EQL && truth) {
							noTarget = true
						}
						if call, ok := b.X.(*ssa.Call); ok && CalleeName(call) == "builtin len" {
							if k, isK := ConstInt(b.Y); isK && k == 0 && (b.Op == token.EQL && truth || b.Op == token.NEQ && !truth) {
								noMethods = true
							}
						}
					}
					good = noTarget && noMethods
				} else if rpcLookup != nil {
					for cond, truth := range cp.Truth {
						b, ok := cond.(*ssa.BinOp)
						if ok && b.X == ssa.Value(rpcLookup) && IsNilConst(b.Y) && (b.Op == token.EQL && truth || b.Op == token.NEQ && !truth) {
							good = true
						}
					}
				}
				c.Check(good, "C06.3", FuncName(resolve), "not-found-return", ret.Pos(),
					"not-found is returned only when the matcher gave neither target nor methods / the method table has no entry",
					"not-found can be returned although a route (or its method set) matched")
			case IsNilConst(v) && inREST:
				seenOK++
				hasTarget := false
				for cond, truth := range cp.Truth {
					b, ok := cond.(*ssa.BinOp)
					if ok && LoadedField(b.X) == restTargetFld && IsNilConst(b.Y) && (b.Op == token.NEQ && truth || b.Op == token.EQL && !truth) {
						hasTarget = true
					}
				}
				c.Check(hasTarget, "C06.3", FuncName(resolve), "rest-success-has-target", ret.Pos(),
					"REST resolution succeeds only with a matched target", "REST resolution can succeed without a matched route target")
			}
		}
		if seenNF < 2 || seenOK < 1 {
			c.Bad("C06.3", FuncName(resolve), "returns", resolve.Pos(), "method resolution lacks the expected not-found / success returns: shape changed")
		}
	}

	// ---------------------------------------------------------------- C06.5 / C06.6
	c.Rule("C06.5", "template literals are canonicalised with the library's own escaper, whose escape set is 'everything but unreserved'", 2)
	parseLit := p.MustFunc("(*pathParser).parseLiteral")
	pathEsc := p.MustFunc("pathEscape")
	okCanon, nRet := true, 0
	ForEachInstr(parseLit, func(in ssa.Instruction) {
		ret, ok := in.(*ssa.Return)
		if !ok || len(ret.Results) != 2 || !IsNilConst(ret.Results[1]) {
			return
		}
		nRet++
		good := false
		for _, l := range Origins(ret.Results[0]) {
			if l.Kind == "call" {
				for _, cal := range p.CalleesAt(l.Call) {
					if cal == pathEsc {
						for _, la := range Origins(l.Call.Common().Args[0]) {
							if la.Kind == "call" && isDecoderCall(la.Call) {
								good = true
							}
						}
					}
				}
			}
		}
		if !good {
			okCanon = false
		}
	})
	c.Check(okCanon && nRet > 0, "C06.5", FuncName(parseLit), "literal-canonicalised", parseLit.Pos(),
		"a template literal is stored as pathEscape(pathUnescape(literal)): the same alphabet the raw request segments are compared in",
		"template literals are no longer canonicalised with the library's own escaper: trie keys and still-encoded request segments disagree for reserved characters (%3A, %40, ...) and such routes never match")
	if pse := p.Func("pathShouldEscape"); pse != nil {
		var bad []string
		okFold := true
		for b := int64(0); b < 256 && okFold; b++ {
			res, err := p.Fold(pse, fInt64(b, types.Typ[types.Uint8]), fInt64(0, types.Typ[types.Int]))
			if err != nil || len(res) != 1 || res[0].k != fBool {
				okFold = false
				c.Unknown("C06.5", FuncName(pse), "fold", pse.Pos(), "escape predicate could not be folded")
				break
			}
			ch := byte(b)
			unres := ch >= 'a' && ch <= 'z' || ch >= 'A' && ch <= 'Z' || ch >= '0' && ch <= '9' || ch == '-' || ch == '.' || ch == '_' || ch == '~'
			if res[0].b == unres {
				bad = append(bad, string(rune(ch)))
			}
		}
		if okFold {
			c.Check(len(bad) == 0, "C06.5", FuncName(pse), "escape-set-unreserved-complement", pse.Pos(),
				"folded over all 256 bytes: exactly the RFC 3986 unreserved characters stay unescaped", "path escape set is not the complement of the unreserved characters (differs for: "+joinStr(bad)+")")
		}
	} else {
		fatalf("anchor=pathShouldEscape not found")
	}
	c.Rule("C06.6", "the verb is split off the last path element only", 1)
	nColon := 0
	for _, call := range Calls(match) {
		if !IsCallTo(call, "strings.IndexRune", "strings.IndexByte", "strings.Index", "strings.LastIndex", "strings.LastIndexByte", "strings.Cut", "strings.Split", "strings.SplitN", "strings.Contains") {
			continue
		}
		sep := call.Common().Args[1]
		isColon := false
		if s2, ok := ConstString(sep); ok && s2 == ":" {
			isColon = true
		}
		if k, ok := ConstInt(sep); ok && k == ':' {
			isColon = true
		}
		if !isColon {
			continue
		}
		nColon++
		elem := false
		for _, l := range Origins(call.Common().Args[0]) {
			if l.Kind == "load" && strings.HasSuffix(l.Path, "[]") {
				elem = true
			} else {
				elem = false
				break
			}
		}
		c.Check(elem, "C06.6", FuncName(match), "verb-from-last-element", call.Pos(),
			"the ':' separating the verb is searched in an element of the already split path", "the ':' is searched in the whole path: a colon inside an inner segment truncates the path and variables can no longer capture it")
	}
	if nColon == 0 {
		c.Bad("C06.6", FuncName(match), "verb-from-last-element", match.Pos(), "no search for the verb separator found: shape changed")
	}

	// ---------------------------------------------------------------- C06.4
	c.Rule("C06.4", "route and method tables are never overwritten (store only under a dominating 'no existing entry' test)", 2)
	insert := p.MustFunc("(*routeTrie).insert")
	regMethod := p.MustFunc("(*Transcoder).registerMethod")
	checkNoOverwrite := func(fn *ssa.Function, mapIsTarget func(mu *ssa.MapUpdate) bool, label string) {
		n := 0
		ForEachInstr(fn, func(in ssa.Instruction) {
			mu, ok := in.(*ssa.MapUpdate)
			if !ok || !mapIsTarget(mu) {
				return
			}
			n++
			// dominating fact: a lookup with the same key yielded nil / !ok
			good := false
			for _, f := range FactsAt(mu.Block()) {
				// comma-ok form
				if ex, ok := f.Cond.(*ssa.Extract); ok && ex.Index == 1 && !f.Truth {
					if lk, ok := ex.Tuple.(*ssa.Lookup); ok && lk.CommaOk && sameKey(lk.Index, mu.Key) {
						good = true
					}
				}
				if cmp, ok := f.AsCmp(); ok && cmp.Op == token.EQL && IsNilConst(cmp.Y) {
					if lk, ok := cmp.X.(*ssa.Lookup); ok && sameKey(lk.Index, mu.Key) {
						good = true
					}
				}
			}
			c.Check(good, "C06.4", FuncName(fn), label, mu.Pos(),
				"the entry is stored only after a lookup with the same key found nothing (duplicates are rejected, never overwritten)",
				"a table entry can be stored without a dominating 'no existing entry' test: a later registration silently replaces an earlier one (order dependence)")
		})
		if n == 0 {
			c.Bad("C06.4", FuncName(fn), label, fn.Pos(), "expected table store not found: shape changed")
		}
	}
	checkNoOverwrite(insert, func(mu *ssa.MapUpdate) bool {
		n, ok := mu.Map.Type().(*types.Named)
		return ok && N(n.Obj()) == "routeMethods"
	}, "route-entry")
	checkNoOverwrite(regMethod, func(mu *ssa.MapUpdate) bool { return LoadedField(mu.Map) == methodsFld }, "method-entry")
}

// sameKey: both keys have identical origins (same constants / same parameter / same load path).
func sameKey(a, b ssa.Value) bool {
	if strip(a) == strip(b) {
		return true
	}
	oa, ob := Origins(a), Origins(b)
	if len(oa) != 1 || len(ob) != 1 {
		return false
	}
	return oa[0].String() == ob[0].String() && oa[0].Kind != "other"
}

// runC06SeparatorByPosition: C06.7 (seed C06k).  A multi-segment capture is the matched segments
// joined by '/', and a segment may be empty ("/v9//b" captured by {name=**} is "/b").  Whether a
// separator precedes a segment is therefore a question of the segment's POSITION; asking the
// accumulated text ("anything written yet?") drops the separator after every leading empty
// segment.  Decided for every write of a constant "/" into a strings.Builder / bytes.Buffer
// inside a loop: no condition that dominates the write inside that loop reads the same
// builder's Len().
func runC06SeparatorByPosition(c *Ctx) {
	p := c.P
	c.Rule("C06.7", "a path separator is written by position in the sequence, not by whether anything was written yet", 1)
	isSlash := func(v ssa.Value) bool {
		if k, ok := ConstInt(v); ok && k == '/' {
			return true
		}
		if s, ok := ConstString(v); ok && s == "/" {
			return true
		}
		return false
	}
	n := 0
	for _, fn := range p.Funcs {
		if !p.inScope(fn) {
			continue
		}
		for _, call := range Calls(fn) {
			if !IsCallTo(call, "(*strings.Builder).WriteByte", "(*strings.Builder).WriteString", "(*strings.Builder).WriteRune", "(*bytes.Buffer).WriteByte", "(*bytes.Buffer).WriteString", "(*bytes.Buffer).WriteRune") {
				continue
			}
			args := call.Common().Args
			if len(args) != 2 || !isSlash(args[1]) {
				continue
			}
			if inLoop, _ := MayReach(fn, call, func(in ssa.Instruction) bool { return in == ssa.Instruction(call) }); !inLoop {
				continue
			}
			n++
			bad, badPos := false, token.NoPos
			for _, f := range FactsAt(call.Block()) {
				cmp, ok := f.AsCmp()
				if !ok {
					continue
				}
				for _, side := range []ssa.Value{cmp.X, cmp.Y} {
					lc, isCall := side.(*ssa.Call)
					if !isCall || !IsCallTo(lc, "(*strings.Builder).Len", "(*bytes.Buffer).Len") {
						continue
					}
					if strip(lc.Call.Args[0]) == strip(args[0]) {
						bad, badPos = true, lc.Pos()
					}
				}
			}
			c.Check(!bad, "C06.7", FuncName(fn), "separator-by-position", call.Pos(),
				"the '/' between joined segments does not depend on the builder's length",
				"the '/' between joined path segments is written only if the builder is non-empty ("+p.Pos(badPos)+"): after a leading empty segment nothing has been written yet, so the separator is dropped and a capture such as \"/b\" (from /v9//b) becomes \"b\"")
		}
	}
	if n == 0 {
		c.Bad("C06.7", "package", "separator-by-position", token.NoPos, "no loop joins path segments with '/' any more: shape changed")
	}
}

// runC06ExactMethodBeforeWildcard: C06.8 (seed C06l).  A template may carry a binding for one
// HTTP method and, through a custom pattern of kind "*", a catch-all for every other method;
// they may belong to different RPC methods.  "Exactly the method whose binding matches": the
// catch-all entry of the per-verb method table is consulted only once the lookup with the
// request's own method came back empty.  Decided for every lookup in a routeMethods table whose
// key may be the constant "*": it is dominated by the fact that a lookup in the same table with
// a key that is a parameter of the function yielded nil.
func runC06ExactMethodBeforeWildcard(c *Ctx) {
	p := c.P
	c.Rule("C06.8", "the wildcard method entry is consulted only after the exact method missed", 1)
	methodsT := p.MustNamed("routeMethods")
	mayBeStar := func(v ssa.Value) bool {
		var visit func(v ssa.Value, depth int) bool
		visit = func(v ssa.Value, depth int) bool {
			if depth > 4 {
				return false
			}
			if s, ok := ConstString(v); ok {
				return s == "*"
			}
			switch x := v.(type) {
			case *ssa.Phi:
				for _, e := range x.Edges {
					if visit(e, depth+1) {
						return true
					}
				}
			case *ssa.UnOp:
				if x.Op == token.MUL {
					if ia, ok := x.X.(*ssa.IndexAddr); ok {
						if al, ok := ia.X.(*ssa.Alloc); ok {
							for _, ev := range storesToElems(al) {
								if visit(ev, depth+1) {
									return true
								}
							}
						}
					}
				}
			case *ssa.Extract:
				// element of a range over a local array/slice literal
				if nx, ok := x.Tuple.(*ssa.Next); ok {
					if rng, ok := nx.Iter.(*ssa.Range); ok {
						return visit(rng.X, depth+1)
					}
				}
			}
			return false
		}
		return visit(v, 0)
	}
	n := 0
	for _, fn := range p.Funcs {
		if !p.inScope(fn) {
			continue
		}
		var lookups []*ssa.Lookup
		ForEachInstr(fn, func(in ssa.Instruction) {
			if lk, ok := in.(*ssa.Lookup); ok && types.Identical(lk.X.Type(), methodsT) {
				lookups = append(lookups, lk)
			}
		})
		for _, lk := range lookups {
			if !mayBeStar(lk.Index) {
				continue
			}
			n++
			ok := false
			for _, f := range FactsAt(lk.Block()) {
				cmp, isCmp := f.AsCmp()
				if !isCmp || cmp.Op != token.EQL || !IsNilConst(cmp.Y) {
					continue
				}
				ex, isLk := strip(cmp.X).(*ssa.Lookup)
				if !isLk || ex == lk || !sameMapValue(ex.X, lk.X) {
					continue
				}
				if _, isParam := strip(ex.Index).(*ssa.Parameter); isParam {
					ok = true
				}
			}
			c.Check(ok, "C06.8", FuncName(fn), "exact-method-before-wildcard", lk.Pos(),
				"the \"*\" entry is looked up only where the lookup with the request's method is known to have yielded nil",
				"the wildcard (\"*\") entry of the method table is consulted without the request's own method having been looked up first and found missing: a catch-all custom binding shadows the binding registered for exactly this HTTP method, and the request is dispatched to the catch-all's RPC method")
		}
	}
	if n == 0 {
		c.Bad("C06.8", "package", "exact-method-before-wildcard", token.NoPos, "no lookup of the wildcard method entry found: shape changed")
	}
}

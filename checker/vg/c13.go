package vg

import (
	"go/token"
	"go/types"
	"sort"

	"golang.org/x/tools/go/ssa"
)

func init() {
	register(&PropertySpec{
		ID: "C13",
		Explanation: "Decides a frame condition for the two delegating dispatches of Transcoder.ServeHTTP (unknown-endpoint handler and pass-through): " +
			"(C13.1) every cell of the *http.Request (struct fields, URL fields, header-map contents, body) that ANY function called before the dispatch may write is re-stored, on every path to the dispatch, from a value saved before the first possible mutation; a body read before delegation is a violation; " +
			"(C13.2) the writer handed to the delegate is ServeHTTP's own ResponseWriter parameter and the request is the operation's request; " +
			"(C13.3) the pass-through decision is exactly the conjunction of client/server equality of protocol, codec name and request-compression name. " +
			"Not decided: depth of Header.Clone (by contract), what net/http's WithContext copies, response bytes (never touched since the writer is not wrapped).",
		Assumptions: []string{"http.Request.WithContext makes a shallow copy that differs only in its context", "http.Header.Clone is a deep copy"},
		Run:         runC13,
	})
}

// reqCell identifies a mutable part of the request.
type reqCell struct {
	name string     // "Request.ContentLength", "URL.Path", "Header-contents", "Body-consumed"
	fld  *types.Var // for struct fields
}

// requestWrites enumerates, for function fn, the request cells it writes directly.
func requestWrites(p *Prog, fn *ssa.Function) map[string][]ssa.Instruction {
	if m, ok := p.memo["reqw"+"|"+FuncName(fn)]; ok {
		return m.(map[string][]ssa.Instruction)
	}
	out := requestWritesUncached(p, fn)
	p.memo["reqw"+"|"+FuncName(fn)] = out
	return out
}

// reachWritesCell: some function reachable from fn writes the request cell.
func reachWritesCell(p *Prog, fn *ssa.Function, cell string) bool {
	key := "rwc|" + cell + "|" + FuncName(fn)
	if m, ok := p.memo[key]; ok {
		return m.(bool)
	}
	res := false
	for f := range p.Reach(fn) {
		if len(requestWrites(p, f)[cell]) > 0 {
			res = true
			break
		}
	}
	p.memo[key] = res
	return res
}

func requestWritesUncached(p *Prog, fn *ssa.Function) map[string][]ssa.Instruction {
	out := map[string][]ssa.Instruction{}
	for _, w := range FieldWrites(fn) {
		if w.Fresh {
			continue
		}
		bt := w.Base.Type()
		switch {
		case isPtrTo(bt, "net/http", "Request"):
			out["Request."+N(w.Field)] = append(out["Request."+N(w.Field)], w.Store)
		case isPtrTo(bt, "net/url", "URL"):
			out["URL."+N(w.Field)] = append(out["URL."+N(w.Field)], w.Store)
		}
	}
	for _, m := range HeaderMutations(fn) {
		if isFresh(m.Map) {
			continue
		}
		if isResponseHeader(m.Map) {
			continue
		}
		out["Header-contents"] = append(out["Header-contents"], m.Instr)
	}
	// body consumption: any use of a loaded Request.Body value other than comparison with nil / storing it back
	ForEachInstr(fn, func(in ssa.Instruction) {
		u, ok := in.(*ssa.UnOp)
		if !ok || u.Op != token.MUL {
			return
		}
		fa, ok := u.X.(*ssa.FieldAddr)
		if !ok || !isPtrTo(fa.X.Type(), "net/http", "Request") || N(FieldOfAddr(fa)) != "Body" {
			return
		}
		for _, ref := range *u.Referrers() {
			switch r := ref.(type) {
			case *ssa.BinOp, *ssa.DebugRef:
			case ssa.CallInstruction:
				out["Body-consumed"] = append(out["Body-consumed"], r)
			case *ssa.MakeInterface, *ssa.ChangeInterface, *ssa.Store, *ssa.Phi, *ssa.TypeAssert:
				out["Body-consumed"] = append(out["Body-consumed"], ref)
			}
		}
	})
	return out
}

// isResponseHeader: the map originates from ResponseWriter.Header().
func isResponseHeader(v ssa.Value) bool {
	ls := Origins(v)
	if len(ls) == 0 {
		return false
	}
	for _, l := range ls {
		if l.Kind != "call" {
			return false
		}
		n := CalleeName(l.Call)
		if n != "invoke net/http.ResponseWriter.Header" && n != "(*responseWriter).Header" {
			return false
		}
	}
	return true
}

func runC13(c *Ctx) {
	// clause shared with C06: RPC-style paths are looked up in their decoded form
	defer c.ImportRules("C06", "C06.3")
	// clause shared with C16: a flusher is demanded only of transformed responses
	defer c.ImportRules("C16", "C16.2")
	p := c.P
	defer runC13RegistryLookupMatchesAdapter(c)
	defer runC13NotFoundIsTheSentinel(c)
	defer runC13ClassificationIgnoresParseErrors(c)
	defer runC13RegistryLookupExact(c)
	entry := entryBody(p)
	outer := serveHTTP(p)
	opT := p.MustNamed("operation")
	_ = opT

	// delegating dispatches: direct handler dispatches in the entry point
	var delegs []ssa.CallInstruction
	for _, call := range Calls(entry) {
		if isHandlerDispatch(call) {
			delegs = append(delegs, call)
		}
	}

	c.Rule("C13.2", "delegating dispatches pass ServeHTTP's own writer parameter and the operation's request", 2)
	reqFld := p.MustField("operation", "request")
	for _, d := range delegs {
		args := d.Common().Args
		w, r := args[len(args)-2], args[len(args)-1]
		okW := false
		if prm, ok := strip(w).(*ssa.Parameter); ok {
			if entry == outer && prm == entry.Params[1] {
				okW = true
			}
			if entry != outer {
				// the entry point's body lives in a helper: its parameter is the client's writer if
				// every call of the helper passes ServeHTTP's own ResponseWriter parameter there
				idx := -1
				for i, q := range entry.Params {
					if q == prm {
						idx = i
					}
				}
				sites := 0
				okW = idx >= 0
				for _, call := range Calls(outer) {
					if call.Common().StaticCallee() != entry {
						continue
					}
					sites++
					if a, isP := strip(call.Common().Args[idx]).(*ssa.Parameter); !isP || a != outer.Params[1] {
						okW = false
					}
				}
				okW = okW && sites > 0
			}
		}
		c.Check(okW, "C13.2", FuncName(entry), "writer:"+CalleeName(d), d.Pos(),
			"the delegate writes straight to the client's ResponseWriter (status, headers, body, trailers untouched)",
			"the delegate is handed something other than ServeHTTP's ResponseWriter parameter: its response no longer reaches the client unchanged")
		okR := false
		for _, l := range Origins(r) {
			if l.Kind == "load" && l.Field == reqFld {
				okR = true
			}
		}
		c.Check(okR, "C13.2", FuncName(entry), "request:"+CalleeName(d), d.Pos(),
			"the delegate receives the operation's request", "the delegate receives a request that is not the operation's request")
	}

	c.Rule("C13.1", "every request cell that may be written before a delegating dispatch is restored from a value saved before the first mutation", 2)
	for _, d := range delegs {
		// Pre(d): functions whose call in entry may precede d
		pre := map[*ssa.Function]bool{}
		var preCalls []ssa.CallInstruction
		for _, call := range Calls(entry) {
			if call == d {
				continue
			}
			if _, isDefer := call.(*ssa.Defer); isDefer {
				continue // runs after the dispatch
			}
			found, _ := MayReach(entry, call, func(in ssa.Instruction) bool { return in == ssa.Instruction(d) })
			if !found {
				continue
			}
			callees := p.CalleesAt(call)
			if len(callees) > 0 {
				preCalls = append(preCalls, call)
			}
			for _, cal := range callees {
				for f := range p.Reach(cal) {
					pre[f] = true
				}
			}
		}
		if entry != outer {
			// what ServeHTTP itself calls before it hands over to the helper that holds its body
			for _, call := range Calls(outer) {
				if _, isDefer := call.(*ssa.Defer); isDefer || call.Common().StaticCallee() == entry {
					continue
				}
				found, _ := MayReach(outer, call, func(in ssa.Instruction) bool {
					ci, ok := in.(ssa.CallInstruction)
					return ok && ci.Common().StaticCallee() == entry
				})
				if !found {
					continue
				}
				callees := p.CalleesAt(call)
				if len(callees) > 0 {
					preCalls = append(preCalls, call)
				}
				for _, cal := range callees {
					for f := range p.Reach(cal) {
						pre[f] = true
					}
				}
			}
		}
		// cells written
		cells := map[string][]string{} // cell -> writer function names
		writesBy := map[*ssa.Function]map[string][]ssa.Instruction{}
		for _, f := range SortedFuncs(pre) {
			ws := requestWrites(p, f)
			filtered := map[string][]ssa.Instruction{}
			for cell, ins := range ws {
				for _, in := range ins {
					if !isRestoreStore(p, in) {
						filtered[cell] = append(filtered[cell], in)
					}
				}
			}
			writesBy[f] = filtered
			for cell := range filtered {
				cells[cell] = append(cells[cell], FuncName(f))
			}
		}
		// direct writes in entry before d
		for cell, ins := range requestWrites(p, entry) {
			for _, in := range ins {
				found, _ := MayReach(entry, in, func(x ssa.Instruction) bool { return x == ssa.Instruction(d) })
				if found && !isRestoreStore(p, in) {
					cells[cell] = append(cells[cell], FuncName(entry))
				}
			}
		}
		var names []string
		for cell := range cells {
			names = append(names, cell)
		}
		sort.Strings(names)
		dname := "dispatch@" + dispatchLabel(d)
		if len(names) == 0 {
			c.Trivial("C13.1", FuncName(entry), dname+":no-writes", d.Pos(), "no request cell is written before this delegating dispatch")
		}
		for _, cell := range names {
			if cell == "Body-consumed" {
				c.Bad("C13.1", FuncName(entry), dname+":"+cell, d.Pos(),
					"the request body may be read before the request is delegated unchanged (by "+joinStr(cells[cell])+"): the delegate cannot see the exact body bytes")
				continue
			}
			// find restore: a store in entry to that cell whose value is load(operation.F), on every path to d
			restoreAll, saveFld := findRestoreSites(p, entry, cell)
			var restore []ssa.Instruction
			for _, r := range restoreAll {
				if ok, _ := MayReach(entry, r, func(in ssa.Instruction) bool { return in == ssa.Instruction(d) }); ok {
					restore = append(restore, r)
				}
			}
			if restore == nil {
				c.Bad("C13.1", FuncName(entry), dname+":"+cell, d.Pos(),
					"request cell "+cell+" may be written before delegation (by "+joinStr(uniq(cells[cell]))+") and is not restored from a saved original before the dispatch")
				continue
			}
			isRestore := func(in ssa.Instruction) bool {
				for _, r := range restore {
					if in == r {
						return true
					}
				}
				return false
			}
			found, path := PathQuery{Target: func(in ssa.Instruction) bool { return in == ssa.Instruction(d) }, Avoid: isRestore}.Search(entry, nil)
			if found {
				c.Bad("C13.1", FuncName(entry), dname+":"+cell, d.Pos(),
					"request cell "+cell+" may be written before delegation (by "+joinStr(uniq(cells[cell]))+") but a path reaches the dispatch without restoring it: "+witnessString(p, path))
				continue
			}
			// no mutation of the cell between restore and d (within entry: calls into pre functions writing the cell)
			dirtyAfter := ""
			for _, r := range restore {
				f2, _ := PathQuery{Target: func(in ssa.Instruction) bool {
					if in == ssa.Instruction(d) {
						return false
					}
					ci, ok := in.(ssa.CallInstruction)
					if !ok {
						return false
					}
					for _, r2 := range restore {
						if r2 == in {
							return false // the restoring helper itself
						}
					}
					for _, cal := range p.CalleesAt(ci) {
						if reachWritesCell(p, cal, cell) {
							return true
						}
					}
					return false
				}, Avoid: func(in ssa.Instruction) bool { return in == ssa.Instruction(d) }}.Search(entry, r)
				if f2 {
					dirtyAfter = "a call that may write the cell again lies between the restore and the dispatch"
				}
			}
			if dirtyAfter != "" {
				c.Bad("C13.1", FuncName(entry), dname+":"+cell, d.Pos(), "request cell "+cell+": "+dirtyAfter)
				continue
			}
			// the save: store to operation.saveFld from the request's cell, before the first mutation
			okSave, why := checkSave(p, pre, writesBy, cell, saveFld)
			c.Check(okSave, "C13.1", FuncName(entry), dname+":"+cell, d.Pos(),
				"cell "+cell+" (written by "+joinStr(uniq(cells[cell]))+") is restored from operation."+N(saveFld)+" on every path to the dispatch, and that field is saved from the request before the first mutation",
				"cell "+cell+" is restored from operation."+N(saveFld)+" but "+why)
		}
	}

	// ---- C13.3 pass-through decision
	c.Rule("C13.3", "the pass-through decision compares exactly protocol, codec name and request-compression name of client and server", 1)
	var valCall ssa.Value
	validate := p.MustFunc("(*operation).validate")
	for _, call := range Calls(entry) {
		for _, cal := range p.CalleesAt(call) {
			if cal == validate {
				valCall = call.Value()
			}
		}
	}
	for _, d := range delegs {
		facts := FactsAt(d.Block())
		isPass := false
		for _, f := range facts {
			if cmp, ok := f.AsCmp(); ok && cmp.Op == token.EQL && valCall != nil &&
				(cmp.X == valCall && IsNilConst(cmp.Y) || cmp.Y == valCall && IsNilConst(cmp.X)) {
				isPass = true
			}
		}
		if !isPass {
			continue
		}
		atoms := map[string]bool{}
		var extra []string
		for _, f := range facts {
			cmp, ok := f.AsCmp()
			if !ok {
				extra = append(extra, f.Cond.String())
				continue
			}
			if cmp.X == valCall || cmp.Y == valCall {
				continue
			}
			a, okA := sideCell(cmp.X)
			b, okB := sideCell(cmp.Y)
			if cmp.Op == token.EQL && okA && okB && a.field == b.field && a.method == b.method && a.side != b.side {
				atoms[a.field] = true
				continue
			}
			extra = append(extra, f.Cond.String())
		}
		want := []string{"protocol", "codec", "reqCompression"}
		missing := []string{}
		for _, w := range want {
			if !atoms[w] {
				missing = append(missing, w)
			}
		}
		c.Check(len(missing) == 0 && len(extra) == 0 && len(atoms) == 3, "C13.3", FuncName(entry), "pass-through-condition", d.Pos(),
			"pass-through is taken exactly when client and server agree on protocol(), codec.Name() and reqCompression.Name()",
			"pass-through condition is not exactly the three client/server equalities (missing: "+joinStr(missing)+"; extra conditions: "+joinStr(extra)+"): requests needing no conversion would be transformed, or requests needing conversion forwarded raw")
	}
}

type sideRef struct{ side, field, method string }

// sideCell recognises  X.client.F.m()  /  X.server.F.m().
func sideCell(v ssa.Value) (sideRef, bool) {
	call, ok := v.(*ssa.Call)
	if !ok {
		return sideRef{}, false
	}
	cc := call.Common()
	var recv ssa.Value
	var method string
	if cc.IsInvoke() {
		recv, method = cc.Value, N(cc.Method)
	} else if sc := cc.StaticCallee(); sc != nil && len(cc.Args) == 1 && sc.Signature.Recv() != nil {
		recv, method = cc.Args[0], N(sc)
	} else {
		return sideRef{}, false
	}
	u, ok := strip(recv).(*ssa.UnOp)
	if !ok || u.Op != token.MUL {
		return sideRef{}, false
	}
	inner, ok := u.X.(*ssa.FieldAddr)
	if !ok {
		return sideRef{}, false
	}
	outer, ok := inner.X.(*ssa.FieldAddr)
	if !ok {
		return sideRef{}, false
	}
	side := N(FieldOfAddr(outer))
	if side != "client" && side != "server" {
		return sideRef{}, false
	}
	return sideRef{side, N(FieldOfAddr(inner)), method}, true
}

func dispatchLabel(d ssa.CallInstruction) string {
	// label by the handler cell that is dispatched to (field name), not by position
	cc := d.Common()
	if cc.IsInvoke() {
		if f := LoadedField(cc.Value); f != nil {
			return N(f)
		}
	}
	return CalleeName(d)
}

func uniq(s []string) []string {
	sort.Strings(s)
	var out []string
	for i, x := range s {
		if i == 0 || s[i-1] != x {
			out = append(out, x)
		}
	}
	return out
}

// isRestoreStore: a store whose value is a load of an operation field.
func isRestoreStore(p *Prog, in ssa.Instruction) bool {
	st, ok := in.(*ssa.Store)
	if !ok {
		return false
	}
	f := LoadedField(st.Val)
	return f != nil && fieldOwner(f, p) == "operation"
}

// findRestore finds stores in fn to the request cell whose value is a load of an
// operation field; returns them and that field.
func findRestore(p *Prog, fn *ssa.Function, cell string) ([]*ssa.Store, *types.Var) {
	var out []*ssa.Store
	var save *types.Var
	target := cell
	if cell == "Header-contents" {
		target = "Request.Header"
	}
	for _, w := range FieldWrites(fn) {
		bt := w.Base.Type()
		name := ""
		switch {
		case isPtrTo(bt, "net/http", "Request"):
			name = "Request." + N(w.Field)
		case isPtrTo(bt, "net/url", "URL"):
			name = "URL." + N(w.Field)
		}
		if name != target {
			continue
		}
		f := LoadedField(w.Store.Val)
		if f == nil || fieldOwner(f, p) != "operation" {
			continue
		}
		if save != nil && save != f {
			continue
		}
		save = f
		out = append(out, w.Store)
	}
	return out, save
}

// checkSave verifies that operation.saveFld is stored, in one of the pre
// functions, from the request's own cell (Clone() for the header map) and that
// in that function no mutation of the cell (direct or through a callee) can
// happen before the save.
func checkSave(p *Prog, pre map[*ssa.Function]bool, writesBy map[*ssa.Function]map[string][]ssa.Instruction, cell string, saveFld *types.Var) (bool, string) {
	wantField := cell
	if cell == "Header-contents" {
		wantField = "Request.Header"
	}
	var saveFn *ssa.Function
	var saveSt *ssa.Store
	for _, f := range SortedFuncs(pre) {
		for _, st := range StoresToField(f, saveFld) {
			ok := false
			for _, l := range Origins(st.Val) {
				switch {
				case cell == "Header-contents" && l.Kind == "call" && IsCallTo(l.Call, "(net/http.Header).Clone"):
					if lf := LoadedField(l.Call.Common().Args[0]); lf != nil && N(lf) == "Header" {
						ok = true
					}
				case cell != "Header-contents" && l.Kind == "load" && l.Field != nil:
					if "Request."+N(l.Field) == wantField || "URL."+N(l.Field) == wantField {
						ok = true
					}
				}
			}
			if ok {
				if saveFn != nil && saveFn != f {
					return false, "it is saved in more than one function (" + FuncName(saveFn) + ", " + FuncName(f) + "), cannot order the saves"
				}
				saveFn, saveSt = f, st
			}
		}
	}
	if saveFn == nil {
		return false, "that field is never saved from the request's " + wantField + " before delegation"
	}
	// other stores to the save field (would overwrite the saved original)
	for _, f := range p.Funcs {
		for _, st := range StoresToField(f, saveFld) {
			if st != saveSt && !baseFresh(st.Addr.(*ssa.FieldAddr).X) {
				return false, "operation." + N(saveFld) + " is also stored in " + FuncName(f) + " (the saved original can be overwritten)"
			}
		}
	}
	// mutation before save inside saveFn?
	mutates := func(in ssa.Instruction) bool {
		for _, m := range writesBy[saveFn][cell] {
			if m == in {
				return true
			}
		}
		if ci, ok := in.(ssa.CallInstruction); ok {
			for _, cal := range p.CalleesAt(ci) {
				if reachWritesCell(p, cal, cell) {
					return true
				}
			}
		}
		return false
	}
	found, path := PathQuery{Target: mutates, Avoid: func(in ssa.Instruction) bool { return in == ssa.Instruction(saveSt) }}.Search(saveFn, nil)
	if found {
		return false, "a mutation of the cell can happen before the save in " + FuncName(saveFn) + ": " + witnessString(p, path)
	}
	// every writer function must be saveFn or reachable only below saveFn
	below := p.Reach(saveFn)
	for f, ws := range writesBy {
		if len(ws[cell]) > 0 && !below[f] {
			return false, "the cell is also written by " + FuncName(f) + ", which does not run under " + FuncName(saveFn) + " (cannot show the save precedes it)"
		}
	}
	return true, ""
}

// findRestoreSites returns the instructions of fn that restore the request cell
// from a saved operation field: direct stores, and calls of module helpers every
// path of which performs such a store (helper extraction is a common refactoring).
func findRestoreSites(p *Prog, fn *ssa.Function, cell string) ([]ssa.Instruction, *types.Var) {
	var out []ssa.Instruction
	stores, save := findRestore(p, fn, cell)
	for _, st := range stores {
		out = append(out, st)
	}
	for _, call := range Calls(fn) {
		if _, isDefer := call.(*ssa.Defer); isDefer {
			continue
		}
		for _, cal := range p.CalleesAt(call) {
			if !p.inScope(cal) || call.Common().IsInvoke() {
				continue
			}
			hs, hsave := findRestore(p, cal, cell)
			if len(hs) == 0 || (save != nil && hsave != save) {
				continue
			}
			isR := func(in ssa.Instruction) bool {
				for _, h := range hs {
					if in == ssa.Instruction(h) {
						return true
					}
				}
				return false
			}
			if ok, _ := MustPassToExit(cal, nil, isR, IsReturn, nil); ok {
				out = append(out, call)
				save = hsave
			}
		}
	}
	return out, save
}

// runC13RegistryLookupMatchesAdapter: C13.9 (seed C13j).  The gRPC wrapper advertises the "json"
// codec to the transcoder only if the gRPC server can actually decode it, which it finds out by
// asking grpc's codec registry.  The registry has two generations of API; a codec registered
// through the one is invisible (nil) through the other's getter.  The wrapper package itself
// fixes the generation: its exported adapter (the constructor the documentation tells users to
// pass to the registry) returns ONE of grpc's codec interfaces, and the lookup must be the getter
// that returns the same interface - otherwise a user who follows the documentation gets a
// transcoder that silently re-encodes every JSON request to proto (or rejects the codec).
// Type-level: result type of every grpc/encoding getter called == result type of the adapter.
func runC13RegistryLookupMatchesAdapter(c *Ctx) {
	p := c.P
	c.Rule("C13.9", "the codec-registry lookup uses the same codec interface the package's adapter implements", 1)
	const encPkg = "google.golang.org/grpc/encoding"
	var adapterT types.Type
	var adapter *ssa.Function
	for _, fn := range p.Funcs {
		if fn.Pkg == nil || fn.Pkg.Pkg.Path() != RootPath+"/vanguardgrpc" || fn.Signature.Recv() != nil || fn.Parent() != nil {
			continue
		}
		if fn.Object() == nil || !fn.Object().Exported() || fn.Signature.Results().Len() != 1 {
			continue
		}
		if nt, ok := fn.Signature.Results().At(0).Type().(*types.Named); ok && nt.Obj().Pkg() != nil && nt.Obj().Pkg().Path() == encPkg {
			adapterT, adapter = nt, fn
		}
	}
	if adapterT == nil {
		c.Bad("C13.9", "vanguardgrpc", "lookup-matches-adapter", token.NoPos, "the wrapper package exports no constructor that returns one of grpc's codec interfaces: shape changed")
		return
	}
	n := 0
	for _, fn := range p.Funcs {
		if fn.Pkg == nil || fn.Pkg.Pkg.Path() != RootPath+"/vanguardgrpc" {
			continue
		}
		for _, call := range Calls(fn) {
			sc := call.Common().StaticCallee()
			if sc == nil || sc.Pkg == nil || sc.Pkg.Pkg.Path() != encPkg || sc.Signature.Results().Len() != 1 {
				continue
			}
			rt, ok := sc.Signature.Results().At(0).Type().(*types.Named)
			if !ok || rt.Obj().Pkg() == nil || rt.Obj().Pkg().Path() != encPkg {
				continue
			}
			if _, isIface := rt.Underlying().(*types.Interface); !isIface || sc.Signature.Params().Len() != 1 {
				continue
			}
			n++
			c.Check(types.Identical(rt, adapterT), "C13.9", FuncName(fn), "lookup-matches-adapter", call.Pos(),
				"the registry getter returns "+rt.Obj().Name()+", the interface "+N(adapter)+" implements",
				"the registry is asked through "+N(sc)+" (returns "+rt.Obj().Name()+") but the package's own adapter "+N(adapter)+" produces a "+types.TypeString(adapterT, nil)+": a JSON codec registered the documented way is invisible to this getter, so the wrapper does not pass JSON through to the gRPC server although it could")
		}
	}
	if n == 0 {
		c.Bad("C13.9", "vanguardgrpc", "lookup-matches-adapter", token.NoPos, "the wrapper no longer consults grpc's codec registry: shape changed")
	}
}

// runC13NotFoundIsTheSentinel: C13.10 (seed C13f).  The entry point hands a request to the
// unknown-endpoint handler when the failure `errors.Is` one package-level sentinel - a pointer
// identity.  So every "no such endpoint" produced on the way to the dispatch must BE that
// sentinel: a second *httpError with the sentinel's status (a friendlier 404 with a message) is
// answered by the transcoder itself and the configured handler never sees the request.  Decided
// by construction sites: outside the sentinel's initialiser, no request-time function builds an
// httpError whose status is the constant the sentinel carries.
func runC13NotFoundIsTheSentinel(c *Ctx) {
	p := c.P
	c.Rule("C13.10", "a not-found outcome is the sentinel the unknown-endpoint delegation matches", 1)
	entry := entryBody(p)
	// the sentinel: a package-level value the entry point passes to errors.Is
	var sentinels []*ssa.Global
	for _, call := range Calls(entry) {
		if !IsCallTo(call, "errors.Is") {
			continue
		}
		for _, o := range Origins(call.Common().Args[1]) {
			if g, ok := globalOf(o.V); ok && g.Pkg == p.Root {
				sentinels = append(sentinels, g)
			}
		}
	}
	if len(sentinels) == 0 {
		c.Bad("C13.10", FuncName(entry), "not-found-is-sentinel", entry.Pos(), "the entry point no longer matches a package-level sentinel with errors.Is: shape changed")
		return
	}
	codeFld := p.MustField("httpError", "code")
	// the status the sentinel carries: the constant stored into its code field by the package initialiser
	codes := map[int64]bool{}
	initFn := p.Root.Func("init")
	for _, st := range StoresToField(initFn, codeFld) {
		fa := st.Addr.(*ssa.FieldAddr)
		// is this literal stored into one of the sentinels?
		for _, ref := range *fa.X.Referrers() {
			if st2, ok := ref.(*ssa.Store); ok && st2.Val == fa.X {
				if g, isG := st2.Addr.(*ssa.Global); isG {
					for _, s := range sentinels {
						if g == s {
							if k, isK := ConstInt(st.Val); isK {
								codes[k] = true
							}
						}
					}
				}
			}
		}
	}
	if len(codes) == 0 {
		c.Bad("C13.10", "init", "not-found-is-sentinel", token.NoPos, "could not read the status constant of the not-found sentinel from the package initialiser")
		return
	}
	reach := p.RequestTimeReach()
	ctors := map[*ssa.Function]int{} // constructor -> index of the parameter stored into code
	for _, fn := range p.Funcs {
		if !p.inScope(fn) {
			continue
		}
		for _, st := range StoresToField(fn, codeFld) {
			if prm, ok := st.Val.(*ssa.Parameter); ok {
				for i, q := range fn.Params {
					if q == prm {
						ctors[fn] = i
					}
				}
			}
		}
	}
	n := 0
	for _, fn := range SortedFuncs(reach) {
		if !p.inScope(fn) || fn == initFn {
			continue
		}
		for _, st := range StoresToField(fn, codeFld) {
			if k, isK := ConstInt(st.Val); isK {
				n++
				c.Check(!codes[k], "C13.10", FuncName(fn), "not-found-is-sentinel", st.Pos(),
					"an httpError literal with a status other than the sentinel's",
					"a second httpError with the not-found status is built here: the entry point delegates to the unknown-endpoint handler only for the sentinel itself (errors.Is = identity), so this 'no such endpoint' is answered by the transcoder instead of being forwarded untouched")
			}
		}
		for _, call := range Calls(fn) {
			sc := call.Common().StaticCallee()
			idx, isCtor := ctors[sc]
			if sc == nil || !isCtor {
				continue
			}
			if k, isK := ConstInt(call.Common().Args[idx]); isK {
				n++
				c.Check(!codes[k], "C13.10", FuncName(fn), "not-found-is-sentinel", call.Pos(),
					"an httpError constructed with a status other than the sentinel's",
					"a second httpError with the not-found status is constructed here: the entry point delegates to the unknown-endpoint handler only for the sentinel itself (errors.Is = identity), so this 'no such endpoint' is answered by the transcoder instead of being forwarded untouched")
			}
		}
	}
	_ = n
}

// runC13ClassificationIgnoresParseErrors: C13.11 (seed C13l).  Classifying the client's protocol
// happens before endpoint resolution and before the pass-through decision, so "cannot classify"
// (415) also hits requests the middleware should merely forward: unmatched paths owed to the
// unknown-endpoint handler, REST requests to a REST target.  Classification therefore looks at
// the Content-Type, the method and the presence of query parameters only; a query string that
// does not parse cleanly ("?v=1;lang=en", a stray '%') is somebody else's business.  Structural:
// the classifier (the function that yields the client protocol handler from the request) has no
// branch on an error value.
func runC13ClassificationIgnoresParseErrors(c *Ctx) {
	p := c.P
	c.Rule("C13.11", "protocol classification never fails because something did not parse", 1)
	cph := p.Iface("clientProtocolHandler")
	n := 0
	for _, fn := range p.Funcs {
		if !p.inScope(fn) || fn.Parent() != nil || len(fn.Params) != 1 || !isPtrTo(fn.Params[0].Type(), "net/http", "Request") {
			continue
		}
		res := fn.Signature.Results()
		if res.Len() == 0 || cph == nil || !types.Identical(res.At(0).Type().Underlying(), cph) {
			continue
		}
		n++
		bad := token.NoPos
		badWhat := ""
		for _, b := range fn.Blocks {
			iff, ok := b.Instrs[len(b.Instrs)-1].(*ssa.If)
			if !ok {
				continue
			}
			bo, ok := iff.Cond.(*ssa.BinOp)
			if !ok {
				continue
			}
			for _, side := range []ssa.Value{bo.X, bo.Y} {
				if isErrorType(side.Type()) && !IsNilConst(side) {
					bad = bo.Pos()
					badWhat = side.String()
					if ex, isEx := side.(*ssa.Extract); isEx {
						if call, isCall := ex.Tuple.(*ssa.Call); isCall {
							badWhat = CalleeName(call)
						}
					}
				}
			}
		}
		c.Check(bad == token.NoPos, "C13.11", FuncName(fn), "classification-has-no-error-branch", fn.Pos(),
			"the classifier does not branch on any error value",
			"the protocol classifier branches on the error of "+badWhat+" ("+p.Pos(bad)+"): a request whose query string (or other detail) does not parse cleanly becomes 'unclassifiable' and is answered 415 by the middleware - before endpoint resolution and before the pass-through decision, so also for requests that were to be forwarded untouched")
	}
	if n == 0 {
		c.Bad("C13.11", "package", "classification-has-no-error-branch", token.NoPos, "no function classifies a request into a client protocol handler: shape changed")
	}
}

// runC13RegistryLookupExact: C13.12 (seed C13m).  The decision 'no conversion needed' compares
// NAMES: the client's codec / compression name with the names the service lists, by string
// equality and set membership.  That is only meaningful if a name that resolves in the registry is
// the registered name itself.  A lookup that normalises its argument first (cuts parameters,
// trims, folds case) lets "json; charset=utf-8" resolve while every later comparison still sees
// the raw string and misses: the request is converted (re-encoded, Content-Length dropped,
// query rewritten) although the service accepts it as it is.  Normalising belongs where the name
// is extracted from the header, so that one spelling is stored.  Structural: in every method of a
// module map type keyed by string, an index into the receiver whose key derives from a string
// parameter uses that parameter unchanged.
func runC13RegistryLookupExact(c *Ctx) {
	p := c.P
	c.Rule("C13.12", "a name resolves in a codec/compression registry only as the registered spelling (lookups do not normalise their argument)", 1)
	n := 0
	for _, fn := range p.Funcs {
		if !p.inScope(fn) || fn.Signature.Recv() == nil || len(fn.Params) < 2 {
			continue
		}
		rt := fn.Signature.Recv().Type()
		nt, ok := types.Unalias(rt).(*types.Named)
		if !ok {
			continue
		}
		mt, ok := nt.Underlying().(*types.Map)
		if !ok {
			continue
		}
		if bt, ok := mt.Key().Underlying().(*types.Basic); !ok || bt.Kind() != types.String {
			continue
		}
		recv := fn.Params[0]
		ForEachInstr(fn, func(in ssa.Instruction) {
			lk, ok := in.(*ssa.Lookup)
			if !ok || strip(lk.X) != ssa.Value(recv) {
				return
			}
			var from *ssa.Parameter
			for _, l := range Origins(lk.Index) {
				if l.Kind == "param" {
					if prm, ok := l.V.(*ssa.Parameter); ok && prm != recv {
						if bt, ok := prm.Type().Underlying().(*types.Basic); ok && bt.Kind() == types.String {
							from = prm
						}
					}
				}
			}
			if from == nil {
				return
			}
			n++
			c.Check(strip(lk.Index) == ssa.Value(from), "C13.12", FuncName(fn), "lookup-key-is-the-argument", lk.Pos(),
				"the registry is indexed with the caller's name as given",
				"the registry is indexed with a value computed from the caller's name, not the name itself: a spelling that is not the registered one resolves, while the comparisons that decide pass-through and negotiation still see the raw string")
		})
	}
	if n == 0 {
		c.Bad("C13.12", "package", "lookup-key-is-the-argument", token.NoPos, "no registry lookup by a caller-supplied name found: shape changed")
	}
}

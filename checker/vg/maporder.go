package vg

import (
	"go/token"
	"go/types"
	"sort"
	"strings"

	"golang.org/x/tools/go/ssa"
)

// Map-iteration-order analysis (rule C15.5).
//
// Go randomises the order in which `range` visits the entries of a map.  A loop
// over a map is harmless when its iterations commute: each one touches only
// state that belongs to its own key (an entry of another map under the same,
// injectively derived key), or performs an idempotent write (the same constant
// into a set), or adds to a counter.  Everything else - appending to a shared
// header value, writing into a builder, calling something that mutates a shared
// message, leaving the loop at the first entry that satisfies a condition with
// a value of that entry - makes the result depend on the order, i.e. on a coin
// the runtime tosses per loop, and then the outcome of an RPC is no longer a
// function of the request, the configuration and the backend.
//
// The analysis is per loop, on SSA, with summaries for module callees.  What it
// cannot classify it reports: the loops are few and their bodies small.

type mapLoop struct {
	fn   *ssa.Function
	rng  *ssa.Range
	next *ssa.Next
	head *ssa.BasicBlock
	in   map[*ssa.BasicBlock]bool // natural loop including head
}

// mapLoops finds the range-over-map loops of fn.
func mapLoops(fn *ssa.Function) []*mapLoop {
	var out []*mapLoop
	for _, b := range fn.Blocks {
		for _, in := range b.Instrs {
			nx, ok := in.(*ssa.Next)
			if !ok || nx.IsString {
				continue
			}
			rng, ok := nx.Iter.(*ssa.Range)
			if !ok {
				continue
			}
			if _, isMap := rng.X.Type().Underlying().(*types.Map); !isMap {
				continue
			}
			l := &mapLoop{fn: fn, rng: rng, next: nx, head: b, in: map[*ssa.BasicBlock]bool{b: true}}
			// blocks reachable from the loop body entry without passing the head
			reach := map[*ssa.BasicBlock]bool{}
			var entry []*ssa.BasicBlock
			if _, isIf := b.Instrs[len(b.Instrs)-1].(*ssa.If); isIf && len(b.Succs) == 2 {
				entry = []*ssa.BasicBlock{b.Succs[0]}
			} else {
				entry = b.Succs
			}
			var dfs func(x *ssa.BasicBlock)
			dfs = func(x *ssa.BasicBlock) {
				if x == b || reach[x] {
					return
				}
				reach[x] = true
				for _, s := range x.Succs {
					dfs(s)
				}
			}
			for _, e := range entry {
				dfs(e)
			}
			// of those, the ones from which the head is reachable again
			var back func(x *ssa.BasicBlock)
			back = func(x *ssa.BasicBlock) {
				if !reach[x] || l.in[x] {
					return
				}
				l.in[x] = true
				for _, pr := range x.Preds {
					back(pr)
				}
			}
			for _, pr := range b.Preds {
				back(pr)
			}
			out = append(out, l)
		}
	}
	return out
}

func (l *mapLoop) isKey(v ssa.Value) bool {
	ex, ok := v.(*ssa.Extract)
	return ok && ex.Tuple == l.next && ex.Index == 1
}

func (l *mapLoop) definedIn(v ssa.Value) bool {
	in, ok := v.(ssa.Instruction)
	return ok && in.Block() != nil && l.in[in.Block()]
}

// keyForm describes how v is derived from "the key" (isKey) as a string such as
// `K`, `"Trailer-"+K`, `K-"Trailer-"` (a prefix known to be present was cut).
// ok is false when the derivation is not injective (or v is not derived from
// the key at all, form "").
func keyForm(v ssa.Value, isKey func(ssa.Value) bool, use *ssa.BasicBlock, depth int) (form string, ok bool) {
	if depth > 6 {
		return "", false
	}
	v = strip(v)
	if isKey(v) {
		return "K", true
	}
	switch x := v.(type) {
	case *ssa.BinOp:
		if x.Op == token.ADD {
			if c, isC := ConstString(x.X); isC {
				f, ok := keyForm(x.Y, isKey, use, depth+1)
				if f == "" {
					return "", false
				}
				return quote(c) + "+" + f, ok
			}
			if c, isC := ConstString(x.Y); isC {
				f, ok := keyForm(x.X, isKey, use, depth+1)
				if f == "" {
					return "", false
				}
				return f + "+" + quote(c), ok
			}
		}
	case *ssa.Phi:
		form := ""
		ok := true
		for i, e := range x.Edges {
			f, fok := keyForm(e, isKey, use, depth+1)
			if i > 0 && f != form {
				if f == "" || form == "" {
					return "", false
				}
				return "either(" + form + " | " + f + ")", false
			}
			form, ok = f, ok && fok
		}
		return form, ok && form != ""
	case *ssa.Extract:
		if call, isCall := x.Tuple.(*ssa.Call); isCall && x.Index == 0 && IsCallTo(call, "strings.CutPrefix", "strings.CutSuffix") {
			c, isC := ConstString(call.Call.Args[1])
			f, ok := keyForm(call.Call.Args[0], isKey, use, depth+1)
			if f == "" || !isC {
				return "", false
			}
			guarded := false
			for _, fa := range factsIncludingOwn(use) {
				if ex, isEx := fa.Cond.(*ssa.Extract); isEx && fa.Truth && ex.Tuple == call && ex.Index == 1 {
					guarded = true
				}
			}
			return f + "-" + quote(c), ok && guarded
		}
	case *ssa.Slice:
		// k[len(prefix):] under strings.HasPrefix(k, prefix) - TrimPrefix written by hand
		// (refactoring B23_r5)
		if n, isN := ConstInt(x.Low); isN && x.High == nil && x.Max == nil {
			f, ok := keyForm(x.X, isKey, use, depth+1)
			if f == "" {
				return "", false
			}
			for _, fa := range factsIncludingOwn(use) {
				garg, gc, gname, isP := prefixFact(fa)
				if !isP || !fa.Truth || gname != "strings.HasPrefix" || int64(len(gc)) != n {
					continue
				}
				if gf, _ := keyForm(garg, isKey, use, depth+1); gf == f {
					return f + "-" + quote(gc), ok
				}
			}
			return "", false
		}
	case *ssa.Call:
		switch {
		case IsCallTo(x, "strings.TrimPrefix", "strings.TrimSuffix"):
			c, isC := ConstString(x.Call.Args[1])
			f, ok := keyForm(x.Call.Args[0], isKey, use, depth+1)
			if f == "" || !isC {
				return "", false
			}
			want := "strings.HasPrefix"
			if IsCallTo(x, "strings.TrimSuffix") {
				want = "strings.HasSuffix"
			}
			guarded := false
			for _, fa := range factsIncludingOwn(use) {
				garg, gc, gname, isP := prefixFact(fa)
				if !isP || !fa.Truth || gname != want {
					continue
				}
				gf, _ := keyForm(garg, isKey, use, depth+1)
				if gc == c && gf == f {
					guarded = true
				}
			}
			return f + "-" + quote(c), ok && guarded
		case IsCallTo(x, "net/textproto.CanonicalMIMEHeaderKey", "net/http.CanonicalHeaderKey", "strings.ToLower", "strings.ToUpper", "strings.TrimSpace"):
			f, _ := keyForm(x.Call.Args[0], isKey, use, depth+1)
			if f == "" {
				return "", false
			}
			return "fold(" + f + ")", false // not injective
		}
	}
	return "", false
}

func quote(s string) string { return `"` + s + `"` }

// factsIncludingOwn: branch facts holding in block b.
func factsIncludingOwn(b *ssa.BasicBlock) []Fact {
	if b == nil {
		return nil
	}
	return FactsAt(b)
}

// mapAcc is one keyed access to a map.
type mapAcc struct {
	m        ssa.Value // the map (caller's value)
	kind     string    // store | delete | lookup
	form     string
	formOK   bool
	valConst string // non-empty: the stored value is this constant
	pos      token.Pos
	via      string // description
}

// ordSummary is what a module function does, in terms of its parameters.
type ordSummary struct {
	bad  string // non-empty: an effect that cannot be classified
	accs []paramAcc
}

type paramAcc struct {
	mapParam int
	keyParam int
	kind     string
	form     string // in terms of P (the key parameter)
	formOK   bool
	valConst string
	via      string
}

var pureStdPrefixes = []string{
	"strings.", "strconv.", "unicode.", "unicode/utf8.", "errors.", "bytes.", "path.", "math.", "math/bits.",
	"fmt.Sprintf", "fmt.Sprint", "fmt.Errorf", "net/url.QueryEscape", "net/url.PathEscape", "net/url.QueryUnescape", "net/url.PathUnescape",
	"net/textproto.CanonicalMIMEHeaderKey", "net/textproto.TrimString", "net/http.CanonicalHeaderKey", "net/http.StatusText",
	"slices.Contains", "slices.Index", "slices.Equal", "sort.SearchStrings", "(time.Duration).",
	"mime.ParseMediaType", "mime.FormatMediaType", "encoding/base64.", "(*encoding/base64.Encoding).",
	"(net/http.Header).Clone", "(net/url.Values).Get", "(net/url.Values).Has", "(net/url.Values).Encode",
}

func isPureStd(name string) bool {
	for _, p := range pureStdPrefixes {
		if strings.HasPrefix(name, p) {
			return true
		}
	}
	return false
}

func constDesc(v ssa.Value) string {
	v = strip(v)
	if c, ok := v.(*ssa.Const); ok {
		if c.Value == nil {
			return "zero(" + c.Type().String() + ")"
		}
		return c.Value.ExactString()
	}
	// struct{}{} literal: a load from a fresh zero alloc of empty struct type
	if st, ok := v.Type().Underlying().(*types.Struct); ok && st.NumFields() == 0 {
		return "struct{}{}"
	}
	return ""
}

// classifyCall classifies one call in terms of keyed map accesses.  isKey and
// use parameterise the key derivation.  pure=true means no effect at all.
func (p *Prog) classifyCall(call ssa.CallInstruction, isKey func(ssa.Value) bool, depth int) (accs []mapAcc, bad string) {
	cc := call.Common()
	name := CalleeName(call)
	use := call.Block()
	mk := func(m, key ssa.Value, kind string, val ssa.Value) mapAcc {
		f, ok := keyForm(key, isKey, use, 0)
		a := mapAcc{m: m, kind: kind, form: f, formOK: ok, pos: call.Pos(), via: name}
		if val != nil {
			a.valConst = constDesc(val)
		}
		return a
	}
	switch name {
	case "builtin append", "builtin len", "builtin cap", "builtin min", "builtin max", "builtin real", "builtin imag", "builtin complex", "builtin new", "builtin make":
		return nil, ""
	case "builtin delete":
		return []mapAcc{mk(cc.Args[0], cc.Args[1], "delete", nil)}, ""
	case "(net/http.Header).Set", "(net/http.Header).Add", "(net/textproto.MIMEHeader).Set", "(net/textproto.MIMEHeader).Add", "(net/url.Values).Set", "(net/url.Values).Add":
		return []mapAcc{mk(cc.Args[0], cc.Args[1], "store", cc.Args[2])}, ""
	case "(net/http.Header).Del", "(net/textproto.MIMEHeader).Del", "(net/url.Values).Del":
		return []mapAcc{mk(cc.Args[0], cc.Args[1], "delete", nil)}, ""
	case "(net/http.Header).Get", "(net/http.Header).Values", "(net/textproto.MIMEHeader).Get", "(net/textproto.MIMEHeader).Values":
		return []mapAcc{mk(cc.Args[0], cc.Args[1], "lookup", nil)}, ""
	}
	if isPureStd(name) {
		return nil, ""
	}
	if cc.IsInvoke() {
		if N(cc.Method) == "Error" || N(cc.Method) == "String" {
			return nil, ""
		}
		if readOnlyProtoreflect(cc) {
			return nil, ""
		}
		return nil, "calls " + name + " (an interface method: its effect on shared state is unknown)"
	}
	sc := cc.StaticCallee()
	if sc == nil {
		return nil, "calls a function value (" + name + "): its effect on shared state is unknown"
	}
	if !p.inModule(sc) || sc.Blocks == nil {
		return nil, "calls " + name + ", which is not known to be free of order-relevant effects"
	}
	if depth > 3 {
		return nil, "calls " + name + " (summary depth exceeded)"
	}
	sum := p.orderSummary(sc, depth+1)
	if sum.bad != "" {
		return nil, "calls " + name + ", which " + sum.bad
	}
	for _, pa := range sum.accs {
		if pa.mapParam >= len(cc.Args) {
			return nil, "calls " + name + " (summary/argument mismatch)"
		}
		a := mapAcc{m: cc.Args[pa.mapParam], kind: pa.kind, valConst: pa.valConst, pos: call.Pos(), via: name + " -> " + pa.via}
		if pa.keyParam >= 0 && pa.keyParam < len(cc.Args) {
			f, ok := keyForm(cc.Args[pa.keyParam], isKey, use, 0)
			if f != "" {
				a.form = strings.ReplaceAll(pa.form, "P", f)
				a.formOK = ok && pa.formOK
			}
		}
		accs = append(accs, a)
	}
	return accs, ""
}

var ordSums = map[*ssa.Function]*ordSummary{}

// orderSummary summarises the effects of a module function in terms of its
// parameters: either nothing, or keyed accesses to maps it was handed.
func (p *Prog) orderSummary(fn *ssa.Function, depth int) *ordSummary {
	if s, ok := ordSums[fn]; ok {
		if s == nil {
			return &ordSummary{bad: "is recursive"}
		}
		return s
	}
	ordSums[fn] = nil
	sum := &ordSummary{}
	paramIdx := func(v ssa.Value) int {
		v = strip(v)
		for i, pr := range fn.Params {
			if pr == v {
				return i
			}
		}
		return -1
	}
	setBad := func(s string) {
		if sum.bad == "" {
			sum.bad = s
		}
	}
	ForEachInstr(fn, func(in ssa.Instruction) {
		if sum.bad != "" {
			return
		}
		switch x := in.(type) {
		case *ssa.Store:
			if !localAddr(x.Addr, nil) {
				setBad("stores through " + AddrPath(x.Addr) + " at " + p.Pos(x.Pos()))
			}
		case *ssa.MapUpdate:
			mi := paramIdx(x.Map)
			if mi < 0 {
				if _, fresh := strip(x.Map).(*ssa.MakeMap); fresh {
					return
				}
				setBad("updates a map it does not own at " + p.Pos(x.Pos()))
				return
			}
			sum.accs = append(sum.accs, p.paramAccFor(fn, mi, x.Key, "store", x.Value, x.Block(), "map store"))
		case *ssa.Send, *ssa.Go, *ssa.Defer, *ssa.Panic:
			setBad("has a send/go/defer/panic at " + p.Pos(in.Pos()))
		case *ssa.Call:
			// the key is whichever parameter the access is keyed by: try each
			var got []mapAcc
			bad := ""
			got, bad = p.classifyCall(x, func(v ssa.Value) bool { return paramIdx(v) >= 0 && isStringLike(v.Type()) }, depth)
			if bad != "" {
				setBad(bad)
				return
			}
			for _, a := range got {
				mi := paramIdx(a.m)
				if mi < 0 {
					if _, fresh := strip(a.m).(*ssa.MakeMap); fresh {
						continue
					}
					setBad("changes a map it does not own via " + a.via + " at " + p.Pos(x.Pos()))
					return
				}
				// which parameter is the key?
				kp := -1
				for _, arg := range x.Call.Args {
					if i := paramIdx(arg); i >= 0 && i != mi && isStringLike(arg.Type()) {
						kp = i
					}
				}
				form := strings.ReplaceAll(a.form, "K", "P")
				sum.accs = append(sum.accs, paramAcc{mapParam: mi, keyParam: kp, kind: a.kind, form: form, formOK: a.formOK && kp >= 0, valConst: a.valConst, via: a.via})
			}
		}
	})
	ordSums[fn] = sum
	return sum
}

func isStringLike(t types.Type) bool {
	b, ok := t.Underlying().(*types.Basic)
	return ok && b.Info()&types.IsString != 0
}

func (p *Prog) paramAccFor(fn *ssa.Function, mapParam int, key ssa.Value, kind string, val ssa.Value, use *ssa.BasicBlock, via string) paramAcc {
	kp := -1
	isKey := func(v ssa.Value) bool {
		for i, pr := range fn.Params {
			if pr == strip(v) && i != mapParam {
				kp = i
				return true
			}
		}
		return false
	}
	f, ok := keyForm(key, isKey, use, 0)
	pa := paramAcc{mapParam: mapParam, keyParam: kp, kind: kind, form: strings.ReplaceAll(f, "K", "P"), formOK: ok, via: via}
	if val != nil {
		pa.valConst = constDesc(val)
	}
	return pa
}

// localAddr: addr points into memory allocated by this function (and, when in
// is given, allocated inside the loop, i.e. per iteration).
func localAddr(addr ssa.Value, in func(ssa.Value) bool) bool {
	for i := 0; i < 12; i++ {
		switch x := addr.(type) {
		case *ssa.FieldAddr:
			addr = x.X
		case *ssa.IndexAddr:
			addr = x.X
		case *ssa.Slice:
			addr = x.X
		case *ssa.Alloc:
			return in == nil || in(x)
		case *ssa.MakeSlice:
			return in == nil || in(x)
		default:
			return false
		}
	}
	return false
}

// orderIssue is one reason why a loop's result depends on iteration order.
type orderIssue struct {
	pos       token.Pos
	construct string
	what      string
}

// analyseMapLoop decides whether the iterations of l commute.
func (p *Prog) analyseMapLoop(l *mapLoop) (issues []orderIssue, facts []string) {
	add := func(pos token.Pos, construct, what string) {
		issues = append(issues, orderIssue{pos, construct, what})
	}
	// ---- accumulators: phis of the head block
	accum := map[ssa.Value]bool{}
	chain := map[ssa.Value]bool{} // values that only carry an accumulator to its next value
	mapAccum := map[ssa.Value]bool{}
	for _, in := range l.head.Instrs {
		phi, ok := in.(*ssa.Phi)
		if !ok {
			continue
		}
		accum[phi] = true
		var ups []ssa.Value
		for i, pr := range l.head.Preds {
			if l.in[pr] {
				ups = append(ups, phi.Edges[i])
			}
		}
		kind, why := classifyAccumulator(l, phi, ups, chain)
		switch kind {
		case "counter", "flag", "unchanged":
			facts = append(facts, "accumulator "+phi.Name()+" ("+phi.Comment+"): "+kind)
		case "lazy-map":
			mapAccum[phi] = true
			facts = append(facts, "accumulator "+phi.Name()+" ("+phi.Comment+"): map created on first use")
		case "collect":
			if sortedAfter(l, phi) {
				facts = append(facts, "accumulator "+phi.Name()+" ("+phi.Comment+"): collected, then sorted before any other use")
			} else {
				add(phi.Pos(), "accumulates "+phi.Comment, "the loop appends to "+phi.Comment+" in iteration order and the result is used without being sorted")
			}
		default:
			add(phi.Pos(), "accumulates "+phi.Comment, "the loop carries "+phi.Comment+" from one iteration to the next ("+why+"): its final value depends on the order")
		}
	}
	// in-loop reads of an accumulator other than its own update
	for a := range accum {
		for _, ref := range *a.Referrers() {
			if !l.in[ref.Block()] {
				continue
			}
			if rv, ok := ref.(ssa.Value); ok && (chain[rv] || accum[rv]) {
				continue
			}
			if mapAccum[a] {
				switch r := ref.(type) {
				case *ssa.MapUpdate:
					if r.Map == a {
						continue
					}
				case *ssa.Lookup:
					if r.X == a {
						continue
					}
				case *ssa.BinOp:
					if IsNilConst(r.X) || IsNilConst(r.Y) {
						continue
					}
				}
			}
			add(ref.Pos(), "reads "+a.(*ssa.Phi).Comment+" inside the loop", "the loop reads "+a.(*ssa.Phi).Comment+", which it carries between iterations: what it reads depends on the order")
		}
	}

	// ---- effects
	var accs []mapAcc
	nEffects := 0
	loopLocal := func(v ssa.Value) bool { return l.definedIn(v) }
	for _, b := range l.fn.Blocks {
		if !l.in[b] {
			continue
		}
		for _, in := range b.Instrs {
			switch x := in.(type) {
			case *ssa.Store:
				if localAddr(x.Addr, loopLocal) {
					continue
				}
				nEffects++
				if c := constDesc(x.Val); c != "" && !loadedInLoop(l, x.Addr) {
					facts = append(facts, "store of constant "+c+" to "+AddrPath(x.Addr)+": idempotent")
					continue
				}
				add(x.Pos(), "store "+AddrPath(x.Addr), "the loop stores into "+AddrPath(x.Addr)+", which outlives the iteration: the last entry visited wins")
			case *ssa.MapUpdate:
				f, ok := keyForm(x.Key, l.isKey, b, 0)
				accs = append(accs, mapAcc{m: x.Map, kind: "store", form: f, formOK: ok, valConst: constDesc(x.Value), pos: x.Pos(), via: "map store"})
			case *ssa.Lookup:
				if _, isMap := x.X.Type().Underlying().(*types.Map); isMap {
					f, ok := keyForm(x.Index, l.isKey, b, 0)
					accs = append(accs, mapAcc{m: x.X, kind: "lookup", form: f, formOK: ok, pos: x.Pos(), via: "map lookup"})
				}
			case *ssa.Send, *ssa.Go, *ssa.Defer, *ssa.Panic:
				nEffects++
				add(in.Pos(), "send/go/defer/panic", "a send, go, defer or panic inside the loop happens for whichever entry comes first")
			case *ssa.Call:
				got, bad := p.classifyCall(x, l.isKey, 0)
				if bad != "" {
					nEffects++
					add(x.Pos(), "call "+CalleeName(x), "the loop "+bad)
					continue
				}
				accs = append(accs, got...)
			}
		}
	}
	// group the accesses by map
	groupOf := func(m ssa.Value) string {
		m = strip(m)
		if mm, ok := m.(*ssa.MakeMap); ok {
			return "fresh:" + mm.Name()
		}
		if mapAccum[m] {
			return "acc:" + m.Name()
		}
		// the accumulator after its lazy initialisation: phi(accumulator, fresh map)
		if a := lazyMapRoot(m, mapAccum, l, 0); a != nil {
			return "acc:" + a.Name()
		}
		return "type:" + aliasTypeString(types.TypeString(m.Type(), shortQual))
	}
	groups := map[string][]mapAcc{}
	for _, a := range accs {
		g := groupOf(a.m)
		groups[g] = append(groups[g], a)
	}
	sameAsRanged := func(m ssa.Value) bool {
		a, b := strip(m), strip(l.rng.X)
		if a == b {
			return true
		}
		pa, pb := PathOf(a), PathOf(b)
		return pa != "" && pa == pb && !strings.Contains(pa, "?")
	}
	var gnames []string
	for g := range groups {
		gnames = append(gnames, g)
	}
	sort.Strings(gnames)
	for _, g := range gnames {
		as := groups[g]
		var writes []mapAcc
		for _, a := range as {
			if a.kind != "lookup" {
				writes = append(writes, a)
			}
		}
		if len(writes) == 0 {
			continue
		}
		nEffects += len(writes)
		// (a) idempotent set insertion
		idem := true
		for _, a := range writes {
			if a.kind != "store" || a.valConst == "" || a.valConst != writes[0].valConst {
				idem = false
			}
		}
		onlyLookups := len(writes) == len(as)
		if idem && onlyLookups {
			facts = append(facts, g+": every write stores the constant "+writes[0].valConst+" (set insertion)")
			{
				for _, a := range writes {
					if a.form != "K" && sameAsRanged(a.m) {
						add(a.pos, "insert into ranged map", "the loop inserts entries into the map it iterates: whether the new entries are visited is unspecified")
					}
				}
			}
			continue
		}
		// (b) deletions only
		dels := true
		for _, a := range writes {
			if a.kind != "delete" {
				dels = false
			}
		}
		if dels && onlyLookups {
			facts = append(facts, g+": deletions only")
			continue
		}
		// (c) every access under one injective key derivation
		form := as[0].form
		ok := true
		for _, a := range as {
			if !a.formOK || a.form != form {
				ok = false
			}
		}
		if ok {
			facts = append(facts, g+": every access is keyed by "+form+" (distinct per entry)")
			if form != "K" {
				for _, a := range writes {
					if a.kind == "store" && sameAsRanged(a.m) {
						add(a.pos, "insert into ranged map", "the loop inserts entries into the map it iterates: whether the new entries are visited is unspecified")
					}
				}
			}
			continue
		}
		var forms []string
		seen := map[string]bool{}
		for _, a := range as {
			f := a.form
			if f == "" {
				f = "a key that does not depend on the entry"
			} else if !a.formOK {
				f += " (not one-to-one)"
			}
			f = a.kind + " under " + f
			if !seen[f] {
				seen[f] = true
				forms = append(forms, f)
			}
		}
		sort.Strings(forms)
		add(writes[0].pos, "keyed writes "+strings.TrimPrefix(g, "type:"), "two entries of the iterated map can reach the same entry of the written map ("+strings.Join(forms, "; ")+"): which one wins, or in which order their values are appended, depends on the iteration order")
	}

	// ---- early exits and values that leave the loop
	early := false
	for b := range l.in {
		if b == l.head {
			continue
		}
		for _, s := range b.Succs {
			if !l.in[s] {
				early = true
			}
		}
	}
	leaks := map[string]token.Pos{}
	for b := range l.in {
		for _, in := range b.Instrs {
			v, ok := in.(ssa.Value)
			if !ok || accum[v] || v.Referrers() == nil {
				continue
			}
			if ex, isEx := v.(*ssa.Extract); isEx && ex.Tuple == l.next && ex.Index == 0 {
				continue
			}
			for _, ref := range *v.Referrers() {
				if ref.Block() == nil || l.in[ref.Block()] {
					continue
				}
				if _, dbg := ref.(*ssa.DebugRef); dbg {
					continue
				}
				leaks[describeLeak(p, ref)] = ref.Pos()
			}
		}
	}
	if len(leaks) > 0 {
		var ks []string
		for k := range leaks {
			ks = append(ks, k)
		}
		sort.Strings(ks)
		add(leaks[ks[0]], "early exit with a value of the entry", "the loop is left at the first entry that satisfies a condition and a value computed from that entry is used afterwards ("+strings.Join(ks, "; ")+"): which entry that is depends on the order")
	} else if early && nEffects > 0 {
		add(l.rng.Pos(), "early exit after effects", "the loop can be left before all entries were visited, after effects for an order-dependent subset of them")
	} else if early {
		facts = append(facts, "early exit without effects and without a value of the entry (an existence test)")
	}
	return issues, facts
}

func describeLeak(p *Prog, ref ssa.Instruction) string {
	switch ref.(type) {
	case *ssa.Return:
		return "returned at " + p.Pos(ref.Pos())
	case *ssa.Phi:
		return "merged into a variable read after the loop"
	}
	return "used at " + p.Pos(instrPos(ref))
}

// loadedInLoop: the loop reads the cell addr (by access path).
func loadedInLoop(l *mapLoop, addr ssa.Value) bool {
	path := AddrPath(addr)
	found := false
	for b := range l.in {
		for _, in := range b.Instrs {
			if u, ok := in.(*ssa.UnOp); ok && u.Op == token.MUL && AddrPath(u.X) == path {
				found = true
			}
		}
	}
	return found
}

// classifyAccumulator decides how a head phi is updated inside the loop.
func classifyAccumulator(l *mapLoop, phi *ssa.Phi, ups []ssa.Value, chain map[ssa.Value]bool) (kind, why string) {
	kinds := map[string]bool{}
	consts := map[string]bool{}
	var walk func(v ssa.Value, depth int) bool
	walk = func(v ssa.Value, depth int) bool {
		if depth > 10 {
			return false
		}
		if v == phi {
			kinds["unchanged"] = true
			return true
		}
		if c := constDesc(v); c != "" {
			if _, isConst := strip(v).(*ssa.Const); isConst {
				kinds["flag"] = true
				consts[c] = true
				return true
			}
		}
		if !l.definedIn(v) {
			why = "set to a value computed outside the loop"
			kinds["flag"] = true
			consts["outer:"+v.Name()] = true
			return true
		}
		switch x := v.(type) {
		case *ssa.Phi:
			chain[x] = true
			for _, e := range x.Edges {
				if !walk(e, depth+1) {
					return false
				}
			}
			return true
		case *ssa.BinOp:
			if !isIntegerLike(x.Type()) {
				why = "combined with " + x.Op.String() + " on a non-integer"
				return false
			}
			switch x.Op {
			case token.ADD, token.MUL, token.OR, token.AND, token.XOR:
			default:
				why = "combined with " + x.Op.String()
				return false
			}
			chain[x] = true
			kinds["counter"] = true
			// exactly one side carries the accumulator
			if reaches(x.X, phi, l, 0) {
				return walk(x.X, depth+1)
			}
			if reaches(x.Y, phi, l, 0) {
				return walk(x.Y, depth+1)
			}
			why = "overwritten by a computed value"
			return false
		case *ssa.Call:
			if IsCallTo(x, "builtin append") && len(x.Call.Args) > 0 {
				chain[x] = true
				kinds["collect"] = true
				return walk(x.Call.Args[0], depth+1)
			}
			// m = ensure(m, ...): a module helper that returns its argument or a fresh map
			if i := ensuresMapArg(x); i >= 0 {
				chain[x] = true
				kinds["lazy-map"] = true
				return walk(x.Call.Args[i], depth+1)
			}
		case *ssa.MakeMap:
			kinds["lazy-map"] = true
			return true
		case *ssa.ChangeType:
			chain[x] = true
			return walk(x.X, depth+1)
		}
		why = "overwritten by a value computed from the entry"
		return false
	}
	for _, u := range ups {
		if !walk(u, 0) {
			return "other", why
		}
	}
	delete(kinds, "unchanged")
	switch {
	case len(kinds) == 0:
		return "unchanged", ""
	case len(kinds) == 1 && kinds["flag"]:
		if len(consts) == 1 {
			return "flag", ""
		}
		return "other", "set to different constants on different paths"
	case len(kinds) == 1 && kinds["counter"]:
		return "counter", ""
	case len(kinds) == 1 && kinds["collect"]:
		return "collect", ""
	case len(kinds) == 1 && kinds["lazy-map"]:
		return "lazy-map", ""
	}
	return "other", "updated in more than one way"
}

// reaches: v is computed from target through in-loop phis/binops/appends.
func reaches(v, target ssa.Value, l *mapLoop, depth int) bool {
	if v == target {
		return true
	}
	if depth > 8 || !l.definedIn(v) {
		return false
	}
	switch x := v.(type) {
	case *ssa.Phi:
		for _, e := range x.Edges {
			if reaches(e, target, l, depth+1) {
				return true
			}
		}
	case *ssa.BinOp:
		return reaches(x.X, target, l, depth+1) || reaches(x.Y, target, l, depth+1)
	case *ssa.Call:
		if IsCallTo(x, "builtin append") && len(x.Call.Args) > 0 {
			return reaches(x.Call.Args[0], target, l, depth+1)
		}
	case *ssa.ChangeType:
		return reaches(x.X, target, l, depth+1)
	}
	return false
}

var sortCalls = []string{"sort.Strings", "sort.Ints", "sort.Slice", "sort.SliceStable", "sort.Sort", "sort.Stable", "slices.Sort", "slices.SortFunc", "slices.SortStableFunc"}

func isSortCall(c ssa.CallInstruction) bool {
	n := CalleeName(c)
	for _, s := range sortCalls {
		if n == s || strings.HasPrefix(n, s+"[") {
			return true
		}
	}
	return false
}

// sortedAfter: outside the loop, the collected slice is sorted before any other use.
func sortedAfter(l *mapLoop, phi *ssa.Phi) bool {
	var sorts []ssa.Instruction
	var others []ssa.Instruction
	var visit func(v ssa.Value, depth int)
	visit = func(v ssa.Value, depth int) {
		if depth > 3 || v.Referrers() == nil {
			return
		}
		for _, ref := range *v.Referrers() {
			if l.in[ref.Block()] {
				continue
			}
			switch r := ref.(type) {
			case *ssa.DebugRef:
			case ssa.CallInstruction:
				if isSortCall(r) {
					sorts = append(sorts, ref)
				} else {
					others = append(others, ref)
				}
			case *ssa.MakeInterface:
				// sort.Sort(sort.StringSlice(x)) and friends
				visit(r, depth+1)
			case *ssa.ChangeType:
				visit(r, depth+1)
			default:
				others = append(others, ref)
			}
		}
	}
	visit(phi, 0)
	if len(sorts) == 0 {
		return false
	}
	for _, o := range others {
		ok := false
		for _, s := range sorts {
			if s.Block() == o.Block() && instrBefore(s, o) || s.Block() != o.Block() && s.Block().Dominates(o.Block()) {
				ok = true
			}
		}
		if !ok {
			return false
		}
	}
	return true
}

// unsortedMapIterators: calls to maps.Keys / maps.Values / maps.All whose
// result is not handed straight to a sorting collector.
func unsortedMapIterators(fn *ssa.Function) []ssa.CallInstruction {
	var out []ssa.CallInstruction
	ForEachInstr(fn, func(in ssa.Instruction) {
		call, ok := in.(*ssa.Call)
		if !ok {
			return
		}
		n := CalleeName(call)
		if !(strings.HasPrefix(n, "maps.Keys") || strings.HasPrefix(n, "maps.Values") || strings.HasPrefix(n, "maps.All")) {
			return
		}
		sorted := call.Referrers() != nil && len(*call.Referrers()) > 0
		if call.Referrers() != nil {
			for _, ref := range *call.Referrers() {
				if _, dbg := ref.(*ssa.DebugRef); dbg {
					continue
				}
				rc, isCall := ref.(ssa.CallInstruction)
				if !isCall {
					sorted = false
					continue
				}
				rn := CalleeName(rc)
				if !(strings.HasPrefix(rn, "slices.Sorted")) {
					sorted = false
				}
			}
		}
		if !sorted {
			out = append(out, call)
		}
	})
	return out
}

// readOnlyProtoreflect: an interface call on a protobuf descriptor (all of whose
// methods are getters) or one of the getters of protoreflect.Message / Value
// containers.
func readOnlyProtoreflect(cc *ssa.CallCommon) bool {
	t := types.TypeString(cc.Value.Type(), nil)
	if !strings.HasPrefix(t, "google.golang.org/protobuf/reflect/protoreflect.") {
		return false
	}
	short := strings.TrimPrefix(t, "google.golang.org/protobuf/reflect/protoreflect.")
	if strings.HasSuffix(short, "Descriptor") || strings.HasSuffix(short, "Descriptors") {
		return true
	}
	switch short {
	case "Message", "List", "Map":
		switch N(cc.Method) {
		case "Descriptor", "Type", "Get", "Has", "Len", "IsValid", "WhichOneof", "Interface", "ProtoMethods", "GetUnknown":
			return true
		}
	}
	return false
}

// lazyMapRoot: m is an in-loop merge of a lazily created map accumulator and
// the fresh map it is initialised with; returns the accumulator.
func lazyMapRoot(m ssa.Value, mapAccum map[ssa.Value]bool, l *mapLoop, depth int) ssa.Value {
	if call, isCall := m.(*ssa.Call); isCall && depth <= 4 && l.definedIn(call) {
		if i := ensuresMapArg(call); i >= 0 {
			a := strip(call.Call.Args[i])
			if mapAccum[a] {
				return a
			}
			return lazyMapRoot(a, mapAccum, l, depth+1)
		}
		return nil
	}
	phi, ok := m.(*ssa.Phi)
	if !ok || depth > 4 || !l.definedIn(phi) {
		return nil
	}
	var root ssa.Value
	for _, e := range phi.Edges {
		e = strip(e)
		switch {
		case mapAccum[e]:
			if root != nil && root != e {
				return nil
			}
			root = e
		default:
			if mm, isMake := e.(*ssa.MakeMap); isMake && l.definedIn(mm) {
				continue
			}
			r := lazyMapRoot(e, mapAccum, l, depth+1)
			if r == nil || (root != nil && root != r) {
				return nil
			}
			root = r
		}
	}
	return root
}

// ---------------------------------------------------------------------------
// "cleared by an earlier loop": a header Add inside a loop over map M is
// preceded by a complete loop over the same M that deletes, for every entry,
// the key the Add will use for that entry.

// condForm is one case of a key derivation that merges several (a phi): the
// derivation `form`, valid when the guards hold.
type condForm struct {
	guards []string // e.g. `strings.HasPrefix(K,"Trailer:")=false`
	form   string
	ok     bool
}

// guardStrings renders the key-relative branch facts among fs.
func guardStrings(fs []Fact, isKey func(ssa.Value) bool, use *ssa.BasicBlock) []string {
	var out []string
	for _, f := range fs {
		arg, c, name, ok := prefixFact(f)
		if !ok {
			continue
		}
		kf, kok := keyForm(arg, isKey, use, 0)
		if !kok {
			continue
		}
		truth := "false"
		if f.Truth {
			truth = "true"
		}
		out = append(out, name+"("+kf+","+quote(c)+")="+truth)
	}
	return out
}

func negGuard(g string) string {
	if strings.HasSuffix(g, "=true") {
		return strings.TrimSuffix(g, "=true") + "=false"
	}
	return strings.TrimSuffix(g, "=false") + "=true"
}

// condForms splits a key expression into guarded cases (one level of phi).
func condForms(v ssa.Value, isKey func(ssa.Value) bool, use *ssa.BasicBlock) []condForm {
	if phi, ok := strip(v).(*ssa.Phi); ok {
		var out []condForm
		for i, e := range phi.Edges {
			pred := phi.Block().Preds[i]
			f, fok := keyForm(e, isKey, pred, 0)
			out = append(out, condForm{guards: guardStrings(FactsOnEdge(pred, phi.Block()), isKey, pred), form: f, ok: fok})
		}
		return out
	}
	f, ok := keyForm(v, isKey, use, 0)
	return []condForm{{form: f, ok: ok}}
}

func loopOf(loops []*mapLoop, in ssa.Instruction) *mapLoop {
	var best *mapLoop
	for _, l := range loops {
		if l.in[in.Block()] && in.Block() != l.head {
			if best == nil || len(l.in) < len(best.in) {
				best = l
			}
		}
	}
	return best
}

func sameMapValue(a, b ssa.Value) bool {
	a, b = strip(a), strip(b)
	if a == b {
		return true
	}
	pa, pb := PathOf(a), PathOf(b)
	return pa != "" && pa == pb && !strings.Contains(pa, "?") && !strings.HasPrefix(pa, "v:")
}

// clearedByEarlierLoop reports whether the header Add `add` (inside a loop over
// a map M) is preceded by a loop over the same M that, in every iteration,
// deletes from the same header the key that `add` uses for that entry.
func clearedByEarlierLoop(fn *ssa.Function, add HeaderMutation) bool {
	loops := mapLoops(fn)
	la := loopOf(loops, add.Instr)
	if la == nil {
		return false
	}
	// M is not changed anywhere in the function
	for _, m := range HeaderMutations(fn) {
		if sameMapValue(m.Map, la.rng.X) {
			return false
		}
	}
	addForm, addOK := keyForm(add.Key, la.isKey, add.Instr.Block(), 0)
	if !addOK {
		return false
	}
	addGuards := map[string]bool{}
	for _, g := range guardStrings(FactsAt(add.Instr.Block()), la.isKey, add.Instr.Block()) {
		addGuards[g] = true
	}
	for _, lc := range loops {
		if lc == la || !sameMapValue(lc.rng.X, la.rng.X) {
			continue
		}
		// the clearing loop is complete before the adding loop starts
		if !lc.head.Dominates(la.head) || lc.in[la.head] {
			continue
		}
		early := false
		for b := range lc.in {
			if b == lc.head {
				continue
			}
			for _, s := range b.Succs {
				if !lc.in[s] {
					early = true
				}
			}
		}
		if early {
			continue
		}
		for _, del := range HeaderMutations(fn) {
			if del.Op != "Del" && del.Op != "delete" {
				continue
			}
			if !lc.in[del.Instr.Block()] || del.Instr.Block() == lc.head || !sameMapValue(del.Map, add.Map) {
				continue
			}
			// executed in every iteration
			every := true
			for _, pr := range lc.head.Preds {
				if lc.in[pr] && !del.Instr.Block().Dominates(pr) {
					every = false
				}
			}
			if !every {
				continue
			}
			// for the entries the Add handles, the deleted key is the added key
			covered, n := true, 0
			for _, cf := range condForms(del.Key, lc.isKey, del.Instr.Block()) {
				excluded := false
				for _, g := range cf.guards {
					if addGuards[negGuard(g)] {
						excluded = true
					}
				}
				if excluded {
					continue
				}
				n++
				if !cf.ok || cf.form != addForm {
					covered = false
				}
			}
			if covered && n > 0 {
				return true
			}
		}
	}
	return false
}

// prefixFact: the branch fact tests whether a string has a constant prefix (or
// suffix): strings.HasPrefix(x, c), or the ok result of strings.CutPrefix(x, c).
func prefixFact(f Fact) (arg ssa.Value, c string, fn string, ok bool) {
	switch x := f.Cond.(type) {
	case *ssa.Call:
		if IsCallTo(x, "strings.HasPrefix", "strings.HasSuffix") {
			if cs, isC := ConstString(x.Call.Args[1]); isC {
				return x.Call.Args[0], cs, CalleeName(x), true
			}
		}
	case *ssa.Extract:
		if call, isCall := x.Tuple.(*ssa.Call); isCall && x.Index == 1 && IsCallTo(call, "strings.CutPrefix", "strings.CutSuffix") {
			if cs, isC := ConstString(call.Call.Args[1]); isC {
				name := "strings.HasPrefix"
				if IsCallTo(call, "strings.CutSuffix") {
					name = "strings.HasSuffix"
				}
				return call.Call.Args[0], cs, name, true
			}
		}
	}
	return nil, "", "", false
}

// ensuresMapArg: call is f(.., m, ..) of a static callee with a body every return of which
// yields either its map parameter m itself or a map made in f ("return m, allocating it if
// nil"); returns the index of that argument, or -1.
func ensuresMapArg(call *ssa.Call) int {
	sc := call.Call.StaticCallee()
	if sc == nil || len(sc.Blocks) == 0 || sc.Signature.Results().Len() != 1 {
		return -1
	}
	if _, isMap := sc.Signature.Results().At(0).Type().Underlying().(*types.Map); !isMap {
		return -1
	}
	// no effects besides building the map
	pure := true
	ForEachInstr(sc, func(in ssa.Instruction) {
		switch x := in.(type) {
		case *ssa.Store, *ssa.MapUpdate, *ssa.Send, *ssa.Go, *ssa.Defer, *ssa.Panic:
			pure = false
		case *ssa.Call:
			if !IsCallTo(x, "builtin len", "builtin cap") {
				pure = false
			}
		}
	})
	if !pure {
		return -1
	}
	idx := -1
	ok := true
	var leaf func(v ssa.Value, depth int)
	leaf = func(v ssa.Value, depth int) {
		if depth > 4 {
			ok = false
			return
		}
		switch x := v.(type) {
		case *ssa.Parameter:
			for i, pr := range sc.Params {
				if pr == x {
					if idx >= 0 && idx != i {
						ok = false
					}
					idx = i
					return
				}
			}
			ok = false
		case *ssa.MakeMap:
		case *ssa.Phi:
			for _, e := range x.Edges {
				leaf(e, depth+1)
			}
		default:
			ok = false
		}
	}
	for _, b := range sc.Blocks {
		if ret, isRet := b.Instrs[len(b.Instrs)-1].(*ssa.Return); isRet {
			leaf(ret.Results[0], 0)
		}
	}
	if !ok || idx < 0 || idx >= len(call.Call.Args) {
		return -1
	}
	return idx
}

package vg

import (
	"go/token"
	"go/types"
	"strings"

	"golang.org/x/tools/go/ssa"
)

func init() {
	register(&PropertySpec{
		ID: "C09",
		Explanation: "Enumerating every cut point of every stream is fault enumeration over runtime positions and is NOT decided. Decided is that the code has no path that turns these fault classes into a clean end: " +
			"(C09.1) a short read of a message payload whose length was declared by an envelope is never passed on as io.EOF (path-sensitive: the payload read's error reaches a return only as 'not io.EOF' or replaced), so a body cut inside a message cannot look like a clean end of stream, while a missing first message is the only accepted EOF; " +
			"(C09.2) both response-body adapters report an unfinished envelope/message when the handler returns (a reportError call dominated by the 'bytes still missing' fact); " +
			"(C09.3) the envelope flag tables (all 256 flag bytes folded through every decoder) accept exactly the protocol's values, client request streams never accept a trailer frame, and the request path rejects a decoded trailer attribute; " +
			"(C09.4) every error result of the codec/compression/framing layer (advanceToStage, (de)compress, codec Unmarshal/Marshal, envelope and end decoding, header and trailer extraction, request message reading, body preparers) called from the adapters and the response writer is tested, and its non-nil edge leads only to: returning a non-nil error, reporting an error/end to the client, storing it in an error cell, or substituting an explicit error payload - never to the success continuation; " +
			"(C09.5) a backend that omits grpc-status is an error. " +
			"Not decided: that every byte offset hits one of these paths, hangs/timing.",
		Run: runC09,
	})
}

// codecLayerCallee reports whether a call's error result belongs to the codec /
// compression / framing layer.
func codecLayerCallee(p *Prog, call ssa.CallInstruction) (string, int) {
	cc := call.Common()
	name := ""
	var sig *types.Signature
	if cc.IsInvoke() {
		name = N(cc.Method)
		sig = cc.Method.Type().(*types.Signature)
	} else if sc := cc.StaticCallee(); sc != nil {
		sc = p.unwrap(sc)
		if !p.inScope(sc) {
			return "", -1
		}
		name = N(sc)
		sig = sc.Signature
	} else {
		return "", -1
	}
	switch name {
	case "advanceToStage", "decompress", "decompressLimited", "compress", "decode", "encode",
		"Unmarshal", "UnmarshalField", "MarshalAppend", "MarshalAppendField", "MarshalAppendStable",
		"decodeEnvelope", "decodeEndFromMessage", "extractEndFromTrailers", "extractProtocolResponseHeaders",
		"httpExtractContentLength", "readRequestMessage", "processRequestEnvelope", "determineReadLimit",
		"prepareUnmarshalledRequest", "prepareMarshalledRequest", "prepareUnmarshalledResponse", "prepareMarshalledResponse",
		"prepareMessage", "prepareNext", "flushMessage", "handleEnvelopeWritten", "handleTrailer", "requestLine":
	default:
		return "", -1
	}
	ei := errorResultIndex(sig)
	if ei < 0 {
		return "", -1
	}
	return name, ei
}

func runC09(c *Ctx) {
	p := c.P
	// clause shared with C03: a reported error is the outcome the client sees (see DESIGN.md section 6a)
	defer c.ImportRules("C03", "C03.14")
	defer c.ImportRules("C04", "C04.8")
	defer c.ImportRules("C01", "C01.9")
	reach := p.RequestTimeReach()
	rwReport := p.MustFunc("(*responseWriter).reportError")
	rwReportEnd := p.MustFunc("(*responseWriter).reportEnd")
	opReport := p.MustFunc("(*operation).reportError")

	// ---------------------------------------------------------------- C09.1
	c.Rule("C09.1", "a short payload read is never passed on as io.EOF", 1)
	rrm := p.MustFunc("(*operation).readRequestMessage")
	ebT, _ := envTypes(p)
	var payloadReads []*ssa.Call
	// the reader and the helpers it was split into (refactoring B21_r6: readBodyAsMessage /
	// readMessagePayload); a helper's error is returned by its caller unchanged or the caller is
	// judged by the same rule through C09.4
	rrmParts := []*ssa.Function{rrm}
	{
		seenP := map[*ssa.Function]bool{rrm: true}
		frontier := []*ssa.Function{rrm}
		for depth := 0; depth < 2; depth++ {
			var next []*ssa.Function
			for _, f := range frontier {
				for _, call := range Calls(f) {
					g := call.Common().StaticCallee()
					if g == nil || seenP[g] || !p.inScope(g) || len(g.Blocks) == 0 || !p.OnlyCalledWithin(g, rrm) {
						continue
					}
					seenP[g] = true
					rrmParts = append(rrmParts, g)
					next = append(next, g)
				}
			}
			frontier = next
		}
	}
	var allCalls []ssa.CallInstruction
	for _, f := range rrmParts {
		allCalls = append(allCalls, Calls(f)...)
	}
	for _, call := range allCalls {
		cv, ok := call.(*ssa.Call)
		if !ok || !IsCallTo(cv, "io.CopyN", "io.ReadFull", "io.ReadAtLeast", "io.Copy") {
			continue
		}
		// the envelope read fills the envelope array
		if IsCallTo(cv, "io.ReadFull") {
			if dst, ok := cv.Call.Args[1].(*ssa.Slice); ok && sliceIsOverArray(dst, ebT) {
				continue
			}
		}
		if IsCallTo(cv, "io.Copy") {
			continue // whole-body form: EOF is the normal end; emptiness is handled separately
		}
		payloadReads = append(payloadReads, cv)
	}
	if len(payloadReads) == 0 {
		c.Bad("C09.1", FuncName(rrm), "payload-read", rrm.Pos(), "no length-bounded payload read found in the request message reader: shape changed")
	}
	for _, pr := range payloadReads {
		var errV ssa.Value
		for _, ref := range *pr.Referrers() {
			if ex, ok := ref.(*ssa.Extract); ok && ex.Index == 1 {
				errV = ex
			}
		}
		paths, ok := EnumPaths(pr.Block(), nil, IsReturn, 0)
		if !ok || errV == nil {
			c.Unknown("C09.1", FuncName(rrm), "payload-read-paths", pr.Pos(), "could not enumerate the paths after the payload read")
			continue
		}
		bad := 0
		for _, cp := range paths {
			ret := cp.End.(*ssa.Return)
			if len(ret.Results) == 0 {
				continue
			}
			// the read's error itself, or a wrapper that errors.Is sees through (seed C09n:
			// fmt.Errorf("... %w", err) keeps the io.EOF it was meant to replace)
			if rv := cp.Deref(ret.Results[len(ret.Results)-1]); rv != errV && !wrapsError(rv, errV, &cp) {
				continue
			}
			notEOF := false
			for cond, truth := range cp.Truth {
				if ic, ok := cond.(*ssa.Call); ok && IsCallTo(ic, "errors.Is") && !truth && cp.Deref(ic.Call.Args[0]) == errV {
					if g, ok := ic.Call.Args[1].(*ssa.UnOp); ok {
						if gl, ok := g.X.(*ssa.Global); ok && N(gl) == "EOF" {
							notEOF = true
						}
					}
				}
			}
			if !notEOF {
				bad++
			}
		}
		c.Check(bad == 0, "C09.1", FuncName(rrm), "payload-eof-mapped:"+CalleeName(pr), pr.Pos(),
			"the payload read's own error reaches a return only where it is known not to be io.EOF (io.EOF is replaced)",
			"the payload read's error can be returned while it may be io.EOF: a body that ends inside (or right before) a declared payload is reported to callers as a clean end of stream")
	}
	// the only accepted EOF: first message, in handle and transformingReader.Read
	for _, fn := range []*ssa.Function{p.MustFunc("(*operation).handle"), p.MustFunc("(*transformingReader).Read")} {
		for _, call := range Calls(fn) {
			isRRM := false
			for _, cal := range p.CalleesAt(call) {
				if cal == rrm {
					isRRM = true
				}
			}
			if !isRRM {
				continue
			}
			// every errors.Is(err, io.EOF) true edge on this call's error must be the first message
			cv := call.(*ssa.Call)
			ForEachInstr(fn, func(in ssa.Instruction) {
				ic, ok := in.(*ssa.Call)
				if !ok || !IsCallTo(ic, "errors.Is") || ic.Call.Args[0] != ssa.Value(cv) {
					return
				}
				first := N(fn) == "handle" // the only read in handle is the leading message
				if !first {
					for _, ref := range *ic.Referrers() {
						if iff, ok := ref.(*ssa.If); ok {
							_ = iff
						}
					}
					// must be conjoined with !consumedFirst
					for _, f := range FactsAt(ic.Block()) {
						if !f.Truth {
							if fl := LoadedField(f.Cond); fl != nil && N(fl) == "consumedFirst" {
								first = true
							}
						}
					}
				}
				c.Check(first, "C09.1", FuncName(fn), "eof-accepted-only-for-first-message", ic.Pos(),
					"io.EOF from the message reader is tolerated only for the leading message (empty request)", "io.EOF from the message reader is tolerated for a message that is not the first: a truncated stream looks complete")
			})
		}
	}

	// ---------------------------------------------------------------- C09.2
	c.Rule("C09.2", "unfinished units are reported when the handler returns", 2)
	for _, tn := range []string{"envelopingWriter", "transformingWriter"} {
		cl := p.MethodOf(types.NewPointer(p.MustNamed(tn)), "Close")
		if cl == nil {
			fatalf("anchor=%s.Close not found", tn)
		}
		// every path on which 'bytes are missing' is known (remainingBytes > 0 / buffer.Len() > 0)
		// passes the report
		reported := 0
		unreported := 0
		cpaths, okP := EnumPaths(cl.Blocks[0], nil, IsReturn, 0)
		if !okP {
			c.Unknown("C09.2", FuncName(cl), "paths", cl.Pos(), "too many paths")
		}
		for _, cp := range cpaths {
			missing := false
			for cond, truth := range cp.Truth {
				b, isB := cond.(*ssa.BinOp)
				if !isB || b.Op != token.GTR || !truth {
					continue
				}
				if k, isK := ConstInt(b.Y); !isK || k != 0 {
					continue
				}
				if fl := LoadedField(b.X); fl != nil && strings.Contains(strings.ToLower(N(fl)), "remaining") {
					missing = true
				}
				if bufferOfLen(b.X) != nil {
					missing = true
				}
			}
			if !missing {
				continue
			}
			rep := false
			for _, blk := range cp.Blocks {
				for _, in := range blk.Instrs {
					if ci, isC := in.(ssa.CallInstruction); isC {
						for _, cal := range p.CalleesAt(ci) {
							if cal == rwReport {
								rep = true
							}
						}
					}
				}
			}
			if rep {
				reported++
			} else if tn == "transformingWriter" {
				unreported++
			}
		}
		if unreported > 0 {
			reported = 0
		}
		c.Check(reported > 0, "C09.2", FuncName(cl), "unfinished-unit-reported", cl.Pos(),
			"Close reports an error to the client when bytes of an envelope/message are still missing", "Close no longer reports an unfinished envelope/message: a backend that stops mid-message yields a silently short body")
	}

	// the only excuse for missing bytes at Close: waiting for the NEXT envelope with none of it written
	{
		ewT := types.NewPointer(p.MustNamed("envelopingWriter"))
		cl := p.MethodOf(ewT, "Close")
		remF := p.MustField("envelopingWriter", "remainingBytes")
		weF := p.MustField("envelopingWriter", "writingEnvelope")
		ebT, _ := envTypes(p)
		envLen := ebT.Underlying().(*types.Array).Len()
		paths, ok := EnumPaths(cl.Blocks[0], nil, IsReturn, 0)
		bad := 0
		for _, cp := range paths {
			missing, reported, excuseW, excuseL := false, false, false, false
			for cond, truth := range cp.Truth {
				if b, isB := cond.(*ssa.BinOp); isB && LoadedField(b.X) == remF {
					if k, isK := ConstInt(b.Y); isK {
						if b.Op == token.GTR && k == 0 && truth {
							missing = true
						}
						if b.Op == token.EQL && k == envLen && truth {
							excuseL = true
						}
					}
				}
				if truth && LoadedField(cond) == weF {
					excuseW = true
				}
			}
			for _, b := range cp.Blocks {
				for _, in := range b.Instrs {
					if ci, isC := in.(ssa.CallInstruction); isC {
						for _, cal := range p.CalleesAt(ci) {
							if cal == rwReport {
								reported = true
							}
						}
					}
				}
			}
			if missing && !reported && !(excuseW && excuseL) {
				bad++
			}
		}
		c.Check(ok && bad == 0, "C09.2", FuncName(cl), "only-excuse-is-next-envelope", cl.Pos(),
			"a Close with bytes still missing skips the error report only when it was waiting for the next envelope and none of it was written (writingEnvelope && remainingBytes == envelopeLen)",
			itoa(bad)+" path(s) through Close have bytes missing, report nothing, and are not the 'waiting for the next envelope' state: a response cut inside a message is taken for a clean end")
	}

	// the same for the re-encoding writer: in enveloped mode, a Close that reports nothing must
	// know that it is waiting for the next envelope (nothing of it buffered) or that no bytes of
	// the announced message are outstanding (defect D17: 'envelope complete, payload never
	// started' was taken for a clean end)
	{
		twT := types.NewPointer(p.MustNamed("transformingWriter"))
		cl := p.MethodOf(twT, "Close")
		expF := p.MustField("transformingWriter", "expectingBytes")
		weF := p.MustField("transformingWriter", "writingEnvelope")
		bufF := p.MustField("transformingWriter", "buffer")
		paths, ok := EnumPaths(cl.Blocks[0], nil, IsReturn, 0)
		bad, judged := 0, 0
		for _, cp := range paths {
			unenveloped, bufNil, reported, excuse := false, false, false, false
			for cond, truth := range cp.Truth {
				if truth && LoadedField(cond) == weF {
					excuse = true // waiting for the next envelope
				}
				b, isB := cond.(*ssa.BinOp)
				if !isB {
					continue
				}
				if LoadedField(b.X) == expF {
					if k, isK := ConstInt(b.Y); isK {
						if k == -1 && (b.Op == token.EQL && truth || b.Op == token.NEQ && !truth) {
							unenveloped = true
						}
						if k == 0 && (b.Op == token.GTR && !truth || b.Op == token.LEQ && truth || b.Op == token.EQL && truth) {
							excuse = true // no announced bytes outstanding
						}
					}
				}
				if LoadedField(b.X) == bufF && IsNilConst(b.Y) && (b.Op == token.NEQ && !truth || b.Op == token.EQL && truth) {
					bufNil = true
				}
			}
			for _, blk := range cp.Blocks {
				for _, in := range blk.Instrs {
					if ci, isC := in.(ssa.CallInstruction); isC {
						for _, cal := range p.CalleesAt(ci) {
							if cal == rwReport {
								reported = true
							}
						}
					}
				}
			}
			if unenveloped || bufNil {
				continue
			}
			judged++
			if !reported && !excuse {
				bad++
			}
		}
		c.Check(ok && bad == 0 && judged > 0, "C09.2", FuncName(cl), "only-excuse-is-next-envelope", cl.Pos(),
			"in enveloped mode a Close that reports nothing knows it was waiting for the next envelope, or that no announced bytes are outstanding ("+itoa(judged)+" paths)",
			itoa(bad)+" path(s) through Close report nothing without knowing that the writer was between messages: a response that ends right after a message's envelope (payload never started) is taken for a clean end")
	}

	// ---------------------------------------------------------------- C09.3
	c.Rule("C09.3", "flag tables accept exactly the protocol's values; trailer frames are rejected in request streams", 20)
	checkFlagTables(c, "C09.3")
	pre := p.MustFunc("(*operation).processRequestEnvelope")
	okTr := false
	ForEachInstr(pre, func(in ssa.Instruction) {
		iff, ok := in.(*ssa.If)
		if !ok {
			return
		}
		f := LoadedFieldOrField(iff.Cond)
		if fv, isF := iff.Cond.(*ssa.Field); isF {
			f = FieldOfVal(fv)
		}
		if f != nil && N(f) == "trailer" {
			good, _ := succReturnsOnlyErrors(pre, iff.Block().Succs[0], errorResultIndex(pre.Signature))
			okTr = good
		}
	})
	c.Check(okTr, "C09.3", FuncName(pre), "request-trailer-rejected", pre.Pos(),
		"a request envelope decoded with the trailer attribute is an error", "a client frame flagged as trailer/end-of-stream is not rejected on the request path")

	// ---------------------------------------------------------------- C09.4
	c.Rule("C09.4", "errors of the codec/compression/framing layer never fall through to the success continuation", 40)
	handled := func(in ssa.Instruction) bool {
		switch x := in.(type) {
		case ssa.CallInstruction:
			for _, cal := range p.CalleesAt(x) {
				if cal == rwReport || cal == rwReportEnd || cal == opReport {
					return true
				}
			}
		case *ssa.Store:
			if fa, ok := x.Addr.(*ssa.FieldAddr); ok {
				n := N(FieldOfAddr(fa))
				if (n == "err" || n == "httpCode") && !IsNilConst(x.Val) {
					return true
				}
			}
		}
		return false
	}
	for _, fn := range SortedFuncs(reach) {
		if !p.inScope(fn) {
			continue
		}
		myErr := errorResultIndex(fn.Signature)
		for _, call := range Calls(fn) {
			name, ei := codecLayerCallee(p, call)
			if ei < 0 {
				continue
			}
			c.CountSite()
			cv, isCall := call.(*ssa.Call)
			if !isCall {
				c.Bad("C09.4", FuncName(fn), "deferred:"+name, call.Pos(), "a codec-layer step is deferred: its error is lost")
				continue
			}
			var errVal ssa.Value
			if cv.Call.Signature().Results().Len() == 1 {
				errVal = cv
			} else {
				for _, ref := range *cv.Referrers() {
					if ex, ok := ref.(*ssa.Extract); ok && ex.Index == ei {
						errVal = ex
					}
				}
			}
			if errVal == nil {
				c.Bad("C09.4", FuncName(fn), "discarded:"+name, call.Pos(), "the error result of "+name+" is discarded")
				continue
			}
			// uses
			returnedDirect := false
			var ifs []*ssa.If
			var nonNilSucc []int
			storedToCell := false
			var visit func(v ssa.Value, depth int)
			visit = func(v ssa.Value, depth int) {
				if depth > 3 {
					return
				}
				for _, ref := range *v.Referrers() {
					switch r := ref.(type) {
					case *ssa.Return:
						returnedDirect = true
					case *ssa.Store:
						if _, isAl := r.Addr.(*ssa.Alloc); isAl {
							// spilled named result / local: treat as returned when a return loads it
							returnedDirect = true
						} else if fa, ok := r.Addr.(*ssa.FieldAddr); ok && N(FieldOfAddr(fa)) == "err" {
							storedToCell = true
						}
					case *ssa.BinOp:
						if (r.Op == token.NEQ || r.Op == token.EQL) && (IsNilConst(r.X) || IsNilConst(r.Y)) {
							for _, rr := range *r.Referrers() {
								if i2, ok := rr.(*ssa.If); ok {
									ifs = append(ifs, i2)
									if r.Op == token.NEQ {
										nonNilSucc = append(nonNilSucc, 0)
									} else {
										nonNilSucc = append(nonNilSucc, 1)
									}
								}
							}
						}
					case *ssa.Phi:
						visit(r, depth+1)
					case *ssa.MakeInterface:
						visit(r, depth+1)
					}
				}
			}
			visit(errVal, 0)
			if len(ifs) == 0 {
				c.Check(returnedDirect || storedToCell, "C09.4", FuncName(fn), "untested:"+name, call.Pos(),
					"the error is returned / stored as is", "the error result of "+name+" is neither tested, returned nor stored")
				continue
			}
			good := true
			var w []ssa.Instruction
			for i, iff := range ifs {
				succ := iff.Block().Succs[nonNilSucc[i]]
				// from the non-nil successor no 'success' return may be reached without passing a handler
				badRet := func(in ssa.Instruction) bool {
					ret, ok := in.(*ssa.Return)
					if !ok {
						return false
					}
					if myErr < 0 {
						return true // a function without error result must handle (report/store) before returning
					}
					rv := ReturnValues(ret)
					return myErr < len(rv) && IsNilConst(rv[myErr])
				}
				if len(succ.Instrs) == 0 {
					continue
				}
				first := succ.Instrs[0]
				if handled(first) {
					continue
				}
				if badRet(first) {
					good, w = false, []ssa.Instruction{first}
					continue
				}
				found, path := PathQuery{Target: badRet, Avoid: handled}.Search(fn, first)
				if found {
					// tolerated: the io.EOF-on-first-message idiom and explicit substitution of an error payload
					if name == "readRequestMessage" {
						continue
					}
					if substitutesPayload(succ) {
						continue
					}
					// path-sensitive confirmation: the error may be re-tested through a phi
					// (err == nil && ... { err = other }; if err != nil { return err })
					seed := map[ssa.Value]bool{}
					if rv, neg := resolveCond(iff.Cond, []*ssa.BasicBlock{iff.Block()}); rv != nil {
						seed[rv] = (nonNilSucc[i] == 0) != neg
					}
					cps, okEnum := EnumPathsSeed(succ, iff.Block(), seed, func(in ssa.Instruction) bool { return badRet(in) || handled(in) }, 0)
					if okEnum {
						confirmed := false
						for _, cp := range cps {
							if badRet(cp.End) {
								confirmed = true
							}
						}
						if !confirmed {
							continue
						}
					}
					good, w = false, path
				}
			}
			c.Check(good, "C09.4", FuncName(fn), "non-nil-edge:"+name, call.Pos(),
				"on the non-nil edge every path returns a non-nil error, reports to the client, stores the error cell or substitutes an explicit error payload",
				"on the non-nil edge of "+name+"'s error a success continuation is reachable (error swallowed): "+witnessString(p, w))
		}
	}

	defer runC09EndInBody(c)
	defer runC09AmbiguousEOF(c)
	defer runC09NoFailureAsEOF(c)
	defer runC09CompressedFlagDeclared(c)
	defer runC09NoFinaliseOnPanic(c)
	defer runC09DeclaredLengthHonoured(c)
	defer runC09UnenvelopedSourceProbes(c)
	// ---------------------------------------------------------------- C09.5
	c.Rule("C09.5", "a missing grpc-status is an error", 1)
	ext := p.MustFunc("grpcExtractErrorFromTrailer")
	okMissing := false
	ForEachInstr(ext, func(in ssa.Instruction) {
		iff, ok := in.(*ssa.If)
		if !ok {
			return
		}
		b, ok := iff.Cond.(*ssa.BinOp)
		if !ok || b.Op != token.EQL {
			return
		}
		if s, isS := ConstString(b.Y); !isS || s != "" {
			return
		}
		fromStatus := false
		for _, l := range Origins(b.X) {
			if l.Kind == "call" && IsCallTo(l.Call, "(net/http.Header).Get") {
				if k, _ := ConstString(l.Call.Common().Args[1]); strings.EqualFold(k, "Grpc-Status") {
					fromStatus = true
				}
			}
		}
		if !fromStatus {
			return
		}
		good, _ := succReturnsOnlyErrors(ext, iff.Block().Succs[0], 0)
		okMissing = good
	})
	c.Check(okMissing, "C09.5", FuncName(ext), "missing-status-is-error", ext.Pos(),
		"an empty Grpc-Status yields a non-nil error", "a response without grpc-status is not turned into an error: a backend that dies before sending trailers looks successful")
}

// runC09EndInBody: C09.6.  For a server protocol whose end of stream travels in the body (its
// envelope decoder yields trailer=true for some flag byte), the trailer-based end extraction is
// reached only when the body ended WITHOUT that end frame: it must fail on every path.
func runC09EndInBody(c *Ctx) {
	p := c.P
	c.Rule("C09.6", "a protocol whose end of stream is a frame in the body treats a body without that frame as an error", 2)
	sph := p.Iface("serverProtocolHandler")
	if sph == nil {
		fatalf("anchor=serverProtocolHandler not found")
	}
	n := 0
	for _, t := range p.Implementers(sph) {
		if p.MethodOf(t, "decodeEnvelope") == nil {
			continue
		}
		tab, err := decodeTable(p, t)
		if err != nil {
			c.Unknown("C09.6", typeName(t), "decode-table", token.NoPos, "envelope decoder could not be folded: "+err.Error())
			continue
		}
		endInBody := false
		for b := 0; b < 256; b++ {
			if tab[b].accepted && tab[b].trailer {
				endInBody = true
			}
		}
		if !endInBody {
			continue
		}
		ext := p.MethodOf(t, "extractEndFromTrailers")
		if ext == nil {
			fatalf("anchor=%s.extractEndFromTrailers not found", typeName(t))
		}
		n++
		ei := errorResultIndex(ext.Signature)
		allErr, nRet := true, 0
		ForEachInstr(ext, func(in ssa.Instruction) {
			ret, ok := in.(*ssa.Return)
			if !ok || ret.Block() == ext.Recover {
				return
			}
			nRet++
			rv := ReturnValues(ret)
			if ei < 0 || ei >= len(rv) || !NeverNilError(rv[ei], 0) {
				allErr = false
			}
		})
		c.Check(allErr && nRet > 0, "C09.6", typeName(t), "no-end-frame-is-error", ext.Pos(),
			"the end frame travels in the body; ending without it is reported as an error on every path",
			"the end of stream of this protocol is a frame in the body, yet a body that ended without it is accepted (trailer-based extraction returns no error): a response cut at a frame boundary is relayed as a clean end")
	}
	if n == 0 {
		c.Bad("C09.6", "serverProtocolHandler", "no-end-frame-is-error", token.NoPos, "no server protocol with an in-body end frame found: shape changed")
	}
}

// substitutesPayload: the block assigns an explicit byte literal / quoted error
// text (the REST/Connect end encoders' fallback body).
func substitutesPayload(b *ssa.BasicBlock) bool {
	for _, in := range b.Instrs {
		switch x := in.(type) {
		case *ssa.Convert:
			if _, isStr := ConstString(x.X); isStr {
				return true
			}
		case *ssa.BinOp:
			if x.Op == token.ADD && isStringType(x.Type()) {
				return true
			}
		case ssa.CallInstruction:
			if IsCallTo(x, "(*bytes.Buffer).WriteString") {
				return true
			}
		}
	}
	return false
}

// runC09AmbiguousEOF: C09.7 (defect D25).  io.LimitReader answers io.EOF both when its N bytes
// were delivered and when the underlying reader ended early.  That is fine where the result is
// consumed on the spot and the byte count is compared afterwards (the decompression bound), but
// a LimitReader that is stored as the per-message source of an adapter makes 'the client stopped
// sending in the middle of this message' indistinguishable from 'message complete'.
func runC09AmbiguousEOF(c *Ctx) {
	p := c.P
	c.Rule("C09.7", "no io.LimitReader is installed as a stored message source (its EOF cannot tell 'complete' from 'cut short')", 0)
	reach := p.RequestTimeReach()
	n := 0
	for _, fn := range p.Funcs {
		if !p.inScope(fn) || !reach[fn] {
			continue
		}
		for _, call := range Calls(fn) {
			if !IsCallTo(call, "io.LimitReader") {
				continue
			}
			cv, ok := call.(*ssa.Call)
			if !ok {
				continue
			}
			n++
			stored := ""
			seen := map[ssa.Value]bool{}
			var follow func(v ssa.Value, d int)
			follow = func(v ssa.Value, d int) {
				if seen[v] || d > 3 {
					return
				}
				seen[v] = true
				for _, ref := range *v.Referrers() {
					switch r := ref.(type) {
					case *ssa.Store:
						if fa, ok := r.Addr.(*ssa.FieldAddr); ok && r.Val == v {
							stored = N(FieldOfAddr(fa))
						}
					case *ssa.MakeInterface:
						follow(r, d+1)
					case *ssa.ChangeInterface:
						follow(r, d+1)
					case *ssa.Phi:
						follow(r, d+1)
					}
				}
			}
			follow(cv, 0)
			c.Check(stored == "", "C09.7", FuncName(fn), "limit-reader-not-stored", call.Pos(),
				"the bounded reader is consumed where it is made (the byte count is judged there)",
				"an io.LimitReader is stored in field "+stored+" and read later as a message source: when the body ends before the announced length its EOF is taken for the end of the message, and a truncated message reaches the backend as complete")
		}
	}
	if n == 0 {
		c.Trivial("C09.7", "*", "limit-reader-not-stored", token.NoPos, "io.LimitReader is not used at request time")
	}
}

// runC09NoFailureAsEOF: C09.8 (defect D27).  A body adapter's Read may answer io.EOF of its own
// only for a genuine end.  On a path that has just recorded or reported a failure (a non-nil
// store to the adapter's error cell, a call of the response writer's reporter) returning the
// io.EOF value turns the failure into a clean end of the request: a unary backend then runs on
// an empty - complete-looking - message.
func runC09NoFailureAsEOF(c *Ctx) {
	p := c.P
	c.Rule("C09.8", "a request-body adapter's Read does not answer a failure it just recorded with io.EOF", 2)
	rwReport := p.MustFunc("(*responseWriter).reportError")
	for _, ra := range readerAdapters(p) {
		fn := ra.read
		errF := p.Field(N(ra.typ.Obj()), "err")
		paths, ok := EnumPaths(fn.Blocks[0], nil, IsReturn, 0)
		if !ok {
			c.Unknown("C09.8", FuncName(fn), "paths", fn.Pos(), "too many paths")
			continue
		}
		bad, n := 0, 0
		var at string
		for _, cp := range paths {
			ret := cp.End.(*ssa.Return)
			rv := ReturnValues(ret)
			if len(rv) != 2 {
				continue
			}
			isEOF := false
			v := cp.Deref(rv[1])
			if u, ok := v.(*ssa.UnOp); ok {
				if g, ok := u.X.(*ssa.Global); ok && g.Pkg != nil && g.Pkg.Pkg.Path() == "io" && g.Name() == "EOF" {
					isEOF = true
				}
			}
			if !isEOF {
				continue
			}
			n++
			failed := false
			for _, b := range cp.Blocks {
				for _, in := range b.Instrs {
					switch x := in.(type) {
					case *ssa.Store:
						if fa, ok := x.Addr.(*ssa.FieldAddr); ok && errF != nil && FieldOfAddr(fa) == errF && !IsNilConst(x.Val) {
							failed = true
						}
					case ssa.CallInstruction:
						for _, cal := range p.CalleesAt(x) {
							if cal == rwReport {
								failed = true
							}
						}
					}
				}
			}
			if failed {
				bad++
				at = p.Pos(ret.Pos())
			}
		}
		if n == 0 {
			c.Trivial("C09.8", FuncName(fn), "no-failure-as-eof", fn.Pos(), "Read never produces io.EOF itself")
			continue
		}
		c.Check(bad == 0, "C09.8", FuncName(fn), "no-failure-as-eof", fn.Pos(),
			"io.EOF is produced only on paths that recorded no failure",
			"Read returns io.EOF (at "+at+") on a path that has just recorded/reported a failure: the backend sees a clean end of the request instead of an error, and a unary backend runs on an empty message the client never sent")
	}
}

// runC09CompressedFlagDeclared: C09.9 (defect D47).  The envelope decoders accept the 'compressed'
// flag unconditionally - whether it is legal depends on the headers of the direction: without a
// declared compression a flagged message is malformed (gRPC: INTERNAL; connect-go: "sent
// compressed message without compression support").  So after every envelope decode there is a
// point where 'this envelope is flagged compressed' and 'this direction's compression cell is
// nil' are both known, and from which an error is produced.
func runC09CompressedFlagDeclared(c *Ctx) {
	p := c.P
	c.Rule("C09.9", "a decoded envelope flagged as compressed is an error when its direction declared no compression", 4)
	comprF := p.MustField("envelope", "compressed")
	cliEnvF := p.MustField("operation", "clientEnveloper")
	srvEnvF := p.MustField("operation", "serverEnveloper")
	reqCell := p.MustField("clientProtocolDetails", "reqCompression")
	respCell := p.MustField("serverProtocolDetails", "respCompression")
	n := 0
	for _, fn := range SortedFuncs(p.RequestTimeReach()) {
		if !p.inScope(fn) {
			continue
		}
		ord := 0
		for _, call := range Calls(fn) {
			cc := call.Common()
			if !cc.IsInvoke() || N(cc.Method) != "decodeEnvelope" {
				continue
			}
			var cell *types.Var
			switch LoadedField(cc.Value) {
			case cliEnvF:
				cell = reqCell
			case srvEnvF:
				cell = respCell
			default:
				continue // a protocol delegating to a sibling's table, not a stream being read
			}
			n++
			ord++
			construct := "flag-vs-declared"
			if ord > 1 {
				construct += "|#" + itoa(ord)
			}
			// a block where both facts are known and an error value is made
			ok := false
			for _, b := range fn.Blocks {
				if !call.Block().Dominates(b) {
					continue
				}
				flagged, undeclared := false, false
				for _, f := range FactsAt(b) {
					if f.Truth {
						fld := LoadedField(f.Cond)
						if fv, isF := f.Cond.(*ssa.Field); isF {
							fld = FieldOfVal(fv)
						}
						if fld == comprF {
							flagged = true
						}
					}
					if cmp, isCmp := f.AsCmp(); isCmp && cmp.Op == token.EQL && IsNilConst(cmp.Y) && LoadedField(cmp.X) == cell {
						undeclared = true
					}
				}
				if !flagged || !undeclared {
					continue
				}
				for _, in := range b.Instrs {
					if ci, isCall := in.(ssa.CallInstruction); isCall {
						if IsCallTo(ci, "errors.New", "fmt.Errorf", "connectrpc.com/connect.NewError", "malformedRequestError") {
							ok = true
						}
						if sc := ci.Common().StaticCallee(); sc != nil && p.inModule(sc) && isErrorType(sc.Signature.Results().At(sc.Signature.Results().Len()-1).Type()) {
							ok = true
						}
					}
				}
			}
			// or the test lives in a helper that is handed the envelope (or its flag) and the cell
			if !ok {
				for _, b := range fn.Blocks {
					if !call.Block().Dominates(b) {
						continue
					}
					for _, in := range b.Instrs {
						hc, isCall := in.(ssa.CallInstruction)
						if !isCall {
							continue
						}
						sc := hc.Common().StaticCallee()
						if sc == nil || !p.inModule(sc) {
							continue
						}
						cellArg := -1
						for i, a := range hc.Common().Args {
							if LoadedField(a) == cell {
								cellArg = i
							}
						}
						if cellArg < 0 || cellArg >= len(sc.Params) {
							continue
						}
						for _, hb := range sc.Blocks {
							flagged, undeclared, makesErr := false, false, false
							for _, f := range FactsAt(hb) {
								if f.Truth {
									fld := LoadedField(f.Cond)
									if fv, isF := f.Cond.(*ssa.Field); isF {
										fld = FieldOfVal(fv)
									}
									if fld == comprF {
										flagged = true
									}
									if pr, isP := f.Cond.(*ssa.Parameter); isP && isBoolType(pr.Type()) {
										flagged = true
									}
								}
								if cmp, isCmp := f.AsCmp(); isCmp && cmp.Op == token.EQL && IsNilConst(cmp.Y) && strip(cmp.X) == ssa.Value(sc.Params[cellArg]) {
									undeclared = true
								}
							}
							for _, hin := range hb.Instrs {
								if ci, isCall := hin.(ssa.CallInstruction); isCall && IsCallTo(ci, "errors.New", "fmt.Errorf", "connectrpc.com/connect.NewError", "malformedRequestError") {
									makesErr = true
								}
							}
							if flagged && undeclared && makesErr {
								ok = true
							}
						}
					}
				}
			}
			c.Check(ok, "C09.9", FuncName(fn), construct, call.Pos(),
				"after this decode, 'flagged compressed' together with 'no compression declared for this direction' produces an error",
				"the envelope decoded here may be flagged as compressed although "+N(cell)+" is nil (no compression declared): nothing rejects it - the flag is copied to a peer whose headers announce no encoding, or decompression is skipped and the compressed bytes are taken for the message")
		}
	}
	if n < 4 {
		c.Bad("C09.9", "package", "flag-vs-declared", token.NoPos, "fewer than four envelope decode sites on the data paths ("+itoa(n)+"): shape changed")
	}
}

// runC09NoFinaliseOnPanic: C09.10 (defect D52).  Finalising the response writer flushes what the
// backend wrote so far, decodes it and completes the response (status, Content-Length, end of
// stream).  That is right when the handler RETURNED.  When it aborted with a panic
// (http.ErrAbortHandler: a reverse proxy whose upstream broke off in mid-message) the partial
// data must not be made into a well-formed success.  A plain `defer rw.close()` also runs while
// the panic unwinds; so the finaliser is called from a deferred function, and there only on the
// path that knows recover() returned nil.
func runC09NoFinaliseOnPanic(c *Ctx) {
	p := c.P
	c.Rule("C09.10", "the response is finalised only when the handler returned, never while its panic unwinds", 1)
	closeFn := p.MustFunc("(*responseWriter).close")
	n := 0
	for _, fn := range p.Funcs {
		if !p.inScope(fn) {
			continue
		}
		ForEachInstr(fn, func(in ssa.Instruction) {
			d, ok := in.(*ssa.Defer)
			if !ok {
				return
			}
			for _, cal := range p.CalleesAt(d) {
				if cal == closeFn {
					n++
					c.Bad("C09.10", FuncName(fn), "finaliser-not-on-panic", d.Pos(),
						"the response writer's close is deferred directly: it also runs while a handler's panic unwinds, and turns a response that was aborted in the middle of a message into a complete, successful one")
					continue
				}
				// a closure of this function, or a named module function that is deferred itself
				// (recover() works in a function that is called directly by the defer)
				if cal.Parent() != fn && !(p.inModule(cal) && cal.Parent() == nil) {
					continue
				}
				for _, call := range Calls(cal) {
					if call.Common().StaticCallee() != closeFn {
						continue
					}
					n++
					guarded := false
					for _, f := range FactsAt(call.Block()) {
						cmp, isCmp := f.AsCmp()
						if !isCmp || cmp.Op != token.EQL || !IsNilConst(cmp.Y) {
							continue
						}
						for _, l := range Origins(cmp.X) {
							if l.Kind == "call" && IsCallTo(l.Call, "builtin recover") {
								guarded = true
							}
						}
					}
					c.Check(guarded, "C09.10", FuncName(fn), "finaliser-not-on-panic", call.Pos(),
						"the deferred function finalises the response only where recover() is known to have returned nil",
						"the deferred function finalises the response without having ruled out a panic in flight (no dominating recover() == nil): a response aborted in the middle of a message is completed into a success")
				}
			}
		})
	}
	if n == 0 {
		c.Bad("C09.10", "(*responseWriter).close", "finaliser-not-on-panic", token.NoPos, "the response writer's close is not deferred anywhere: shape changed")
	}
}

// runC09DeclaredLengthHonoured: C09.11 (defect D56).  WriteHeader parses the backend's
// Content-Length into responseWriter.contentLen and removes the header.  For a backend without
// envelopes that number is the only framing there is: a body that stops short of it was cut in
// the middle of the message.  So (a) the re-framing writer counts with 'no bound' (-1) only where
// it is known that no length was declared, and (b) the transcoding writer, when it finalises an
// un-enveloped body, decodes what it collected only after comparing the collected length with
// the declared one.
func runC09DeclaredLengthHonoured(c *Ctx) {
	p := c.P
	c.Rule("C09.11", "an un-enveloped response body is held to the Content-Length its backend declared", 2)
	clF := p.MustField("responseWriter", "contentLen")
	fromCL := func(v ssa.Value) bool {
		for _, l := range Origins(v) {
			if l.Kind == "load" && l.Field == clF {
				return true
			}
		}
		return false
	}
	// (a) byte counters of the re-framing writer
	ewT := types.NewPointer(p.MustNamed("envelopingWriter"))
	remF := p.MustField("envelopingWriter", "remainingBytes")
	initFn := p.MethodOf(ewT, "maybeInit")
	if initFn == nil {
		fatalf("anchor=envelopingWriter.maybeInit not found")
	}
	nA := 0
	for _, fn := range p.Family(initFn) {
		for _, st := range StoresToField(fn, remF) {
			k, isK := ConstInt(st.Val)
			if !isK || k != -1 {
				continue
			}
			nA++
			unknown := false
			for _, f := range p.FactsAtInter(st.Block()) {
				cmp, ok := f.AsCmp()
				if !ok {
					continue
				}
				if kk, isKK := ConstInt(cmp.Y); isKK && fromCL(cmp.X) && (cmp.Op == token.EQL && kk == -1 || cmp.Op == token.LSS && kk == 0) {
					unknown = true
				}
			}
			c.Check(unknown, "C09.11", FuncName(fn), "unbounded-only-without-declared-length", st.Pos(),
				"the byte counter is set to 'no bound' only where no Content-Length was declared",
				"the re-framing writer counts this body with 'no bound' (-1) although the backend may have declared a Content-Length: a body cut short of it is forwarded as complete (with a fresh, matching Content-Length)")
		}
	}
	if nA == 0 {
		c.Bad("C09.11", FuncName(initFn), "unbounded-only-without-declared-length", initFn.Pos(), "no 'no bound' initialisation of the byte counter found: shape changed")
	}
	// (b) the transcoding writer's finaliser
	twT := types.NewPointer(p.MustNamed("transformingWriter"))
	closeFn := p.MethodOf(twT, "Close")
	flushFn := p.MethodOf(twT, "flushMessage")
	expF := p.MustField("transformingWriter", "expectingBytes")
	if closeFn == nil || flushFn == nil {
		fatalf("anchor=transformingWriter.Close/flushMessage not found")
	}
	nB := 0
	for _, fn := range p.Family(closeFn) {
		// a comparison of a collected length with the declared one exists
		hasCmp := false
		ForEachInstr(fn, func(in ssa.Instruction) {
			bo, ok := in.(*ssa.BinOp)
			if !ok || (bo.Op != token.NEQ && bo.Op != token.EQL) {
				return
			}
			lenSide := func(v ssa.Value) bool {
				for _, l := range Origins(v) {
					if l.Kind == "call" && IsCallTo(l.Call, "(*bytes.Buffer).Len", "builtin len") {
						return true
					}
				}
				return false
			}
			if fromCL(bo.X) && lenSide(bo.Y) || fromCL(bo.Y) && lenSide(bo.X) {
				hasCmp = true
			}
		})
		for _, call := range Calls(fn) {
			if call.Common().StaticCallee() != flushFn {
				continue
			}
			unenv := false
			for _, f := range p.FactsAtInter(call.Block()) {
				if cmp, ok := f.AsCmp(); ok && cmp.Op == token.EQL && LoadedField(cmp.X) == expF {
					if k, isK := ConstInt(cmp.Y); isK && k == -1 {
						unenv = true
					}
				}
			}
			if !unenv {
				continue
			}
			nB++
			mentions := func(in ssa.Instruction) bool {
				iff, ok := in.(*ssa.If)
				if !ok {
					return false
				}
				if bo, ok := iff.Cond.(*ssa.BinOp); ok {
					return fromCL(bo.X) || fromCL(bo.Y)
				}
				return false
			}
			found, path := PathQuery{Target: func(in ssa.Instruction) bool { return in == ssa.Instruction(call) }, Avoid: mentions}.Search(fn, nil)
			c.Check(hasCmp && !found, "C09.11", FuncName(fn), "collected-length-compared-with-declared", call.Pos(),
				"the un-enveloped body is decoded only after its collected length was compared with the declared Content-Length",
				"the transcoding writer decodes whatever it collected of an un-enveloped body without comparing its length with the Content-Length the backend declared: a protobuf message cut on a field boundary decodes fine and the truncated response is delivered as a success: "+witnessString(p, path))
		}
	}
	if nB == 0 {
		c.Bad("C09.11", FuncName(closeFn), "collected-length-compared-with-declared", closeFn.Pos(), "no finalising flush of an un-enveloped body found: shape changed")
	}
}

// runC09UnenvelopedSourceProbes: C09.12 (seed C09j).  For a client WITH envelopes the bytes after a
// message's payload are the next envelope, so the per-message source may stop by itself when the
// announced length is used up.  For a client WITHOUT envelopes the declared Content-Length is the
// whole body: a body that continues beyond it "declares a length the bytes do not honour", and the
// only way to notice is a source that keeps reading and reports the surplus.  So the source
// installed on the 'client has no envelopes' branch is never a module reader whose Read produces
// io.EOF on its own.
func runC09UnenvelopedSourceProbes(c *Ctx) {
	p := c.P
	c.Rule("C09.12", "the body source of a client without envelopes does not end the body on its own (a surplus is reported)", 1)
	erT := types.NewPointer(p.MustNamed("envelopingReader"))
	curF := p.MustField("envelopingReader", "current")
	cliEnvF := p.MustField("operation", "clientEnveloper")
	n := 0
	for _, fn := range readerFuncs(p, erT) {
		for _, st := range StoresToField(fn, curF) {
			unenv := false
			for _, f := range p.FactsAtInter(st.Block()) {
				if cmp, ok := f.AsCmp(); ok && cmp.Op == token.EQL && IsNilConst(cmp.Y) && LoadedField(cmp.X) == cliEnvF {
					unenv = true
				}
			}
			if !unenv {
				continue
			}
			for _, l := range Origins(st.Val) {
				if l.Kind != "alloc" {
					continue
				}
				pt, ok := l.V.Type().(*types.Pointer)
				if !ok {
					continue
				}
				named, ok := pt.Elem().(*types.Named)
				if !ok || named.Obj().Pkg() == nil || named.Obj().Pkg().Path() != RootPath {
					continue
				}
				rd := p.MethodOf(types.NewPointer(named), "Read")
				if rd == nil {
					continue
				}
				n++
				ownEOF := ""
				ForEachInstr(rd, func(in ssa.Instruction) {
					ret, ok := in.(*ssa.Return)
					if !ok {
						return
					}
					rv := ReturnValues(ret)
					if len(rv) != 2 {
						return
					}
					for _, lo := range Origins(rv[1]) {
						if lo.Kind == "global" || lo.Kind == "load" {
							if g, isG := globalOf(lo.V); isG && g.Pkg != nil && g.Pkg.Pkg.Path() == "io" && g.Name() == "EOF" {
								ownEOF = p.Pos(ret.Pos())
							}
						}
					}
				})
				c.Check(ownEOF == "", "C09.12", FuncName(fn), "unenveloped-source:"+N(named.Obj()), st.Pos(),
					"the reader installed for the un-enveloped body never produces io.EOF itself: it ends when the client's body ends and reports a surplus",
					"the source installed for the body of a client without envelopes is a "+N(named.Obj())+", whose Read returns io.EOF on its own ("+ownEOF+") once the announced length is used up: a body longer than its declared Content-Length is silently cut and handed to the backend as a complete message")
			}
		}
	}
	if n == 0 {
		c.Bad("C09.12", "envelopingReader", "unenveloped-source", token.NoPos, "no module reader is installed as the source of an un-enveloped body: shape changed")
	}
}

// globalOf: v is (a load of) a package-level variable.
func globalOf(v ssa.Value) (*ssa.Global, bool) {
	switch x := v.(type) {
	case *ssa.Global:
		return x, true
	case *ssa.UnOp:
		if g, ok := x.X.(*ssa.Global); ok {
			return g, true
		}
	}
	return nil, false
}


// variadicElems: the values stored into the backing array of a variadic operand.
func variadicElems(arg ssa.Value) []ssa.Value {
	sl, ok := arg.(*ssa.Slice)
	if !ok {
		return nil
	}
	al, ok := sl.X.(*ssa.Alloc)
	if !ok {
		return nil
	}
	var out []ssa.Value
	for _, ref := range *al.Referrers() {
		ia, ok := ref.(*ssa.IndexAddr)
		if !ok {
			continue
		}
		for _, r2 := range *ia.Referrers() {
			if st, ok := r2.(*ssa.Store); ok && st.Addr == ia {
				out = append(out, st.Val)
			}
		}
	}
	return out
}

// wrapsError: v is fmt.Errorf with a %w verb / errors.Join over inner - a value for which
// errors.Is(v, target) answers what it answers for inner.
func wrapsError(v, inner ssa.Value, cp *CFGPath) bool {
	call, ok := strip(v).(*ssa.Call)
	if !ok {
		return false
	}
	var elems []ssa.Value
	switch {
	case IsCallTo(call, "fmt.Errorf") && len(call.Call.Args) == 2:
		if f, ok := ConstString(call.Call.Args[0]); !ok || !strings.Contains(f, "%w") {
			return false
		}
		elems = variadicElems(call.Call.Args[1])
	case IsCallTo(call, "errors.Join") && len(call.Call.Args) == 1:
		elems = variadicElems(call.Call.Args[0])
	default:
		return false
	}
	for _, e := range elems {
		x := e
		for {
			switch y := x.(type) {
			case *ssa.MakeInterface:
				x = y.X
				continue
			case *ssa.ChangeInterface:
				x = y.X
				continue
			}
			break
		}
		if x == inner || (cp != nil && cp.Deref(x) == inner) {
			return true
		}
	}
	return false
}

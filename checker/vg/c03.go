package vg

import (
	"go/token"
	"go/types"
	"net/textproto"
	"sort"
	"strings"

	"golang.org/x/tools/go/ssa"
)

func init() {
	register(&PropertySpec{
		ID: "C03",
		Explanation: "Decides: (C03.1) at every call of a client protocol's response-header encoder the meta's codec is the CLIENT codec's Name(); " +
			"(C03.2) single terminal disposition: the end encoder is invoked only from the response writer's writeEnd and the pre-handler error reporter; the underlying writer's WriteHeader only from the header flusher, the pre-handler reporter and the plain-HTTP error helpers; reportEnd reaches writeEnd/flushHeaders only on the not-yet-ended edge, flushHeaders writes the head only on the not-yet-flushed edge, both flags are set on every path, the pre-handler path runs only when no response writer exists yet, and after the end the writer refuses data; " +
			"(C03.3) every response envelope's length has the same origin as the bound on the bytes that follow; (C03.5) narrowing to uint32 is justified by a dominating limit check; (C03.6) a re-encoded frame's compressed flag is (message was compressed && client compression present); " +
			"(C03.4) Content-Length is set from Len() of the very buffer that is then written, both under 'no error' only, and the backend's own Content-Length is consumed before any response state is installed. " +
			"Not decided: validity of body bytes, 'declared compression matches bytes' for un-enveloped clients, HTTP status tables (C04).",
		Run: runC03,
	})
}

// endEmitters: the functions (other than the pre-handler reporter operation.reportError) that
// invoke the client protocol's end encoder - today responseWriter.writeEnd.
func endEmitters(p *Prog) (emitters []*ssa.Function, isEmitter map[*ssa.Function]bool, isEndEncode func(ssa.Instruction) bool) {
	opReportEarly := p.MustFunc("(*operation).reportError")
	isEndEncode = func(in ssa.Instruction) bool {
		ci, ok := in.(ssa.CallInstruction)
		return ok && ci.Common().IsInvoke() && N(ci.Common().Method) == "encodeEnd"
	}
	isEmitter = map[*ssa.Function]bool{}
	for _, fn := range p.Funcs {
		if fn == opReportEarly {
			continue
		}
		has := false
		ForEachInstr(fn, func(in ssa.Instruction) {
			if isEndEncode(in) {
				has = true
			}
		})
		if has {
			emitters = append(emitters, fn)
			isEmitter[fn] = true
		}
	}
	return
}

func runC03(c *Ctx) {
	// clause shared with C16: a flush asked for by the handler never commits a response head that is still being held back
	defer c.ImportRules("C16", "C16.5")
	defer func() {
		c.Rule("C03.20", "a response message for a peer without envelopes is compressed whenever a compression is declared", 1)
		checkUnenvelopedCompression(c, "C03.20", false)
	}()
	// clause shared with C04: grpc-message is percent-encoded to the spec's character set
	defer c.ImportRules("C04", "C04.5")
	p := c.P
	// clauses shared with C01 (a response declared compressed is a stream of that compression)
	defer c.ImportRules("C01", "C01.4", "C01.6")
	rwT := p.MustNamed("responseWriter")
	_ = rwT
	flushHeaders := p.MustFunc("(*responseWriter).flushHeaders")
	// the flusher and the helpers it alone calls (a split 'guard + body' is one flusher)
	flushFam := []*ssa.Function{flushHeaders}
	inFlushFam := map[*ssa.Function]bool{flushHeaders: true}
	for changed := true; changed; {
		changed = false
		for _, fn := range p.Funcs {
			if inFlushFam[fn] || !p.inScope(fn) || fn.Signature.Recv() == nil || !isPtrTo(fn.Signature.Recv().Type(), RootPath, "responseWriter") || len(p.Callers(fn)) == 0 {
				continue
			}
			all := true
			for _, e := range p.Callers(fn) {
				if !inFlushFam[e.Caller] {
					all = false
				}
			}
			if all {
				inFlushFam[fn] = true
				flushFam = append(flushFam, fn)
				changed = true
			}
		}
	}
	reportEnd := p.MustFunc("(*responseWriter).reportEnd")
	emitters, isEmitter, isEndEncode := endEmitters(p)
	writeHeader := p.MustFunc("(*responseWriter).WriteHeader")
	rwWrite := p.MustFunc("(*responseWriter).Write")
	opReport := p.MustFunc("(*operation).reportError")
	endWrittenF := p.MustField("responseWriter", "endWritten")
	headersFlushedF := p.MustField("responseWriter", "headersFlushed")
	errF := p.MustField("responseWriter", "err")
	bufF := p.MustField("responseWriter", "buf")
	wF := p.MustField("responseWriter", "w")
	respCodecF := p.MustField("responseMeta", "codec")

	// ---------------------------------------------------------------- C03.1
	c.Rule("C03.1", "response metadata handed to the client protocol carries the client codec's name", 2)
	for _, fn := range p.Funcs {
		for _, call := range Calls(fn) {
			cc := call.Common()
			if !cc.IsInvoke() || N(cc.Method) != "addProtocolResponseHeaders" {
				continue
			}
			c.CountSite()
			meta := cc.Args[0]
			ls := StructFieldOriginsAt(meta, respCodecF, call)
			good := len(ls) > 0
			for _, l := range ls {
				if l.Kind != "call" {
					good = false
					continue
				}
				lc := l.Call.Common()
				var recv ssa.Value
				if lc.IsInvoke() && N(lc.Method) == "Name" {
					recv = lc.Value
				}
				f := LoadedField(recv)
				if recv == nil || f == nil || N(f) != "codec" || !PathOfHasSide(recv, "client") {
					good = false
				}
			}
			c.Check(good, "C03.1", FuncName(fn), "meta.codec", call.Pos(),
				"meta.codec is the client codec's Name()", "the response meta handed to the client protocol's header encoder lacks the client codec's name: the content-type sent to the client has an empty or wrong sub-format")
		}
		// static delegation between client handlers must pass the parameter through
		for _, call := range Calls(fn) {
			sc := call.Common().StaticCallee()
			if sc == nil || N(sc) != "addProtocolResponseHeaders" || sc.Signature.Recv() == nil {
				continue
			}
			_, isParam := call.Common().Args[1].(*ssa.Parameter)
			c.Check(isParam, "C03.1", FuncName(fn), "delegation", call.Pos(),
				"delegation to another client protocol passes its own meta parameter through", "a delegating header encoder does not pass its meta parameter through unchanged")
		}
	}

	// ---------------------------------------------------------------- C03.2
	c.Rule("C03.2", "exactly one terminal disposition: who-may-call, guards and flags", 10)
	for _, fn := range p.Funcs {
		for _, call := range Calls(fn) {
			cc := call.Common()
			if cc.IsInvoke() && N(cc.Method) == "encodeEnd" {
				ok := fn == opReport || fn == reportEnd || inFlushFam[fn]
				if !ok && fn.Signature.Recv() != nil && isPtrTo(fn.Signature.Recv().Type(), RootPath, "responseWriter") {
					// a helper of the response writer reached only through reportEnd / the flusher
					ok = len(p.Callers(fn)) > 0
					for _, e := range p.Callers(fn) {
						if e.Caller != reportEnd && !inFlushFam[e.Caller] {
							ok = false
						}
					}
				}
				c.Check(ok, "C03.2", FuncName(fn), "who-calls:encodeEnd", call.Pos(),
					"the end encoder is invoked only by the response writer's end path (reportEnd / flushHeaders, or a helper only they call) and the pre-handler reporter", "the client protocol's end encoder is invoked outside responseWriter's reportEnd / flushHeaders end path and operation.reportError: a second terminal disposition can be emitted")
			}
			if cc.IsInvoke() && N(cc.Method) == "WriteHeader" && isNamed(cc.Value.Type(), "net/http", "ResponseWriter") {
				allowed := map[string]bool{"(*responseWriter).flushHeaders": true, "(*operation).reportError": true, "(*httpError).Encode": true, "httpWriteError": true}
				c.Check(allowed[FuncName(fn)] || inFlushFam[fn], "C03.2", FuncName(fn), "who-calls:WriteHeader", call.Pos(),
					"the underlying writer's WriteHeader is called from a designated site", "the underlying ResponseWriter.WriteHeader is called outside the designated sites: more than one response head can be written")
			}
		}
	}
	if len(emitters) == 0 {
		c.Bad("C03.2", FuncName(reportEnd), "end-emitters", reportEnd.Pos(), "no function of the response writer invokes the end encoder: shape changed")
	}
	// reportEnd: every path to writeEnd / flushHeaders has endWritten == false
	isCallTo := func(targets ...*ssa.Function) func(ssa.Instruction) bool {
		return func(in ssa.Instruction) bool {
			ci, ok := in.(ssa.CallInstruction)
			if !ok {
				return false
			}
			for _, cal := range p.CalleesAt(ci) {
				for _, t := range targets {
					if cal == t {
						return true
					}
				}
			}
			return false
		}
	}
	fieldFalse := func(b *ssa.BasicBlock, fld *types.Var) bool {
		for _, f := range p.FactsAtInter(b) {
			if !f.Truth && LoadedField(f.Cond) == fld {
				return true
			}
		}
		return false
	}
	emitsEnd := func(in ssa.Instruction) bool {
		if isEndEncode(in) {
			return true
		}
		ci, ok := in.(ssa.CallInstruction)
		if !ok {
			return false
		}
		for _, cal := range p.CalleesAt(ci) {
			if cal == flushHeaders || (isEmitter[cal] && cal != reportEnd) {
				return true
			}
		}
		return false
	}
	ForEachInstr(reportEnd, func(in ssa.Instruction) {
		if emitsEnd(in) {
			c.Check(fieldFalse(in.Block(), endWrittenF), "C03.2", FuncName(reportEnd), "guard:endWritten", in.Pos(),
				"the end is emitted only on the edge where endWritten is false", "reportEnd can emit an end although one was already written (endWritten not tested on this path)")
		}
	})
	for _, flushFn := range flushFam {
		ForEachInstr(flushFn, func(in ssa.Instruction) {
			ci, ok := in.(ssa.CallInstruction)
			if !ok {
				return
			}
			cc := ci.Common()
			if cc.IsInvoke() && N(cc.Method) == "WriteHeader" {
				c.Check(fieldFalse(in.Block(), headersFlushedF), "C03.2", FuncName(flushHeaders), "guard:headersFlushed", in.Pos(),
					"the response head is written only on the edge where headersFlushed is false", "flushHeaders can write the response head twice (headersFlushed not tested)")
				setsFlag := func(x ssa.Instruction) bool {
					st, ok := x.(*ssa.Store)
					if !ok {
						return false
					}
					fa, ok := st.Addr.(*ssa.FieldAddr)
					if !ok || FieldOfAddr(fa) != headersFlushedF {
						return false
					}
					b, isC := ConstBool(st.Val)
					return isC && b
				}
				okSet, path := MustPassToExit(flushFn, in, setsFlag, IsReturn, nil)
				c.Check(okSet, "C03.2", FuncName(flushHeaders), "sets:headersFlushed", in.Pos(),
					"headersFlushed is set on every path after the head was written", "a path leaves flushHeaders after writing the head without setting headersFlushed: "+witnessString(p, path))
			}
		})
	}
	{
		setsEnd := func(x ssa.Instruction) bool {
			st, ok := x.(*ssa.Store)
			if !ok {
				return false
			}
			fa, ok := st.Addr.(*ssa.FieldAddr)
			if !ok || FieldOfAddr(fa) != endWrittenF {
				return false
			}
			b, isC := ConstBool(st.Val)
			return isC && b
		}
		for _, em := range emitters {
			ForEachInstr(em, func(in ssa.Instruction) {
				if !isEndEncode(in) {
					return
				}
				okSet, path := MustPassToExit(em, in, setsEnd, IsReturn, nil)
				c.Check(okSet, "C03.2", FuncName(em), "sets:endWritten", in.Pos(),
					"endWritten is set on every path after the end encoder ran", "a path returns after the end encoder ran without setting endWritten: "+witnessString(p, path))
			})
		}
	}
	// after an end was reported the writer refuses data: reportEnd stores a non-nil err on all paths that emitted an end
	{
		setsErr := func(x ssa.Instruction) bool {
			st, ok := x.(*ssa.Store)
			if !ok {
				return false
			}
			fa, ok := st.Addr.(*ssa.FieldAddr)
			return ok && FieldOfAddr(fa) == errF && !IsNilConst(st.Val)
		}
		ForEachInstr(reportEnd, func(in ssa.Instruction) {
			if emitsEnd(in) {
				okSet, path := MustPassToExit(reportEnd, in, setsErr, IsReturn, nil)
				c.Check(okSet, "C03.2", FuncName(reportEnd), "sets:err-after-end", in.Pos(),
					"after emitting the end the writer's error cell is set (later writes are refused)", "after emitting the end a path leaves reportEnd without closing the writer for data: "+witnessString(p, path))
			}
		})
		// Write forwards data only when err == nil
		ForEachInstr(rwWrite, func(in ssa.Instruction) {
			ci, ok := in.(ssa.CallInstruction)
			if !ok || !ci.Common().IsInvoke() || N(ci.Common().Method) != "Write" {
				return
			}
			okGuard := false
			for _, f := range FactsAt(in.Block()) {
				if cmp, ok := f.AsCmp(); ok && cmp.Op == token.EQL && IsNilConst(cmp.Y) && LoadedField(cmp.X) == errF {
					okGuard = true
				}
			}
			c.Check(okGuard, "C03.2", FuncName(rwWrite), "guard:err", in.Pos(),
				"body data is forwarded only while the writer's error cell is nil", "responseWriter.Write forwards data without testing the error cell: message data can follow the terminal disposition")
		})
	}
	// pre-handler path of operation.reportError only without a responseWriter
	ForEachInstr(opReport, func(in ssa.Instruction) {
		ci, ok := in.(ssa.CallInstruction)
		if !ok {
			return
		}
		cc := ci.Common()
		if cc.IsInvoke() && (N(cc.Method) == "WriteHeader" || N(cc.Method) == "encodeEnd") {
			okGuard := false
			for _, f := range FactsAt(in.Block()) {
				if ex, ok := f.Cond.(*ssa.Extract); ok && ex.Index == 1 && !f.Truth {
					if ta, ok := ex.Tuple.(*ssa.TypeAssert); ok && isPtrTo(ta.AssertedType, RootPath, "responseWriter") {
						okGuard = true
					}
				}
			}
			c.Check(okGuard, "C03.2", FuncName(opReport), "pre-handler-only:"+N(cc.Method), in.Pos(),
				"the direct write of head/end happens only when the writer is not yet a responseWriter", "operation.reportError writes head/end directly although a responseWriter may exist: two dispositions")
		}
	})

	defer runC03more(c)
	// ---------------------------------------------------------------- C03.3 / C03.5 / C03.6
	c.Rule("C03.3", "response envelope length and the bound on the bytes that follow have the same origin", 5)
	c.Rule("C03.5", "narrowing to uint32 for a response envelope length is dominated by a limit check of the same quantity", 4)
	c.Rule("C03.6", "a re-encoded response frame's compressed flag = message was compressed AND client compression present", 1)
	checkEnvelopeSites(c, "C03.3", "C03.5", "C03.6", false)
	checkSynthFlagNonEmpty(c, "C03.6", false)
	checkLengthMeasuredAfterLastEdit(c, "C03.6", false)

	// ---------------------------------------------------------------- C03.4
	c.Rule("C03.4", "Content-Length equals the buffer written, only without error; backend Content-Length consumed first", 4)
	var flushMuts []HeaderMutation
	var flushCalls []ssa.CallInstruction
	for _, flushFn := range flushFam {
		flushMuts = append(flushMuts, HeaderMutations(flushFn)...)
		flushCalls = append(flushCalls, Calls(flushFn)...)
	}
	for _, m := range flushMuts {
		if m.Key == nil {
			continue
		}
		k, _ := ConstString(m.Key)
		if textproto.CanonicalMIMEHeaderKey(k) != "Content-Length" {
			continue
		}
		var lenBuf ssa.Value
		for _, l := range Origins(m.Val) {
			if l.Kind == "call" && IsCallTo(l.Call, "strconv.Itoa", "strconv.FormatInt") {
				lenBuf = bufferOfLen(l.Call.Common().Args[0])
			}
		}
		okLen := lenBuf != nil && LoadedField(lenBuf) == bufF
		c.Check(okLen, "C03.4", FuncName(flushHeaders), "content-length-from-buffer", m.Instr.Pos(),
			"Content-Length is the decimal Len() of the hold-back buffer", "Content-Length is not computed from the length of the buffer that will be written")
		noErr := false
		for _, f := range FactsAt(m.Instr.Block()) {
			if !f.Truth && isHasErrCond(f.Cond) {
				noErr = true
			}
		}
		c.Check(noErr, "C03.4", FuncName(flushHeaders), "content-length-only-without-error", m.Instr.Pos(),
			"Content-Length of the buffered body is announced only when the response carries no error", "Content-Length of the buffered body is announced although an error body will be written instead")
	}
	nWT := 0
	for _, call := range flushCalls {
		if !IsCallTo(call, "(*bytes.Buffer).WriteTo") {
			continue
		}
		nWT++
		okBuf := LoadedField(call.Common().Args[0]) == bufF
		noErr := false
		for _, f := range FactsAt(call.Block()) {
			if !f.Truth && isHasErrCond(f.Cond) {
				noErr = true
			}
		}
		c.Check(okBuf && noErr, "C03.4", FuncName(flushHeaders), "buffer-written-only-without-error", call.Pos(),
			"the buffered body is written only when the response carries no error (otherwise the error body alone is written)",
			"the buffered message body can be written although the response ends with an error: message data and error are both delivered")
	}
	if nWT == 0 {
		c.Bad("C03.4", FuncName(flushHeaders), "buffer-written", flushHeaders.Pos(), "flushHeaders never writes the hold-back buffer")
	}
	// backend Content-Length is extracted (and deleted) before response state is installed
	extract := p.MustFunc("httpExtractContentLength")
	isExtract := isCallTo(extract)
	ForEachInstr(writeHeader, func(in ssa.Instruction) {
		isInstall := false
		if st, ok := in.(*ssa.Store); ok {
			if fa, ok := st.Addr.(*ssa.FieldAddr); ok && FieldOfAddr(fa) == wF {
				isInstall = true
			}
		}
		if isCallTo(flushHeaders)(in) {
			isInstall = true
		}
		if !isInstall {
			return
		}
		found, path := PathQuery{Target: func(x ssa.Instruction) bool { return x == in }, Avoid: isExtract}.Search(writeHeader, nil)
		c.Check(!found, "C03.4", FuncName(writeHeader), "backend-content-length-consumed-first", in.Pos(),
			"the backend's Content-Length header is parsed and removed before any body adapter is installed or headers are flushed",
			"a path installs response state / flushes headers without consuming the backend's Content-Length: it is forwarded although the body is re-encoded ("+witnessString(p, path)+")")
	})
	// the extractor deletes the header it parsed
	okDel := false
	for _, m := range HeaderMutations(extract) {
		if m.Op == "Del" {
			if k, _ := ConstString(m.Key); textproto.CanonicalMIMEHeaderKey(k) == "Content-Length" {
				okDel = true
			}
		}
	}
	c.Check(okDel, "C03.4", FuncName(extract), "deletes-content-length", extract.Pos(), "the extractor deletes Content-Length", "the backend's Content-Length is parsed but not removed")
}

func runC03more(c *Ctx) {
	p := c.P
	// ---------------------------------------------------------------- C03.11
	c.Rule("C03.11", "response-side adapters read only the response direction's compression cells", 10)
	checkDirectionCells(c, "C03.11", true)
	// ---------------------------------------------------------------- C03.13
	runC03NoWriteAfterEnd(c)
	// ---------------------------------------------------------------- C03.14
	runC03EndNotOverridden(c)
	// ---------------------------------------------------------------- C03.15
	runC03EndAlwaysEmitted(c)
	runC03WebTrailerNames(c)
	runC03EarlyEndScrubs(c)
	runC03ErrorBodyLabelled(c)
	runC03ErrorBodyCompression(c)
	// ---------------------------------------------------------------- C03.12
	c.Rule("C03.12", "an enveloped unit is decompressed exactly when its own envelope's compressed flag says so", 2)
	checkUnitFlagDecompress(c, "C03.12")
	// ---------------------------------------------------------------- C03.7
	c.Rule("C03.7", "a failed write to the client-side sink closes the body adapter (its error cell is set) before the error is returned", 5)
	for _, tn := range []string{"envelopingWriter", "transformingWriter"} {
		n := p.MustNamed(tn)
		st := n.Underlying().(*types.Struct)
		var errF *types.Var
		sinks := map[*types.Var]bool{}
		for i := 0; i < st.NumFields(); i++ {
			f := st.Field(i)
			if N(f) == "err" {
				errF = f
			}
			if isNamed(f.Type(), "io", "Writer") {
				sinks[f] = true
			}
		}
		if errF == nil {
			fatalf("anchor=%s.err not found", tn)
		}
		ms := p.SSA.MethodSets.MethodSet(types.NewPointer(n))
		// forwarders: methods that return a sink write's results directly
		forwarder := map[*ssa.Function]bool{}
		isSinkWrite := func(call ssa.CallInstruction) bool {
			cc := call.Common()
			if cc.IsInvoke() && N(cc.Method) == "Write" && sinks[LoadedField(cc.Value)] {
				return true
			}
			if IsCallTo(call, "(*bytes.Buffer).WriteTo") && sinks[LoadedField(cc.Args[1])] {
				return true
			}
			for _, cal := range p.CalleesAt(call) {
				if forwarder[cal] {
					return true
				}
			}
			return false
		}
		var methods []*ssa.Function
		for i := 0; i < ms.Len(); i++ {
			if m := p.MethodOf(types.NewPointer(n), N(ms.At(i).Obj())); m != nil && m.Blocks != nil {
				methods = append(methods, m)
			}
		}
		for iter := 0; iter < 2; iter++ {
			for _, m := range methods {
				ForEachInstr(m, func(in ssa.Instruction) {
					ret, ok := in.(*ssa.Return)
					if !ok || len(ret.Results) != 2 {
						return
					}
					if ex, ok := ret.Results[1].(*ssa.Extract); ok {
						if call, ok := ex.Tuple.(*ssa.Call); ok && isSinkWrite(call) && len(m.Blocks) <= 4 {
							// a small helper that hands the sink's (n, err) straight back
							stores := false
							ForEachInstr(m, func(x ssa.Instruction) {
								if _, isSt := x.(*ssa.Store); isSt {
									stores = true
								}
							})
							if !stores {
								forwarder[m] = true
							}
						}
					}
				})
			}
		}
		for _, m := range methods {
			if forwarder[m] {
				continue
			}
			for _, call := range Calls(m) {
				if !isSinkWrite(call) {
					continue
				}
				cv, ok := call.(*ssa.Call)
				if !ok {
					continue
				}
				c.CountSite()
				var errV ssa.Value
				for _, ref := range *cv.Referrers() {
					if ex, ok := ref.(*ssa.Extract); ok && ex.Index == 1 {
						errV = ex
					}
				}
				if errV == nil || len(*errV.Referrers()) == 0 {
					// deliberately ignored writes of already computed bytes (end frames) are outside this rule
					c.Trivial("C03.7", FuncName(m), "sink-write-ignored:"+CalleeName(call), call.Pos(), "result not used")
					continue
				}
				good := true
				var w []ssa.Instruction
				tested := false
				// the error itself and the phis it flows into (err declared before an if/else whose
				// other arm leaves it nil)
				var errRefs []ssa.Instruction
				{
					seenV := map[ssa.Value]bool{}
					var collect func(v ssa.Value, depth int)
					collect = func(v ssa.Value, depth int) {
						if seenV[v] || depth > 3 {
							return
						}
						seenV[v] = true
						for _, ref := range *v.Referrers() {
							errRefs = append(errRefs, ref)
							if ph, isPhi := ref.(*ssa.Phi); isPhi {
								collect(ph, depth+1)
							}
						}
					}
					collect(errV, 0)
				}
				for _, ref := range errRefs {
					switch r := ref.(type) {
					case *ssa.BinOp:
						if (r.Op == token.NEQ || r.Op == token.EQL) && (IsNilConst(r.X) || IsNilConst(r.Y)) {
							for _, rr := range *r.Referrers() {
								iff, ok := rr.(*ssa.If)
								if !ok {
									continue
								}
								tested = true
								succ := iff.Block().Succs[0]
								if r.Op == token.EQL {
									succ = iff.Block().Succs[1]
								}
								setsErr := func(x ssa.Instruction) bool {
									s2, ok := x.(*ssa.Store)
									if !ok {
										return false
									}
									fa, ok := s2.Addr.(*ssa.FieldAddr)
									return ok && FieldOfAddr(fa) == errF && !IsNilConst(s2.Val)
								}
								if len(succ.Instrs) > 0 && !setsErr(succ.Instrs[0]) {
									found, path := PathQuery{Target: IsReturn, Avoid: setsErr}.Search(m, succ.Instrs[0])
									if IsReturn(succ.Instrs[0]) {
										found, path = true, []ssa.Instruction{succ.Instrs[0]}
									}
									if found {
										good, w = false, path
									}
								}
							}
						}
					}
				}
				c.Check(good && tested, "C03.7", FuncName(m), "sink-write-error-closes-adapter:"+CalleeName(call), call.Pos(),
					"a failed write to the sink sets the adapter's error cell on every path before returning",
					"the error of a write to the client-side sink can be returned without setting the adapter's error cell ("+witnessString(p, w)+"): Close then still frames and flushes what was buffered, after the error/end was already reported")
			}
		}
	}

	// ---------------------------------------------------------------- C03.10
	c.Rule("C03.10", "each client protocol's response carries its own wire format's Content-Type prefix", 5)
	checkContentTypeTables(c, "C03.10", "clientProtocolHandler", "addProtocolResponseHeaders", "responseMeta")
	checkMessageContentType(c, "C03.10", "clientBodyPreparer", "prepareMarshalledResponse")

	// ---------------------------------------------------------------- C03.8
	c.Rule("C03.8", "end-in-headers client protocols announce a content compression only when the body is the (possibly compressed) message, never on an error body", 2)
	emb := p.Iface("clientProtocolEndMustBeInHeaders")
	cph := p.Iface("clientProtocolHandler")
	for _, t := range p.Implementers(cph) {
		if !(types.Implements(t, emb) || types.Implements(types.NewPointer(t), emb)) {
			continue
		}
		m := p.MethodOf(t, "addProtocolResponseHeaders")
		for _, fn := range SortedFuncs(p.Reach(m)) {
			if !p.inScope(fn) || N(fn) != "addProtocolResponseHeaders" {
				continue
			}
			for _, hm := range HeaderMutations(fn) {
				if hm.Key == nil {
					continue
				}
				k, _ := ConstString(hm.Key)
				if textproto.CanonicalMIMEHeaderKey(k) != "Content-Encoding" || hm.Op == "Del" {
					continue
				}
				c.CountSite()
				noErr := false
				for _, f := range FactsAt(hm.Instr.Block()) {
					if !f.Truth && isHasErrCond(f.Cond) {
						noErr = true
					}
				}
				if !noErr {
					// path-sensitive: no path reaches the store with both 'end != nil' and 'end.err != nil' true
					paths, ok := EnumPaths(fn.Blocks[0], nil, func(x ssa.Instruction) bool { return x == hm.Instr }, 0)
					if ok && len(paths) > 0 {
						noErr = true
						for _, cp := range paths {
							// evidence on this path that the response carries no error: 'end == nil' or 'end.err == nil'
							evidence := false
							for cond, truth := range cp.Truth {
								b, isB := cond.(*ssa.BinOp)
								if !isB || !IsNilConst(b.Y) {
									continue
								}
								isNil := b.Op == token.NEQ && !truth || b.Op == token.EQL && truth
								if !isNil {
									continue
								}
								name := ""
								if f := LoadedFieldOrField(b.X); f != nil {
									name = N(f)
								}
								if fv, isF := b.X.(*ssa.Field); isF {
									name = N(FieldOfVal(fv))
								}
								if name == "end" || name == "err" {
									evidence = true
								}
							}
							if !evidence {
								noErr = false
							}
						}
					}
				}
				c.Check(noErr, "C03.8", FuncName(fn), "content-encoding-only-without-error", hm.Instr.Pos(),
					"Content-Encoding is announced only on the no-error edge", "Content-Encoding can be announced on an error response whose body is the uncompressed error payload: declared compression does not match the bytes")
			}
		}
	}

	// ---------------------------------------------------------------- C03.9
	c.Rule("C03.9", "the response compression cell the error-body collector reads is set on every path that installs it while the response declares a compression", 1)
	rwT := types.NewPointer(p.MustNamed("responseWriter"))
	wh := p.MethodOf(rwT, "WriteHeader")
	wF := p.MustField("responseWriter", "w")
	respComprF := p.MustField("serverProtocolDetails", "respCompression")
	comprMetaF := p.MustField("responseMeta", "compression")
	ForEachInstr(wh, func(in ssa.Instruction) {
		st, ok := in.(*ssa.Store)
		if !ok {
			return
		}
		fa, ok := st.Addr.(*ssa.FieldAddr)
		if !ok || FieldOfAddr(fa) != wF {
			return
		}
		isErrW := false
		for _, l := range Origins(st.Val) {
			if l.Kind == "alloc" && isNamed(l.V.Type(), RootPath, "errorWriter") {
				isErrW = true
			}
		}
		if !isErrW {
			return
		}
		paths, ok := EnumPaths(wh.Blocks[0], nil, func(x ssa.Instruction) bool { return x == in }, 0)
		if !ok {
			c.Unknown("C03.9", FuncName(wh), "paths", st.Pos(), "too many paths")
			return
		}
		bad := 0
		for _, cp := range paths {
			// the path must KNOW that nothing is declared (compression == ""), or have recorded it
			knownNone := false
			for cond, truth := range cp.Truth {
				b, ok := cond.(*ssa.BinOp)
				if !ok || (b.Op != token.NEQ && b.Op != token.EQL) {
					continue
				}
				if s2, isS := ConstString(b.Y); !isS || s2 != "" {
					continue
				}
				isMeta := false
				if f := LoadedFieldOrField(b.X); f == comprMetaF {
					isMeta = true
				} else if fv, ok := b.X.(*ssa.Field); ok && FieldOfVal(fv) == comprMetaF {
					isMeta = true
				} else {
					for _, l := range Origins(b.X) {
						if l.Kind == "load" && l.Field == comprMetaF {
							isMeta = true
						}
					}
				}
				if isMeta && (b.Op == token.NEQ && !truth || b.Op == token.EQL && truth) {
					knownNone = true
				}
			}
			if knownNone {
				continue
			}
			set := false
			for _, b := range cp.Blocks {
				for _, x := range b.Instrs {
					if s2, ok := x.(*ssa.Store); ok {
						if fa2, ok := s2.Addr.(*ssa.FieldAddr); ok && FieldOfAddr(fa2) == respComprF {
							set = true
						}
					}
				}
			}
			if !set {
				bad++
			}
		}
		c.Check(bad == 0, "C03.9", FuncName(wh), "compression-known-before-error-body", st.Pos(),
			"whenever the backend declared a compression, the server response-compression cell is set before the error-body collector is installed",
			itoa(bad)+" path(s) install the error-body collector for a response that declares a compression without recording that compression: a compressed error body is parsed as if it were plain and the backend's error is lost")
	})
}

// isHasErrCond: v is (a phi / conjunction of) "end != nil && end.err != nil".
func isHasErrCond(v ssa.Value) bool {
	for _, l := range Origins(v) {
		if l.Kind == "load" && l.Field != nil && N(l.Field) == "err" && strings.Contains(l.Path, ".end.") {
			return true
		}
	}
	return false
}

// runC03NoWriteAfterEnd: C03.13 (defects D20, D21).  When the handler returns, the response
// writer finalises the body writer behind it (Write(nil), Close).  If the response has already
// ended by then - an error was reported, the hold-back buffer dropped and returned to the pool -
// that finalisation must not push anything into the sink: it would follow the end-of-stream, or
// land in a pooled buffer another RPC may own.  Every sink write reachable from a Close of a
// writer adapter, and the final Write(nil) itself, is dominated by 'the response writer's error
// cell is nil'.
func runC03NoWriteAfterEnd(c *Ctx) {
	p := c.P
	c.Rule("C03.13", "finalising the body writer pushes nothing into the sink once the response has ended", 3)
	rwErrF := p.MustField("responseWriter", "err")
	rwSinkF := p.MustField("responseWriter", "w")
	notEnded := func(in ssa.Instruction) bool {
		for _, f := range p.FactsAtInter(in.Block()) {
			cmp, ok := f.AsCmp()
			if !ok || cmp.Op != token.EQL || !IsNilConst(cmp.Y) {
				continue
			}
			if LoadedField(cmp.X) == rwErrF {
				return true
			}
		}
		return false
	}
	for _, tn := range []string{"envelopingWriter", "transformingWriter"} {
		named := p.MustNamed(tn)
		pt := types.NewPointer(named)
		sinkF := p.Field(tn, "w")
		if sinkF == nil {
			fatalf("anchor=%s.w (sink) not found", tn)
		}
		// direct sink writes: invoke Write on the sink field, or Buffer.WriteTo(sink)
		direct := func(in ssa.Instruction) bool {
			ci, ok := in.(ssa.CallInstruction)
			if !ok {
				return false
			}
			cc := ci.Common()
			if cc.IsInvoke() && N(cc.Method) == "Write" && LoadedField(cc.Value) == sinkF {
				return true
			}
			if IsCallTo(ci, "(*bytes.Buffer).WriteTo") && len(cc.Args) == 2 {
				for _, l := range Origins(cc.Args[1]) {
					if l.Kind == "load" && l.Field == sinkF {
						return true
					}
				}
			}
			return false
		}
		writes := map[*ssa.Function]int{} // 1 yes, 2 no / in progress
		var writesSink func(fn *ssa.Function) bool
		writesSink = func(fn *ssa.Function) bool {
			switch writes[fn] {
			case 1:
				return true
			case 2:
				return false
			}
			writes[fn] = 2
			res := false
			ForEachInstr(fn, func(in ssa.Instruction) {
				if direct(in) {
					res = true
				}
				if ci, ok := in.(ssa.CallInstruction); ok {
					if sc := ci.Common().StaticCallee(); sc != nil && sc.Signature.Recv() != nil && types.Identical(sc.Signature.Recv().Type(), pt) && writesSink(sc) {
						res = true
					}
				}
			})
			if res {
				writes[fn] = 1
			}
			return res
		}
		cl := p.MethodOf(pt, "Close")
		if cl == nil {
			fatalf("anchor=%s.Close not found", tn)
		}
		n := 0
		ForEachInstr(cl, func(in ssa.Instruction) {
			isW := direct(in)
			if ci, ok := in.(ssa.CallInstruction); ok && !isW {
				if sc := ci.Common().StaticCallee(); sc != nil && sc.Signature.Recv() != nil && types.Identical(sc.Signature.Recv().Type(), pt) && writesSink(sc) {
					isW = true
				}
			}
			if !isW {
				return
			}
			n++
			c.Check(notEnded(in), "C03.13", FuncName(cl), "close-writes-only-before-end", in.Pos(),
				"Close pushes data into the sink only while the response writer's error cell is nil",
				"Close writes into its sink without testing whether the response has already ended: after an error was reported the bytes follow the end-of-stream, or land in the hold-back buffer that was already returned to the pool")
		})
		if n == 0 {
			c.Trivial("C03.13", FuncName(cl), "close-writes-only-before-end", cl.Pos(), "Close writes nothing into its sink")
		}
	}
	// the final Write(nil) of responseWriter.close
	rwClose := p.MustFunc("(*responseWriter).close")
	nW := 0
	ForEachInstr(rwClose, func(in ssa.Instruction) {
		ci, ok := in.(ssa.CallInstruction)
		if !ok || !ci.Common().IsInvoke() || N(ci.Common().Method) != "Write" || LoadedField(ci.Common().Value) != rwSinkF {
			return
		}
		nW++
		c.Check(notEnded(in), "C03.13", FuncName(rwClose), "final-write-only-before-end", in.Pos(),
			"the finalising Write(nil) happens only while the response has not ended", "responseWriter.close triggers the body writer's final writes although the response may already have ended")
	})
	if nW == 0 {
		c.Trivial("C03.13", FuncName(rwClose), "final-write-only-before-end", rwClose.Pos(), "no finalising write")
	}
}

// runC03EndNotOverridden: C03.14 (defect D26).  The end of the RPC is merged into the header map
// of the client's response (as HTTP trailers).  The handler behind the transcoder writes to the
// same map through responseWriter.Header().  Two things keep the handler from changing the
// outcome the transcoder reported: the live map is handed out only while the end has not been
// written, and the end's trailers replace what is already stored under their keys.
func runC03EndNotOverridden(c *Ctx) {
	p := c.P
	c.Rule("C03.14", "the handler cannot override a written end: Header() detaches after the end; the end's trailers replace existing values", 2)
	rwPT := types.NewPointer(p.MustNamed("responseWriter"))
	hdr := p.MethodOf(rwPT, "Header")
	if hdr == nil {
		fatalf("anchor=responseWriter.Header not found")
	}
	endWrittenF := p.MustField("responseWriter", "endWritten")
	delegateF := p.MustField("responseWriter", "delegate")
	paths, ok := EnumPaths(hdr.Blocks[0], nil, IsReturn, 0)
	if !ok {
		c.Unknown("C03.14", FuncName(hdr), "paths", hdr.Pos(), "too many paths")
	}
	bad, nLive := 0, 0
	for _, cp := range paths {
		ret := cp.End.(*ssa.Return)
		live := false
		for _, l := range Origins(cp.Deref(ret.Results[0])) {
			if l.Kind == "call" && l.Call.Common().IsInvoke() && N(l.Call.Common().Method) == "Header" && LoadedField(l.Call.Common().Value) == delegateF {
				live = true
			}
		}
		if !live {
			continue
		}
		nLive++
		notEnded := false
		for cond, truth := range cp.Truth {
			if LoadedField(cond) == endWrittenF && !truth {
				notEnded = true
			}
		}
		if !notEnded {
			bad++
		}
	}
	c.Check(bad == 0 && nLive > 0, "C03.14", FuncName(hdr), "live-headers-only-before-end", hdr.Pos(),
		"the client response's own header map is handed to the handler only on paths that know the end has not been written",
		"responseWriter.Header() hands out the live header map of the client's response even after the end was written: a handler that sets its own trailers afterwards (grpc-status 0) replaces or precedes the error the transcoder reported, and the client sees success")

	// the merge of the end's trailers replaces
	merge := p.MustFunc("httpMergeTrailers")
	nAdd, replaced := 0, true
	for _, m := range HeaderMutations(merge) {
		if m.Op != "Add" && m.Op != "index" {
			continue
		}
		if m.Op == "index" {
			nAdd++
			continue // header[key] = vals : replaces by construction
		}
		nAdd++
		// a Del / Set of the same key on every path from the loop head of this key to the Add
		isClear := func(in ssa.Instruction) bool {
			for _, m2 := range HeaderMutations(merge) {
				if m2.Instr == in && (m2.Op == "Del" || m2.Op == "delete" || m2.Op == "Set") && m2.Key != nil && (m2.Key == m.Key || originSig(m2.Key) == originSig(m.Key)) {
					return true
				}
			}
			return false
		}
		found, _ := PathQuery{Target: func(in ssa.Instruction) bool { return in == m.Instr }, Avoid: isClear}.Search(merge, nil)
		// (a path that reaches the Add again through the value loop after a clear is fine: the
		// search from the entry finds any path that never passed a clear)
		if found && !clearedByEarlierLoop(merge, m) {
			replaced = false
		}
	}
	c.Check(replaced && nAdd > 0, "C03.14", FuncName(merge), "end-trailers-replace", merge.Pos(),
		"the end's trailers are stored after clearing what was under the same key",
		"the end's trailers are only added to the header map: a status the handler stored before under the same trailer key stays first and wins")
}

// runC03EndAlwaysEmitted: C03.15 (defect D32).  encodeEnd is THE terminal disposition of a client
// protocol.  On every path it either writes to the writer it was given (body / end-of-stream
// frame) or returns trailers to be merged; a path that does neither ends the response with
// nothing - the client cannot tell a clean end from a lost one.
func runC03EndAlwaysEmitted(c *Ctx) {
	p := c.P
	c.Rule("C03.15", "every path of a client protocol's end encoder emits the end (writes it, or returns trailers)", 5)
	cph := p.Iface("clientProtocolHandler")
	if cph == nil {
		fatalf("anchor=clientProtocolHandler not found")
	}
	for _, t := range p.Implementers(cph) {
		fn := p.MethodOf(t, "encodeEnd")
		if fn == nil {
			fatalf("anchor=%s.encodeEnd not found", typeName(t))
		}
		// a handler that delegates to another one's encodeEnd is judged there
		var writer *ssa.Parameter
		for _, prm := range fn.Params {
			if isNamed(prm.Type(), "io", "Writer") {
				writer = prm
			}
		}
		if writer == nil {
			c.Unknown("C03.15", typeName(t), "end-emitted", fn.Pos(), "end encoder without an io.Writer parameter")
			continue
		}
		usesWriter := func(in ssa.Instruction) bool {
			ci, ok := in.(ssa.CallInstruction)
			if !ok {
				return false
			}
			cc := ci.Common()
			if cc.IsInvoke() && strip(cc.Value) == ssa.Value(writer) {
				return true
			}
			for _, a := range cc.Args {
				if strip(a) == ssa.Value(writer) {
					return true
				}
				// http.ResponseWriter obtained from the writer by assertion
				for _, l := range Origins(a) {
					if l.Kind == "param" && l.V == ssa.Value(writer) {
						return true
					}
				}
			}
			if cc.IsInvoke() {
				for _, l := range Origins(cc.Value) {
					if l.Kind == "param" && l.V == ssa.Value(writer) {
						return true
					}
				}
			}
			return false
		}
		silentReturn := func(in ssa.Instruction) bool {
			ret, ok := in.(*ssa.Return)
			if !ok || ret.Block() == fn.Recover {
				return false
			}
			rv := ReturnValues(ret)
			return len(rv) == 1 && IsNilConst(rv[0])
		}
		// Unary client protocols carry their end in the response head (nothing to emit later);
		// the rule is about protocols whose end travels after the messages.
		eph := p.Iface("envelopedProtocolHandler")
		if eph == nil || !(types.Implements(t, eph) || types.Implements(types.NewPointer(t), eph)) {
			c.Trivial("C03.15", typeName(t), "end-emitted", fn.Pos(), "un-enveloped client protocol: the end is part of the response head")
			continue
		}
		// silent returns are legitimate where the end was already recorded in the headers, or
		// where the encoded end cannot be represented in an envelope at all (> MaxUint32)
		excused := func(from *ssa.BasicBlock, succ int) bool {
			iff, ok := from.Instrs[len(from.Instrs)-1].(*ssa.If)
			if !ok {
				return true
			}
			if prm, ok := iff.Cond.(*ssa.Parameter); ok && isBoolType(prm.Type()) && succ == 0 {
				return false // the 'was in headers' edge
			}
			if b, ok := iff.Cond.(*ssa.BinOp); ok && (b.Op == token.GTR || b.Op == token.GEQ) && succ == 0 {
				if k, isK := ConstInt(b.Y); isK && k >= 1<<32-1 {
					return false
				}
			}
			return true
		}
		found, path := PathQuery{Target: silentReturn, Avoid: usesWriter, EdgeOK: excused}.Search(fn, nil)
		c.Check(!found, "C03.15", typeName(t), "end-emitted", fn.Pos(),
			"every path (on which the end is not already in the headers) writes the end to the writer or returns trailers",
			"the end encoder has a path that writes nothing and returns no trailers ("+witnessString(p, path)+"): the response stops without a terminal disposition (e.g. when the encoded end exceeds a limit)")
	}
}

// runC03WebTrailerNames: C03.16 (defect D45).  The gRPC-Web end of stream is an HTTP/1-style
// header block inside a frame; PROTOCOL-WEB.md requires lower-case names there and the official
// client reads "grpc-status" case-sensitively.  http.Header.Write emits the map's keys verbatim,
// so the map that is serialised must have been filled with keys that went through
// strings.ToLower - not through Set/Add (which canonicalise) and not by a helper.
func runC03WebTrailerNames(c *Ctx) {
	p := c.P
	c.Rule("C03.16", "the gRPC-Web end-of-stream frame is serialised from a map whose keys were lower-cased", 1)
	cph := p.Iface("clientProtocolHandler")
	n := 0
	for _, t := range p.Implementers(cph) {
		if protocolConstOf(p, t) != "ProtocolGRPCWeb" {
			continue
		}
		enc := p.MethodOf(t, "encodeEnd")
		if enc == nil {
			fatalf("anchor=%s.encodeEnd not found", typeName(t))
		}
		for _, fn := range SortedFuncs(p.Reach(enc)) {
			if !p.inScope(fn) {
				continue
			}
			for _, call := range Calls(fn) {
				if !IsCallTo(call, "(net/http.Header).Write", "(net/http.Header).WriteSubset") {
					continue
				}
				n++
				why := lowerKeyedMap(p, call.Common().Args[0], call, 0)
				c.Check(why == "", "C03.16", FuncName(fn), "trailer-frame-names-lower-case", call.Pos(),
					"every key of the serialised header block went through strings.ToLower",
					"the gRPC-Web trailer frame is serialised with names that are not lower-cased: "+why+"; the official gRPC-Web client looks up 'grpc-status' case-sensitively and does not see the outcome")
			}
		}
	}
	if n == 0 {
		c.Bad("C03.16", "grpcWebClientProtocol", "trailer-frame-names-lower-case", token.NoPos, "no http.Header.Write found under the gRPC-Web end encoder: shape changed")
	}
}

// lowerKeyedMap explains why the header map v is not known to hold only lower-cased keys
// ("" = it is): v is created here (or by a module helper, one level) and every key stored
// went through strings.ToLower.
func lowerKeyedMap(p *Prog, v ssa.Value, user ssa.Instruction, depth int) string {
	m := strip(v)
	if call, ok := m.(*ssa.Call); ok && depth < 2 {
		if sc := call.Call.StaticCallee(); sc != nil && p.inModule(sc) {
			n := 0
			for _, b := range sc.Blocks {
				if ret, ok := b.Instrs[len(b.Instrs)-1].(*ssa.Return); ok && len(ret.Results) > 0 {
					n++
					if why := lowerKeyedMap(p, ret.Results[0], ret, depth+1); why != "" {
						return "built by " + FuncName(sc) + ": " + why
					}
				}
			}
			if n > 0 {
				return ""
			}
		}
	}
	if _, fresh := m.(*ssa.MakeMap); !fresh {
		return "the serialised map is not created in this function (its keys cannot be vouched for)"
	}
	nStores := 0
	for _, ref := range *m.Referrers() {
		switch r := ref.(type) {
		case *ssa.MapUpdate:
			nStores++
			lowered := false
			for _, l := range Origins(r.Key) {
				if l.Kind == "call" && IsCallTo(l.Call, "strings.ToLower") {
					lowered = true
				} else {
					lowered = false
					break
				}
			}
			if !lowered {
				return "a key is stored without passing through strings.ToLower (" + p.Pos(r.Pos()) + ")"
			}
		case *ssa.Lookup, *ssa.DebugRef, *ssa.Return:
		case ssa.CallInstruction:
			if ssa.Instruction(r) == user || IsCallTo(r, "builtin len") {
				continue
			}
			return "the map is handed to " + CalleeName(r) + " (" + p.Pos(r.Pos()) + "), which may store canonical-case keys"
		case *ssa.ChangeType, *ssa.MakeInterface:
			return "the map escapes through a conversion (" + p.Pos(instrPos(ref)) + ")"
		}
	}
	if nStores == 0 {
		return "nothing is stored into the serialised map here"
	}
	return ""
}

// runC03EarlyEndScrubs: C03.17 (defect D46).  The backend's framing headers (Content-Length,
// Content-Encoding, Trailer) are taken off the response by WriteHeader when it processes the
// backend's headers.  An end reported BEFORE that (respMeta is still nil: the error arose while
// the backend was reading the request, or while its headers were being parsed) is written with
// whatever the handler has put into the header map so far - so on every path from the
// 'respMeta == nil' edge to the flush of the client's headers each of the three is deleted.
func runC03EarlyEndScrubs(c *Ctx) {
	p := c.P
	c.Rule("C03.17", "an end reported before the backend's headers were processed removes the backend's framing headers before flushing", 3)
	rwPT := types.NewPointer(p.MustNamed("responseWriter"))
	flush := p.MethodOf(rwPT, "flushHeaders")
	respMetaF := p.MustField("responseWriter", "respMeta")
	if flush == nil {
		fatalf("anchor=responseWriter.flushHeaders not found")
	}
	n := 0
	for _, e := range p.Callers(flush) {
		if e.Kind != "static" || !p.inScope(e.Caller) {
			continue
		}
		early := false
		for _, f := range FactsAt(e.Site.Block()) {
			cmp, ok := f.AsCmp()
			if !ok || LoadedField(cmp.X) != respMetaF || !IsNilConst(cmp.Y) {
				continue
			}
			if cmp.Op == token.EQL {
				early = true
			}
		}
		// switch { case w.headersFlushed: ... case w.respMeta != nil: ... default: } gives the fact
		// as the false edge of '!= nil', which AsCmp normalises to EQL
		if !early {
			continue
		}
		for _, key := range []string{"Content-Length", "Content-Encoding", "Trailer"} {
			n++
			var isDel func(in ssa.Instruction) bool
			isDel = func(in ssa.Instruction) bool {
				ci, ok := in.(ssa.CallInstruction)
				if !ok {
					return false
				}
				if IsCallTo(ci, "(net/http.Header).Del") {
					k, isK := ConstString(ci.Common().Args[1])
					return isK && textproto.CanonicalMIMEHeaderKey(k) == key
				}
				// a module helper every path of which deletes the key
				if sc := ci.Common().StaticCallee(); sc != nil && p.inModule(sc) && sc != flush && sc != e.Caller {
					if esc, _ := (PathQuery{Target: IsExit, Avoid: isDel}).Search(sc, nil); !esc {
						return true
					}
				}
				return false
			}
			found, path := PathQuery{Target: func(in ssa.Instruction) bool { return in == ssa.Instruction(e.Site) }, Avoid: isDel}.Search(e.Caller, nil)
			if found {
				// or the flush itself deletes it before it hands the headers to the client's writer
				isWH := func(in ssa.Instruction) bool {
					ci, ok := in.(ssa.CallInstruction)
					return ok && ci.Common().IsInvoke() && N(ci.Common().Method) == "WriteHeader"
				}
				if esc, _ := (PathQuery{Target: isWH, Avoid: isDel}).Search(flush, nil); !esc {
					found = false
				}
			}
			c.Check(!found, "C03.17", FuncName(e.Caller), "early-end-removes:"+key, e.Site.Pos(),
				"every path to this flush deletes the backend's "+key+" first",
				"an end reported before the backend's headers were processed is flushed with the backend's "+key+" still in the header map (a handler may set it before it reads the request): the client's error response is framed by a header that describes another body: "+witnessString(p, path))
		}
	}
	if n == 0 {
		c.Bad("C03.17", "responseWriter", "early-end-removes", token.NoPos, "no flush of the client's headers under 'backend headers not processed yet' found: shape changed")
	}
	// ... and that state exists (seed C11m): 'respMeta == nil' is how the writer knows the backend's
	// headers were not processed yet, so a response writer starts with the cell nil - a literal
	// that pre-fills it ("defensive" &responseMeta{}) makes the arm above dead code.
	rwT := p.MustNamed("responseWriter")
	for _, fn := range p.Funcs {
		if !p.inScope(fn) {
			continue
		}
		ForEachInstr(fn, func(in ssa.Instruction) {
			al, ok := in.(*ssa.Alloc)
			if !ok {
				return
			}
			pt, ok := al.Type().(*types.Pointer)
			if !ok || !types.Identical(pt.Elem(), rwT) {
				return
			}
			pre := token.NoPos
			for _, ref := range *al.Referrers() {
				fa, ok := ref.(*ssa.FieldAddr)
				if !ok || FieldOfAddr(fa) != respMetaF {
					continue
				}
				for _, r2 := range *fa.Referrers() {
					if st, ok := r2.(*ssa.Store); ok && st.Addr == ssa.Value(fa) && !IsNilConst(st.Val) {
						pre = st.Pos()
					}
				}
			}
			c.Check(pre == token.NoPos, "C03.17", FuncName(fn), "early-state-exists", al.Pos(),
				"a new response writer starts with respMeta nil ('backend headers not processed yet')",
				"the response writer is created with respMeta already set: 'respMeta == nil' can never hold, so an end reported before the backend's headers were processed skips the removal of the backend's Content-Length / Content-Encoding / Trailer")
		})
	}
}

// runC03ErrorBodyLabelled: C03.18 (defect D58).  Client protocols whose end travels in the response
// head (Connect unary, REST) send an error as a JSON body.  Whatever Content-Type is in the header
// map by then (the backend's own, that of an HttpBody message) describes another body, so on every
// path of addProtocolResponseHeaders that computes the HTTP status of an error, Content-Type is
// stored as the constant "application/json" - not only 'if none is set yet'.
func runC03ErrorBodyLabelled(c *Ctx) {
	p := c.P
	c.Rule("C03.18", "un-enveloped client protocols label an error body application/json on every error path", 2)
	cph := p.Iface("clientProtocolHandler")
	eph := p.Iface("envelopedProtocolHandler")
	statusFn := p.MustFunc("httpStatusCodeFromRPC")
	n := 0
	for _, t := range p.Implementers(cph) {
		if eph != nil && (types.Implements(t, eph) || types.Implements(types.NewPointer(t), eph)) {
			continue
		}
		fn := p.MethodOf(t, "addProtocolResponseHeaders")
		if fn == nil {
			continue
		}
		var statusCalls []ssa.Instruction
		for _, call := range Calls(fn) {
			if call.Common().StaticCallee() == statusFn {
				statusCalls = append(statusCalls, call)
			}
		}
		if len(statusCalls) == 0 {
			continue // no error status computed here (gRPC-style protocols answer 200)
		}
		n++
		isJSONStore := func(in ssa.Instruction) bool {
			for _, hm := range HeaderMutations(fn) {
				if hm.Instr != in || hm.Key == nil || hm.Val == nil || (hm.Op != "Set" && hm.Op != "index") {
					continue
				}
				k, isK := ConstString(hm.Key)
				if !isK || textproto.CanonicalMIMEHeaderKey(k) != "Content-Type" {
					continue
				}
				vals := append([]ssa.Value{hm.Val}, sliceLiteralElems(hm.Val)...)
				for _, v := range vals {
					if s, ok := ConstString(v); ok && s == "application/json" {
						return true
					}
				}
			}
			return false
		}
		paths, ok := EnumPaths(fn.Blocks[0], nil, IsReturn, 0)
		if !ok {
			c.Unknown("C03.18", typeName(t), "error-body-labelled-json", fn.Pos(), "too many paths")
			continue
		}
		bad := 0
		for _, cp := range paths {
			errPath, labelled := false, false
			for _, b := range cp.Blocks {
				for _, in := range b.Instrs {
					for _, sc := range statusCalls {
						if in == sc {
							errPath = true
						}
					}
					if isJSONStore(in) {
						labelled = true
					}
				}
			}
			if errPath && !labelled {
				bad++
			}
		}
		c.Check(bad == 0, "C03.18", typeName(t), "error-body-labelled-json", fn.Pos(),
			"every path that computes an error's HTTP status stores Content-Type: application/json",
			itoa(bad)+" path(s) compute the HTTP status of an error without storing Content-Type: application/json: the JSON error body goes out under whatever content type is already in the header map (the backend's own, an HttpBody message's)")
	}
	if n < 2 {
		c.Bad("C03.18", "clientProtocolHandler", "error-body-labelled-json", token.NoPos, "fewer than two un-enveloped client protocols compute an error status in addProtocolResponseHeaders ("+itoa(n)+"): shape changed")
	}
}

// runC03ErrorBodyCompression: C03.19 (defect D57).  A server protocol's response-header extraction
// that hands back a body unmarshaller announces 'an error body follows; collect it and parse it'.
// The collector decompresses by responseMeta.compression.  On those returns the field therefore
// has the same kind of origin as on the protocol's ordinary returns: the value of the
// content-encoding header - never just the zero value while the ordinary path reads the header.
func runC03ErrorBodyCompression(c *Ctx) {
	p := c.P
	c.Rule("C03.19", "a response announced as 'error body follows' carries the declared content encoding like an ordinary response", 2)
	sph := p.Iface("serverProtocolHandler")
	comprF := p.MustField("responseMeta", "compression")
	n := 0
	for _, t := range p.Implementers(sph) {
		fn := p.MethodOf(t, "extractProtocolResponseHeaders")
		if fn == nil {
			continue
		}
		headerKeysOf := func(v ssa.Value, at ssa.Instruction) map[string]bool {
			out := map[string]bool{}
			for _, l := range StructFieldOriginsAt(v, comprF, at) {
				if l.Kind != "call" {
					continue
				}
				if IsCallTo(l.Call, "(net/http.Header).Get", "(net/http.Header).Values") {
					if k, ok := ConstString(l.Call.Common().Args[1]); ok {
						out[textproto.CanonicalMIMEHeaderKey(k)] = true
					}
					continue
				}
				// a read-and-delete helper of the shipped packages, key passed as a constant
				// (refactoring B28_r1: takeHeader(headers, "Content-Encoding"))
				g := l.Call.Common().StaticCallee()
				if g == nil || !p.inScope(g) || len(g.Blocks) == 0 {
					continue
				}
				ForEachInstr(g, func(in ssa.Instruction) {
					ret, isRet := in.(*ssa.Return)
					if !isRet {
						return
					}
					rv := ReturnValues(ret)
					if l.Index >= len(rv) {
						return
					}
					for _, l2 := range Origins(rv[l.Index]) {
						if l2.Kind != "call" || !IsCallTo(l2.Call, "(net/http.Header).Get", "(net/http.Header).Values") {
							continue
						}
						karg := l2.Call.Common().Args[1]
						if prm, isPrm := strip(karg).(*ssa.Parameter); isPrm {
							for i, q := range g.Params {
								if q == prm && i < len(l.Call.Common().Args) {
									karg = l.Call.Common().Args[i]
								}
							}
						}
						if k, ok := ConstString(karg); ok {
							out[textproto.CanonicalMIMEHeaderKey(k)] = true
						}
					}
				})
			}
			return out
		}
		ordinary := map[string]bool{}
		type er struct {
			ret  *ssa.Return
			keys map[string]bool
		}
		var errRets []er
		for _, b := range fn.Blocks {
			ret, ok := b.Instrs[len(b.Instrs)-1].(*ssa.Return)
			if !ok || len(ret.Results) < 3 {
				continue
			}
			if !IsNilConst(ret.Results[2]) {
				if _, isC := ret.Results[2].(*ssa.Const); !isC {
					// may be a real error: only when definitely non-nil skip; a phi/err variable is treated as a normal return
					if NeverNilError(ret.Results[2], 0) {
						continue
					}
				}
			}
			keys := headerKeysOf(ret.Results[0], ret)
			hasUnm := false
			for _, l := range Origins(ret.Results[1]) {
				if l.Kind != "nil" && !(l.Kind == "const" && IsNilConst(l.V)) {
					hasUnm = true
				}
			}
			if hasUnm {
				errRets = append(errRets, er{ret, keys})
			}
			if !hasUnm || len(keys) > 0 {
				for k := range keys {
					ordinary[k] = true
				}
			}
		}
		if len(errRets) == 0 || len(ordinary) == 0 {
			continue // no body unmarshaller, or the protocol declares compression elsewhere (per-message)
		}
		for i, e := range errRets {
			n++
			ok := false
			for k := range e.keys {
				if ordinary[k] {
					ok = true
				}
			}
			construct := "error-body-compression"
			if i > 0 {
				construct += "|#" + itoa(i+1)
			}
			var ks []string
			for k := range ordinary {
				ks = append(ks, k)
			}
			sort.Strings(ks)
			c.Check(ok, "C03.19", typeName(t), construct, e.ret.Pos(),
				"the meta returned together with a body unmarshaller takes its compression from "+joinStr(ks)+" like the ordinary returns",
				"this return announces an error body to be collected and parsed but its responseMeta.compression does not come from "+joinStr(ks)+" (as on the ordinary returns): a compressed error body is parsed while still compressed, the parse fails, and code, message and details of the backend's error are replaced by a guess from the HTTP status")
		}
	}
	if n < 2 {
		c.Bad("C03.19", "serverProtocolHandler", "error-body-compression", token.NoPos, "fewer than two returns with a body unmarshaller found ("+itoa(n)+"): shape changed")
	}
}

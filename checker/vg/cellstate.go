package vg

import (
	"go/token"
	"go/types"

	"golang.org/x/tools/go/ssa"
)

// A5: a small forward dataflow over one function for one receiver field cell
// (p0.f) with a three-point lattice.  Used for the envelope cursor
// {zero, nonzero, unknown}.

type cstate int

const (
	csBottom cstate = iota // unreachable / not yet computed
	csZero
	csNonzero
	csUnknown
)

func (s cstate) String() string {
	return [...]string{"bottom", "zero", "nonzero", "unknown"}[s]
}

func joinCS(a, b cstate) cstate {
	if a == csBottom {
		return b
	}
	if b == csBottom {
		return a
	}
	if a == b {
		return a
	}
	return csUnknown
}

// CellAnalysis computes, for an integer field of the receiver, whether it is
// known to be zero before each instruction.
type CellAnalysis struct {
	fn     *ssa.Function
	fld    *types.Var
	p      *Prog
	in     map[*ssa.BasicBlock]cstate
	before map[ssa.Instruction]cstate
}

func isCellLoad(v ssa.Value, fld *types.Var) bool {
	u, ok := strip(v).(*ssa.UnOp)
	if !ok || u.Op != token.MUL {
		return false
	}
	fa, ok := u.X.(*ssa.FieldAddr)
	if !ok || FieldOfAddr(fa) != fld {
		return false
	}
	_, isParam := fa.X.(*ssa.Parameter)
	return isParam
}

// edgeRefine returns the state implied for the cell by taking the given branch.
func edgeRefine(cond ssa.Value, truth bool, fld *types.Var, cur cstate) cstate {
	for _, f := range expandFact(Fact{Cond: cond, Truth: truth}) {
		cmp, ok := f.AsCmp()
		if !ok {
			continue
		}
		x, y, op := cmp.X, cmp.Y, cmp.Op
		if isCellLoad(y, fld) {
			x, y, op = y, x, flip(op)
		}
		if !isCellLoad(x, fld) {
			continue
		}
		if k, isK := ConstInt(y); isK {
			switch {
			case op == token.EQL && k == 0, op == token.LEQ && k == 0, op == token.LSS && k == 1:
				return csZero
			case op == token.NEQ && k == 0, op == token.GTR && k == 0, op == token.GEQ && k == 1:
				return csNonzero
			}
			continue
		}
		// comparison with a non-negative quantity (len(...)): cell > len  => nonzero
		if call, isCall := strip(y).(*ssa.Call); isCall && CalleeName(call) == "builtin len" {
			if op == token.GTR {
				return csNonzero
			}
		}
	}
	return cur
}

// NewCellAnalysis runs the dataflow.  mayWrite(call) must report whether a call
// may store to the cell.
func NewCellAnalysis(p *Prog, fn *ssa.Function, fld *types.Var) *CellAnalysis {
	a := &CellAnalysis{fn: fn, fld: fld, p: p, in: map[*ssa.BasicBlock]cstate{}, before: map[ssa.Instruction]cstate{}}
	writes := func(call ssa.CallInstruction) bool {
		for _, cal := range p.CalleesAt(call) {
			for f := range p.Reach(cal) {
				if len(StoresToField(f, fld)) > 0 {
					return true
				}
			}
		}
		return false
	}
	transfer := func(b *ssa.BasicBlock, s cstate, record bool) cstate {
		for _, in := range b.Instrs {
			if record {
				a.before[in] = s
			}
			switch x := in.(type) {
			case *ssa.Store:
				if fa, ok := x.Addr.(*ssa.FieldAddr); ok && FieldOfAddr(fa) == fld {
					if k, isK := ConstInt(x.Val); isK {
						if k == 0 {
							s = csZero
						} else {
							s = csNonzero
						}
					} else {
						s = csUnknown
					}
				}
			case ssa.CallInstruction:
				if _, isDefer := in.(*ssa.Defer); !isDefer && writes(x) {
					s = csUnknown
				}
			}
		}
		return s
	}
	if len(fn.Blocks) == 0 {
		return a
	}
	a.in[fn.Blocks[0]] = csUnknown
	out := map[*ssa.BasicBlock]cstate{}
	for changed, iter := true, 0; changed && iter < 64; iter++ {
		changed = false
		for _, b := range fn.Blocks {
			s := a.in[b]
			if b != fn.Blocks[0] {
				s = csBottom
				for _, pred := range b.Preds {
					ps := out[pred]
					if ps == csBottom {
						continue
					}
					if iff, ok := pred.Instrs[len(pred.Instrs)-1].(*ssa.If); ok && pred.Succs[0] != pred.Succs[1] {
						if pred.Succs[0] == b {
							ps = edgeRefine(iff.Cond, true, fld, ps)
						} else if pred.Succs[1] == b {
							ps = edgeRefine(iff.Cond, false, fld, ps)
						}
					}
					s = joinCS(s, ps)
				}
			}
			if s != a.in[b] {
				a.in[b] = s
				changed = true
			}
			o := transfer(b, s, false)
			if o != out[b] {
				out[b] = o
				changed = true
			}
		}
	}
	for _, b := range fn.Blocks {
		transfer(b, a.in[b], true)
	}
	return a
}

// Before returns the state of the cell just before the instruction.
func (a *CellAnalysis) Before(in ssa.Instruction) cstate { return a.before[in] }

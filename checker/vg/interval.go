package vg

import (
	"go/token"
	"go/types"
	"math"

	"golang.org/x/tools/go/ssa"
)

// Interval is a closed integer interval; Lo/Hi use math.MinInt64/MaxInt64 for unbounded.
type Interval struct{ Lo, Hi int64 }

func typeInterval(t types.Type) Interval {
	b, ok := t.Underlying().(*types.Basic)
	if !ok {
		return Interval{math.MinInt64, math.MaxInt64}
	}
	switch b.Kind() {
	case types.Uint8:
		return Interval{0, 255}
	case types.Uint16:
		return Interval{0, 65535}
	case types.Uint32:
		return Interval{0, math.MaxUint32}
	case types.Uint, types.Uint64, types.Uintptr:
		return Interval{0, math.MaxInt64}
	case types.Int8:
		return Interval{-128, 127}
	case types.Int16:
		return Interval{-32768, 32767}
	case types.Int32:
		return Interval{math.MinInt32, math.MaxInt32}
	}
	return Interval{math.MinInt64, math.MaxInt64}
}

func meet(a, b Interval) Interval {
	if b.Lo > a.Lo {
		a.Lo = b.Lo
	}
	if b.Hi < a.Hi {
		a.Hi = b.Hi
	}
	return a
}

// sameValue: two SSA values denote the same number (modulo integer conversions
// that cannot change a value that fits) – identical after stripping, or loads
// of the same cell path within straight-line use.
func sameValue(a, b ssa.Value) bool {
	sa, sb := strip(a), strip(b)
	if sa == sb {
		return true
	}
	return false
}

// IntervalOf computes an interval for v at block b using the value's shape and
// the dominating branch facts.
func IntervalOf(v ssa.Value, b *ssa.BasicBlock) Interval {
	iv := shapeInterval(v, 0)
	for _, f := range FactsAt(b) {
		cmp, ok := f.AsCmp()
		if !ok {
			continue
		}
		x, y, op := cmp.X, cmp.Y, cmp.Op
		if sameValue(y, v) {
			x, y, op = y, x, flip(op)
		}
		if !sameValue(x, v) {
			continue
		}
		c, ok := ConstInt(y)
		if !ok {
			continue
		}
		switch op {
		case token.LSS:
			iv = meet(iv, Interval{math.MinInt64, c - 1})
		case token.LEQ:
			iv = meet(iv, Interval{math.MinInt64, c})
		case token.GTR:
			iv = meet(iv, Interval{c + 1, math.MaxInt64})
		case token.GEQ:
			iv = meet(iv, Interval{c, math.MaxInt64})
		case token.EQL:
			iv = meet(iv, Interval{c, c})
		}
	}
	return iv
}

func shapeInterval(v ssa.Value, depth int) Interval {
	if depth > 8 {
		return typeInterval(v.Type())
	}
	if c, ok := ConstInt(v); ok {
		return Interval{c, c}
	}
	iv := typeInterval(v.Type())
	switch x := v.(type) {
	case *ssa.Convert:
		src := shapeInterval(x.X, depth+1)
		// a conversion to a wider-or-equal type keeps the source range when it fits
		if src.Lo >= iv.Lo && src.Hi <= iv.Hi {
			return src
		}
	case *ssa.ChangeType:
		return meet(iv, shapeInterval(x.X, depth+1))
	case *ssa.BinOp:
		switch x.Op {
		case token.AND:
			if c, ok := ConstInt(x.Y); ok && c >= 0 {
				return meet(iv, Interval{0, c})
			}
			if c, ok := ConstInt(x.X); ok && c >= 0 {
				return meet(iv, Interval{0, c})
			}
		case token.SHR:
			if k, ok := ConstInt(x.Y); ok && k >= 0 && k < 63 {
				src := shapeInterval(x.X, depth+1)
				if src.Lo >= 0 {
					return meet(iv, Interval{0, src.Hi >> uint(k)})
				}
			}
		case token.ADD:
			if c, ok := ConstInt(x.Y); ok {
				src := shapeInterval(x.X, depth+1)
				lo, hi := src.Lo, src.Hi
				if lo != math.MinInt64 {
					lo += c
				}
				if hi != math.MaxInt64 && hi < math.MaxInt64-c {
					hi += c
				} else {
					hi = math.MaxInt64
				}
				return meet(iv, Interval{lo, hi})
			}
		case token.REM:
			if c, ok := ConstInt(x.Y); ok && c > 0 {
				src := shapeInterval(x.X, depth+1)
				if src.Lo >= 0 {
					return meet(iv, Interval{0, c - 1})
				}
				return meet(iv, Interval{-(c - 1), c - 1})
			}
		}
	case *ssa.Phi:
		lo, hi := int64(math.MaxInt64), int64(math.MinInt64)
		for _, e := range x.Edges {
			if e == ssa.Value(x) {
				continue
			}
			// induction edge  x = phi(..., x + c) with c > 0 only raises the value
			if bo, ok := e.(*ssa.BinOp); ok && bo.Op == token.ADD && bo.X == ssa.Value(x) {
				if c, isC := ConstInt(bo.Y); isC && c > 0 {
					hi = math.MaxInt64
					continue
				}
			}
			s := shapeInterval(e, depth+1)
			if s.Lo < lo {
				lo = s.Lo
			}
			if s.Hi > hi {
				hi = s.Hi
			}
		}
		if lo <= hi {
			return meet(iv, Interval{lo, hi})
		}
	}
	return iv
}

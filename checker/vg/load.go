// Package vg is the vanguard-go specific static checker.  Everything in it works
// on the type-checked, SSA-lowered program loaded from the repository on every
// run; nothing of vanguard-go is executed.
package vg

import (
	"fmt"
	"go/ast"
	"go/token"
	"go/types"
	"os"
	"sort"
	"strings"

	"golang.org/x/tools/go/callgraph"
	"golang.org/x/tools/go/callgraph/cha"
	"golang.org/x/tools/go/callgraph/vta"
	"golang.org/x/tools/go/packages"
	"golang.org/x/tools/go/ssa"
	"golang.org/x/tools/go/ssa/ssautil"
)

const RootPath = "connectrpc.com/vanguard"

// Prog is the loaded program plus the indexes rules need.
type Prog struct {
	Dir      string
	Pkgs     []*packages.Package // initial packages (module)
	Fset     *token.FileSet
	SSA      *ssa.Program
	Root     *ssa.Package
	RootPkg  *packages.Package
	GRPCPkg  *packages.Package
	ModPkgs  map[*types.Package]*packages.Package
	Funcs    []*ssa.Function // every function with a body in root + vanguardgrpc, incl. closures
	AllMod   []*ssa.Function // every function with a body in any module package
	funcByNm map[string]*ssa.Function

	callees map[*ssa.Function][]*Edge
	callers map[*ssa.Function][]*Edge
	vtaCG   *callgraph.Graph
	UseVTA  bool

	GOARCH string
	Tests  bool

	memo map[string]any
}

// Edge is a resolved call edge inside the module.
type Edge struct {
	Caller *ssa.Function
	Site   ssa.CallInstruction
	Callee *ssa.Function
	Kind   string // static | invoke | dynamic | closure
	// StdIface: the invoke goes through an interface declared outside the module
	// (io.Writer, http.ResponseWriter, ...): module implementers are CHA guesses.
	StdIface bool
}

// CheckerError aborts the run with exit code 3: the checker cannot decide.
type CheckerError struct{ Msg string }

func (e CheckerError) Error() string { return e.Msg }

func fatalf(format string, args ...any) {
	panic(CheckerError{fmt.Sprintf(format, args...)})
}

func goEnv(goarch string) []string {
	env := os.Environ()
	out := env[:0:0]
	const newGo = "/opt/veriftools/go1.26.8/bin"
	for _, kv := range env {
		if strings.HasPrefix(kv, "PATH=") {
			if _, err := os.Stat(newGo + "/go"); err == nil && !strings.HasPrefix(kv, "PATH="+newGo) {
				kv = "PATH=" + newGo + ":" + strings.TrimPrefix(kv, "PATH=")
			}
			out = append(out, kv)
			continue
		}
		if strings.HasPrefix(kv, "GOWORK=") || strings.HasPrefix(kv, "GOFLAGS=") ||
			strings.HasPrefix(kv, "GOPROXY=") || strings.HasPrefix(kv, "GOSUMDB=") ||
			strings.HasPrefix(kv, "GOTOOLCHAIN=") || strings.HasPrefix(kv, "GOARCH=") ||
			strings.HasPrefix(kv, "GOOS=") || strings.HasPrefix(kv, "CGO_ENABLED=") {
			continue
		}
		out = append(out, kv)
	}
	out = append(out, "GOWORK=off", "GOFLAGS=-mod=mod", "GOPROXY=off", "GOSUMDB=off",
		"GOTOOLCHAIN=local", "GOOS=linux", "CGO_ENABLED=0")
	if goarch != "" {
		out = append(out, "GOARCH="+goarch)
	} else {
		out = append(out, "GOARCH=amd64")
	}
	return out
}

// Load type-checks ./... in dir and lowers it to SSA.
func Load(dir string, goarch string, tests bool) *Prog {
	// go/packages resolves the go command through this process's PATH.
	const newGo = "/opt/veriftools/go1.26.8/bin"
	if _, err := os.Stat(newGo + "/go"); err == nil && !strings.HasPrefix(os.Getenv("PATH"), newGo) {
		os.Setenv("PATH", newGo+":"+os.Getenv("PATH"))
	}
	cfg := &packages.Config{
		Mode:  packages.LoadAllSyntax,
		Dir:   dir,
		Env:   goEnv(goarch),
		Tests: tests,
	}
	pkgs, err := packages.Load(cfg, "./...")
	if err != nil {
		fatalf("load: %v", err)
	}
	if len(pkgs) == 0 {
		fatalf("load: zero packages matched ./... in %s", dir)
	}
	var errs []string
	packages.Visit(pkgs, nil, func(p *packages.Package) {
		for _, e := range p.Errors {
			errs = append(errs, e.Error())
		}
	})
	if len(errs) > 0 {
		sort.Strings(errs)
		if len(errs) > 8 {
			errs = errs[:8]
		}
		fatalf("load: type errors (the tree must compile): %s", strings.Join(errs, "; "))
	}
	p := &Prog{Dir: dir, Pkgs: pkgs, GOARCH: goarch, Tests: tests, ModPkgs: map[*types.Package]*packages.Package{}, memo: map[string]any{}}
	p.Fset = pkgs[0].Fset
	prog, _ := ssautil.AllPackages(pkgs, ssa.InstantiateGenerics)
	prog.Build()
	p.SSA = prog
	for _, pk := range pkgs {
		if pk.Types == nil {
			continue
		}
		p.ModPkgs[pk.Types] = pk
		if pk.PkgPath == RootPath && !strings.Contains(pk.ID, "[") && !strings.HasSuffix(pk.ID, ".test") {
			p.RootPkg = pk
			p.Root = prog.Package(pk.Types)
		}
		if pk.PkgPath == RootPath+"/vanguardgrpc" && !strings.Contains(pk.ID, "[") && !strings.HasSuffix(pk.ID, ".test") {
			p.GRPCPkg = pk
		}
	}
	if p.Root == nil {
		fatalf("load: root package %s not found among %d packages", RootPath, len(pkgs))
	}
	if p.Root.Pkg.Path() == RootPath {
		ResolveRenames(p, DeclsPath)
	}
	p.indexFuncs()
	return p
}

func (p *Prog) isTestFile(pos token.Pos) bool {
	if !pos.IsValid() {
		return false
	}
	return strings.HasSuffix(p.Fset.Position(pos).Filename, "_test.go")
}

func (p *Prog) indexFuncs() {
	p.funcByNm = map[string]*ssa.Function{}
	all := ssautil.AllFunctions(p.SSA)
	var fns []*ssa.Function
	for fn := range all {
		if fn.Blocks == nil || fn.Pkg == nil && fn.Parent() == nil && fn.Origin() == nil {
			continue
		}
		pk := fnPkg(fn)
		if pk == nil {
			continue
		}
		if _, ok := p.ModPkgs[pk]; !ok {
			continue
		}
		if p.isTestFile(fn.Pos()) {
			continue
		}
		if fn.Synthetic != "" && fn.Parent() == nil && !strings.HasPrefix(fn.Synthetic, "package init") && fn.Origin() == nil {
			// wrappers / bound-method thunks: analysed through their targets
			continue
		}
		fns = append(fns, fn)
	}
	sort.Slice(fns, func(i, j int) bool { return FuncName(fns[i]) < FuncName(fns[j]) })
	for _, fn := range fns {
		p.AllMod = append(p.AllMod, fn)
		pk := fnPkg(fn)
		if pk.Path() == RootPath || pk.Path() == RootPath+"/vanguardgrpc" {
			p.Funcs = append(p.Funcs, fn)
			if pk.Path() == RootPath {
				p.funcByNm[FuncName(fn)] = fn
			} else {
				p.funcByNm["vanguardgrpc."+FuncName(fn)] = fn
			}
		}
	}
}

func fnPkg(fn *ssa.Function) *types.Package {
	for f := fn; f != nil; f = f.Parent() {
		if f.Pkg != nil {
			return f.Pkg.Pkg
		}
		if o := f.Origin(); o != nil && o.Pkg != nil {
			return o.Pkg.Pkg
		}
	}
	if fn.Object() != nil {
		return fn.Object().Pkg()
	}
	return nil
}

// FuncName is the package-less name: "f", "(*T).m", "(T).m", "f$1".
func FuncName(fn *ssa.Function) string {
	if fn.Parent() != nil {
		return FuncName(fn.Parent()) + "$" + strings.TrimPrefix(fn.Name(), fn.Parent().Name()+"$")
	}
	if recv := fn.Signature.Recv(); recv != nil {
		t := recv.Type()
		ptr := ""
		if pt, ok := t.(*types.Pointer); ok {
			ptr = "*"
			t = pt.Elem()
		}
		if n, ok := t.(*types.Named); ok {
			return "(" + ptr + N(n.Obj()) + ")." + N(fn)
		}
	}
	return N(fn)
}

// inScope reports whether fn belongs to the shipped library packages (root and
// vanguardgrpc), as opposed to examples and generated code in the module.
func (p *Prog) inScope(fn *ssa.Function) bool {
	pk := fnPkg(fn)
	return pk != nil && (pk.Path() == RootPath || pk.Path() == RootPath+"/vanguardgrpc")
}

// Func returns the root-package function with the given name or nil.
func (p *Prog) Func(name string) *ssa.Function { return p.funcByNm[name] }

// MustFunc is Func but an unresolved anchor is a checker error.
func (p *Prog) MustFunc(name string) *ssa.Function {
	fn := p.funcByNm[name]
	if fn == nil {
		fatalf("anchor=%s: function not found in %s (renamed or removed; the rule cannot be evaluated)", name, RootPath)
	}
	return fn
}

// Named returns the named type of the root package.
// Lookup finds a package-level object of the root package by the name the rules know it by.
func (p *Prog) Lookup(name string) types.Object {
	scope := p.Root.Pkg.Scope()
	for obj, old := range nameBack {
		if old == name && obj.Parent() == scope {
			return obj
		}
	}
	obj := scope.Lookup(name)
	if obj != nil {
		if _, renamedAway := nameBack[obj]; renamedAway {
			return nil // this declaration is known to the rules under another name
		}
	}
	return obj
}

func (p *Prog) Named(name string) *types.Named {
	obj := p.Lookup(name)
	if obj == nil {
		return nil
	}
	tn, ok := obj.(*types.TypeName)
	if !ok {
		return nil
	}
	n, _ := tn.Type().(*types.Named)
	return n
}

func (p *Prog) MustNamed(name string) *types.Named {
	n := p.Named(name)
	if n == nil {
		fatalf("anchor=type %s: not found in %s", name, RootPath)
	}
	return n
}

// Field returns the field object T.f (searching embedded structs one level).
func (p *Prog) Field(typ, field string) *types.Var {
	n := p.Named(typ)
	if n == nil {
		return nil
	}
	st, ok := n.Underlying().(*types.Struct)
	if !ok {
		return nil
	}
	for i := 0; i < st.NumFields(); i++ {
		if N(st.Field(i)) == field {
			return st.Field(i)
		}
	}
	return nil
}

func (p *Prog) MustField(typ, field string) *types.Var {
	f := p.Field(typ, field)
	if f == nil {
		fatalf("anchor=field %s.%s: not found", typ, field)
	}
	return f
}

// Global returns the package-level variable of the root package.
func (p *Prog) Global(name string) *ssa.Global {
	if obj := p.Lookup(name); obj != nil {
		name = obj.Name()
	}
	m := p.Root.Members[name]
	g, _ := m.(*ssa.Global)
	return g
}

// Iface returns the named interface type of the root package.
func (p *Prog) Iface(name string) *types.Interface {
	n := p.Named(name)
	if n == nil {
		return nil
	}
	i, _ := n.Underlying().(*types.Interface)
	return i
}

// Implementers lists the named types T of the root package such that T or *T
// implements the interface, sorted by name.
func (p *Prog) Implementers(iface *types.Interface) []types.Type {
	var out []types.Type
	scope := p.Root.Pkg.Scope()
	for _, name := range scope.Names() {
		tn, ok := scope.Lookup(name).(*types.TypeName)
		if !ok || tn.IsAlias() {
			continue
		}
		n, ok := tn.Type().(*types.Named)
		if !ok {
			continue
		}
		if _, isIface := n.Underlying().(*types.Interface); isIface {
			continue
		}
		if p.isTestFile(tn.Pos()) {
			continue
		}
		if types.Implements(n, iface) {
			out = append(out, n)
		} else if types.Implements(types.NewPointer(n), iface) {
			out = append(out, types.NewPointer(n))
		}
	}
	return out
}

// MethodOf returns the SSA function for method name on type t (declared, not wrapper).
func (p *Prog) MethodOf(t types.Type, name string) *ssa.Function {
	ms := p.SSA.MethodSets.MethodSet(t)
	for i := 0; i < ms.Len(); i++ {
		sel := ms.At(i)
		if N(sel.Obj()) != name {
			continue
		}
		fn := p.SSA.MethodValue(sel)
		if fn == nil {
			return nil
		}
		return p.unwrap(fn)
	}
	return nil
}

// unwrap maps a synthetic wrapper (pointer-receiver wrapper for value method,
// promoted-method wrapper) to the declared function it forwards to.
func (p *Prog) unwrap(fn *ssa.Function) *ssa.Function {
	for depth := 0; fn != nil && fn.Synthetic != "" && fn.Parent() == nil && depth < 4; depth++ {
		if obj, ok := fn.Object().(*types.Func); ok {
			if decl := p.SSA.FuncValue(obj); decl != nil && decl != fn {
				fn = decl
				continue
			}
		}
		// follow the single call in the wrapper
		var next *ssa.Function
		for _, b := range fn.Blocks {
			for _, in := range b.Instrs {
				if c, ok := in.(ssa.CallInstruction); ok {
					if sc := c.Common().StaticCallee(); sc != nil {
						next = sc
					}
				}
			}
		}
		if next == nil {
			break
		}
		fn = next
	}
	return fn
}

func typeName(t types.Type) string {
	if pt, ok := t.(*types.Pointer); ok {
		return "*" + typeName(pt.Elem())
	}
	if n, ok := t.(*types.Named); ok {
		return N(n.Obj())
	}
	return t.String()
}

// Pos renders a position relative to the repo dir.
func (p *Prog) Pos(pos token.Pos) string {
	if !pos.IsValid() || p.Fset == nil {
		return "-"
	}
	ps := p.Fset.Position(pos)
	f := strings.TrimPrefix(ps.Filename, p.Dir+"/")
	return fmt.Sprintf("%s:%d", f, ps.Line)
}

// ---------------------------------------------------------------- call graph

func (p *Prog) inModule(fn *ssa.Function) bool {
	pk := fnPkg(fn)
	if pk == nil {
		return false
	}
	_, ok := p.ModPkgs[pk]
	return ok && fn.Blocks != nil
}

// BuildCallGraph computes module-internal call edges: static callees, interface
// invokes resolved by class hierarchy over the module's types, and calls of
// function values resolved to module functions/closures of identical signature
// whose value is taken somewhere (address-taken set).
func (p *Prog) BuildCallGraph() {
	p.callees = map[*ssa.Function][]*Edge{}
	p.callers = map[*ssa.Function][]*Edge{}
	// address-taken functions by signature
	taken := map[string][]*ssa.Function{}
	seenTaken := map[*ssa.Function]bool{}
	noteTaken := func(fn *ssa.Function) {
		fn = p.unwrap(fn)
		if fn == nil || !p.inModule(fn) || seenTaken[fn] {
			return
		}
		seenTaken[fn] = true
		k := sigKey(fn.Signature)
		taken[k] = append(taken[k], fn)
	}
	for _, fn := range p.AllMod {
		for _, b := range fn.Blocks {
			for _, in := range b.Instrs {
				var ops []*ssa.Value
				for _, op := range in.Operands(ops) {
					if *op == nil {
						continue
					}
					switch v := (*op).(type) {
					case *ssa.Function:
						if c, ok := in.(ssa.CallInstruction); ok && c.Common().Value == v {
							continue // direct call, not a value use
						}
						noteTaken(v)
					case *ssa.MakeClosure:
						_ = v
					}
				}
				if mc, ok := in.(*ssa.MakeClosure); ok {
					noteTaken(mc.Fn.(*ssa.Function))
				}
			}
		}
	}
	// CHA over all types with methods in module packages
	var modTypes []types.Type
	for tp := range p.ModPkgs {
		scope := tp.Scope()
		for _, name := range scope.Names() {
			if tn, ok := scope.Lookup(name).(*types.TypeName); ok && !tn.IsAlias() {
				if n, ok := tn.Type().(*types.Named); ok {
					if _, isI := n.Underlying().(*types.Interface); !isI && n.TypeParams().Len() == 0 {
						modTypes = append(modTypes, n, types.NewPointer(n))
					}
				}
			}
		}
	}
	add := func(e *Edge) {
		p.callees[e.Caller] = append(p.callees[e.Caller], e)
		p.callers[e.Callee] = append(p.callers[e.Callee], e)
	}
	for _, fn := range p.AllMod {
		for _, b := range fn.Blocks {
			for _, in := range b.Instrs {
				c, ok := in.(ssa.CallInstruction)
				if !ok {
					continue
				}
				cc := c.Common()
				if cc.IsInvoke() {
					iface, _ := cc.Value.Type().Underlying().(*types.Interface)
					if iface == nil {
						continue
					}
					for _, t := range modTypes {
						if !types.Implements(t, iface) {
							continue
						}
						if _, isPtr := t.(*types.Pointer); !isPtr {
							// value type: covered; pointer type duplicates resolve to same decl
						}
						if m := p.MethodOf(t, N(cc.Method)); m != nil && p.inModule(m) {
							dup := false
							for _, e := range p.callees[fn] {
								if e.Site == c && e.Callee == m {
									dup = true
								}
							}
							if !dup {
								std := true
								if n, ok := cc.Value.Type().(*types.Named); ok && n.Obj().Pkg() != nil {
									if _, inMod := p.ModPkgs[n.Obj().Pkg()]; inMod {
										std = false
									}
								}
								add(&Edge{Caller: fn, Site: c, Callee: m, Kind: "invoke", StdIface: std})
							}
						}
					}
					continue
				}
				if sc := cc.StaticCallee(); sc != nil {
					sc = p.unwrap(sc)
					if p.inModule(sc) {
						add(&Edge{Caller: fn, Site: c, Callee: sc, Kind: "static"})
					}
					continue
				}
				// dynamic call through a function value
				if mc, ok := cc.Value.(*ssa.MakeClosure); ok {
					add(&Edge{Caller: fn, Site: c, Callee: mc.Fn.(*ssa.Function), Kind: "closure"})
					continue
				}
				sig, _ := cc.Value.Type().Underlying().(*types.Signature)
				if sig == nil {
					continue
				}
				for _, t := range taken[sigKey(sig)] {
					add(&Edge{Caller: fn, Site: c, Callee: t, Kind: "dynamic"})
				}
			}
		}
	}
}

func sigKey(s *types.Signature) string {
	// receiver-less rendering
	return types.TypeString(types.NewSignatureType(nil, nil, nil, s.Params(), s.Results(), s.Variadic()), nil)
}

// BuildVTA builds the VTA call graph (thorough tier cross-check).
func (p *Prog) BuildVTA() {
	p.vtaCG = vta.CallGraph(ssautil.AllFunctions(p.SSA), cha.CallGraph(p.SSA))
}

// Callees returns the module-internal callees of fn.
func (p *Prog) Callees(fn *ssa.Function) []*Edge { return p.callees[fn] }

// Callers returns the module-internal call edges targeting fn.
func (p *Prog) Callers(fn *ssa.Function) []*Edge { return p.callers[fn] }

// OnlyCalledWithin reports whether fn is root, or an unexported helper every call of which
// (transitively, up to a small depth) comes from root: code "inside" root after helper extraction.
func (p *Prog) OnlyCalledWithin(fn, root *ssa.Function) bool {
	var rec func(f *ssa.Function, depth int) bool
	rec = func(f *ssa.Function, depth int) bool {
		if f == root {
			return true
		}
		if depth > 3 {
			return false
		}
		es := p.callers[f]
		if len(es) == 0 {
			return false
		}
		for _, e := range es {
			if e.Kind != "static" || !rec(e.Caller, depth+1) {
				return false
			}
		}
		return true
	}
	return rec(fn, 0)
}

// OriginsInter is Origins, except that a leaf which is a parameter of a helper with exactly one
// static call site is replaced by the origins of the argument passed there (small depth).
func (p *Prog) OriginsInter(v ssa.Value) []Leaf {
	var rec func(v ssa.Value, depth int) []Leaf
	rec = func(v ssa.Value, depth int) []Leaf {
		var out []Leaf
		for _, l := range Origins(v) {
			par, isPar := l.V.(*ssa.Parameter)
			if l.Kind != "param" || !isPar || depth >= 3 {
				out = append(out, l)
				continue
			}
			es := p.callers[par.Parent()]
			if len(es) != 1 || es[0].Kind != "static" || es[0].Site == nil {
				out = append(out, l)
				continue
			}
			idx := -1
			for i, pp := range par.Parent().Params {
				if pp == par {
					idx = i
				}
			}
			args := es[0].Site.Common().Args
			if idx < 0 || idx >= len(args) {
				out = append(out, l)
				continue
			}
			for _, l2 := range rec(args[idx], depth+1) {
				l2.Ops = append(append([]token.Token{}, l.Ops...), l2.Ops...)
				out = append(out, l2)
			}
		}
		return out
	}
	return rec(v, 0)
}

// Family returns root followed by its continuations: functions of the shipped packages that are
// only ever called (statically, transitively) from root and have root's result types - what a
// maintainer gets by splitting root in two or three.  Rules written for root's paths evaluate
// the paths of every member; a return that merely forwards a member's result is judged there.
func (p *Prog) Family(root *ssa.Function) []*ssa.Function {
	out := []*ssa.Function{root}
	for _, fn := range p.Funcs {
		if fn == root || len(fn.Blocks) == 0 || !p.OnlyCalledWithin(fn, root) {
			continue
		}
		if !types.Identical(fn.Signature.Results(), root.Signature.Results()) {
			continue
		}
		out = append(out, fn)
	}
	return out
}

// ForwardsMember: the return forwards the result of a call to a member of the family.
func ForwardsMember(ret *ssa.Return, family []*ssa.Function) bool {
	for _, r := range ret.Results {
		v := r
		if ex, ok := v.(*ssa.Extract); ok {
			v = ex.Tuple
		}
		if call, ok := v.(*ssa.Call); ok {
			if cal := call.Call.StaticCallee(); cal != nil {
				for _, m := range family {
					if m == cal {
						return true
					}
				}
			}
		}
	}
	return false
}

// OriginsDeep is Origins, except that a leaf which is the result of a static call of a function of
// the shipped packages is replaced by the origins of what that function returns there (depth 2).
func (p *Prog) OriginsDeep(v ssa.Value) []Leaf {
	var rec func(v ssa.Value, depth int) []Leaf
	rec = func(v ssa.Value, depth int) []Leaf {
		var out []Leaf
		for _, l := range Origins(v) {
			if l.Kind != "call" || depth >= 2 {
				out = append(out, l)
				continue
			}
			cal := l.Call.Common().StaticCallee()
			if cal == nil || !p.inScope(cal) || len(cal.Blocks) == 0 {
				out = append(out, l)
				continue
			}
			n := 0
			ForEachInstr(cal, func(in ssa.Instruction) {
				ret, ok := in.(*ssa.Return)
				if !ok || ret.Block() == cal.Recover {
					return
				}
				rv := ReturnValues(ret)
				if l.Index >= len(rv) {
					return
				}
				for _, l2 := range rec(rv[l.Index], depth+1) {
					l2.Ops = append(append([]token.Token{}, l.Ops...), l2.Ops...)
					out = append(out, l2)
					n++
				}
			})
			if n == 0 {
				out = append(out, l)
			}
		}
		return out
	}
	return rec(v, 0)
}

// FactsAtInter: the branch facts that hold at block b, plus (when b's function is a helper with
// exactly one static call site) the facts that hold at that call site, transitively.
func (p *Prog) FactsAtInter(b *ssa.BasicBlock) []Fact {
	out := FactsAt(b)
	fn := b.Parent()
	for depth := 0; depth < 3; depth++ {
		es := p.callers[fn]
		if len(es) != 1 || es[0].Kind != "static" || es[0].Site == nil {
			break
		}
		cb := es[0].Site.Block()
		out = append(out, FactsAt(cb)...)
		fn = cb.Parent()
	}
	return out
}

// CalleesAt resolves the module-internal callees of one call site.
func (p *Prog) CalleesAt(site ssa.CallInstruction) []*ssa.Function {
	var out []*ssa.Function
	for _, e := range p.callees[site.Parent()] {
		if e.Site == site {
			out = append(out, e.Callee)
		}
	}
	return out
}

// Reach returns every module function reachable from the roots (including the
// roots and closures created in reachable functions).
func (p *Prog) Reach(roots ...*ssa.Function) map[*ssa.Function]bool {
	seen := map[*ssa.Function]bool{}
	var work []*ssa.Function
	push := func(f *ssa.Function) {
		if f != nil && !seen[f] {
			seen[f] = true
			work = append(work, f)
		}
	}
	for _, r := range roots {
		push(r)
	}
	for len(work) > 0 {
		f := work[len(work)-1]
		work = work[:len(work)-1]
		for _, e := range p.callees[f] {
			push(e.Callee)
		}
		// closures created here may be invoked later by anyone holding the value
		for _, b := range f.Blocks {
			for _, in := range b.Instrs {
				if mc, ok := in.(*ssa.MakeClosure); ok {
					push(mc.Fn.(*ssa.Function))
				}
			}
		}
		if p.UseVTA && p.vtaCG != nil {
			if n := p.vtaCG.Nodes[f]; n != nil {
				for _, e := range n.Out {
					if p.inModule(e.Callee.Func) {
						push(p.unwrap(e.Callee.Func))
					}
				}
			}
		}
	}
	return seen
}

// ReachModuleIfaces is Reach without the class-hierarchy guesses for invokes
// through interfaces declared outside the module (and without signature-matched
// dynamic calls): used where the receiver of such an invoke is known, by a
// separately checked invariant, to be the caller-supplied object.
func (p *Prog) ReachModuleIfaces(roots ...*ssa.Function) map[*ssa.Function]bool {
	seen := map[*ssa.Function]bool{}
	var work []*ssa.Function
	push := func(f *ssa.Function) {
		if f != nil && !seen[f] {
			seen[f] = true
			work = append(work, f)
		}
	}
	for _, r := range roots {
		push(r)
	}
	for len(work) > 0 {
		f := work[len(work)-1]
		work = work[:len(work)-1]
		for _, e := range p.callees[f] {
			if e.StdIface {
				continue
			}
			push(e.Callee)
		}
	}
	return seen
}

// ReachVTA computes reachability on the VTA graph only.
func (p *Prog) ReachVTA(roots ...*ssa.Function) map[*ssa.Function]bool {
	seen := map[*ssa.Function]bool{}
	var work []*ssa.Function
	push := func(f *ssa.Function) {
		if f != nil && !seen[f] {
			seen[f] = true
			work = append(work, f)
		}
	}
	for _, r := range roots {
		push(r)
	}
	for len(work) > 0 {
		f := work[len(work)-1]
		work = work[:len(work)-1]
		if n := p.vtaCG.Nodes[f]; n != nil {
			for _, e := range n.Out {
				if p.inModule(e.Callee.Func) {
					push(e.Callee.Func)
				} else if e.Callee.Func != nil && e.Callee.Func.Synthetic != "" {
					u := p.unwrap(e.Callee.Func)
					if u != nil && p.inModule(u) {
						push(u)
					}
				}
			}
		}
		for _, b := range f.Blocks {
			for _, in := range b.Instrs {
				if mc, ok := in.(*ssa.MakeClosure); ok {
					push(mc.Fn.(*ssa.Function))
				}
			}
		}
	}
	return seen
}

// ------------------------------------------------------------------ AST side

// FuncDecl returns the AST declaration of a root-package function.
func (p *Prog) FuncDecl(fn *ssa.Function) *ast.FuncDecl {
	if fn == nil {
		return nil
	}
	if fd, ok := fn.Syntax().(*ast.FuncDecl); ok {
		return fd
	}
	return nil
}

// Info returns the types.Info of the package declaring fn.
func (p *Prog) Info(fn *ssa.Function) *types.Info {
	pk := fnPkg(fn)
	if pp := p.ModPkgs[pk]; pp != nil {
		return pp.TypesInfo
	}
	return nil
}

// SortedFuncs returns the keys of a function set sorted by name.
func SortedFuncs(m map[*ssa.Function]bool) []*ssa.Function {
	var out []*ssa.Function
	for f := range m {
		out = append(out, f)
	}
	sort.Slice(out, func(i, j int) bool { return FuncName(out[i]) < FuncName(out[j]) })
	return out
}

// RequestTimeRoots returns the entry points of request-time code: the
// transcoder's ServeHTTP plus every method of the root-package types that are
// handed to user handlers (request body adapters, response writer and its body
// adapters), which the handler - code outside the module - calls.
func (p *Prog) RequestTimeRoots() []*ssa.Function {
	if r, ok := p.memo["rtroots"]; ok {
		return r.([]*ssa.Function)
	}
	var roots []*ssa.Function
	seen := map[*ssa.Function]bool{}
	add := func(f *ssa.Function) {
		if f != nil && !seen[f] && f.Blocks != nil {
			seen[f] = true
			roots = append(roots, f)
		}
	}
	nt := p.Func("NewTranscoder")
	if nt != nil && nt.Signature.Results().Len() > 0 {
		add(p.MethodOf(nt.Signature.Results().At(0).Type(), "ServeHTTP"))
	}
	handed := []string{"Read", "Write", "Close", "Header", "WriteHeader", "Flush", "Unwrap", "FlushError", "ReadFrom", "WriteTo"}
	scope := p.Root.Pkg.Scope()
	for _, name := range scope.Names() {
		tn, ok := scope.Lookup(name).(*types.TypeName)
		if !ok || p.isTestFile(tn.Pos()) {
			continue
		}
		n, ok := tn.Type().(*types.Named)
		if !ok {
			continue
		}
		if _, isIface := n.Underlying().(*types.Interface); isIface {
			continue
		}
		pt := types.NewPointer(n)
		isAdapter := false
		for _, m := range []string{"Read", "Write"} {
			if f := p.MethodOf(pt, m); f != nil && f.Signature.Params().Len() == 1 {
				if sl, ok := f.Signature.Params().At(0).Type().(*types.Slice); ok {
					if b, ok := sl.Elem().(*types.Basic); ok && b.Kind() == types.Uint8 {
						isAdapter = true
					}
				}
			}
		}
		if !isAdapter {
			continue
		}
		for _, m := range handed {
			add(p.MethodOf(pt, m))
		}
	}
	p.memo["rtroots"] = roots
	return roots
}

// RequestTimeReach is Reach over RequestTimeRoots.
func (p *Prog) RequestTimeReach() map[*ssa.Function]bool {
	if r, ok := p.memo["rtreach"]; ok {
		return r.(map[*ssa.Function]bool)
	}
	r := p.Reach(p.RequestTimeRoots()...)
	p.memo["rtreach"] = r
	return r
}

// UseVTAEdges replaces the module call edges by those of the VTA call graph
// (thorough tier): interface invokes and function values are resolved by
// variable-type analysis instead of class hierarchy / signature matching.
func (p *Prog) UseVTAEdges() {
	if p.vtaCG == nil {
		p.BuildVTA()
	}
	p.callees = map[*ssa.Function][]*Edge{}
	p.callers = map[*ssa.Function][]*Edge{}
	p.memo = map[string]any{}
	p.UseVTA = true
	inMod := map[*ssa.Function]bool{}
	for _, fn := range p.AllMod {
		inMod[fn] = true
	}
	for _, fn := range p.AllMod {
		n := p.vtaCG.Nodes[fn]
		if n == nil {
			continue
		}
		seen := map[string]bool{}
		for _, e := range n.Out {
			callee := e.Callee.Func
			if callee == nil {
				continue
			}
			callee = p.unwrap(callee)
			if callee == nil || !inMod[callee] || e.Site == nil {
				continue
			}
			k := fmt.Sprintf("%p|%p", e.Site, callee)
			if seen[k] {
				continue
			}
			seen[k] = true
			cc := e.Site.Common()
			ed := &Edge{Caller: fn, Site: e.Site, Callee: callee, Kind: "static"}
			switch {
			case cc.IsInvoke():
				ed.Kind = "invoke"
				ed.StdIface = true
				if nt, ok := cc.Value.Type().(*types.Named); ok && nt.Obj().Pkg() != nil {
					if _, ok := p.ModPkgs[nt.Obj().Pkg()]; ok {
						ed.StdIface = false
					}
				}
			case cc.StaticCallee() == nil:
				ed.Kind = "dynamic"
			}
			p.callees[fn] = append(p.callees[fn], ed)
			p.callers[callee] = append(p.callers[callee], ed)
		}
	}
}

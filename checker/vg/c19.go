package vg

import (
	"go/constant"
	"go/token"
	"go/types"
	"strings"

	"golang.org/x/tools/go/ssa"
)

func init() {
	register(&PropertySpec{
		ID: "C19",
		Explanation: "Decides, path-sensitively over the SSA CFGs: (C19.1) the client-side GET predicate can only be true as the comparison GetIdempotencyLevel()==NO_SIDE_EFFECTS, and in method resolution every path that accepts a non-POST RPC request passes that predicate being true and the HTTP method being GET; both 405 responses carry an Allow header; " +
			"(C19.2) the Connect-unary target issues GET only on paths where its useGet predicate is true and the URL-length comparison against the configured maximum did not exceed, useGet itself is true only under the conjunction (client's request was GET) & (codec is a StableCodec) & (NO_SIDE_EFFECTS); every other return issues POST with a body; Request.Method is stored only from that builder's result or the constant POST; " +
			"(C19.3) the GET return declares no body, the body is drained exactly on that edge and the GET body preparer returns no bytes. " +
			"Not decided: equality of GET-decoded and POST-decoded messages, exactness of the URL length arithmetic (only that the configured limit participates with the right polarity).",
		Assumptions: []string{"descriptorpb.MethodOptions_NO_SIDE_EFFECTS is the enum value of idempotency_level NO_SIDE_EFFECTS"},
		Run:         runC19,
	})
}

func noSideEffectsConst(p *Prog) constant.Value {
	for _, pk := range p.RootPkg.Types.Imports() {
		if pk.Path() == "google.golang.org/protobuf/types/descriptorpb" {
			if c, ok := pk.Scope().Lookup("MethodOptions_NO_SIDE_EFFECTS").(*types.Const); ok {
				return c.Val()
			}
		}
	}
	fatalf("anchor=descriptorpb.MethodOptions_NO_SIDE_EFFECTS not found among imports")
	return nil
}

// isNSECompare: v is  X.GetIdempotencyLevel() == NO_SIDE_EFFECTS.
func isNSECompare(v ssa.Value, nse constant.Value) bool {
	b, ok := v.(*ssa.BinOp)
	if !ok || b.Op != token.EQL {
		return false
	}
	x, y := b.X, b.Y
	if _, isC := x.(*ssa.Const); isC {
		x, y = y, x
	}
	call, ok := x.(*ssa.Call)
	if !ok || call.Common().StaticCallee() == nil || N(call.Common().StaticCallee()) != "GetIdempotencyLevel" {
		return false
	}
	cst, ok := y.(*ssa.Const)
	return ok && cst.Value != nil && constant.Compare(cst.Value, token.EQL, nse)
}

func isMethodCmp(v ssa.Value, verb string) (token.Token, bool) {
	b, ok := v.(*ssa.BinOp)
	if !ok || (b.Op != token.EQL && b.Op != token.NEQ) {
		return 0, false
	}
	x, y := b.X, b.Y
	if _, isC := x.(*ssa.Const); isC {
		x, y = y, x
	}
	s, ok := ConstString(y)
	if !ok || s != verb {
		return 0, false
	}
	f := LoadedField(x)
	if f == nil || N(f) != "Method" || f.Pkg() == nil || f.Pkg().Path() != "net/http" {
		return 0, false
	}
	return b.Op, true
}

// methodIs: on this path the request method is known to equal verb.
func methodIs(cp CFGPath, verb string) bool {
	for cond, truth := range cp.Truth {
		if op, ok := isMethodCmp(cond, verb); ok {
			if op == token.EQL && truth || op == token.NEQ && !truth {
				return true
			}
		}
	}
	return false
}

func methodIsNot(cp CFGPath, verb string) bool {
	for cond, truth := range cp.Truth {
		if op, ok := isMethodCmp(cond, verb); ok {
			if op == token.EQL && !truth || op == token.NEQ && truth {
				return true
			}
		}
	}
	return false
}

func runC19(c *Ctx) {
	// clause shared with C04: the GET message parameter is decoded into exactly its bytes
	defer c.ImportRules("C04", "C04.9")
	// clause shared with C18: a rejected request is answered by the transcoder, never forwarded
	defer c.ImportRules("C18", "C18.2")
	p := c.P
	// clause shared with C02 (see DESIGN.md section 6a)
	defer c.ImportRules("C02", "C02.10")
	nse := noSideEffectsConst(p)

	// ---------------------------------------------------------------- C19.1
	c.Rule("C19.1", "GET is accepted only when the method is declared side-effect-free and the HTTP method is GET", 4)
	ag := p.Iface("clientProtocolAllowsGet")
	if ag == nil {
		fatalf("anchor=clientProtocolAllowsGet not found")
	}
	impls := p.Implementers(ag)
	if len(impls) == 0 {
		fatalf("anchor=clientProtocolAllowsGet: no implementation")
	}
	for _, t := range impls {
		fn := p.MethodOf(t, "allowsGetRequests")
		paths, ok := EnumPaths(fn.Blocks[0], nil, IsReturn, 0)
		if !ok {
			c.Unknown("C19.1", FuncName(fn), "paths", fn.Pos(), "too many paths")
			continue
		}
		for _, cp := range paths {
			ret := cp.End.(*ssa.Return)
			v := cp.ResolveAt(ret.Results[0], ret.Block())
			good := false
			if b, isC := ConstBool(v); isC && !b {
				good = true
			}
			if isNSECompare(v, nse) {
				good = true
			}
			c.Check(good, "C19.1", FuncName(fn), "predicate-return", ret.Pos(),
				"returns false or the comparison idempotency_level == NO_SIDE_EFFECTS",
				"the GET-acceptance predicate can return true for a method that is not declared NO_SIDE_EFFECTS")
		}
	}
	resolve := p.MustFunc("(*operation).resolveMethod")
	resolveFamily := p.Family(resolve)
	var agCall ssa.Value
	for _, rf := range resolveFamily {
		for _, call := range Calls(rf) {
			if call.Common().IsInvoke() && N(call.Common().Method) == "allowsGetRequests" {
				agCall = call.Value()
			}
		}
	}
	if agCall == nil {
		c.Bad("C19.1", FuncName(resolve), "predicate-consulted", resolve.Pos(), "method resolution never consults the GET-acceptance predicate")
	} else {
		var paths []CFGPath
		for _, rf := range resolveFamily {
			if rf != agCall.(ssa.Instruction).Parent() {
				continue // the accepting paths are those of the function that consults the predicate
			}
			ps, ok := EnumPaths(rf.Blocks[0], nil, IsReturn, 0)
			if !ok {
				c.Unknown("C19.1", FuncName(rf), "paths", rf.Pos(), "too many paths")
			}
			for _, cp := range ps {
				if !ForwardsMember(cp.End.(*ssa.Return), resolveFamily) {
					paths = append(paths, cp)
				}
			}
		}
		n := 0
		for _, cp := range paths {
			ret := cp.End.(*ssa.Return)
			v := cp.ResolveAt(ret.Results[0], ret.Block())
			if !IsNilConst(v) {
				continue // error return
			}
			if !methodIsNot(cp, "POST") {
				continue // POST request or REST branch (method checked by the route table)
			}
			n++
			okPred := cp.Truth[agCall]
			okGet := methodIs(cp, "GET")
			c.Check(okPred && okGet, "C19.1", FuncName(resolve), "non-post-accepted", ret.Pos(),
				"a non-POST RPC request is accepted only with the predicate true and the HTTP method GET",
				"a path accepts a non-POST RPC request without (predicate true: "+boolStr(okPred)+", method == GET: "+boolStr(okGet)+")")
		}
		if n == 0 {
			c.Bad("C19.1", FuncName(resolve), "non-post-accepted", resolve.Pos(), "no accepting path for non-POST requests found: shape changed (GET can never be accepted, or the method test is gone)")
		}
	}
	// 405 literals carry Allow
	httpErrT := p.MustNamed("httpError")
	codeFld, hdrFld := p.MustField("httpError", "code"), p.MustField("httpError", "header")
	for _, rf := range resolveFamily {
		scan405(c, rf, resolve, httpErrT, codeFld, hdrFld)
	}

	runC19rest(c)
}

func scan405(c *Ctx, rf, resolve *ssa.Function, httpErrT *types.Named, codeFld, hdrFld *types.Var) {
	ForEachInstr(rf, func(in ssa.Instruction) {
		al, ok := in.(*ssa.Alloc)
		if !ok || !types.Identical(al.Type().(*types.Pointer).Elem(), httpErrT) {
			return
		}
		is405 := false
		for _, v := range aggregateFieldStores(al, codeFld) {
			if k, ok := ConstInt(v); ok && k == 405 {
				is405 = true
			}
		}
		if !is405 {
			return
		}
		hasAllow := false
		for _, v := range aggregateFieldStores(al, hdrFld) {
			// the header value is a fresh map with a MapUpdate of key "Allow"
			if mm, ok := strip(v).(*ssa.MakeMap); ok {
				for _, ref := range *mm.Referrers() {
					if mu, ok := ref.(*ssa.MapUpdate); ok {
						if k, _ := ConstString(mu.Key); k == "Allow" {
							hasAllow = true
						}
					}
				}
			}
		}
		c.Check(hasAllow, "C19.1", FuncName(resolve), "405-has-allow", al.Pos(),
			"the 405 error carries an Allow header", "a 405 error is built without an Allow header")
	})
}

// runC19EmptyMessage: C19.5 (defect D54).  A request message that is decoded from parts of the
// request (the query string of a Connect GET, the body of a REST call) is handed to the codec
// only when there are bytes to decode: zero bytes are the empty message, as they are on the
// POST path, where an empty body never reaches the codec - and the JSON codec rejects them.
func runC19EmptyMessage(c *Ctx) {
	p := c.P
	c.Rule("C19.5", "a request message decoded from request parts is not handed to the codec when it has zero bytes (GET and POST agree on the empty message)", 2)
	cbp := p.Iface("clientBodyPreparer")
	if cbp == nil {
		fatalf("anchor=clientBodyPreparer not found")
	}
	n := 0
	seen := map[ssa.Instruction]bool{}
	for _, t := range p.Implementers(cbp) {
		m := p.MethodOf(t, "prepareUnmarshalledRequest")
		if m == nil {
			continue
		}
		for _, fn := range SortedFuncs(p.Reach(m)) {
			if !p.inScope(fn) || fn == p.Func("(*message).decode") {
				continue
			}
			for _, call := range Calls(fn) {
				cc := call.Common()
				if !cc.IsInvoke() || (N(cc.Method) != "Unmarshal" && N(cc.Method) != "UnmarshalField") || seen[call] || len(cc.Args) == 0 {
					continue
				}
				if !strings.Contains(types.TypeString(cc.Value.Type(), nil), "Codec") {
					continue
				}
				seen[call] = true
				n++
				data := cc.Args[0]
				nonEmpty := false
				for _, f := range FactsAt(call.Block()) {
					cmp, ok := f.AsCmp()
					if !ok {
						continue
					}
					k, isK := ConstInt(cmp.Y)
					if !isK || k != 0 || !(cmp.Op == token.NEQ || cmp.Op == token.GTR) {
						continue
					}
					for _, l := range Origins(cmp.X) {
						if l.Kind == "call" && IsCallTo(l.Call, "builtin len") {
							a := l.Call.Common().Args[0]
							if a == data || strip(a) == strip(data) || sameQuantity(a, data) {
								nonEmpty = true
							}
							// the same bytes through a phi (msgData = dst.Bytes() / []byte(msgStr))
							if ph, ok := strip(data).(*ssa.Phi); ok && strip(a) == ssa.Value(ph) {
								nonEmpty = true
							}
						}
					}
				}
				c.Check(nonEmpty, "C19.5", FuncName(fn), "codec-not-given-zero-bytes:"+N(cc.Method), call.Pos(),
					"the codec is called only where the data is known to be non-empty",
					"the codec is handed the request message's bytes without a dominating 'len(data) != 0': zero bytes (the empty message) fail in the JSON codec on this path, while the same content in a POST body is accepted")
			}
		}
	}
	if n < 2 {
		c.Bad("C19.5", "clientBodyPreparer", "codec-not-given-zero-bytes", token.NoPos, "fewer than two codec calls under prepareUnmarshalledRequest ("+itoa(n)+"): shape changed")
	}
}

// runC19GetClassified: C19.6 (seed C19h).  The Connect unary POST form does not accept GET (method
// resolution answers 405 for it).  In the request classifier, every return of a client protocol
// that does not allow GET - under evidence that the request is a Connect unary one - lies on a
// path that knows the HTTP method is not GET; otherwise a valid GET of a side-effect-free method
// that happens to carry a Content-Type header is rejected instead of decoded.
func runC19GetClassified(c *Ctx) {
	p := c.P
	c.Rule("C19.6", "the classifier selects the Connect POST form only where it knows the request is not a GET", 1)
	cl := p.MustFunc("classifyRequest")
	allowsGet := p.Iface("clientProtocolAllowsGet")
	post := p.MustNamed("connectUnaryPostClientProtocol")
	if allowsGet != nil && (types.Implements(post, allowsGet) || types.Implements(types.NewPointer(post), allowsGet)) {
		fatalf("anchor=connectUnaryPostClientProtocol now allows GET: rule C19.6 no longer applies")
	}
	paths, ok := EnumPaths(cl.Blocks[0], nil, IsReturn, 0)
	if !ok {
		c.Unknown("C19.6", FuncName(cl), "post-form-not-for-get", cl.Pos(), "too many paths")
		return
	}
	n, bad := 0, 0
	for _, cp := range paths {
		rv := ReturnValues(cp.End.(*ssa.Return))
		if len(rv) == 0 {
			continue
		}
		rvv := resolveVal(cp.Deref(rv[0]), cp.Blocks)
		if mi, isMI := rvv.(*ssa.MakeInterface); isMI {
			rvv = mi.X
		}
		if !types.Identical(rvv.Type(), post) {
			continue
		}
		n++
		knows := false
		for cond, truth := range cp.Truth {
			b, isB := cond.(*ssa.BinOp)
			if !isB || (b.Op != token.EQL && b.Op != token.NEQ) {
				continue
			}
			f := LoadedField(b.X)
			if f == nil || N(f) != "Method" {
				continue
			}
			s2, isS := ConstString(b.Y)
			if !isS {
				continue
			}
			eq := (b.Op == token.EQL) == truth
			if s2 == "GET" && !eq || s2 == "POST" && eq {
				knows = true
			}
		}
		if !knows {
			bad++
		}
	}
	c.Check(bad == 0 && n > 0, "C19.6", FuncName(cl), "post-form-not-for-get", cl.Pos(),
		"every return of the POST-only Connect form lies on a path that knows the method is not GET ("+itoa(n)+" paths)",
		itoa(bad)+" path(s) classify a request as Connect unary POST without knowing that its method is not GET: a GET (valid for side-effect-free methods) that carries a Content-Type header is then answered 405 instead of being decoded from the query string")
}

func runC19rest(c *Ctx) {
	defer runC19EmptyMessage(c)
	defer runC19GetClassified(c)
	p := c.P
	nse := noSideEffectsConst(p)
	// ---------------------------------------------------------------- C19.2
	c.Rule("C19.3", "GET carries no body: includeBody=false, body drained on that edge, GET body preparer returns no bytes", 3)
	c.Rule("C19.2", "GET is issued only under useGet and within the URL limit; useGet is the three-way conjunction; Request.Method stored only from the builder or POST", 6)
	cus := p.MustNamed("connectUnaryServerProtocol")
	rl := p.MethodOf(cus, "requestLine")
	if rl == nil {
		fatalf("anchor=connectUnaryServerProtocol.requestLine not found")
	}
	// the GET predicate ("useGet" today): the module function returning bool whose true outcome
	// dominates a return of the constant GET in the request-line builder - found by role, not by name
	var useGet *ssa.Function
	ForEachInstr(rl, func(in ssa.Instruction) {
		ret, ok := in.(*ssa.Return)
		if !ok || len(ret.Results) != 5 || ret.Block() == rl.Recover {
			return
		}
		isGet := false
		for _, l := range Origins(ReturnValues(ret)[2]) {
			if s, isS := ConstString(l.V); l.Kind == "const" && isS && s == "GET" {
				isGet = true
			}
		}
		if !isGet {
			return
		}
		for _, f := range FactsAt(ret.Block()) {
			call, ok := f.Cond.(*ssa.Call)
			if !ok || !f.Truth {
				continue
			}
			for _, cal := range p.CalleesAt(call) {
				if p.inScope(cal) && len(cal.Blocks) > 0 && cal.Signature.Results().Len() == 1 && isBoolType(cal.Signature.Results().At(0).Type()) {
					if useGet == nil || FuncName(cal) < FuncName(useGet) {
						useGet = cal
					}
				}
			}
		}
	})
	if useGet == nil {
		c.Unknown("C19.2", FuncName(rl), "get-predicate", rl.Pos(), "no return of GET in the request-line builder is dominated by the true outcome of a boolean predicate function: the GET conditions are not in the recognised form")
		return
	}
	maxGetFld := p.MustField("serviceOptions", "maxGetURLBytes")
	nGet, nPost := 0, 0
	ForEachInstr(rl, func(in ssa.Instruction) {
		ret, ok := in.(*ssa.Return)
		if !ok || len(ret.Results) != 5 || ret.Block() == rl.Recover {
			return
		}
		rv := ReturnValues(ret)
		mayGet, mayPost, other := false, false, false
		for _, l := range Origins(rv[2]) {
			s, isS := ConstString(l.V)
			switch {
			case l.Kind == "const" && isS && s == "GET":
				mayGet = true
			case l.Kind == "const" && isS && s == "POST":
				mayPost = true
			case l.Kind == "const" && isS && s == "":
				// error return
			default:
				other = true
			}
		}
		body, bodyConst := ConstBool(rv[3])
		if other {
			c.Bad("C19.2", FuncName(rl), "method-constant", ret.Pos(), "the issued HTTP method is not one of the constants GET/POST")
			return
		}
		if mayGet {
			nGet++
			facts := FactsAt(ret.Block())
			underUseGet, underLimit, urlLenOK := false, false, false
			for _, f := range facts {
				if call, ok := f.Cond.(*ssa.Call); ok && f.Truth {
					for _, cal := range p.CalleesAt(call) {
						if cal == useGet {
							underUseGet = true
						}
					}
				}
				if cmp, ok := f.AsCmp(); ok {
					limY, limX := false, false
					for _, l := range Origins(cmp.Y) {
						if l.Kind == "load" && l.Field == maxGetFld {
							limY = true
						}
					}
					for _, l := range Origins(cmp.X) {
						if l.Kind == "load" && l.Field == maxGetFld {
							limX = true
						}
					}
					if limY && (cmp.Op == token.LEQ || cmp.Op == token.LSS) || limX && (cmp.Op == token.GEQ || cmp.Op == token.GTR) {
						underLimit = true
						lenSide := cmp.X
						if limX {
							lenSide = cmp.Y
						}
						urlLenOK = urlLengthShape(lenSide)
					}
				}
			}
			c.Check(underUseGet && underLimit && !mayPost, "C19.2", FuncName(rl), "get-return", ret.Pos(),
				"GET is returned only under useGet()==true and URL length <= maxGetURLBytes",
				"GET can be issued without (useGet true: "+boolStr(underUseGet)+", length within maxGetURLBytes: "+boolStr(underLimit)+")")
			c.Check(urlLenOK, "C19.2", FuncName(rl), "url-length-counts-separator", ret.Pos(),
				"the length compared with the limit is len(path) + len(query) + 1 (the '?' separator is counted)",
				"the URL length compared with maxGetURLBytes is not len(path)+len(query)+1: a URL one byte over the limit is still sent as GET")
			c.Check(bodyConst && !body, "C19.3", FuncName(rl), "get-has-no-body", ret.Pos(),
				"the GET return declares includeBody=false", "the GET return does not declare includeBody=false")
		}
		if mayPost && !mayGet {
			nPost++
			c.Check(bodyConst && body, "C19.2", FuncName(rl), "post-has-body", ret.Pos(),
				"POST is returned with includeBody=true (the message travels in the body)", "a POST return does not carry the message in the body")
		}
	})
	if nGet == 0 || nPost == 0 {
		c.Bad("C19.2", FuncName(rl), "returns", rl.Pos(), "request-line builder lacks a GET or a POST return: shape changed")
	}
	// useGet conjunction
	{
		paths, ok := EnumPaths(useGet.Blocks[0], nil, IsReturn, 0)
		if !ok {
			c.Unknown("C19.2", FuncName(useGet), "paths", useGet.Pos(), "too many paths")
		}
		nTrue := 0
		for _, cp := range paths {
			ret := cp.End.(*ssa.Return)
			v := cp.ResolveAt(ret.Results[0], ret.Block())
			if b, isC := ConstBool(v); isC && !b {
				continue
			}
			nTrue++
			okNSE := isNSECompare(v, nse)
			okGet := methodIs(cp, "GET")
			okStable := false
			for cond, truth := range cp.Truth {
				if ex, ok := cond.(*ssa.Extract); ok && ex.Index == 1 && truth {
					if ta, ok := ex.Tuple.(*ssa.TypeAssert); ok && ta.CommaOk && isNamed(ta.AssertedType, RootPath, "StableCodec") {
						if f := LoadedField(ta.X); f != nil && N(f) == "codec" && PathOfHasSide(ta.X, "server") {
							okStable = true
						}
					}
				}
			}
			c.Check(okNSE && okGet && okStable, "C19.2", FuncName(useGet), "conjunction", ret.Pos(),
				"useGet can be true only as (request method == GET) && (server codec is StableCodec) && (idempotency == NO_SIDE_EFFECTS)",
				"useGet can be true without all of: client's request was GET ("+boolStr(okGet)+"), server codec is a StableCodec ("+boolStr(okStable)+"), NO_SIDE_EFFECTS ("+boolStr(okNSE)+")")
		}
		if nTrue == 0 {
			c.Bad("C19.2", FuncName(useGet), "conjunction", useGet.Pos(), "useGet has no path on which it can be true: GET would never be issued (shape changed)")
		}
	}
	// Request.Method stores
	for _, fn := range p.Funcs {
		for _, w := range FieldWrites(fn) {
			if N(w.Field) != "Method" || !isPtrTo(w.Base.Type(), "net/http", "Request") || w.Fresh {
				continue
			}
			ok := true
			for _, l := range Origins(w.Store.Val) {
				switch {
				case l.Kind == "const":
					if s, _ := ConstString(l.V); s != "POST" {
						ok = false
					}
				case l.Kind == "call" && l.Call.Common().IsInvoke() && N(l.Call.Common().Method) == "requestLine" && l.Index == 2:
				default:
					ok = false
				}
			}
			c.Check(ok, "C19.2", FuncName(fn), "store-request-method", w.Store.Pos(),
				"Request.Method is set from the request-line builder's result or the constant POST",
				"Request.Method is stored from something other than the request-line builder's verdict or POST")
		}
	}

	// ---------------------------------------------------------------- C19.3
	handle := p.MustFunc("(*operation).handle")
	drain := p.MustFunc("(*operation).drainBody")
	nDrain := 0
	var drainScope []*ssa.Function
	for _, fn := range p.Funcs {
		if p.OnlyCalledWithin(fn, handle) {
			drainScope = append(drainScope, fn)
		}
	}
	var drainCalls []ssa.CallInstruction
	for _, fn := range drainScope {
		for _, call := range Calls(fn) {
			for _, cal := range p.CalleesAt(call) {
				if cal == drain {
					drainCalls = append(drainCalls, call)
				}
			}
		}
	}
	for _, call := range drainCalls {
		nDrain++
		ok := false
		for _, f := range p.FactsAtInter(call.Block()) {
			if !f.Truth {
				continue
			}
			for _, l := range p.OriginsInter(f.Cond) {
				if l.Kind == "call" && l.Call.Common().IsInvoke() && N(l.Call.Common().Method) == "requestLine" && l.Index == 3 {
					for _, op := range l.Ops {
						if op == token.NOT {
							ok = true
						}
					}
				}
			}
		}
		c.Check(ok, "C19.3", FuncName(handle), "drain-when-no-body", call.Pos(),
			"the client's body is drained exactly when the builder said the request has no body",
			"the body is drained under a condition that is not the negated includeBody verdict of the request-line builder")
	}
	if nDrain == 0 {
		c.Bad("C19.3", FuncName(handle), "drain-when-no-body", handle.Pos(), "no body drain on the no-body edge: the backend would see the client's body on a GET")
	}
	pm := p.MethodOf(cus, "prepareMarshalledRequest")
	ForEachInstr(pm, func(in ssa.Instruction) {
		if ret, ok := in.(*ssa.Return); ok {
			c.Check(IsNilConst(ret.Results[0]), "C19.3", FuncName(pm), "get-preparer-empty", ret.Pos(),
				"the GET body preparer returns no bytes", "the body preparer used for GET returns body bytes")
		}
	})

	// ---------------------------------------------------------------- C19.4
	// The GET message is decoded from the query string as the client sent it.  The request's
	// URL is rewritten for the backend before a streamed/late decode happens, so the parsed
	// query must be kept: the accessor returns the kept value, or parses AND keeps.
	c.Rule("C19.4", "the parsed query of the client's request is kept on first use (later URL rewriting cannot change what a GET message decodes to)", 2)
	qv := p.MustFunc("(*operation).queryValues")
	qvF := p.MustField("operation", "queryVars")
	// (defect D66) ... and the first use comes before the rewriting: every store to the request's
	// URL.RawQuery at request time is preceded, on every path from the function's entry, by a call
	// of the accessor - the classifier primes the kept parse only for some requests
	{
		nSt := 0
		for _, fn := range SortedFuncs(p.RequestTimeReach()) {
			if !p.inScope(fn) {
				continue
			}
			ForEachInstr(fn, func(in ssa.Instruction) {
				st, ok := in.(*ssa.Store)
				if !ok {
					return
				}
				fa, ok := st.Addr.(*ssa.FieldAddr)
				if !ok || N(FieldOfAddr(fa)) != "RawQuery" || !isNamed(fa.X.Type().(*types.Pointer).Elem(), "net/url", "URL") {
					return
				}
				nSt++
				isAcc := func(x ssa.Instruction) bool {
					ci, ok := x.(ssa.CallInstruction)
					return ok && ci.Common().StaticCallee() == qv
				}
				found, path := PathQuery{Target: func(x ssa.Instruction) bool { return x == in }, Avoid: isAcc}.Search(fn, nil)
				c.Check(!found, "C19.4", FuncName(fn), "query-parsed-before-rewrite", st.Pos(),
					"the client's query string has been parsed (and kept) on every path before URL.RawQuery is overwritten",
					"URL.RawQuery is overwritten on a path that has not parsed the client's query yet ("+witnessString(p, path)+"): the query is parsed lazily, so a later use (completing the request message when the backend reads the body) sees the backend's query - the client's parameters are silently dropped")
			})
		}
		if nSt == 0 {
			c.Bad("C19.4", "request-time code", "query-parsed-before-rewrite", token.NoPos, "no store to URL.RawQuery found: shape changed")
		}
	}
	nRet := 0
	ForEachInstr(qv, func(in ssa.Instruction) {
		ret, ok := in.(*ssa.Return)
		if !ok || ret.Block() == qv.Recover {
			return
		}
		nRet++
		good := true
		why := ""
		for _, l := range Origins(ReturnValues(ret)[0]) {
			switch {
			case l.Kind == "load" && l.Field == qvF:
			case l.Kind == "nil":
			case l.Kind == "call" && IsCallTo(l.Call, "(*net/url.URL).Query"):
				// must be stored into the kept cell on every path from the parse to this return
				cv, _ := l.Call.(*ssa.Call)
				keeps := func(x ssa.Instruction) bool {
					st, ok := x.(*ssa.Store)
					if !ok {
						return false
					}
					fa, ok := st.Addr.(*ssa.FieldAddr)
					return ok && FieldOfAddr(fa) == qvF && cv != nil && st.Val == ssa.Value(cv)
				}
				found, _ := PathQuery{Target: func(x ssa.Instruction) bool { return x == ssa.Instruction(ret) }, Avoid: keeps}.Search(qv, l.Call)
				if found {
					good, why = false, "a freshly parsed query is returned without being kept"
				}
			default:
				good, why = false, "the returned values are neither the kept query nor a parse of the request's query"
			}
		}
		c.Check(good, "C19.4", FuncName(qv), "returns-kept-query", ret.Pos(),
			"returns the kept query values, or a fresh parse that was stored in the kept cell first",
			why+": once the URL has been rewritten for the backend a later call parses the rewritten (empty) query and a GET message decodes to something else than the same content sent by POST")
	})
	if nRet == 0 {
		c.Bad("C19.4", FuncName(qv), "returns-kept-query", qv.Pos(), "no return found: shape changed")
	}
	// "the first message may come from an empty body" (the GET case) is allowed once: whoever
	// prepares a message for sending through the re-encoding reader marks the first message as
	// consumed, on every path - otherwise the reader meets the empty body again and lets the
	// body preparer build the message from the query a second time (POST body = message twice)
	{
		trT := types.NewPointer(p.MustNamed("transformingReader"))
		flagF := p.MustField("transformingReader", "consumedFirst")
		prep := p.MethodOf(trT, "prepareMessage")
		if prep == nil {
			fatalf("anchor=transformingReader.prepareMessage not found")
		}
		setsFlag := func(in ssa.Instruction) bool {
			st, ok := in.(*ssa.Store)
			if !ok {
				return false
			}
			fa, ok := st.Addr.(*ssa.FieldAddr)
			if !ok || FieldOfAddr(fa) != flagF {
				return false
			}
			b, isK := ConstBool(st.Val)
			return isK && b
		}
		inPrep, _ := MustPassToExit(prep, nil, setsFlag, IsReturn, nil)
		nSites := 0
		for _, e := range p.Callers(prep) {
			if e.Kind != "static" || !p.inScope(e.Caller) {
				continue
			}
			nSites++
			ok := inPrep
			if !ok {
				// the caller sets it on every path to the call
				unguarded, _ := PathQuery{Target: func(in ssa.Instruction) bool { return in == ssa.Instruction(e.Site) }, Avoid: setsFlag}.Search(e.Caller, nil)
				ok = !unguarded
			}
			c.Check(ok, "C19.4", FuncName(e.Caller), "first-message-consumed-once", e.Site.Pos(),
				"preparing a message marks the first message as consumed (in the preparer or before the call)",
				"a message is prepared for sending without marking the first message as consumed: when the body is empty (a GET that falls back to POST) the reader later accepts the empty body a second time and the backend receives the message twice in one body")
		}
		if nSites == 0 {
			c.Bad("C19.4", FuncName(prep), "first-message-consumed-once", prep.Pos(), "the message preparer of the re-encoding reader is never called: shape changed")
		}
	}
	// the GET client protocol - whose message lives in the query - reads it through the accessor only
	{
		getT := p.MustNamed("connectUnaryGetClientProtocol")
		nM := 0
		for _, fn := range p.Funcs {
			top := fn
			for top.Parent() != nil {
				top = top.Parent()
			}
			if top.Signature.Recv() == nil || !types.Identical(top.Signature.Recv().Type(), getT) && !types.Identical(top.Signature.Recv().Type(), types.NewPointer(getT)) {
				continue
			}
			nM++
			var direct []string
			for _, call := range Calls(fn) {
				if IsCallTo(call, "(*net/url.URL).Query") {
					direct = append(direct, p.Pos(call.Pos()))
				}
			}
			if len(direct) > 0 || fn.Parent() == nil && len(Calls(fn)) > 0 {
				c.Check(len(direct) == 0, "C19.4", FuncName(fn), "query-through-accessor", fn.Pos(),
					"the GET protocol handler does not parse the URL's query itself",
					"the GET protocol handler parses the request URL's query directly ("+joinStr(direct)+") instead of going through the operation's accessor: the parse is not kept, and a decode that happens after the URL was rewritten for the backend sees an empty query")
			}
		}
		if nM == 0 {
			c.Bad("C19.4", "connectUnaryGetClientProtocol", "query-through-accessor", token.NoPos, "the GET client protocol has no methods: shape changed")
		}
	}
	// the kept cell is written only by the accessor and at construction from the classifier's parse
	for _, fn := range p.Funcs {
		for _, w := range FieldWrites(fn) {
			if w.Field != qvF || w.Fresh {
				continue
			}
			okW := true
			for _, l := range Origins(w.Store.Val) {
				switch {
				case l.Kind == "call" && IsCallTo(l.Call, "(*net/url.URL).Query"):
				case l.Kind == "call" && l.Call.Common().StaticCallee() != nil && N(l.Call.Common().StaticCallee()) == "classifyRequest":
				case l.Kind == "param" || l.Kind == "nil" || (l.Kind == "load" && l.Field == qvF):
				default:
					okW = false
				}
			}
			c.Check(okW, "C19.4", FuncName(fn), "kept-query-source", w.Store.Pos(),
				"the kept query is a parse of the request's own query", "the kept query values are stored from something other than a parse of the request's query")
		}
	}
}

func boolStr(b bool) string {
	if b {
		return "yes"
	}
	return "no"
}

// PathOfHasSide: the access path of v contains ".client." / ".server.".
func PathOfHasSide(v ssa.Value, side string) bool {
	pth := PathOf(v)
	return len(pth) > 0 && (containsSeg(pth, side))
}

func containsSeg(path, seg string) bool {
	for i := 0; i+len(seg)+2 <= len(path); i++ {
		if path[i] == '.' && path[i+1:i+1+len(seg)] == seg && path[i+1+len(seg)] == '.' {
			return true
		}
	}
	return false
}

// urlLengthShape: the value is len(a)+len(b)+1 (in any association), or len of a
// concatenation that contains the "?" separator.
func urlLengthShape(v ssa.Value) bool {
	nLen, nOne, other := 0, 0, 0
	for _, l := range Origins(v) {
		for _, op := range l.Ops {
			if op != token.ADD {
				other++
			}
		}
		switch {
		case l.Kind == "call" && CalleeName(l.Call) == "builtin len":
			nLen++
			// len(path + "?" + query)
			for _, la := range Origins(l.Call.Common().Args[0]) {
				if s, ok := ConstString(la.V); ok && la.Kind == "const" && s == "?" {
					nOne++
				}
			}
		case l.Kind == "const":
			if k, ok := ConstInt(l.V); ok && k == 1 {
				nOne++
			} else {
				other++
			}
		default:
			other++
		}
	}
	return other == 0 && nOne == 1 && nLen >= 1
}

package vg

import (
	"fmt"
	"go/constant"
	"go/token"
	"go/types"

	"golang.org/x/tools/go/ssa"
)

// Table extraction by constant folding (analysis A6).
//
// Small pure functions of the repository are tables in disguise: a predicate
// over one byte (which bytes are escaped, which envelope flag bytes are
// accepted), a switch from one integer to another (HTTP status -> RPC code),
// an encoder from two booleans to a flag byte.  Their domain is finite, so the
// table they denote can be derived from their SSA form by folding the function
// body for each constant argument.  Folder does exactly that and nothing more:
// it understands integer/boolean arithmetic, comparisons, branches, phis,
// local aggregates (struct/array allocs addressed by constant index or field),
// calls to other module functions (folded recursively) and treats every other
// call as an opaque, side-effect-free value.  Anything else makes the fold
// fail, and the rule that asked for the table reports "undecided".

type fkind int

const (
	fInt fkind = iota
	fBool
	fNil
	fNonNil // opaque non-nil (e.g. a constructed error)
	fOpaque // unknown value
	fStruct
	fArray
	fPtr // pointer to a cell
	fStr
)

type fval struct {
	k      fkind
	i      int64
	b      bool
	s      string
	fields map[int]*fval // struct fields / array elements
	cell   *fval         // for fPtr
	typ    types.Type
}

func (v *fval) String() string {
	switch v.k {
	case fInt:
		return fmt.Sprint(v.i)
	case fBool:
		return fmt.Sprint(v.b)
	case fNil:
		return "nil"
	case fNonNil:
		return "non-nil"
	case fStr:
		return fmt.Sprintf("%q", v.s)
	case fStruct, fArray:
		return fmt.Sprint(v.fields)
	}
	return "?"
}

type foldErr struct{ msg string }

func (e foldErr) Error() string { return e.msg }

type folder struct {
	p     *Prog
	steps int
}

func opaque(t types.Type) *fval { return &fval{k: fOpaque, typ: t} }

func zeroOf(t types.Type) *fval {
	switch u := t.Underlying().(type) {
	case *types.Basic:
		switch {
		case u.Info()&types.IsBoolean != 0:
			return &fval{k: fBool, typ: t}
		case u.Info()&types.IsInteger != 0:
			return &fval{k: fInt, typ: t}
		case u.Info()&types.IsString != 0:
			return &fval{k: fStr, typ: t}
		}
		return opaque(t)
	case *types.Struct:
		v := &fval{k: fStruct, typ: t, fields: map[int]*fval{}}
		for i := 0; i < u.NumFields(); i++ {
			v.fields[i] = zeroOf(u.Field(i).Type())
		}
		return v
	case *types.Array:
		v := &fval{k: fArray, typ: t, fields: map[int]*fval{}}
		for i := 0; i < int(u.Len()); i++ {
			v.fields[i] = zeroOf(u.Elem())
		}
		return v
	case *types.Pointer, *types.Interface, *types.Slice, *types.Map, *types.Signature, *types.Chan:
		return &fval{k: fNil, typ: t}
	}
	return opaque(t)
}

func copyVal(v *fval) *fval {
	if v == nil {
		return nil
	}
	c := *v
	if v.fields != nil {
		c.fields = map[int]*fval{}
		for k, f := range v.fields {
			c.fields[k] = copyVal(f)
		}
	}
	return &c
}

func truncInt(i int64, t types.Type) int64 {
	b, ok := t.Underlying().(*types.Basic)
	if !ok {
		return i
	}
	switch b.Kind() {
	case types.Uint8:
		return int64(uint8(i))
	case types.Int8:
		return int64(int8(i))
	case types.Uint16:
		return int64(uint16(i))
	case types.Int16:
		return int64(int16(i))
	case types.Uint32:
		return int64(uint32(i))
	case types.Int32:
		return int64(int32(i))
	}
	return i
}

// Fold evaluates fn on the given arguments.
func (p *Prog) Fold(fn *ssa.Function, args ...*fval) (res []*fval, err error) {
	f := &folder{p: p}
	defer func() {
		if r := recover(); r != nil {
			if fe, ok := r.(foldErr); ok {
				res, err = nil, fe
				return
			}
			panic(r)
		}
	}()
	return f.call(fn, args, 0), nil
}

func (f *folder) fail(format string, a ...any) {
	panic(foldErr{fmt.Sprintf(format, a...)})
}

func (f *folder) call(fn *ssa.Function, args []*fval, depth int) []*fval {
	if depth > 8 {
		f.fail("fold: call depth exceeded in %s", N(fn))
	}
	if len(fn.Blocks) == 0 {
		f.fail("fold: %s has no body", N(fn))
	}
	env := map[ssa.Value]*fval{}
	for i, prm := range fn.Params {
		if i < len(args) {
			env[prm] = args[i]
		} else {
			env[prm] = opaque(prm.Type())
		}
	}
	var prev *ssa.BasicBlock
	b := fn.Blocks[0]
	for {
		var next *ssa.BasicBlock
		for _, in := range b.Instrs {
			f.steps++
			if f.steps > 200000 {
				f.fail("fold: step limit exceeded in %s", N(fn))
			}
			switch x := in.(type) {
			case *ssa.Phi:
				for i, pred := range b.Preds {
					if pred == prev {
						env[x] = f.val(env, x.Edges[i])
					}
				}
			case *ssa.DebugRef:
			case *ssa.Alloc:
				env[x] = &fval{k: fPtr, cell: zeroOf(x.Type().Underlying().(*types.Pointer).Elem()), typ: x.Type()}
			case *ssa.Store:
				addr := f.val(env, x.Addr)
				if addr.k != fPtr {
					// store through an unknown pointer: the function is not pure enough
					f.fail("fold: store through non-local address in %s", N(fn))
				}
				*addr.cell = *copyVal(f.val(env, x.Val))
			case *ssa.FieldAddr:
				base := f.val(env, x.X)
				if base.k != fPtr || base.cell.k != fStruct {
					env[x] = opaque(x.Type())
				} else {
					env[x] = &fval{k: fPtr, cell: base.cell.fields[x.Field], typ: x.Type()}
				}
			case *ssa.IndexAddr:
				base := f.val(env, x.X)
				idx := f.val(env, x.Index)
				if base.k == fPtr && base.cell.k == fArray && idx.k == fInt {
					el, ok := base.cell.fields[int(idx.i)]
					if !ok {
						f.fail("fold: index %d out of range in %s", idx.i, N(fn))
					}
					env[x] = &fval{k: fPtr, cell: el, typ: x.Type()}
				} else {
					env[x] = opaque(x.Type())
				}
			case *ssa.Field:
				base := f.val(env, x.X)
				if base.k == fStruct {
					env[x] = base.fields[x.Field]
				} else {
					env[x] = opaque(x.Type())
				}
			case *ssa.Index:
				base := f.val(env, x.X)
				idx := f.val(env, x.Index)
				switch {
				case base.k == fArray && idx.k == fInt:
					env[x] = base.fields[int(idx.i)]
				case base.k == fStr && idx.k == fInt && idx.i >= 0 && int(idx.i) < len(base.s):
					env[x] = &fval{k: fInt, i: int64(base.s[idx.i]), typ: x.Type()}
				default:
					env[x] = opaque(x.Type())
				}
			case *ssa.UnOp:
				env[x] = f.unop(env, x)
			case *ssa.BinOp:
				env[x] = f.binop(x.Op, f.val(env, x.X), f.val(env, x.Y), x.Type())
			case *ssa.Convert:
				v := f.val(env, x.X)
				if v.k == fInt && isIntegerLike(x.Type()) {
					env[x] = &fval{k: fInt, i: truncInt(v.i, x.Type()), typ: x.Type()}
				} else if v.k == fInt && isStringType(x.Type()) {
					env[x] = &fval{k: fStr, s: string(rune(v.i)), typ: x.Type()}
				} else {
					env[x] = opaque(x.Type())
				}
			case *ssa.ChangeType:
				env[x] = f.val(env, x.X)
			case *ssa.MakeInterface:
				v := f.val(env, x.X)
				if v.k == fNil {
					env[x] = &fval{k: fNonNil, typ: x.Type()} // typed nil in interface is non-nil
				} else {
					env[x] = &fval{k: fNonNil, typ: x.Type()}
				}
			case *ssa.Slice:
				env[x] = opaque(x.Type())
			case *ssa.Extract:
				t := f.val(env, x.Tuple)
				if t.k == fStruct && t.fields[x.Index] != nil {
					env[x] = t.fields[x.Index]
				} else {
					env[x] = opaque(x.Type())
				}
			case *ssa.Call:
				env[x] = f.doCall(env, x, depth)
			case *ssa.MakeClosure, *ssa.MakeSlice, *ssa.MakeMap:
				env[x.(ssa.Value)] = &fval{k: fNonNil, typ: x.(ssa.Value).Type()}
			case *ssa.Lookup, *ssa.TypeAssert, *ssa.Range, *ssa.Next:
				env[x.(ssa.Value)] = opaque(x.(ssa.Value).Type())
			case *ssa.If:
				c := f.val(env, x.Cond)
				if c.k != fBool {
					f.fail("fold: branch on a non-constant condition in %s at %s", N(fn), f.p.Pos(instrPos(x)))
				}
				if c.b {
					next = b.Succs[0]
				} else {
					next = b.Succs[1]
				}
			case *ssa.Jump:
				next = b.Succs[0]
			case *ssa.Return:
				var out []*fval
				for _, r := range x.Results {
					out = append(out, copyVal(f.val(env, r)))
				}
				return out
			case *ssa.Panic:
				f.fail("fold: panic reached in %s", N(fn))
			case *ssa.RunDefers, *ssa.Defer:
				f.fail("fold: defer in %s", N(fn))
			default:
				f.fail("fold: unsupported instruction %T in %s", in, N(fn))
			}
		}
		if next == nil {
			f.fail("fold: fell off block in %s", N(fn))
		}
		prev, b = b, next
	}
}

func isStringType(t types.Type) bool {
	b, ok := t.Underlying().(*types.Basic)
	return ok && b.Info()&types.IsString != 0
}

func (f *folder) val(env map[ssa.Value]*fval, v ssa.Value) *fval {
	if c, ok := v.(*ssa.Const); ok {
		if c.Value == nil {
			return zeroOf(c.Type())
		}
		switch c.Value.Kind() {
		case constant.Bool:
			return &fval{k: fBool, b: constant.BoolVal(c.Value), typ: c.Type()}
		case constant.Int:
			i, _ := constant.Int64Val(c.Value)
			return &fval{k: fInt, i: i, typ: c.Type()}
		case constant.String:
			return &fval{k: fStr, s: constant.StringVal(c.Value), typ: c.Type()}
		}
		return opaque(c.Type())
	}
	if r, ok := env[v]; ok && r != nil {
		return r
	}
	switch v.(type) {
	case *ssa.Global, *ssa.Function, *ssa.FreeVar, *ssa.Builtin:
		return opaque(v.Type())
	}
	return opaque(v.Type())
}

func (f *folder) unop(env map[ssa.Value]*fval, x *ssa.UnOp) *fval {
	v := f.val(env, x.X)
	switch x.Op {
	case token.MUL:
		if v.k == fPtr {
			return copyVal(v.cell)
		}
		return opaque(x.Type())
	case token.NOT:
		if v.k == fBool {
			return &fval{k: fBool, b: !v.b, typ: x.Type()}
		}
	case token.SUB:
		if v.k == fInt {
			return &fval{k: fInt, i: truncInt(-v.i, x.Type()), typ: x.Type()}
		}
	case token.XOR:
		if v.k == fInt {
			return &fval{k: fInt, i: truncInt(^v.i, x.Type()), typ: x.Type()}
		}
	}
	return opaque(x.Type())
}

func (f *folder) binop(op token.Token, a, b *fval, t types.Type) *fval {
	// nil comparisons
	if op == token.EQL || op == token.NEQ {
		isNilish := func(v *fval) (known, isNil bool) {
			switch v.k {
			case fNil:
				return true, true
			case fNonNil:
				return true, false
			}
			return false, false
		}
		ka, na := isNilish(a)
		kb, nb := isNilish(b)
		if ka && kb && (na || nb) {
			eq := na == nb
			if op == token.NEQ {
				eq = !eq
			}
			return &fval{k: fBool, b: eq, typ: t}
		}
		if a.k == fBool && b.k == fBool {
			eq := a.b == b.b
			if op == token.NEQ {
				eq = !eq
			}
			return &fval{k: fBool, b: eq, typ: t}
		}
		if a.k == fStr && b.k == fStr {
			eq := a.s == b.s
			if op == token.NEQ {
				eq = !eq
			}
			return &fval{k: fBool, b: eq, typ: t}
		}
	}
	if a.k != fInt || b.k != fInt {
		return opaque(t)
	}
	x, y := a.i, b.i
	bo := func(v bool) *fval { return &fval{k: fBool, b: v, typ: t} }
	in := func(v int64) *fval { return &fval{k: fInt, i: truncInt(v, t), typ: t} }
	switch op {
	case token.EQL:
		return bo(x == y)
	case token.NEQ:
		return bo(x != y)
	case token.LSS:
		return bo(x < y)
	case token.LEQ:
		return bo(x <= y)
	case token.GTR:
		return bo(x > y)
	case token.GEQ:
		return bo(x >= y)
	case token.ADD:
		return in(x + y)
	case token.SUB:
		return in(x - y)
	case token.MUL:
		return in(x * y)
	case token.QUO:
		if y == 0 {
			f.fail("fold: division by zero")
		}
		return in(x / y)
	case token.REM:
		if y == 0 {
			f.fail("fold: division by zero")
		}
		return in(x % y)
	case token.AND:
		return in(x & y)
	case token.OR:
		return in(x | y)
	case token.XOR:
		return in(x ^ y)
	case token.AND_NOT:
		return in(x &^ y)
	case token.SHL:
		if y < 0 || y > 63 {
			return opaque(t)
		}
		return in(x << uint(y))
	case token.SHR:
		if y < 0 || y > 63 {
			return opaque(t)
		}
		return in(x >> uint(y))
	}
	return opaque(t)
}

func (f *folder) doCall(env map[ssa.Value]*fval, x *ssa.Call, depth int) *fval {
	cc := x.Common()
	if b, ok := cc.Value.(*ssa.Builtin); ok {
		if N(b) == "len" && len(cc.Args) == 1 {
			v := f.val(env, cc.Args[0])
			if v.k == fStr {
				return &fval{k: fInt, i: int64(len(v.s)), typ: x.Type()}
			}
			if v.k == fArray {
				return &fval{k: fInt, i: int64(len(v.fields)), typ: x.Type()}
			}
		}
		return opaque(x.Type())
	}
	if sc := cc.StaticCallee(); sc != nil {
		sc = f.p.unwrap(sc)
		if f.p.inModule(sc) && f.p.inScope(sc) {
			var args []*fval
			for _, a := range cc.Args {
				args = append(args, copyVal(f.val(env, a)))
			}
			res := f.call(sc, args, depth+1)
			if len(res) == 1 {
				return res[0]
			}
			tup := &fval{k: fStruct, fields: map[int]*fval{}, typ: x.Type()}
			for i, r := range res {
				tup.fields[i] = r
			}
			return tup
		}
		// library constructors of errors produce non-nil values
		switch QualFuncName(sc) {
		case "fmt.Errorf", "errors.New":
			return &fval{k: fNonNil, typ: x.Type()}
		}
	}
	// any other call: opaque result(s); error-typed single results of unknown calls stay opaque
	if tup, ok := x.Type().(*types.Tuple); ok {
		t := &fval{k: fStruct, fields: map[int]*fval{}, typ: x.Type()}
		for i := 0; i < tup.Len(); i++ {
			t.fields[i] = opaque(tup.At(i).Type())
		}
		return t
	}
	return opaque(x.Type())
}

// helpers for building arguments

func fInt64(i int64, t types.Type) *fval { return &fval{k: fInt, i: i, typ: t} }
func fBoolV(b bool) *fval                { return &fval{k: fBool, b: b} }

// fArrayWithByte0 builds a [n]byte array value whose element 0 is the constant
// and whose other elements are opaque.
func fArrayWithByte0(t types.Type, b0 int64) *fval {
	arr := t.Underlying().(*types.Array)
	v := &fval{k: fArray, typ: t, fields: map[int]*fval{}}
	for i := 0; i < int(arr.Len()); i++ {
		v.fields[i] = opaque(arr.Elem())
	}
	v.fields[0] = &fval{k: fInt, i: b0, typ: arr.Elem()}
	return v
}

package vg

import (
	"go/token"
	"go/types"
	"net/textproto"
	"sort"
	"strings"

	"golang.org/x/tools/go/ssa"
)

// Content-type tables (published wire formats) shared by C02.8 and C03.10.

// contentTypeClass: protocol constant + whether the handler type is enveloped.
func contentTypeClass(p *Prog, t types.Type) string {
	pc := protocolConstOf(p, t)
	eph := p.Iface("envelopedProtocolHandler")
	env := eph != nil && (types.Implements(t, eph) || types.Implements(types.NewPointer(t), eph))
	if pc == "ProtocolConnect" {
		if env {
			return "connect-stream"
		}
		return "connect-unary"
	}
	return pc
}

var specContentTypePrefix = map[string]string{
	"ProtocolGRPC":    "application/grpc+",
	"ProtocolGRPCWeb": "application/grpc-web+",
	"connect-stream":  "application/connect+",
	"connect-unary":   "application/",
	"ProtocolREST":    "application/",
}

var specClassifyConstants = map[string][]string{
	// "=" exact comparison, "^" prefix test
	"ProtocolGRPC":    {"=application/grpc", "^application/grpc+"},
	"ProtocolGRPCWeb": {"=application/grpc-web", "^application/grpc-web+"},
	"connect-stream":  {"^application/connect+"},
	"connect-unary":   {"^application/"},
	"ProtocolREST":    {"^application/"},
}

// contentTypePrefixesWritten returns the constant prefixes of the Content-Type
// values written by functions reachable from root: value = prefix + meta.codec.
func contentTypePrefixesWritten(p *Prog, root *ssa.Function, codecFld *types.Var) ([]string, bool) {
	set := map[string]bool{}
	okShape := true
	var scope []*ssa.Function
	for _, fn := range SortedFuncs(p.Reach(root)) {
		if p.inScope(fn) {
			scope = append(scope, fn)
		}
	}
	for _, fn := range scope {
		for _, hm := range HeaderMutations(fn) {
			if hm.Key == nil || hm.Val == nil {
				continue
			}
			k, isK := ConstString(hm.Key)
			if !isK || textproto.CanonicalMIMEHeaderKey(k) != "Content-Type" {
				continue
			}
			vals := append([]ssa.Value{hm.Val}, sliceLiteralElems(hm.Val)...)
			for _, v := range vals {
				if _, isSlice := v.(*ssa.Slice); isSlice {
					continue
				}
				consts, fromCodec := concatParts(v, codecFld, scope)
				if fromCodec {
					for _, s := range consts {
						set[s] = true
					}
				} else if len(consts) == 1 && consts[0] == "application/json" {
					// error bodies of the unary forms are always JSON: not a codec-derived content type
				} else if len(consts) == 0 {
					// value taken from a message (HttpBody content type): not a protocol prefix
				} else {
					okShape = false
				}
			}
		}
	}
	var out []string
	for s := range set {
		out = append(out, s)
	}
	sort.Strings(out)
	return out, okShape
}

// concatParts splits a string value built as const + x (+ ...) into its constant parts and
// reports whether a non-constant part is the codec field of the meta value.
func concatParts(v ssa.Value, codecFld *types.Var, scope []*ssa.Function) (consts []string, fromCodec bool) {
	var walk func(v ssa.Value, depth int)
	walk = func(v ssa.Value, depth int) {
		if depth > 8 {
			return
		}
		switch x := v.(type) {
		case *ssa.Const:
			if s, ok := ConstString(x); ok {
				consts = append(consts, s)
			}
		case *ssa.BinOp:
			if x.Op == token.ADD {
				walk(x.X, depth+1)
				walk(x.Y, depth+1)
			}
		case *ssa.Field:
			if FieldOfVal(x) == codecFld {
				fromCodec = true
			}
		case *ssa.UnOp:
			if x.Op == token.MUL {
				if fa, ok := x.X.(*ssa.FieldAddr); ok && FieldOfAddr(fa) == codecFld {
					fromCodec = true
				}
			}
		case *ssa.Phi:
			for _, e := range x.Edges {
				walk(e, depth+1)
			}
		case *ssa.Parameter:
			// a prefix handed down by the callers within the analysed scope
			idx := -1
			for i, pp := range x.Parent().Params {
				if pp == x {
					idx = i
				}
			}
			for _, caller := range scope {
				ForEachInstr(caller, func(in ssa.Instruction) {
					ci, ok := in.(ssa.CallInstruction)
					if !ok || ci.Common().StaticCallee() != x.Parent() || idx < 0 || idx >= len(ci.Common().Args) {
						return
					}
					walk(ci.Common().Args[idx], depth+1)
				})
			}
		}
	}
	walk(v, 0)
	return
}

// checkContentTypeTables emits, under the rule id, one obligation per handler of the interface.
func checkContentTypeTables(c *Ctx, rule, ifaceName, method, metaType string) {
	p := c.P
	iface := p.Iface(ifaceName)
	if iface == nil {
		fatalf("anchor=%s not found", ifaceName)
	}
	codecFld := p.MustField(metaType, "codec")
	for _, t := range p.Implementers(iface) {
		m := p.MethodOf(t, method)
		if m == nil {
			fatalf("anchor=%s.%s not found", typeName(t), method)
		}
		class := contentTypeClass(p, t)
		want := specContentTypePrefix[class]
		got, okShape := contentTypePrefixesWritten(p, m, codecFld)
		ok := okShape && len(got) == 1 && got[0] == want
		c.Check(ok, rule, typeName(t), "content-type-prefix", m.Pos(),
			"writes Content-Type = \""+want+"\" + codec name, the "+class+" wire format",
			"the Content-Type written for "+class+" is not \""+want+"\" + codec (found prefixes: "+joinStr(got)+"): the peer classifies the message as another protocol or rejects it")
	}
}

// checkClassification: every handler type returned by the request classifier is returned
// under a content-type test whose constant belongs to that protocol.
func checkClassification(c *Ctx, rule string) {
	p := c.P
	fn := p.MustFunc("classifyRequest")
	paths, ok := EnumPaths(fn.Blocks[0], nil, IsReturn, 0)
	if !ok {
		c.Unknown(rule, FuncName(fn), "paths", fn.Pos(), "too many paths")
		return
	}
	type agg struct {
		bad []string
		n   int
		pos token.Pos
	}
	byType := map[string]*agg{}
	for _, cp := range paths {
		ret := cp.End.(*ssa.Return)
		var t types.Type
		if mi, ok := ret.Results[0].(*ssa.MakeInterface); ok {
			t = mi.X.Type()
		} else if mi, ok := cp.Deref(ret.Results[0]).(*ssa.MakeInterface); ok {
			t = mi.X.Type()
		}
		if t == nil {
			continue // nil handler: not a classification
		}
		class := contentTypeClass(p, t)
		if class == "" {
			continue
		}
		a := byType[typeName(t)]
		if a == nil {
			a = &agg{pos: ret.Pos()}
			byType[typeName(t)] = a
		}
		// string constants of content-type tests that are TRUE on this path
		var trues, falsePrefixes []string
		for cond, truth := range cp.Truth {
			if !truth {
				if x, ok := cond.(*ssa.Call); ok && IsCallTo(x, "strings.HasPrefix") {
					if s, ok := ConstString(x.Call.Args[1]); ok {
						falsePrefixes = append(falsePrefixes, s)
					}
				}
				continue
			}
			switch x := cond.(type) {
			case *ssa.Call:
				if IsCallTo(x, "strings.HasPrefix") {
					if s, ok := ConstString(x.Call.Args[1]); ok {
						trues = append(trues, "^"+s)
					}
				}
			case *ssa.BinOp:
				if x.Op == token.EQL && isStringType(x.X.Type()) {
					if s, ok := ConstString(x.Y); ok && strings.HasPrefix(s, "application") {
						trues = append(trues, "="+s)
					}
				}
			}
		}
		infeasible := false
		for _, s := range trues {
			for _, f := range falsePrefixes {
				if strings.HasPrefix(s[1:], f) {
					infeasible = true // an earlier, wider prefix test already failed: shadowed
				}
			}
		}
		if infeasible {
			continue
		}
		a.n++
		allowed := specClassifyConstants[class]
		okPath := true
		if len(trues) == 0 {
			// no content-type: only the un-enveloped forms may be chosen
			okPath = class == "connect-unary" || class == "ProtocolREST"
		}
		for _, s := range trues {
			in := false
			for _, al := range allowed {
				if s == al {
					in = true
				}
			}
			if !in {
				okPath = false
			}
		}
		if !okPath {
			sort.Strings(trues)
			a.bad = append(a.bad, strings.Join(trues, "+"))
		}
	}
	var names []string
	for n := range byType {
		names = append(names, n)
	}
	sort.Strings(names)
	for _, n := range names {
		a := byType[n]
		if a.n == 0 {
			c.Bad(rule, FuncName(fn), "classified-as:"+n, a.pos, "every path returning "+n+" is shadowed by an earlier, wider content-type prefix test: that protocol can never be selected")
			continue
		}
		c.Check(len(a.bad) == 0, rule, FuncName(fn), "classified-as:"+n, a.pos,
			"returned only under content-type tests whose constants belong to that protocol ("+itoa(a.n)+" paths)",
			"the classifier returns "+n+" under content-type tests "+joinStr(uniq(a.bad))+" that do not belong to that protocol: requests are handled as the wrong wire form")
	}
	if len(names) < 5 {
		c.Bad(rule, FuncName(fn), "classified-types", fn.Pos(), "the classifier returns fewer than five client protocol forms: shape changed")
	}
}

package vg

import (
	"go/token"
	"go/types"
	"net/textproto"
	"sort"
	"strings"

	"golang.org/x/tools/go/ssa"
)

// Content-type tables (published wire formats) shared by C02.8 and C03.10.

// contentTypeClass: protocol constant + whether the handler type is enveloped.
func contentTypeClass(p *Prog, t types.Type) string {
	pc := protocolConstOf(p, t)
	eph := p.Iface("envelopedProtocolHandler")
	env := eph != nil && (types.Implements(t, eph) || types.Implements(types.NewPointer(t), eph))
	if pc == "ProtocolConnect" {
		if env {
			return "connect-stream"
		}
		return "connect-unary"
	}
	return pc
}

var specContentTypePrefix = map[string]string{
	"ProtocolGRPC":    "application/grpc+",
	"ProtocolGRPCWeb": "application/grpc-web+",
	"connect-stream":  "application/connect+",
	"connect-unary":   "application/",
	"ProtocolREST":    "application/",
}

var specClassifyConstants = map[string][]string{
	// "=" exact comparison, "^" prefix test
	"ProtocolGRPC":    {"=application/grpc", "^application/grpc+"},
	"ProtocolGRPCWeb": {"=application/grpc-web", "^application/grpc-web+"},
	"connect-stream":  {"^application/connect+"},
	"connect-unary":   {"^application/"},
	"ProtocolREST":    {"^application/"},
}

// contentTypePrefixesWritten returns the constant prefixes of the Content-Type
// values written by functions reachable from root: value = prefix + meta.codec.
func contentTypePrefixesWritten(p *Prog, root *ssa.Function, codecFld *types.Var) ([]string, bool) {
	set := map[string]bool{}
	okShape := true
	var scope []*ssa.Function
	for _, fn := range SortedFuncs(p.Reach(root)) {
		if p.inScope(fn) {
			scope = append(scope, fn)
		}
	}
	for _, fn := range scope {
		for _, hm := range HeaderMutations(fn) {
			if hm.Key == nil || hm.Val == nil {
				continue
			}
			k, isK := ConstString(hm.Key)
			if !isK || textproto.CanonicalMIMEHeaderKey(k) != "Content-Type" {
				continue
			}
			vals := append([]ssa.Value{hm.Val}, sliceLiteralElems(hm.Val)...)
			for _, v := range vals {
				if _, isSlice := v.(*ssa.Slice); isSlice {
					continue
				}
				consts, fromCodec := concatParts(v, codecFld, scope)
				if fromCodec {
					for _, s := range consts {
						set[s] = true
					}
				} else if len(consts) == 1 && consts[0] == "application/json" {
					// error bodies of the unary forms are always JSON: not a codec-derived content type
				} else if len(consts) == 0 {
					// value taken from a message (HttpBody content type): not a protocol prefix
				} else {
					okShape = false
				}
			}
		}
	}
	var out []string
	for s := range set {
		out = append(out, s)
	}
	sort.Strings(out)
	return out, okShape
}

// concatParts splits a string value built as const + x (+ ...) into its constant parts and
// reports whether a non-constant part is the codec field of the meta value.
func concatParts(v ssa.Value, codecFld *types.Var, scope []*ssa.Function) (consts []string, fromCodec bool) {
	var walk func(v ssa.Value, depth int)
	walk = func(v ssa.Value, depth int) {
		if depth > 8 {
			return
		}
		switch x := v.(type) {
		case *ssa.Const:
			if s, ok := ConstString(x); ok {
				consts = append(consts, s)
			}
		case *ssa.BinOp:
			if x.Op == token.ADD {
				walk(x.X, depth+1)
				walk(x.Y, depth+1)
			}
		case *ssa.Field:
			if FieldOfVal(x) == codecFld {
				fromCodec = true
			}
		case *ssa.UnOp:
			if x.Op == token.MUL {
				if fa, ok := x.X.(*ssa.FieldAddr); ok && FieldOfAddr(fa) == codecFld {
					fromCodec = true
				}
			}
		case *ssa.Phi:
			for _, e := range x.Edges {
				walk(e, depth+1)
			}
		case *ssa.Parameter:
			// a prefix handed down by the callers within the analysed scope
			idx := -1
			for i, pp := range x.Parent().Params {
				if pp == x {
					idx = i
				}
			}
			for _, caller := range scope {
				ForEachInstr(caller, func(in ssa.Instruction) {
					ci, ok := in.(ssa.CallInstruction)
					if !ok || ci.Common().StaticCallee() != x.Parent() || idx < 0 || idx >= len(ci.Common().Args) {
						return
					}
					walk(ci.Common().Args[idx], depth+1)
				})
			}
		}
	}
	walk(v, 0)
	return
}

// checkContentTypeTables emits, under the rule id, one obligation per handler of the interface.
func checkContentTypeTables(c *Ctx, rule, ifaceName, method, metaType string) {
	p := c.P
	iface := p.Iface(ifaceName)
	if iface == nil {
		fatalf("anchor=%s not found", ifaceName)
	}
	codecFld := p.MustField(metaType, "codec")
	for _, t := range p.Implementers(iface) {
		m := p.MethodOf(t, method)
		if m == nil {
			fatalf("anchor=%s.%s not found", typeName(t), method)
		}
		class := contentTypeClass(p, t)
		want := specContentTypePrefix[class]
		got, okShape := contentTypePrefixesWritten(p, m, codecFld)
		ok := okShape && len(got) == 1 && got[0] == want
		c.Check(ok, rule, typeName(t), "content-type-prefix", m.Pos(),
			"writes Content-Type = \""+want+"\" + codec name, the "+class+" wire format",
			"the Content-Type written for "+class+" is not \""+want+"\" + codec (found prefixes: "+joinStr(got)+"): the peer classifies the message as another protocol or rejects it")
	}
}

// checkClassification: every handler type returned by the request classifier is returned
// under a content-type test whose constant belongs to that protocol.
func checkClassification(c *Ctx, rule string) {
	p := c.P
	fn := p.MustFunc("classifyRequest")
	paths, ok := EnumPaths(fn.Blocks[0], nil, IsReturn, 0)
	if !ok {
		c.Unknown(rule, FuncName(fn), "paths", fn.Pos(), "too many paths")
		return
	}
	type agg struct {
		bad []string
		n   int
		pos token.Pos
	}
	byType := map[string]*agg{}
	for _, cp := range paths {
		ret := cp.End.(*ssa.Return)
		var t types.Type
		if mi, ok := ret.Results[0].(*ssa.MakeInterface); ok {
			t = mi.X.Type()
		} else if mi, ok := cp.Deref(ret.Results[0]).(*ssa.MakeInterface); ok {
			t = mi.X.Type()
		}
		if t == nil {
			continue // nil handler: not a classification
		}
		class := contentTypeClass(p, t)
		if class == "" {
			continue
		}
		a := byType[typeName(t)]
		if a == nil {
			a = &agg{pos: ret.Pos()}
			byType[typeName(t)] = a
		}
		// string constants of content-type tests that are TRUE on this path
		var trues, falsePrefixes []string
		for cond, truth := range cp.Truth {
			if !truth {
				if x, ok := cond.(*ssa.Call); ok && IsCallTo(x, "strings.HasPrefix") {
					if s, ok := ConstString(x.Call.Args[1]); ok {
						falsePrefixes = append(falsePrefixes, s)
					}
				}
				continue
			}
			switch x := cond.(type) {
			case *ssa.Call:
				if IsCallTo(x, "strings.HasPrefix") {
					if s, ok := ConstString(x.Call.Args[1]); ok {
						trues = append(trues, "^"+s)
					}
				}
			case *ssa.BinOp:
				if x.Op == token.EQL && isStringType(x.X.Type()) {
					if s, ok := ConstString(x.Y); ok && strings.HasPrefix(s, "application") {
						trues = append(trues, "="+s)
					}
				}
			}
		}
		infeasible := false
		for _, s := range trues {
			for _, f := range falsePrefixes {
				if strings.HasPrefix(s[1:], f) {
					infeasible = true // an earlier, wider prefix test already failed: shadowed
				}
			}
		}
		if infeasible {
			continue
		}
		a.n++
		allowed := specClassifyConstants[class]
		okPath := true
		if len(trues) == 0 {
			// no content-type: only the un-enveloped forms may be chosen
			okPath = class == "connect-unary" || class == "ProtocolREST"
		}
		for _, s := range trues {
			in := false
			for _, al := range allowed {
				if s == al {
					in = true
				}
			}
			if !in {
				okPath = false
			}
		}
		if !okPath {
			sort.Strings(trues)
			a.bad = append(a.bad, strings.Join(trues, "+"))
		}
	}
	var names []string
	for n := range byType {
		names = append(names, n)
	}
	sort.Strings(names)
	for _, n := range names {
		a := byType[n]
		if a.n == 0 {
			c.Bad(rule, FuncName(fn), "classified-as:"+n, a.pos, "every path returning "+n+" is shadowed by an earlier, wider content-type prefix test: that protocol can never be selected")
			continue
		}
		c.Check(len(a.bad) == 0, rule, FuncName(fn), "classified-as:"+n, a.pos,
			"returned only under content-type tests whose constants belong to that protocol ("+itoa(a.n)+" paths)",
			"the classifier returns "+n+" under content-type tests "+joinStr(uniq(a.bad))+" that do not belong to that protocol: requests are handled as the wrong wire form")
	}
	if len(names) < 5 {
		c.Bad(rule, FuncName(fn), "classified-types", fn.Pos(), "the classifier returns fewer than five client protocol forms: shape changed")
	}
}

// checkDirectionCells: the adapters of one direction read only that direction's negotiated
// compression cells.  Request-side adapters (types with a Read method wrapping the request body)
// must not consult respCompression, response-side adapters (the response writer and the writers
// behind it) must not consult reqCompression: an envelope flag or a (de)compression decided from
// the other direction's cell disagrees with the bytes whenever the two directions use different
// compressions.
func checkDirectionCells(c *Ctx, rule string, responseSide bool) {
	p := c.P
	var typeNames []string
	wrong := "respCompression"
	if responseSide {
		typeNames = []string{"responseWriter", "envelopingWriter", "transformingWriter", "errorWriter", "limitWriter"}
		wrong = "reqCompression"
	} else {
		typeNames = []string{"envelopingReader", "transformingReader", "hardLimitReader"}
	}
	wrongFields := map[*types.Var]bool{}
	for _, owner := range []string{"clientProtocolDetails", "serverProtocolDetails"} {
		if f := p.Field(owner, wrong); f != nil {
			wrongFields[f] = true
		}
	}
	if len(wrongFields) != 2 {
		fatalf("anchor=clientProtocolDetails/serverProtocolDetails.%s not found", wrong)
	}
	n := 0
	for _, tn := range typeNames {
		named := p.Named(tn)
		if named == nil {
			continue
		}
		pt := types.NewPointer(named)
		for _, fn := range p.Funcs {
			root := fn
			for root.Parent() != nil {
				root = root.Parent()
			}
			if root.Signature.Recv() == nil || !types.Identical(root.Signature.Recv().Type(), pt) && !types.Identical(root.Signature.Recv().Type(), named) {
				continue
			}
			n++
			var bad []string
			ForEachInstr(fn, func(in ssa.Instruction) {
				if fa, ok := in.(*ssa.FieldAddr); ok && wrongFields[FieldOfAddr(fa)] {
					// a store is the response-header handler recording the cell: only reads matter
					for _, ref := range *fa.Referrers() {
						if u, isLoad := ref.(*ssa.UnOp); isLoad && u.Op == token.MUL {
							bad = append(bad, p.Pos(in.Pos()))
						}
					}
				}
				if fv, ok := in.(*ssa.Field); ok && wrongFields[FieldOfVal(fv)] {
					bad = append(bad, p.Pos(in.Pos()))
				}
			})
			c.Check(len(bad) == 0, rule, FuncName(fn), "reads-own-direction-only", fn.Pos(),
				"does not read "+wrong,
				"reads the other direction's compression cell ("+wrong+" at "+joinStr(bad)+"): the envelope flag / (de)compression disagrees with the bytes whenever request and response use different compressions")
		}
	}
	if n == 0 {
		c.Bad(rule, "adapters", "reads-own-direction-only", token.NoPos, "no adapter methods found: shape changed")
	}
}

// checkUnitFlagDecompress: an enveloped unit (message or end-of-stream frame) is decompressed
// exactly when ITS envelope says so.  In the adapters that process envelopes, every
// decompression is dominated by a condition that derives from an envelope's compressed flag:
// the flag itself, or a field every store of which derives from such a flag.  (Whether a
// compression was negotiated is not the same thing: gRPC and Connect allow uncompressed frames
// in a compressed stream, and trailer frames are commonly sent uncompressed.)
func checkUnitFlagDecompress(c *Ctx, rule string) {
	p := c.P
	envComprF := p.MustField("envelope", "compressed")
	memo := map[*types.Var]int{} // 1 derived, 2 not / in progress
	var flagDerived func(v ssa.Value, depth int) bool
	var fieldDerived func(f *types.Var, depth int) bool
	fieldDerived = func(f *types.Var, depth int) bool {
		if f == envComprF {
			return true
		}
		switch memo[f] {
		case 1:
			return true
		case 2:
			return false
		}
		memo[f] = 2
		if depth > 3 || !isBoolType(f.Type()) {
			return false
		}
		n := 0
		for _, fn := range p.Funcs {
			for _, st := range StoresToField(fn, f) {
				n++
				if k, isK := ConstBool(st.Val); isK && !k {
					continue
				}
				if !flagDerived(st.Val, depth+1) {
					return false
				}
			}
		}
		if n == 0 {
			return false
		}
		memo[f] = 1
		return true
	}
	flagDerived = func(v ssa.Value, depth int) bool {
		if depth > 4 {
			return false
		}
		switch x := v.(type) {
		case *ssa.Field:
			return fieldDerived(FieldOfVal(x), depth)
		case *ssa.UnOp:
			if x.Op == token.MUL {
				if fa, ok := x.X.(*ssa.FieldAddr); ok {
					return fieldDerived(FieldOfAddr(fa), depth)
				}
			}
			if x.Op == token.NOT {
				return false // 'not compressed' is not a reason to decompress
			}
		}
		ls := p.OriginsInter(v)
		if len(ls) == 0 {
			return false
		}
		for _, l := range ls {
			switch {
			case l.Kind == "load" && l.Field != nil && fieldDerived(l.Field, depth):
			case l.Kind == "other":
				fv, ok := l.V.(*ssa.Field)
				if !ok || !fieldDerived(FieldOfVal(fv), depth) {
					return false
				}
			case l.Kind == "const":
				if k, isK := ConstBool(l.V); !isK || k {
					return false
				}
			case l.Kind == "param":
				// every static call site passes a derived value
				prm, _ := l.V.(*ssa.Parameter)
				if prm == nil {
					return false
				}
				idx := -1
				for i, q := range prm.Parent().Params {
					if q == prm {
						idx = i
					}
				}
				es := p.Callers(prm.Parent())
				if len(es) == 0 || idx < 0 {
					return false
				}
				for _, e := range es {
					if e.Kind != "static" || idx >= len(e.Site.Common().Args) || !flagDerived(e.Site.Common().Args[idx], depth+1) {
						return false
					}
				}
			default:
				return false
			}
		}
		return true
	}
	n := 0
	for _, tn := range []string{"envelopingWriter", "transformingWriter", "envelopingReader", "transformingReader"} {
		named := p.Named(tn)
		if named == nil {
			continue
		}
		pt := types.NewPointer(named)
		for _, fn := range p.Funcs {
			if fn.Signature.Recv() == nil || !types.Identical(fn.Signature.Recv().Type(), pt) {
				continue
			}
			for _, call := range Calls(fn) {
				sc := call.Common().StaticCallee()
				if sc == nil || sc.Signature.Recv() == nil || !isPtrTo(sc.Signature.Recv().Type(), RootPath, "compressionPool") {
					continue
				}
				if nm := N(sc); nm != "decompress" && nm != "decompressLimited" {
					continue
				}
				n++
				okFlag := false
				for _, f := range p.FactsAtInter(call.Block()) {
					if f.Truth && flagDerived(f.Cond, 0) {
						okFlag = true
					}
				}
				c.Check(okFlag, rule, FuncName(fn), "decompress-follows-envelope-flag", call.Pos(),
					"the unit is decompressed under a condition that derives from its own envelope's compressed flag",
					"an enveloped unit is decompressed without consulting its envelope's compressed flag (e.g. because a compression was negotiated): an uncompressed frame in a compressed stream - typically the trailer frame - is fed to the decompressor and the RPC fails, losing status and trailers")
			}
		}
	}
	if n == 0 {
		c.Bad(rule, "adapters", "decompress-follows-envelope-flag", token.NoPos, "no decompression of enveloped units found in the envelope adapters: shape changed")
	}
}

// checkMessageContentType (defect D49): a Content-Type whose value is taken from message
// content (google.api.HttpBody.content_type) - not a constant, not prefix + codec name - can be
// the empty string, which is not a valid media type.  It is stored only where the value is
// known to be non-empty.
func checkMessageContentType(c *Ctx, rule, ifaceName, method string) {
	p := c.P
	iface := p.Iface(ifaceName)
	if iface == nil {
		fatalf("anchor=%s not found", ifaceName)
	}
	n := 0
	seen := map[ssa.Instruction]bool{}
	for _, t := range p.Implementers(iface) {
		m := p.MethodOf(t, method)
		if m == nil {
			continue
		}
		for _, fn := range SortedFuncs(p.Reach(m)) {
			if !p.inScope(fn) {
				continue
			}
			for _, hm := range HeaderMutations(fn) {
				if hm.Key == nil || hm.Val == nil || seen[hm.Instr] || (hm.Op != "Set" && hm.Op != "Add") {
					continue
				}
				k, isK := ConstString(hm.Key)
				if !isK || textproto.CanonicalMIMEHeaderKey(k) != "Content-Type" {
					continue
				}
				fromMessage := false
				for _, l := range p.OriginsDeep(hm.Val) { // also through an accessor helper (refactoring B24_r1)
					if l.Kind != "call" {
						continue
					}
					lc := l.Call.Common()
					if lc.IsInvoke() && N(lc.Method) == "String" {
						fromMessage = true
					}
					if sc := lc.StaticCallee(); sc != nil && N(sc) == "String" && strings.Contains(CalleeName(l.Call), "protoreflect") {
						fromMessage = true
					}
				}
				if !fromMessage {
					continue
				}
				seen[hm.Instr] = true
				n++
				nonEmpty := false
				for _, f := range FactsAt(hm.Instr.Block()) {
					cmp, ok := f.AsCmp()
					if !ok || cmp.Op != token.NEQ {
						continue
					}
					if s, isC := ConstString(cmp.Y); isC && s == "" && (cmp.X == hm.Val || strip(cmp.X) == strip(hm.Val)) {
						nonEmpty = true
					}
				}
				c.Check(nonEmpty, rule, FuncName(fn), "message-content-type-non-empty", hm.Instr.Pos(),
					"a Content-Type taken from the message is stored only when it is not empty",
					"a Content-Type taken from message content is stored unconditionally: for a message without content type the peer gets 'Content-Type:' with an empty value, which is not a valid media type")
			}
		}
	}
	if n == 0 {
		c.Bad(rule, ifaceName+"."+method, "message-content-type-non-empty", token.NoPos, "no Content-Type taken from message content is written under "+method+": shape changed")
	}
}

package vg

import (
	"golang.org/x/tools/go/packages"
	"golang.org/x/tools/go/ssa"
	"golang.org/x/tools/go/ssa/ssautil"
)

// loadFixture loads /verif/checker/fixtures/ctl (a tiny package that contains
// one instance of every construct whose expected count in the library is zero).
func loadFixture(dir string) []*ssa.Function {
	cfg := &packages.Config{Mode: packages.LoadAllSyntax, Dir: dir, Env: goEnv("")}
	pkgs, err := packages.Load(cfg, "./ctl")
	if err != nil || len(pkgs) == 0 || len(pkgs[0].Errors) > 0 {
		return nil
	}
	prog, spkgs := ssautil.AllPackages(pkgs, ssa.InstantiateGenerics)
	prog.Build()
	var out []*ssa.Function
	for fn := range ssautil.AllFunctions(prog) {
		if fn.Pkg != nil && len(spkgs) > 0 && fn.Pkg == spkgs[0] && fn.Blocks != nil {
			out = append(out, fn)
		}
		if fn.Parent() != nil && fn.Parent().Pkg != nil && fn.Parent().Pkg == spkgs[0] && fn.Blocks != nil {
			out = append(out, fn)
		}
	}
	return out
}

// ForEachInstrAll applies the zero-expected matchers (the same predicates the
// rules use) to one function and counts their matches.
func ForEachInstrAll(fn *ssa.Function, out map[string]int) {
	ForEachInstr(fn, func(in ssa.Instruction) {
		switch x := in.(type) {
		case *ssa.Go:
			out["go-statement"]++
		case *ssa.Panic:
			out["explicit-panic"]++
		case *ssa.TypeAssert:
			if !x.CommaOk {
				out["single-value-type-assertion"]++
			}
		case *ssa.Store:
			if _, ok := x.Addr.(*ssa.Global); ok && N(fn) != "init" {
				out["package-variable-store"]++
			}
		case ssa.CallInstruction:
			if IsCallTo(x, "time.AfterFunc", "time.NewTimer", "time.NewTicker", "time.After", "time.Tick", "context.AfterFunc") {
				out["timer-callback"]++
			}
			if isHandlerDispatch(x) {
				out["handler-dispatch"]++
			}
		}
	})
}

package vg

import (
	"go/token"
	"go/types"
	"strings"

	"golang.org/x/tools/go/ssa"
)

func init() {
	register(&PropertySpec{
		ID: "C08",
		Explanation: "Equality of results over all segmentations is a schedule/value property and is NOT decided. Decided are the structural preconditions the adapters' own state machines rely on: " +
			"(C08.1) in every request-body adapter's Read the per-message payload source is read only in states where the envelope cursor is known to be zero (forward dataflow over {zero, nonzero, unknown} with branch refinement), and every copy of envelope bytes is followed by a cursor update that accounts exactly for the bytes copied (partial copy => cursor reduced by len(data); full copy => cursor set to zero only where len(data) >= cursor is known); " +
			"(C08.2) in the response-body adapters, partial writes accumulate at the right offset: the envelope is filled at envelopeLen-remaining and remaining is reduced by the bytes taken after every ingest; the re-encoding writer measures what is still missing as expected minus already-buffered before comparing with the size of the incoming slice. " +
			"Not decided: output equality across all split points, behaviour of net/http's own buffering.",
		Run: runC08,
	})
}

// readerAdapters finds the request-body adapters structurally: pointer types of
// the root package with a Read([]byte)(int,error) method, a field of the
// envelope-bytes array type and an int cursor used as env[envelopeLen-cursor:].
type readerAdapter struct {
	typ     *types.Named
	read    *ssa.Function
	envF    *types.Var
	cursorF *types.Var
	payload []*types.Var // fields holding the per-message source
}

func readerAdapters(p *Prog) []readerAdapter {
	ebT, _ := envTypes(p)
	var out []readerAdapter
	scope := p.Root.Pkg.Scope()
	for _, name := range scope.Names() {
		tn, ok := scope.Lookup(name).(*types.TypeName)
		if !ok || p.isTestFile(tn.Pos()) {
			continue
		}
		n, ok := tn.Type().(*types.Named)
		if !ok {
			continue
		}
		st, ok := n.Underlying().(*types.Struct)
		if !ok {
			continue
		}
		read := p.MethodOf(types.NewPointer(n), "Read")
		if read == nil || read.Signature.Params().Len() != 1 {
			continue
		}
		var ra readerAdapter
		ra.typ, ra.read = n, read
		for i := 0; i < st.NumFields(); i++ {
			f := st.Field(i)
			if types.Identical(f.Type(), ebT) {
				ra.envF = f
			}
		}
		if ra.envF == nil {
			continue
		}
		// cursor: field X in Slice(&recv.env, Low = const - load X)
		ForEachInstr(read, func(in ssa.Instruction) {
			sl, ok := in.(*ssa.Slice)
			if !ok || sl.Low == nil {
				return
			}
			fa, ok := sl.X.(*ssa.FieldAddr)
			if !ok || FieldOfAddr(fa) != ra.envF {
				return
			}
			if bo, ok := sl.Low.(*ssa.BinOp); ok && bo.Op == token.SUB {
				if f := LoadedField(bo.Y); f != nil {
					ra.cursorF = f
				}
			}
		})
		for i := 0; i < st.NumFields(); i++ {
			f := st.Field(i)
			if N(f) == "r" || f == ra.envF || f == ra.cursorF {
				continue
			}
			if isNamed(f.Type(), "io", "Reader") || isPtrTo(f.Type(), "bytes", "Buffer") {
				ra.payload = append(ra.payload, f)
			}
		}
		out = append(out, ra)
	}
	return out
}

// isPayloadRead: call reads from one of the adapter's per-message source fields.
func (ra readerAdapter) isPayloadRead(call ssa.CallInstruction) bool {
	cc := call.Common()
	var recv ssa.Value
	switch {
	case cc.IsInvoke() && N(cc.Method) == "Read":
		recv = cc.Value
	case IsCallTo(call, "(*bytes.Buffer).Read", "(*bytes.Buffer).WriteTo", "(*bytes.Buffer).Next", "(*bytes.Buffer).ReadByte"):
		recv = cc.Args[0]
	default:
		return false
	}
	f := LoadedField(recv)
	for _, pf := range ra.payload {
		if f == pf {
			return true
		}
	}
	return false
}

// isEnvCopyOf: the instruction copies out of the adapter's envelope array.
func isEnvCopyOf(in ssa.Instruction, ra readerAdapter) bool {
	call, ok := in.(ssa.CallInstruction)
	if !ok || CalleeName(call) != "builtin copy" {
		return false
	}
	src, ok := call.Common().Args[1].(*ssa.Slice)
	if !ok {
		return false
	}
	fa, ok := src.X.(*ssa.FieldAddr)
	return ok && FieldOfAddr(fa) == ra.envF
}

func runC08(c *Ctx) {
	defer runC08CountUpdatedBeforeJudged(c)
	p := c.P
	// clauses this property shares with others (see DESIGN.md section 6a)
	defer c.ImportRules("C01", "C01.1")
	defer c.ImportRules("C16", "C16.5")
	defer c.ImportRules("C10", "C10.6", "C10.3")
	c.Rule("C08.1", "reader adapters: envelope bytes are exhausted before payload bytes; cursor updates account for the bytes copied", 6)
	ras := readerAdapters(p)
	if len(ras) < 2 {
		fatalf("anchor=request-body adapters: found %d types with Read + envelope array (expected at least 2)", len(ras))
	}
	for _, ra := range ras {
		if ra.cursorF == nil {
			c.Bad("C08.1", FuncName(ra.read), "cursor", ra.read.Pos(), "the adapter's Read does not hand out the envelope as env[envelopeLen-cursor:]: cursor not found")
			continue
		}
		ca := NewCellAnalysis(p, ra.read, ra.cursorF)
		nReads := 0
		for _, call := range Calls(ra.read) {
			if !ra.isPayloadRead(call) {
				continue
			}
			nReads++
			c.CountSite()
			s := ca.Before(call)
			c.Check(s == csZero, "C08.1", FuncName(ra.read), "payload-read-needs-cursor-zero", call.Pos(),
				"payload is read only where the envelope cursor is known to be zero",
				"the per-message payload source can be read while envelope bytes are still pending (cursor state: "+s.String()+"): with a small read buffer payload bytes are spliced into the envelope")
		}
		if nReads == 0 {
			c.Bad("C08.1", FuncName(ra.read), "payload-read", ra.read.Pos(), "no read of the per-message source found in Read: shape changed")
		}
		// envelope copies
		dataParam := ra.read.Params[1]
		isCursorStore := func(in ssa.Instruction) bool {
			st, ok := in.(*ssa.Store)
			if !ok {
				return false
			}
			fa, ok := st.Addr.(*ssa.FieldAddr)
			return ok && FieldOfAddr(fa) == ra.cursorF
		}
		for _, call := range Calls(ra.read) {
			if CalleeName(call) != "builtin copy" {
				continue
			}
			src, ok := call.Common().Args[1].(*ssa.Slice)
			if !ok {
				continue
			}
			fa, ok := src.X.(*ssa.FieldAddr)
			if !ok || FieldOfAddr(fa) != ra.envF {
				continue
			}
			c.CountSite()
			// every path from the copy reaches a cursor store before a payload read or a return
			stop := func(in ssa.Instruction) bool {
				if IsReturn(in) {
					return true
				}
				if ci, ok := in.(ssa.CallInstruction); ok && ra.isPayloadRead(ci) {
					return true
				}
				return false
			}
			found, path := PathQuery{Target: stop, Avoid: isCursorStore}.Search(ra.read, call)
			if found {
				c.Bad("C08.1", FuncName(ra.read), "copy-updates-cursor", call.Pos(),
					"envelope bytes are copied out but a path continues without updating the cursor: "+witnessString(p, path))
				continue
			}
			// first cursor store(s) reachable from the copy
			var stores []*ssa.Store
			ForEachInstr(ra.read, func(in ssa.Instruction) {
				if !isCursorStore(in) {
					return
				}
				reach, _ := PathQuery{Target: func(x ssa.Instruction) bool { return x == in }, Avoid: func(x ssa.Instruction) bool { return x != in && isCursorStore(x) }}.Search(ra.read, call)
				if reach {
					stores = append(stores, in.(*ssa.Store))
				}
			})
			good := len(stores) > 0
			var why string
			for _, st := range stores {
				lenCmp := func(wantOp token.Token) bool {
					for _, f := range FactsAt(call.Block()) {
						cmp, ok := f.AsCmp()
						if !ok {
							continue
						}
						x, y, op := cmp.X, cmp.Y, cmp.Op
						if isLenOf(y, dataParam) {
							x, y, op = y, x, flip(op)
						}
						if isLenOf(x, dataParam) && isCellLoad(y, ra.cursorF) && op == wantOp {
							return true
						}
					}
					return false
				}
				if k, isK := ConstInt(st.Val); isK && k == 0 {
					if !lenCmp(token.GEQ) {
						good = false
						why = "cursor is reset to zero although len(data) >= cursor is not known: the rest of the envelope is dropped when the buffer is smaller than what is pending"
					}
					continue
				}
				bo, ok := st.Val.(*ssa.BinOp)
				if ok && bo.Op == token.SUB && isCellLoad(bo.X, ra.cursorF) && (isLenOf(bo.Y, dataParam) || bo.Y == call.Value()) {
					if isLenOf(bo.Y, dataParam) && !lenCmp(token.LSS) {
						good = false
						why = "cursor is reduced by len(data) although len(data) < cursor is not known"
					}
					continue
				}
				good = false
				why = "cursor update after the copy is neither 'cursor -= bytes copied' nor 'cursor = 0'"
			}
			c.Check(good, "C08.1", FuncName(ra.read), "copy-accounts-bytes", call.Pos(),
				"the cursor update after copying envelope bytes accounts exactly for the bytes copied", why)
			// ... and the bytes copied are the PENDING ones: the slice of the envelope array starts at
			// len(env) - cursor (seed C01g copied from the start again when a partial hand-out resumed)
			okSrc := false
			if sl, isSl := call.Common().Args[1].(*ssa.Slice); isSl && sl.Low != nil {
				if bo, isBo := sl.Low.(*ssa.BinOp); isBo && bo.Op == token.SUB && isCellLoad(bo.Y, ra.cursorF) {
					if k, isK := ConstInt(bo.X); isK {
						if arr, isArr := ra.envF.Type().Underlying().(*types.Array); isArr && arr.Len() == k {
							okSrc = true
						}
					}
				}
			}
			c.Check(okSrc, "C08.1", FuncName(ra.read), "copy-starts-at-pending-bytes", call.Pos(),
				"the envelope bytes handed out start at len(envelope) - cursor, i.e. where the previous hand-out stopped",
				"envelope bytes are copied from an offset that is not len(envelope) - cursor: when the backend reads the 5-byte envelope in more than two pieces (or the cursor is not at its initial value) bytes already handed out are repeated - the announced length is wrong and the stream is mis-framed")
			// ... and the count handed back to the caller includes exactly those bytes: it derives
			// from the cursor (as loaded before the reset), len(data) or copy's own result - not
			// from a constant such as the envelope's full length
			okCount, nRets := true, 0
			var badAt string
			ForEachInstr(ra.read, func(in ssa.Instruction) {
				ret, isRet := in.(*ssa.Return)
				if !isRet || ret.Block() == ra.read.Recover {
					return
				}
				otherCopy := func(x ssa.Instruction) bool { return x != ssa.Instruction(call) && isEnvCopyOf(x, ra) }
				reach, _ := PathQuery{Target: func(x ssa.Instruction) bool { return x == in }, Avoid: otherCopy}.Search(ra.read, call)
				if !reach {
					return
				}
				rv := ReturnValues(ret)
				if len(rv) != 2 || !IsNilConst(rv[1]) {
					return
				}
				if k, isK := ConstInt(rv[0]); isK && k == 0 {
					return
				}
				nRets++
				src, posConst := false, false
				for _, l := range Origins(rv[0]) {
					switch {
					case l.Kind == "load" && l.Field == ra.cursorF:
						src = true
					case l.Kind == "call" && (CalleeName(l.Call) == "builtin len" || l.Call == call):
						src = true
					case l.Kind == "const":
						if k, isK := ConstInt(l.V); isK && k > 0 {
							posConst = true
						}
					}
				}
				if !src || posConst {
					okCount = false
					badAt = p.Pos(ret.Pos())
				}
			})
			if nRets > 0 {
				c.Check(okCount, "C08.1", FuncName(ra.read), "copy-reported-in-count", call.Pos(),
					"the count returned after copying envelope bytes derives from the cursor / len(data) / copy's result",
					"after copying the pending envelope bytes the returned count (return at "+badAt+") is not derived from the number of bytes actually pending (a constant such as the full envelope length): when the envelope is handed out in two pieces the second Read reports more bytes than it wrote, or leaves a gap before the payload")
			}
		}
	}

	// ---------------------------------------------------------------- C08.4
	// (defect D31) io.Reader allows Read with an empty buffer.  In the adapters 'zero bytes
	// delivered' is otherwise the sign that the current message is exhausted, so moving on to the
	// next message (and every read of the per-message source) must happen only where the buffer
	// is known to be non-empty.
	c.Rule("C08.4", "a Read with an empty buffer returns before the adapter advances: advancing is dominated by len(data) != 0", 2)
	for _, ra := range ras {
		fn := ra.read
		dataParam := fn.Params[1]
		nonEmpty := func(in ssa.Instruction) bool {
			for _, f := range FactsAt(in.Block()) {
				cmp, ok := f.AsCmp()
				if !ok {
					continue
				}
				x, y, op := cmp.X, cmp.Y, cmp.Op
				if isLenOf(y, dataParam) {
					x, y, op = y, x, flip(op)
				}
				if !isLenOf(x, dataParam) {
					continue
				}
				k, isK := ConstInt(y)
				if !isK {
					continue
				}
				if k == 0 && (op == token.NEQ || op == token.GTR) || k == 1 && op == token.GEQ {
					return true
				}
			}
			return false
		}
		n := 0
		for _, call := range Calls(fn) {
			// advancing: a static call of a module function that reads the body (prepares the
			// next message), or a read of the per-message source
			adv := ra.isPayloadRead(call)
			if sc := call.Common().StaticCallee(); sc != nil && p.inScope(sc) && sc != fn {
				for _, r2 := range SortedFuncs(p.Reach(sc)) {
					if !p.inScope(r2) {
						continue
					}
					for _, c2 := range Calls(r2) {
						if IsCallTo(c2, "io.ReadFull", "io.CopyN", "io.Copy", "io.ReadAll") {
							adv = true
						}
					}
				}
			}
			if !adv {
				continue
			}
			n++
			c.Check(nonEmpty(call), "C08.4", FuncName(fn), "advance-needs-nonempty-buffer:"+CalleeName(call), call.Pos(),
				"reached only where len(data) != 0 is known",
				"the adapter reads the per-message source / moves on to the next message although the caller's buffer may be empty: 'zero bytes delivered' is then taken for the end of the current message, whose remaining bytes are dropped or parsed as the next envelope")
		}
		if n == 0 {
			c.Bad("C08.4", FuncName(fn), "advance-needs-nonempty-buffer", fn.Pos(), "no advance found in Read: shape changed")
		}
	}

	// ---------------------------------------------------------------- C08.5
	// (defect D36) Moving on to the next message after a read of the current message's source is
	// justified only by io.EOF: the source may also deliver (0, nil).  Every path from such a
	// read to the call that prepares the next message knows errors.Is(err, io.EOF).
	c.Rule("C08.5", "the next message is prepared after a source read only when that read reported io.EOF", 1)
	for _, ra := range ras {
		fn := ra.read
		n := 0
		for _, call := range Calls(fn) {
			if !ra.isPayloadRead(call) {
				continue
			}
			cv, ok := call.(*ssa.Call)
			if !ok {
				continue
			}
			// the calls that prepare the next message: static module callees that read the body
			isNext := func(in ssa.Instruction) bool {
				ci, ok := in.(ssa.CallInstruction)
				if !ok {
					return false
				}
				sc := ci.Common().StaticCallee()
				if sc == nil || !p.inScope(sc) || sc == fn {
					return false
				}
				nm := N(sc)
				return nm == "prepareNext" || nm == "readRequestMessage"
			}
			paths, okE := EnumPaths(cv.Block(), nil, func(in ssa.Instruction) bool { return IsReturn(in) || isNext(in) }, 0)
			if !okE {
				c.Unknown("C08.5", FuncName(fn), "paths", call.Pos(), "too many paths")
				continue
			}
			bad, seen := 0, 0
			for _, cp := range paths {
				if !isNext(cp.End) {
					continue
				}
				seen++
				eof := false
				for cond, truth := range cp.Truth {
					if ci, ok := cond.(*ssa.Call); ok && IsCallTo(ci, "errors.Is") && truth {
						if u, ok := ci.Call.Args[1].(*ssa.UnOp); ok {
							if g, ok := u.X.(*ssa.Global); ok && g.Name() == "EOF" {
								eof = true
							}
						}
					}
				}
				// a buffer source (bytes.Buffer.Read) reports io.EOF exactly when empty: its error is ignored by design
				if IsCallTo(call, "(*bytes.Buffer).Read") {
					eof = true
				}
				if !eof {
					bad++
				}
			}
			if seen == 0 {
				continue
			}
			n++
			c.Check(bad == 0, "C08.5", FuncName(fn), "next-message-only-after-eof", call.Pos(),
				"every path from this source read to preparing the next message knows the read reported io.EOF",
				itoa(bad)+" path(s) go on to the next message after a source read that did not report io.EOF (e.g. (0, nil)): the rest of the current message is dropped or parsed as an envelope")
		}
		_ = n
	}

	// ---------------------------------------------------------------- C08.3
	c.Rule("C08.3", "bytes obtained from the per-message source are always handed to the caller", 3)
	for _, ra := range ras {
		fn := ra.read
		for _, call := range Calls(fn) {
			if !ra.isPayloadRead(call) {
				continue
			}
			cv, ok := call.(*ssa.Call)
			if !ok {
				continue
			}
			var nRes ssa.Value
			for _, ref := range *cv.Referrers() {
				if ex, ok := ref.(*ssa.Extract); ok && ex.Index == 0 {
					nRes = ex
				}
			}
			if nRes == nil {
				continue
			}
			c.CountSite()
			paths, ok := EnumPaths(cv.Block(), nil, IsReturn, 20000)
			if !ok {
				c.Unknown("C08.3", FuncName(fn), "paths", cv.Pos(), "too many paths")
				continue
			}
			bad := 0
			for _, cp := range paths {
				nName := cp.Canon(nRes)
				ret := cp.End.(*ssa.Return)
				if ret.Block() == fn.Recover {
					continue
				}
				// the call must actually be on the path (it is in the start block, but the path may start before it textually)
				cnt := cp.Canon(ret.Results[0])
				if strings.Contains(cnt, nName) {
					continue
				}
				// n known to be zero on this path?
				zero := false
				for cond, truth := range cp.Truth {
					b, ok := cond.(*ssa.BinOp)
					if !ok {
						continue
					}
					k, isK := ConstInt(b.Y)
					if !isK || k != 0 {
						continue
					}
					if !strings.Contains(cp.Canon(b.X), nName) {
						continue
					}
					if b.Op == token.GTR && !truth || b.Op == token.EQL && truth || b.Op == token.NEQ && !truth || b.Op == token.LEQ && truth {
						zero = true
					}
				}
				if !zero {
					bad++
				}
			}
			c.Check(bad == 0, "C08.3", FuncName(fn), "bytes-read-are-returned", cv.Pos(),
				"on every path after this read the returned count includes the bytes read, or the read is known to have produced none ("+itoa(len(paths))+" paths)",
				itoa(bad)+" path(s) continue after this read without returning its bytes although the read may have produced some (e.g. data delivered together with io.EOF): request bytes are silently dropped depending on how the body is segmented")
		}
	}

	// ---------------------------------------------------------------- C08.2
	c.Rule("C08.2", "writer adapters: partial writes accumulate at the right offset and the remaining count tracks the bytes taken", 4)
	ebT, _ := envTypes(p)
	ew := p.MustNamed("envelopingWriter")
	ewWrite := p.MethodOf(types.NewPointer(ew), "Write")
	remF := p.MustField("envelopingWriter", "remainingBytes")
	curSinkF := p.MustField("envelopingWriter", "current")
	if ewWrite == nil {
		fatalf("anchor=envelopingWriter.Write not found")
	}
	ewPtr := types.NewPointer(ew)
	// ingest sites, by role: a copy into the writer's envelope array, or a Write on its current
	// sink - in Write itself or in a helper method of the writer (today writeBytes)
	isEnvCopy := func(in ssa.Instruction) bool {
		call, ok := in.(ssa.CallInstruction)
		if !ok || CalleeName(call) != "builtin copy" {
			return false
		}
		dst, ok := call.Common().Args[0].(*ssa.Slice)
		if !ok {
			return false
		}
		fa, ok := dst.X.(*ssa.FieldAddr)
		return ok && types.Identical(FieldOfAddr(fa).Type(), ebT) && types.Identical(fa.X.Type(), ewPtr)
	}
	isSinkWr := func(in ssa.Instruction) bool {
		call, ok := in.(ssa.CallInstruction)
		if !ok || !call.Common().IsInvoke() || N(call.Common().Method) != "Write" {
			return false
		}
		return LoadedField(call.Common().Value) == curSinkF
	}
	ingestHelper := map[*ssa.Function]bool{}
	for _, fn := range p.Funcs {
		if fn == ewWrite || fn.Signature.Recv() == nil || !types.Identical(fn.Signature.Recv().Type(), ewPtr) {
			continue
		}
		if fn.Signature.Results().Len() != 2 || !isIntegerLike(fn.Signature.Results().At(0).Type()) {
			continue
		}
		has := false
		ForEachInstr(fn, func(in ssa.Instruction) {
			if isEnvCopy(in) {
				has = true
			}
		})
		if has {
			ingestHelper[fn] = true
		}
	}
	isHelperCall := func(in ssa.Instruction) bool {
		ci, ok := in.(ssa.CallInstruction)
		if !ok {
			return false
		}
		for _, cal := range p.CalleesAt(ci) {
			if ingestHelper[cal] {
				return true
			}
		}
		return false
	}
	// copy into env at envelopeLen-remaining
	nCopies := 0
	scanCopies := func(fn *ssa.Function) {
		ForEachInstr(fn, func(in ssa.Instruction) {
			if !isEnvCopy(in) {
				return
			}
			nCopies++
			call := in.(ssa.CallInstruction)
			okOff := false
			if dst, ok := call.Common().Args[0].(*ssa.Slice); ok && dst.Low != nil {
				if bo, ok := dst.Low.(*ssa.BinOp); ok && bo.Op == token.SUB && LoadedField(bo.Y) == remF {
					if k, isK := ConstInt(bo.X); isK && k == ebT.Underlying().(*types.Array).Len() {
						okOff = true
					}
				}
			}
			c.Check(okOff, "C08.2", FuncName(fn), "envelope-fill-offset", in.Pos(),
				"incoming envelope bytes are stored at offset envelopeLen-remainingBytes", "partial envelope bytes are not stored at offset envelopeLen-remainingBytes: an envelope split across writes is mis-assembled")
		})
	}
	scanCopies(ewWrite)
	for fn := range ingestHelper {
		scanCopies(fn)
	}
	if nCopies == 0 {
		c.Bad("C08.2", FuncName(ewWrite), "envelope-fill-offset", ewWrite.Pos(), "no copy of incoming bytes into the writer's envelope array found: shape changed")
	}
	// pass-through mode (remainingBytes == -1: nothing is framed, bytes are not counted)
	passThrough := func(in ssa.Instruction) bool {
		for _, f := range FactsAt(in.Block()) {
			if cmp, ok := f.AsCmp(); ok && cmp.Op == token.EQL && LoadedField(cmp.X) == remF {
				if k, isK := ConstInt(cmp.Y); isK && k == -1 {
					return true
				}
			}
		}
		return false
	}
	isIngest := func(in ssa.Instruction) bool {
		return (isEnvCopy(in) || isSinkWr(in) || isHelperCall(in)) && !passThrough(in)
	}
	// 'remainingBytes -= n' where n is what the ingest took: len(of the slice copied) and/or the
	// count returned by the sink / the helper
	isDec := func(in ssa.Instruction) bool {
		st, ok := in.(*ssa.Store)
		if !ok {
			return false
		}
		fa, ok := st.Addr.(*ssa.FieldAddr)
		if !ok || FieldOfAddr(fa) != remF {
			return false
		}
		bo, ok := st.Val.(*ssa.BinOp)
		if !ok || bo.Op != token.SUB || LoadedField(bo.X) != remF {
			return false
		}
		ls := Origins(bo.Y)
		if len(ls) == 0 {
			return false
		}
		for _, l := range ls {
			if len(l.Ops) > 0 {
				return false
			}
			switch {
			case l.Kind == "call" && CalleeName(l.Call) == "builtin len":
			case l.Kind == "call" && l.Index == 0 && (isSinkWr(l.Call) || isHelperCall(l.Call)):
			case l.Kind == "const":
				// 'var n int' before an if/else that assigns it on both arms
				if k, isK := ConstInt(l.V); !isK || k != 0 {
					return false
				}
			default:
				return false
			}
		}
		return true
	}
	nIngest := 0
	ForEachInstr(ewWrite, func(in ssa.Instruction) {
		if !isIngest(in) {
			return
		}
		nIngest++
		c.CountSite()
		stop := func(x ssa.Instruction) bool { return IsReturn(x) || (x != in && isIngest(x)) }
		found, path := PathQuery{Target: stop, Avoid: isDec}.Search(ewWrite, in)
		c.Check(!found, "C08.2", FuncName(ewWrite), "remaining-tracks-bytes-taken", in.Pos(),
			"after every ingest remainingBytes is reduced by the number of bytes taken, on every path",
			"after ingesting bytes a path continues without 'remainingBytes -= n': "+witnessString(p, path))
	})
	if nIngest == 0 {
		c.Bad("C08.2", FuncName(ewWrite), "remaining-tracks-bytes-taken", ewWrite.Pos(), "no ingest of incoming bytes found in the re-framing writer's Write: shape changed")
	}
	// transformingWriter: missing = expecting - buffered
	tw := p.MustNamed("transformingWriter")
	twWrite := p.MethodOf(types.NewPointer(tw), "Write")
	expF := p.MustField("transformingWriter", "expectingBytes")
	bufF := p.MustField("transformingWriter", "buffer")
	nCmp := 0
	ForEachInstr(twWrite, func(in ssa.Instruction) {
		iff, ok := in.(*ssa.If)
		if !ok {
			return
		}
		bo, ok := iff.Cond.(*ssa.BinOp)
		if !ok || bo.Op != token.LSS {
			return
		}
		if lc, ok := bo.X.(*ssa.Call); !ok || CalleeName(lc) != "builtin len" {
			return
		}
		// rhs must derive from expectingBytes
		fromExp := false
		for _, l := range Origins(bo.Y) {
			if l.Kind == "load" && l.Field == expF {
				fromExp = true
			}
		}
		if !fromExp {
			return
		}
		nCmp++
		sub, ok := bo.Y.(*ssa.BinOp)
		good := ok && sub.Op == token.SUB && LoadedField(sub.X) == expF
		if good {
			b := bufferOfLen(sub.Y)
			good = b != nil && LoadedField(b) == bufF
		}
		c.Check(good, "C08.2", FuncName(twWrite), "missing=expected-buffered", iff.Pos(),
			"the incoming slice is compared with expectingBytes - buffer.Len(): bytes buffered by earlier writes are counted",
			"the incoming slice is compared with a quantity that does not subtract what earlier Write calls already buffered: a prefix or payload split across writes is over-collected")
	})
	if nCmp == 0 {
		c.Bad("C08.2", FuncName(twWrite), "missing=expected-buffered", twWrite.Pos(), "no comparison of the incoming slice length with the expected byte count found: shape changed")
	}
}

// isLenOf: v is len(x) where x derives from the data parameter (possibly re-sliced).
func isLenOf(v ssa.Value, prm *ssa.Parameter) bool {
	call, ok := strip(v).(*ssa.Call)
	if !ok || CalleeName(call) != "builtin len" {
		return false
	}
	for _, l := range Origins(call.Call.Args[0]) {
		if l.Kind == "param" && l.V == ssa.Value(prm) {
			return true
		}
	}
	return false
}

// runC08CountUpdatedBeforeJudged: C08.6 (seed C08k).  A reader that hands out exactly the
// announced number of bytes of a message decides "the source ended early" by comparing what is
// still owed with zero when the source reports io.EOF.  A source may return its last bytes
// TOGETHER with io.EOF (net/http does at the end of a Content-Length body); the comparison is
// right only if the bytes of this very read have been subtracted first.  With the statements the
// other way round a complete message whose last piece arrives with EOF is reported as truncated,
// while the same bytes followed by a separate EOF pass - the outcome depends on how the source
// chunks.  Structural, for every Read method that subtracts the wrapped read's count from a
// cell of its receiver: every later comparison of that cell is after the subtraction.
func runC08CountUpdatedBeforeJudged(c *Ctx) {
	p := c.P
	c.Rule("C08.6", "a remaining-bytes count is compared only after the current read's bytes were subtracted", 1)
	n := 0
	for _, fn := range p.Funcs {
		if !p.inScope(fn) || fn.Signature.Recv() == nil || N(fn) != "Read" || len(fn.Blocks) == 0 {
			continue
		}
		// the wrapped read: an invoke of Read on a field of the receiver
		var rd *ssa.Call
		for _, call := range Calls(fn) {
			if cv, ok := call.(*ssa.Call); ok && cv.Call.IsInvoke() && N(cv.Call.Method) == "Read" {
				rd = cv
			}
		}
		if rd == nil {
			continue
		}
		var cnt ssa.Value
		for _, ref := range *rd.Referrers() {
			if ex, ok := ref.(*ssa.Extract); ok && ex.Index == 0 {
				cnt = ex
			}
		}
		if cnt == nil {
			continue
		}
		// stores  recv.f = recv.f - int64(cnt)
		ForEachInstr(fn, func(in ssa.Instruction) {
			st, ok := in.(*ssa.Store)
			if !ok {
				return
			}
			fa, ok := st.Addr.(*ssa.FieldAddr)
			if !ok {
				return
			}
			bo, ok := st.Val.(*ssa.BinOp)
			if !ok || bo.Op != token.SUB || LoadedField(bo.X) != FieldOfAddr(fa) {
				return
			}
			fromCnt := false
			for _, o := range Origins(bo.Y) {
				if strip(o.V) == cnt {
					fromCnt = true
				}
			}
			if !fromCnt && strip(bo.Y) != cnt {
				return
			}
			fld := FieldOfAddr(fa)
			n++
			bad := token.NoPos
			ForEachInstr(fn, func(in2 ssa.Instruction) {
				cmp, ok := in2.(*ssa.BinOp)
				if !ok {
					return
				}
				switch cmp.Op {
				case token.GTR, token.GEQ, token.LSS, token.LEQ, token.EQL, token.NEQ:
				default:
					return
				}
				if LoadedField(cmp.X) != fld && LoadedField(cmp.Y) != fld {
					return
				}
				// only comparisons made after the wrapped read matter
				if !instrBefore(rd, cmp) {
					return
				}
				if !instrBefore(st, cmp) {
					bad = cmp.Pos()
				}
			})
			c.Check(bad == token.NoPos, "C08.6", FuncName(fn), "count-updated-before-judged:"+N(fld), st.Pos(),
				"every comparison of the count after the wrapped read follows the subtraction of that read's bytes",
				"the count of bytes still owed is compared ("+p.Pos(bad)+") before the bytes of the current read are subtracted from it: when the source returns its last bytes together with io.EOF the complete message is taken for a truncated one, while the same bytes followed by a separate EOF pass - the result depends on how the source splits its reads")
		})
	}
	if n == 0 {
		c.Bad("C08.6", "package", "count-updated-before-judged", token.NoPos, "no reader keeps a count of the bytes still owed: shape changed")
	}
}

package vg

import (
	"go/constant"
	"go/token"
	"go/types"
	"strings"

	"golang.org/x/tools/go/ssa"
)

func init() {
	register(&PropertySpec{
		ID: "C10",
		Explanation: "Decides that no request-time path moves an a-priori unbounded number of bytes into memory without a limit-derived bound: " +
			"(C10.1) every reader->buffer copy (Buffer.ReadFrom, io.Copy/CopyBuffer into a buffer, io.ReadAll, io.CopyN) has an in-memory source, a limiting reader whose limit is limit-derived (the maxMsgBufferBytes field, possibly through checked comparisons and one level of function/parameter summaries, never with an additive offset), or - for io.LimitReader - the exact 'read limit+1, then fail if more than limit was read' idiom, so that exceeding the limit is both prevented and detectable; " +
			"(C10.2) every Buffer.Grow with a non-constant argument is bounded the same way or sized from data already in memory; " +
			"(C10.3) every Write method that appends handler-supplied bytes to a buffer does so under a dominating comparison with a limit-derived value or within a bounded byte counter, and a pooled buffer installed behind an io.Writer field is installed under such a check; " +
			"(C10.4) the exceed edges construct their error through the size-limit constructor, whose code is the constant resource_exhausted. " +
			"Not decided: the multiple of L actually resident (several buffers live at once), re-encoded size before the post-hoc check, that fitting messages are never rejected, allocations inside codecs.",
		Run: runC10,
	})
}

type limCtx struct {
	p         *Prog
	limFields map[*types.Var]bool // fields all of whose stores are limit-derived
	summaries map[string]bool     // FuncName#resultIndex -> bounded
}

func newLimCtx(p *Prog) *limCtx {
	lc := &limCtx{p: p, limFields: map[*types.Var]bool{}, summaries: map[string]bool{}}
	// derived limit fields: integer fields of root structs whose every (non-zero-literal) store is limit-derived
	cands := map[*types.Var][]ssa.Value{}
	for _, fn := range p.Funcs {
		for _, w := range FieldWrites(fn) {
			if isIntegerLike(w.Field.Type()) && N(w.Field) == "limit" && fieldOwner(w.Field, p) == "limitWriter" {
				cands[w.Field] = append(cands[w.Field], w.Store.Val)
			}
		}
	}
	for f, vals := range cands {
		all := len(vals) > 0
		for _, v := range vals {
			if !limitDerived(p, v) {
				all = false
			}
		}
		if all {
			lc.limFields[f] = true
		}
	}
	return lc
}

// isLimit: v is limit-derived (including derived limit fields).
func (lc *limCtx) isLimit(v ssa.Value) bool {
	if limitDerived(lc.p, v) {
		return true
	}
	ls := Origins(v)
	if len(ls) == 0 {
		return false
	}
	for _, l := range ls {
		for _, op := range l.Ops {
			if op == token.ADD || op == token.MUL || op == token.SHL {
				return false
			}
		}
		if l.Kind == "load" && (lc.limFields[l.Field] || l.Field == lc.p.Field("serviceOptions", "maxMsgBufferBytes")) {
			continue
		}
		if l.Kind == "const" {
			if k, ok := ConstInt(l.V); ok && k >= 0 && k <= 1<<32 {
				continue
			}
		}
		if l.Kind == "call" && lc.resultBounded(l.Call, l.Index) {
			continue
		}
		if l.Kind == "param" && lc.paramBounded(l.V.(*ssa.Parameter)) {
			continue
		}
		return false
	}
	return true
}

// checkedAt: a dominating comparison bounds v by a limit value.
func (lc *limCtx) checkedAt(v ssa.Value, b *ssa.BasicBlock) bool {
	for _, f := range FactsAt(b) {
		cmp, ok := f.AsCmp()
		if !ok {
			continue
		}
		x, y, op := cmp.X, cmp.Y, cmp.Op
		if sameQuantity(y, v) {
			x, y, op = y, x, flip(op)
		}
		if !sameQuantity(x, v) {
			continue
		}
		if (op == token.LEQ || op == token.LSS) && lc.isLimit(y) {
			return true
		}
	}
	return lc.checkedOnAllPaths(v, b)
}

// checkedOnAllPaths: on every feasible acyclic path from the function's entry to block b a
// comparison bounding v by a limit value has the outcome "within the limit".  This covers the
// check-sets-error-then-test-error form (if n > limit { err = ... }; if err != nil { return }),
// where no single branch dominates the use.
func (lc *limCtx) checkedOnAllPaths(v ssa.Value, b *ssa.BasicBlock) bool {
	fn := b.Parent()
	if fn == nil || len(fn.Blocks) == 0 || len(b.Instrs) == 0 || len(fn.Blocks) > 120 {
		return false
	}
	key := "paths:" + FuncName(fn) + ":" + itoa(b.Index) + ":" + N(v)
	if r, ok := lc.summaries[key]; ok {
		return r
	}
	lc.summaries[key] = false
	first := b.Instrs[0]
	paths, ok := EnumPaths(fn.Blocks[0], nil, func(in ssa.Instruction) bool { return in == first }, 2048)
	if !ok || len(paths) == 0 {
		return false
	}
	feasible := 0
	for _, cp := range paths {
		if !cp.NilFeasible() {
			continue
		}
		feasible++
		within := false
		for cond, truth := range cp.Truth {
			bo, isBin := cond.(*ssa.BinOp)
			if !isBin {
				continue
			}
			x, y, op := bo.X, bo.Y, bo.Op
			if !truth {
				switch op {
				case token.GTR:
					op = token.LEQ
				case token.GEQ:
					op = token.LSS
				case token.LSS:
					op = token.GEQ
				case token.LEQ:
					op = token.GTR
				default:
					continue
				}
			}
			if sameQuantity(y, v) {
				x, y, op = y, x, flip(op)
			}
			if !sameQuantity(x, v) {
				continue
			}
			if (op == token.LEQ || op == token.LSS) && lc.isLimit(y) {
				within = true
			}
		}
		if !within {
			return false
		}
	}
	lc.summaries[key] = feasible > 0
	return feasible > 0
}

// bounded: the value is a limit, or checked against one at block b.
func (lc *limCtx) bounded(v ssa.Value, b *ssa.BasicBlock) bool {
	return lc.boundedD(v, b, 0)
}

func (lc *limCtx) boundedD(v ssa.Value, b *ssa.BasicBlock, depth int) bool {
	if lc.isLimit(v) || lc.checkedAt(v, b) {
		return true
	}
	// a value joined from several branches: each incoming value bounded where it comes from
	// (the comparison that bounds one arm holds on that arm only)
	if ph, ok := strip(v).(*ssa.Phi); ok && depth < 3 {
		all := len(ph.Edges) > 0
		for i, e := range ph.Edges {
			if i >= len(ph.Block().Preds) || !lc.boundedD(e, ph.Block().Preds[i], depth+1) {
				all = false
				break
			}
		}
		if all {
			return true
		}
	}
	// every origin individually bounded (phis)
	ls := Origins(v)
	if len(ls) == 0 {
		return false
	}
	for _, l := range ls {
		if len(l.Ops) > 0 {
			for _, op := range l.Ops {
				if op == token.ADD || op == token.MUL || op == token.SHL {
					return false
				}
			}
		}
		switch {
		case l.Kind == "call" && lc.resultBounded(l.Call, l.Index):
		case l.Kind == "const":
			k, ok := ConstInt(l.V)
			if !ok || k > 1<<32 {
				return false
			}
			if k < 0 {
				// a negative sentinel is harmless only where a dominating test excludes it
				excluded := false
				for _, f := range FactsAt(b) {
					if cmp, ok := f.AsCmp(); ok && cmp.Op == token.NEQ && sameValue(cmp.X, v) {
						if kk, isK := ConstInt(cmp.Y); isK && kk == k {
							excluded = true
						}
					}
				}
				if !excluded {
					return false
				}
			}
		case l.Kind == "load" && (lc.limFields[l.Field] || l.Field == lc.p.Field("serviceOptions", "maxMsgBufferBytes")):
		case l.Kind == "load" && lc.checkedAt(l.V, b):
		case l.Kind == "call" && lc.checkedAt(l.V, b):
		case l.Kind == "param" && lc.paramBounded(l.V.(*ssa.Parameter)):
		default:
			return false
		}
	}
	return true
}

// resultBounded: result idx of the (module) callee is bounded on all non-error returns.
func (lc *limCtx) resultBounded(call ssa.CallInstruction, idx int) bool {
	cals := lc.p.CalleesAt(call)
	if len(cals) != 1 || !lc.p.inScope(cals[0]) {
		return false
	}
	fn := cals[0]
	key := FuncName(fn) + "#" + itoa(idx)
	if v, ok := lc.summaries[key]; ok {
		return v
	}
	lc.summaries[key] = false // recursion guard
	ei := errorResultIndex(fn.Signature)
	all := true
	n := 0
	ForEachInstr(fn, func(in ssa.Instruction) {
		ret, ok := in.(*ssa.Return)
		if !ok || ret.Block() == fn.Recover {
			return
		}
		rv := ReturnValues(ret)
		if ei >= 0 && ei < len(rv) && !IsNilConst(rv[ei]) {
			return // error return
		}
		if idx >= len(rv) {
			all = false
			return
		}
		n++
		if !lc.bounded(rv[idx], ret.Block()) {
			all = false
		}
	})
	lc.summaries[key] = all && n > 0
	return all && n > 0
}

// paramBounded: every call site passes a bounded value for the parameter.
func (lc *limCtx) paramBounded(prm *ssa.Parameter) bool {
	fn := prm.Parent()
	idx := -1
	for i, q := range fn.Params {
		if q == prm {
			idx = i
		}
	}
	if idx < 0 {
		return false
	}
	key := FuncName(fn) + "@" + itoa(idx)
	if v, ok := lc.summaries[key]; ok {
		return v
	}
	lc.summaries[key] = false
	sites := 0
	all := true
	reach := lc.p.RequestTimeReach()
	for _, e := range lc.p.Callers(fn) {
		if !reach[e.Caller] || !lc.p.inScope(e.Caller) {
			continue // only request-time callers matter (tests and construction-time helpers excluded)
		}
		sites++
		args := e.Site.Common().Args
		ai := idx
		if e.Site.Common().IsInvoke() {
			ai = idx - 1
		}
		if ai < 0 || ai >= len(args) || !lc.bounded(args[ai], e.Site.Block()) {
			all = false
		}
	}
	lc.summaries[key] = all && sites > 0
	return all && sites > 0
}

func inMemoryReader(v ssa.Value) bool {
	t := strip(v).Type()
	return isPtrTo(t, "bytes", "Buffer") || isPtrTo(t, "bytes", "Reader") || isPtrTo(t, "strings", "Reader")
}

func runC10(c *Ctx) {
	// clause shared with C17: per-service options (the buffer limit among them) start from a fresh copy of the defaults
	defer c.ImportRules("C17", "C17.4")
	p := c.P
	lc := newLimCtx(p)
	reach := p.RequestTimeReach()
	var exceedChecks []*ssa.If

	// boundedReader reports whether src is a bounded source; for LimitReader the exact idiom is required.
	boundedReader := func(fn *ssa.Function, call ssa.CallInstruction, src ssa.Value, nRes ssa.Value) (bool, string) {
		if inMemoryReader(src) {
			return true, "in-memory source"
		}
		s := strip(src)
		if al, ok := s.(*ssa.Alloc); ok && isNamed(al.Type(), RootPath, "hardLimitReader") {
			limF := p.MustField("hardLimitReader", "limit")
			vals := aggregateFieldStores(al, limF)
			if len(vals) == 0 {
				return false, "hardLimitReader without a limit"
			}
			for _, v := range vals {
				if !lc.bounded(v, call.Block()) {
					return false, "hardLimitReader whose limit (" + strings.TrimSpace(v.String()) + ") is not limit-derived / checked (an additive offset admits more than the limit)"
				}
			}
			return true, "hardLimitReader with limit-derived limit"
		}
		if lr, ok := s.(*ssa.Call); ok && IsCallTo(lr, "io.LimitReader") {
			bnd := lr.Call.Args[1]
			bo, ok := bnd.(*ssa.BinOp)
			if !ok || bo.Op != token.ADD {
				return false, "io.LimitReader bound is not 'limit+1': reading exactly 'limit' bytes makes exceeding the limit undetectable (silent truncation)"
			}
			one, isK := ConstInt(bo.Y)
			if !isK || one != 1 || !lc.bounded(bo.X, call.Block()) {
				return false, "io.LimitReader bound is not (limit-derived)+1"
			}
			// the byte count read must be compared with the same limit, exceeding => error
			okChk := false
			if nRes != nil {
				for _, ref := range *nRes.Referrers() {
					b, ok := ref.(*ssa.BinOp)
					if !ok || b.Op != token.GTR || b.X != nRes || !sameQuantity(b.Y, bo.X) {
						continue
					}
					for _, r2 := range *b.Referrers() {
						if iff, ok := r2.(*ssa.If); ok {
							if good, _ := succReturnsOnlyErrors(fn, iff.Block().Succs[0], errorResultIndex(fn.Signature)); good {
								okChk = true
								exceedChecks = append(exceedChecks, iff)
							}
						}
					}
				}
			}
			if !okChk {
				return false, "after reading through io.LimitReader(limit+1) the count is not compared with limit (n > limit => error)"
			}
			return true, "LimitReader(limit+1) followed by 'n > limit => error'"
		}
		return false, "source " + strings.TrimSpace(src.String()) + " is neither in memory nor a limit-derived limiting reader"
	}

	c.Rule("C10.1", "every reader->buffer copy at request time is bounded by a limit-derived value", 5)
	c.Rule("C10.2", "every non-constant Buffer.Grow is bounded or sized from in-memory data", 4)
	for _, fn := range SortedFuncs(reach) {
		if !p.inScope(fn) {
			continue
		}
		for _, call := range Calls(fn) {
			cc := call.Common()
			name := CalleeName(call)
			var nRes ssa.Value
			if cv, ok := call.(*ssa.Call); ok {
				for _, ref := range *cv.Referrers() {
					if ex, ok := ref.(*ssa.Extract); ok && ex.Index == 0 {
						nRes = ex
					}
				}
			}
			switch name {
			case "(*bytes.Buffer).ReadFrom":
				c.CountSite()
				ok, why := boundedReader(fn, call, cc.Args[1], nRes)
				c.Check(ok, "C10.1", FuncName(fn), "Buffer.ReadFrom", call.Pos(), "bounded: "+why, "unbounded read into a buffer: "+why)
			case "io.Copy", "io.CopyBuffer":
				if !inMemoryReader(cc.Args[0]) {
					continue // destination is not a buffer (stream-through or discard)
				}
				c.CountSite()
				ok, why := boundedReader(fn, call, cc.Args[1], nRes)
				c.Check(ok, "C10.1", FuncName(fn), name+"->buffer", call.Pos(), "bounded: "+why, "unbounded copy into a buffer: "+why)
			case "io.ReadAll":
				c.CountSite()
				ok, why := boundedReader(fn, call, cc.Args[0], nRes)
				c.Check(ok, "C10.1", FuncName(fn), "io.ReadAll", call.Pos(), "bounded: "+why, "unbounded io.ReadAll: "+why)
			case "io.CopyN":
				if !inMemoryReader(cc.Args[0]) {
					continue
				}
				c.CountSite()
				ok := lc.bounded(cc.Args[2], call.Block())
				c.Check(ok, "C10.1", FuncName(fn), "io.CopyN->buffer", call.Pos(),
					"the count is limit-derived / checked (function summary or dominating comparison)", "io.CopyN into a buffer with a count that is not bounded by the message limit")
			case "(*bytes.Buffer).Grow":
				if _, isK := ConstInt(cc.Args[1]); isK {
					continue
				}
				c.CountSite()
				ok := lc.bounded(cc.Args[1], call.Block())
				if !ok {
					// min(announced, <constant>): bounded by the constant whatever was announced
					v := strip(cc.Args[1])
					if cv, isCv := v.(*ssa.Convert); isCv {
						v = strip(cv.X)
					}
					if mc, isCall := v.(*ssa.Call); isCall && IsCallTo(mc, "builtin min") {
						for _, a := range mc.Call.Args {
							if _, isK := ConstInt(a); isK {
								ok = true
							}
						}
					}
				}
				if !ok {
					// sized from data already in memory
					inMem := true
					ls := Origins(cc.Args[1])
					for _, l := range ls {
						if l.Kind == "const" {
							continue
						}
						if l.Kind == "call" && (CalleeName(l.Call) == "builtin len" || IsCallTo(l.Call, "(*bytes.Buffer).Len", "(*encoding/base64.Encoding).EncodedLen", "(*encoding/base64.Encoding).DecodedLen")) {
							continue
						}
						inMem = false
					}
					ok = inMem && len(ls) > 0
				}
				c.Check(ok, "C10.2", FuncName(fn), "Buffer.Grow", call.Pos(),
					"pre-allocation is bounded by the message limit or sized from data already in memory", "Buffer.Grow with a wire-declared size that is not checked against the message limit: memory is reserved before any limit applies")
			}
		}
	}

	// ---------------------------------------------------------------- C10.3
	c.Rule("C10.3", "accumulating writers append only under a limit check or within a bounded counter", 4)
	for _, fn := range p.Funcs {
		if N(fn) != "Write" || fn.Signature.Recv() == nil || fn.Signature.Params().Len() != 1 {
			continue
		}
		if !p.inScope(fn) || len(fn.Params) < 2 {
			continue
		}
		data := fn.Params[1]
		for _, call := range Calls(fn) {
			if !IsCallTo(call, "(*bytes.Buffer).Write") {
				continue
			}
			arg := call.Common().Args[1]
			fromData := false
			for _, l := range Origins(arg) {
				if l.Kind == "param" && l.V == ssa.Value(data) {
					fromData = true
				}
			}
			if !fromData {
				continue
			}
			c.CountSite()
			how := ""
			partial := ""
			// (i) dominating comparison involving len(data) with a limit
			for _, f := range FactsAt(call.Block()) {
				cmp, ok := f.AsCmp()
				if !ok {
					continue
				}
				x, y, op := cmp.X, cmp.Y, cmp.Op
				if lc.isLimit(x) {
					x, y, op = y, x, flip(op)
				}
				if !lc.isLimit(y) || (op != token.LEQ && op != token.LSS) {
					continue
				}
				// the checked quantity involves len(data) whichever way it was computed: for a
				// join (phi) every incoming value must (seed C10h substituted a declared size on
				// one edge, so that the running total was no longer what is compared)
				var involves func(v ssa.Value, depth int) bool
				involves = func(v ssa.Value, depth int) bool {
					if ph, isPhi := strip(v).(*ssa.Phi); isPhi && depth < 4 {
						for _, e := range ph.Edges {
							if !involves(e, depth+1) {
								return false
							}
						}
						return len(ph.Edges) > 0
					}
					for _, l := range Origins(v) {
						if l.Kind == "call" && CalleeName(l.Call) == "builtin len" && isLenOf(l.V, data) {
							return true
						}
					}
					return false
				}
				involvesLen := involves(x, 0)
				// ... and what the buffer already holds (seed C08m judged each Write by itself: a
				// message handed over in several Writes, each within the limit, was collected whole)
				involvesHeld := false
				bufPath := PathOf(call.Common().Args[0])
				for _, l := range Origins(x) {
					if l.Kind == "call" && IsCallTo(l.Call, "(*bytes.Buffer).Len") && PathOf(l.Call.Common().Args[0]) == bufPath {
						involvesHeld = true
					}
				}
				if involvesLen && !involvesHeld {
					partial = "the comparison with the limit looks at the incoming bytes only, not at what the buffer already holds: a message delivered in several Writes is collected without bound"
				}
				if involvesLen && involvesHeld {
					how = "dominating check: size of incoming data (plus what is buffered) <= limit"
					if f.If != nil {
						exceedChecks = append(exceedChecks, f.If)
					}
				}
			}
			// (ii) bounded counter
			if how == "" {
				var cnt ssa.Value
				if sl, ok := arg.(*ssa.Slice); ok && sl.High != nil {
					cnt = sl.High
				} else {
					for _, f := range FactsAt(call.Block()) {
						if cmp, ok := f.AsCmp(); ok && cmp.Op == token.LSS && isLenOf(cmp.X, data) {
							cnt = cmp.Y
						}
					}
				}
				if cnt != nil {
					okCnt := true
					nFld := 0
					for _, l := range Origins(cnt) {
						switch {
						case l.Kind == "load" && l.Field != nil && isIntegerLike(l.Field.Type()):
							nFld++
							if !counterBounded(p, lc, l.Field) {
								okCnt = false
							}
						case l.Kind == "call" && IsCallTo(l.Call, "(*bytes.Buffer).Len"):
						case l.Kind == "const":
						default:
							okCnt = false
						}
					}
					if okCnt && nFld > 0 {
						how = "amount limited by a byte counter all of whose stores are constants or checked against the limit"
					}
				}
			}
			if how == "" && partial != "" {
				c.Bad("C10.3", FuncName(fn), "append-handler-bytes", call.Pos(), partial)
				continue
			}
			c.Check(how != "", "C10.3", FuncName(fn), "append-handler-bytes", call.Pos(), how,
				"handler-supplied bytes are appended to a buffer without a dominating comparison with the message limit and outside a bounded byte counter: a backend can make the transcoder buffer without bound")
		}
	}
	// pooled buffer installed behind an io.Writer field
	for _, fn := range p.Funcs {
		if !p.inScope(fn) {
			continue
		}
		for _, w := range FieldWrites(fn) {
			if !isNamed(w.Field.Type(), "io", "Writer") || w.Fresh {
				continue
			}
			mi, ok := w.Store.Val.(*ssa.MakeInterface)
			if !ok || !isPtrTo(mi.X.Type(), "bytes", "Buffer") {
				continue
			}
			c.CountSite()
			// a length checked against the limit dominates the installation
			okChk := false
			for _, f := range FactsAt(w.Store.Block()) {
				cmp, ok := f.AsCmp()
				if ok && (cmp.Op == token.LEQ || cmp.Op == token.LSS) && lc.isLimit(cmp.Y) {
					okChk = true
					if f.If != nil {
						exceedChecks = append(exceedChecks, f.If)
					}
				}
			}
			c.Check(okChk, "C10.3", FuncName(fn), "buffer-behind-writer:"+N(w.Field), w.Store.Pos(),
				"a raw buffer becomes the write sink only after the announced size was checked against the limit", "a raw pooled buffer is installed as write sink without a dominating limit check: what is written to it is unbounded")
		}
	}

	// ---------------------------------------------------------------- C10.4
	c.Rule("C10.4", "exceeding the limit is resource_exhausted", 3)
	var rex constant.Value
	for _, pk := range p.RootPkg.Types.Imports() {
		if pk.Path() == "connectrpc.com/connect" {
			if k, ok := pk.Scope().Lookup("CodeResourceExhausted").(*types.Const); ok {
				rex = k.Val()
			}
		}
	}
	// the limit-error constructors are found by role: what a limit check's exceeding edge calls.
	// Each must build (itself or through a helper) connect.NewError(CodeResourceExhausted, ...)
	// and nothing with another code.
	var buildsRex func(fn *ssa.Function, depth int) bool
	buildsRex = func(fn *ssa.Function, depth int) bool {
		if fn == nil || depth > 3 || len(fn.Blocks) == 0 {
			return false
		}
		n, ok := 0, true
		for _, call := range Calls(fn) {
			if IsCallTo(call, "connectrpc.com/connect.NewError") {
				n++
				k, isK := call.Common().Args[0].(*ssa.Const)
				if !isK || rex == nil || k.Value == nil || !constant.Compare(k.Value, token.EQL, rex) {
					ok = false
				}
				continue
			}
			for _, cal := range p.CalleesAt(call) {
				if p.inScope(cal) && cal.Signature.Results().Len() == 1 && isErrorType(cal.Signature.Results().At(0).Type()) {
					if buildsRex(cal, depth+1) {
						n++
					} else {
						ok = false
					}
				}
			}
		}
		return ok && n > 0
	}
	for _, name := range []string{"bufferLimitError", "contentLengthError"} {
		fn := p.MustFunc(name)
		c.Check(buildsRex(fn, 0), "C10.4", name, "code-resource-exhausted", fn.Pos(),
			"the limit error is built (directly or through its helper) as connect.NewError(CodeResourceExhausted, ...)", name+" does not build a resource_exhausted error")
	}
	seen := map[*ssa.If]bool{}
	for _, iff := range exceedChecks {
		if seen[iff] {
			continue
		}
		seen[iff] = true
		fn := iff.Parent()
		// on one of the two edges (the exceeding one) a limit error is constructed
		okErr := false
		for _, succ := range iff.Block().Succs {
			for _, in := range succ.Instrs {
				if ci, ok := in.(ssa.CallInstruction); ok {
					for _, cal := range p.CalleesAt(ci) {
						switch FuncName(cal) {
						case "bufferLimitError", "contentLengthError", "(*hardLimitReader).error":
							okErr = true
						default:
							if p.inScope(cal) && cal.Signature.Results().Len() == 1 && isErrorType(cal.Signature.Results().At(0).Type()) && buildsRex(cal, 0) {
								okErr = true
							}
						}
					}
				}
			}
		}
		c.Check(okErr, "C10.4", FuncName(fn), "exceed-edge-error", iff.Pos(),
			"the exceeding edge constructs the size-limit error", "a limit check's exceeding edge does not construct the size-limit (resource_exhausted) error")
	}

	// ---------------------------------------------------------------- C10.7
	// (defect D30) The limit also bounds the RE-ENCODED form of a request message.  Wherever the
	// re-encoding reader takes the message's send buffer, every path to a successful return passes
	// a comparison of that buffer's length with the limit - whether or not the target's protocol
	// wraps the message in an envelope.
	c.Rule("C10.7", "the re-encoded request message is compared with the limit on every path before it is handed on", 1)
	{
		trT := types.NewPointer(p.MustNamed("transformingReader"))
		msgPT := types.NewPointer(p.MustNamed("message"))
		sendBuf := p.MethodOf(msgPT, "sendBuffer")
		if sendBuf == nil {
			fatalf("anchor=message.sendBuffer not found")
		}
		nSB := 0
		for _, fn := range p.Funcs {
			top := fn
			for top.Parent() != nil {
				top = top.Parent()
			}
			if top.Signature.Recv() == nil || !types.Identical(top.Signature.Recv().Type(), trT) {
				continue
			}
			for _, call := range Calls(fn) {
				isSB := false
				for _, cal := range p.CalleesAt(call) {
					if cal == sendBuf {
						isSB = true
					}
				}
				if !isSB {
					continue
				}
				nSB++
				bufV := call.Value()
				// the If that compares Len() of this buffer (or of the field it was stored to) with a limit
				isLimitCmp := func(in ssa.Instruction) bool {
					iff, ok := in.(*ssa.If)
					if !ok {
						return false
					}
					b, ok := iff.Cond.(*ssa.BinOp)
					if !ok {
						return false
					}
					for _, side := range [][2]ssa.Value{{b.X, b.Y}, {b.Y, b.X}} {
						lenSide, limSide := side[0], side[1]
						bb := bufferOfLen(lenSide)
						if bb == nil {
							// a local that holds buf.Len()
							for _, l := range Origins(lenSide) {
								if l.Kind == "call" && IsCallTo(l.Call, "(*bytes.Buffer).Len") {
									bb = l.Call.Common().Args[0]
								}
							}
						}
						if bb == nil {
							continue
						}
						same := bb == bufV
						if !same {
							// stored into a field and re-loaded
							if f := LoadedField(bb); f != nil {
								for _, st := range StoresToField(fn, f) {
									if st.Val == bufV {
										same = true
									}
								}
							}
						}
						if same && lc.isLimit(limSide) {
							return true
						}
					}
					return false
				}
				ei := errorResultIndex(fn.Signature)
				okExit := func(in ssa.Instruction) bool {
					ret, ok := in.(*ssa.Return)
					if !ok {
						return false
					}
					if ei < 0 {
						return true
					}
					rv := ReturnValues(ret)
					return ei < len(rv) && IsNilConst(rv[ei])
				}
				found, path := PathQuery{Target: okExit, Avoid: isLimitCmp}.Search(fn, call)
				c.Check(!found, "C10.7", FuncName(fn), "reencoded-size-checked", call.Pos(),
					"every successful path after taking the send buffer compares its length with the message limit",
					"the re-encoded message can be handed on without its size being compared with the limit ("+witnessString(p, path)+"): a request that grows beyond the limit when re-encoded is delivered to the backend (for un-enveloped targets)")
			}
		}
		if nSB == 0 {
			c.Bad("C10.7", "transformingReader", "reencoded-size-checked", token.NoPos, "the re-encoding reader never takes the message's send buffer: shape changed")
		}
	}

	// ---------------------------------------------------------------- C10.8
	// (defect D61) In the message pipeline the re-encoded form of a message exists between the
	// encode helper and the compress helper.  Its size can be many times the size of either wire
	// form (protobuf -> JSON), and once it is compressed again the callers only see the small
	// compressed buffer.  So on every path from the encode helper's call to the compress helper's
	// call (or to the end of the stage transition) the message buffer's length is compared with a
	// limit value - whether the re-encoded form counts must not depend on whether the peer
	// compressed.
	c.Rule("C10.8", "the re-encoded form of a message is compared with the limit before it is compressed again", 1)
	{
		msgPT := types.NewPointer(p.MustNamed("message"))
		adv := p.MethodOf(msgPT, "advanceToStage")
		enc := p.MethodOf(msgPT, "encode")
		cmpr := p.MethodOf(msgPT, "compress")
		bufF := p.MustField("message", "buf")
		if adv == nil || enc == nil || cmpr == nil {
			fatalf("anchor=message.advanceToStage/encode/compress not found")
		}
		nEnc := 0
		for _, fn := range p.Family(adv) {
			for _, call := range Calls(fn) {
				if call.Common().StaticCallee() != enc {
					continue
				}
				nEnc++
				isLimitCmp := func(in ssa.Instruction) bool {
					iff, ok := in.(*ssa.If)
					if !ok {
						return false
					}
					b, ok := iff.Cond.(*ssa.BinOp)
					if !ok {
						return false
					}
					for _, side := range [][2]ssa.Value{{b.X, b.Y}, {b.Y, b.X}} {
						lenSide, limSide := side[0], side[1]
						isMsgLen := false
						for _, l := range Origins(lenSide) {
							if l.Kind == "call" && IsCallTo(l.Call, "(*bytes.Buffer).Len") && LoadedField(l.Call.Common().Args[0]) == bufF {
								isMsgLen = true
							}
						}
						if isMsgLen && lc.isLimit(limSide) {
							return true
						}
					}
					return false
				}
				isNext := func(in ssa.Instruction) bool {
					if ci, ok := in.(ssa.CallInstruction); ok && ci.Common().StaticCallee() == cmpr {
						return true
					}
					// the transition completes without compression
					if ret, ok := in.(*ssa.Return); ok {
						rv := ReturnValues(ret)
						return len(rv) == 1 && IsNilConst(rv[0])
					}
					return false
				}
				found, path := PathQuery{Target: isNext, Avoid: isLimitCmp}.Search(fn, call)
				c.Check(!found, "C10.8", FuncName(fn), "reencoded-form-checked-before-compression", call.Pos(),
					"every path from the encode helper to the compress helper (or to the completed transition) compares the message buffer's length with the limit",
					"the re-encoded form of a message (which can be many times the wire size) is compressed again / handed on without its size being compared with the limit ("+witnessString(p, path)+"): afterwards only the small compressed buffer is seen, so a message whose re-encoded form exceeds the limit is accepted exactly when the peer compressed")
			}
		}
		if nEnc == 0 {
			c.Bad("C10.8", FuncName(adv), "reencoded-form-checked-before-compression", adv.Pos(), "the stage transition never calls the encode helper: shape changed")
		}
	}

	// ---------------------------------------------------------------- C10.9
	// (defect D62) The error of a limit-enforcing decompression is a resource_exhausted error.  Where
	// such an error is wrapped into a new error of another (constant) code, the wrapping happens
	// only on edges that know it is NOT the limit error (errors.As failed, or its code is not
	// CodeResourceExhausted) - otherwise 'message too large' reaches the client as 'internal'.
	c.Rule("C10.9", "an error that may be the limit error is not re-labelled with another code", 1)
	{
		isCtor := func(cal *ssa.Function) bool {
			return cal != nil && p.inScope(cal) && cal.Signature.Results().Len() == 1 && isErrorType(cal.Signature.Results().At(0).Type()) && buildsRex(cal, 0)
		}
		// functions whose error result may be a limit error: they return what a limit-error
		// constructor made, or what another such function returned (fixpoint)
		mayLimit := map[*ssa.Function]bool{}
		for changed := true; changed; {
			changed = false
			for _, fn := range p.Funcs {
				if mayLimit[fn] || !p.inScope(fn) || isCtor(fn) {
					continue
				}
				ei := errorResultIndex(fn.Signature)
				if ei < 0 {
					continue
				}
				hit := false
				ForEachInstr(fn, func(in ssa.Instruction) {
					ret, ok := in.(*ssa.Return)
					if !ok || hit {
						return
					}
					rv := ReturnValues(ret)
					if ei >= len(rv) {
						return
					}
					for _, l := range Origins(rv[ei]) {
						if l.Kind != "call" {
							continue
						}
						sc := l.Call.Common().StaticCallee()
						if sc != nil && (isCtor(sc) || mayLimit[sc]) {
							hit = true
						}
					}
				})
				if hit {
					mayLimit[fn] = true
					changed = true
				}
			}
		}
		// wrappers: module functions that re-label their error argument with a constant other code
		wrapperCode := func(cal *ssa.Function) (int64, int, bool) {
			if cal == nil || !p.inScope(cal) || len(cal.Blocks) != 1 {
				return 0, 0, false
			}
			for _, call := range Calls(cal) {
				if !IsCallTo(call, "connectrpc.com/connect.NewError", "connectrpc.com/connect.NewWireError") {
					continue
				}
				k, isK := ConstInt(call.Common().Args[0])
				if !isK {
					continue
				}
				for i, pr := range cal.Params {
					if strip(call.Common().Args[1]) == ssa.Value(pr) {
						return k, i, true
					}
				}
			}
			return 0, 0, false
		}
		nWrap := 0
		for _, fn := range SortedFuncs(reach) {
			if !p.inScope(fn) {
				continue
			}
			for _, dc := range Calls(fn) {
				sc := dc.Common().StaticCallee()
				if sc == nil || !(N(sc) == "decompressLimited" || mayLimit[sc] || isCtor(sc)) {
					continue
				}
				errV := dc.Value()
				if errV == nil {
					continue
				}
				var errVals []ssa.Value
				if tup, isTup := errV.Type().(*types.Tuple); isTup {
					for _, ref := range *errV.Referrers() {
						if ex, isEx := ref.(*ssa.Extract); isEx && isErrorType(tup.At(ex.Index).Type()) {
							errVals = append(errVals, ex)
						}
					}
				} else if isErrorType(errV.Type()) {
					errVals = append(errVals, errV)
				}
				if len(errVals) == 0 {
					continue
				}
				fromErr := func(v ssa.Value) bool {
					seen := map[ssa.Value]bool{}
					var walk func(v ssa.Value, d int) bool
					walk = func(v ssa.Value, d int) bool {
						if d > 6 || seen[v] {
							return false
						}
						seen[v] = true
						for _, ev := range errVals {
							if v == ev {
								return true
							}
						}
						switch x := v.(type) {
						case *ssa.Call:
							if IsCallTo(x, "fmt.Errorf", "errors.Join") {
								for _, a := range x.Call.Args {
									if walk(a, d+1) {
										return true
									}
								}
							}
						case *ssa.Slice:
							return walk(x.X, d+1)
						case *ssa.Alloc:
							for _, st := range storesToElems(x) {
								if walk(st, d+1) {
									return true
								}
							}
						case *ssa.MakeInterface:
							return walk(x.X, d+1)
						case *ssa.ChangeInterface:
							return walk(x.X, d+1)
						case *ssa.Phi:
							for _, e := range x.Edges {
								if walk(e, d+1) {
									return true
								}
							}
						}
						return false
					}
					return walk(v, 0)
				}
				for _, nc := range Calls(fn) {
					var code int64
					var wrapped ssa.Value
					switch {
					case IsCallTo(nc, "connectrpc.com/connect.NewError", "connectrpc.com/connect.NewWireError"):
						k, isK := ConstInt(nc.Common().Args[0])
						if !isK {
							continue
						}
						code, wrapped = k, nc.Common().Args[1]
					default:
						k, ai, isW := wrapperCode(nc.Common().StaticCallee())
						if !isW || ai >= len(nc.Common().Args) {
							continue
						}
						code, wrapped = k, nc.Common().Args[ai]
					}
					if code == 8 /* CodeResourceExhausted */ || !fromErr(wrapped) {
						continue
					}
					// the wrapper's result must matter: skip when it is the constructor's own caller chain
					nWrap++
					edgeKnows := func(fs []Fact) bool {
						for _, f := range fs {
							if ic, ok := f.Cond.(*ssa.Call); ok && IsCallTo(ic, "errors.As") && !f.Truth {
								return true
							}
							if cmp, ok := f.AsCmp(); ok {
								if kk, isKK := ConstInt(cmp.Y); isKK && kk == 8 && cmp.Op == token.NEQ {
									return true
								}
							}
						}
						return false
					}
					var blockKnows func(b *ssa.BasicBlock, depth int) bool
					blockKnows = func(b *ssa.BasicBlock, depth int) bool {
						if edgeKnows(FactsAt(b)) {
							return true
						}
						if depth > 6 || len(b.Preds) == 0 || b == dc.Block() {
							return false
						}
						for _, pr := range b.Preds {
							if !edgeKnows(FactsOnEdge(pr, b)) && !blockKnows(pr, depth+1) {
								return false
							}
						}
						return true
					}
					ok := blockKnows(nc.Block(), 0)
					c.Check(ok, "C10.9", FuncName(fn), "limit-error-keeps-its-code", nc.Pos(),
						"the error is wrapped into another code only where it is known not to be the limit error",
						"an error that may be the limit error (it comes from "+CalleeName(dc)+") is wrapped into a new error with another code without excluding the limit error first: exceeding the message limit then ends the RPC with that other code instead of resource_exhausted")
				}
			}
		}
		if nWrap == 0 {
			c.OK("C10.9", "package", "limit-error-keeps-its-code", token.NoPos, "no error that may be the limit error is wrapped into an error of another code")
		}
	}

	// ---------------------------------------------------------------- C10.10
	// (defect D63) A Connect GET carries its message in the query string.  Before those bytes are
	// decompressed / decoded they are compared with the message limit, as the bytes of a POST body
	// are while they are read - otherwise GET and POST disagree about which messages exist.
	c.Rule("C10.10", "a message taken from the query string is compared with the message limit before it is decoded", 1)
	{
		cbp := p.Iface("clientBodyPreparer")
		nGet := 0
		for _, t := range p.Implementers(cbp) {
			m := p.MethodOf(t, "prepareUnmarshalledRequest")
			if m == nil {
				continue
			}
			for _, fn := range p.Family(m) {
				// the function, or a module helper it calls, takes the message from the query
				usesQuery := false
				for _, call := range Calls(fn) {
					sc := call.Common().StaticCallee()
					if sc == nil {
						continue
					}
					if N(sc) == "queryValues" {
						usesQuery = true
					}
					if p.inModule(sc) && sc != fn {
						for _, inner := range Calls(sc) {
							if isc := inner.Common().StaticCallee(); isc != nil && N(isc) == "queryValues" {
								usesQuery = true
							}
						}
					}
				}
				if !usesQuery {
					continue
				}
				for _, call := range Calls(fn) {
					cc := call.Common()
					if !cc.IsInvoke() || N(cc.Method) != "Unmarshal" {
						continue
					}
					// only where the decoded bytes come from the query (not from the request body parameter)
					fromParam := false
					for _, l := range Origins(cc.Args[0]) {
						if l.Kind == "param" {
							fromParam = true
						}
					}
					if fromParam {
						continue
					}
					nGet++
					isLimitCmp := func(in ssa.Instruction) bool {
						iff, ok := in.(*ssa.If)
						if !ok {
							return false
						}
						b, ok := iff.Cond.(*ssa.BinOp)
						if !ok {
							return false
						}
						for _, side := range [][2]ssa.Value{{b.X, b.Y}, {b.Y, b.X}} {
							isLen := false
							for _, l := range Origins(side[0]) {
								if l.Kind == "call" && IsCallTo(l.Call, "builtin len") {
									isLen = true
								}
							}
							if _, isConst := strip(side[1]).(*ssa.Const); isLen && !isConst && lc.isLimit(side[1]) {
								return true
							}
						}
						return false
					}
					found, path := PathQuery{Target: func(in ssa.Instruction) bool { return in == ssa.Instruction(call) }, Avoid: isLimitCmp}.Search(fn, nil)
					c.Check(!found, "C10.10", FuncName(fn), "query-message-within-limit", call.Pos(),
						"every path to the decoding of the query's message compares its length with the message limit",
						"the message of a GET is decoded from the query string without its length being compared with the message limit ("+witnessString(p, path)+"): a message that a POST refuses with resource_exhausted is accepted as a GET")
				}
			}
		}
		if nGet == 0 {
			c.Bad("C10.10", "clientBodyPreparer", "query-message-within-limit", token.NoPos, "no decoding of a message taken from the query string found: shape changed")
		}
	}

	// ---------------------------------------------------------------- C10.11
	// (defect D65) The configured limit bounds what may be BUFFERED, and its default is 4 GiB.  A
	// size a peer merely ANNOUNCES (an envelope's length field, a Content-Length) costs the peer
	// five bytes; allocating it up front lets a 7-byte request take gigabytes (and minutes of
	// zeroing) before the first payload byte arrives.  So a buffer is pre-sized only from data the
	// transcoder already holds (len of a slice/string, Len of a buffer, an encoded length of
	// those), or through min(announced, <constant>).
	c.Rule("C10.11", "buffers are pre-sized from sizes already held, or from an announced size capped by a constant", 4)
	{
		held := func(v ssa.Value) bool {
			ls := Origins(v)
			if len(ls) == 0 {
				return false
			}
			for _, l := range ls {
				switch {
				case l.Kind == "const":
				case l.Kind == "call" && IsCallTo(l.Call, "builtin len", "(*bytes.Buffer).Len", "(*encoding/base64.Encoding).EncodedLen", "(*encoding/base64.Encoding).DecodedLen", "strings.Count", "bytes.Count"):
				default:
					return false
				}
			}
			return true
		}
		capped := func(v ssa.Value) bool {
			v = strip(v)
			if cv, ok := v.(*ssa.Convert); ok {
				v = strip(cv.X)
			}
			call, ok := v.(*ssa.Call)
			if !ok || !IsCallTo(call, "builtin min") {
				return false
			}
			for _, a := range call.Call.Args {
				if k, isK := ConstInt(a); isK && k <= 1<<24 {
					return true
				}
			}
			return false
		}
		nGrow := 0
		for _, fn := range SortedFuncs(reach) {
			if !p.inScope(fn) {
				continue
			}
			ord := map[string]int{}
			for _, call := range Calls(fn) {
				if !IsCallTo(call, "(*bytes.Buffer).Grow", "(*strings.Builder).Grow") {
					continue
				}
				nGrow++
				n := call.Common().Args[1]
				construct := "pre-size"
				ord[construct]++
				if ord[construct] > 1 {
					construct += "|#" + itoa(ord["pre-size"])
				}
				switch {
				case held(n):
					c.OK("C10.11", FuncName(fn), construct, call.Pos(), "pre-sized from the length of data already held")
				case capped(n):
					c.OK("C10.11", FuncName(fn), construct, call.Pos(), "pre-sized from an announced size through min(.., constant)")
				default:
					c.Bad("C10.11", FuncName(fn), construct, call.Pos(),
						"a buffer is pre-sized from a size that a peer announced (an envelope length, a Content-Length, or the configured limit whose default is 4 GiB) without a constant cap: five bytes of input make the transcoder allocate and zero gigabytes before any payload arrives - minutes of stall or an out-of-memory crash that takes every other RPC with it")
				}
			}
		}
		if nGrow == 0 {
			c.Bad("C10.11", "package", "pre-size", token.NoPos, "no buffer pre-sizing found: shape changed")
		}
	}

	// ---------------------------------------------------------------- C10.6
	// The limit-enforcing reader tells 'exactly the limit' from 'more than the limit' by letting
	// the source deliver one byte more.  It must never end the stream on its own: a synthesised
	// io.EOF at 'limit bytes consumed' silently truncates a longer body whenever a chunk
	// boundary happens to fall on the limit.
	c.Rule("C10.6", "the limit-enforcing reader ends the stream only when its source does", 1)
	{
		hlr := p.MustNamed("hardLimitReader")
		rd := p.MethodOf(types.NewPointer(hlr), "Read")
		if rd == nil {
			fatalf("anchor=hardLimitReader.Read not found")
		}
		var synth []string
		nRet := 0
		ForEachInstr(rd, func(in ssa.Instruction) {
			ret, ok := in.(*ssa.Return)
			if !ok || ret.Block() == rd.Recover {
				return
			}
			rv := ReturnValues(ret)
			if len(rv) != 2 {
				return
			}
			nRet++
			for _, l := range Origins(rv[1]) {
				if l.Kind == "global" {
					if g, ok := l.V.(*ssa.Global); ok && g.Pkg != nil && g.Pkg.Pkg.Path() == "io" && g.Name() == "EOF" {
						synth = append(synth, p.Pos(ret.Pos()))
					}
				}
			}
		})
		c.Check(len(synth) == 0 && nRet > 0, "C10.6", FuncName(rd), "no-synthesised-eof", rd.Pos(),
			"every error the reader returns is its source's own or the limit error; it never produces io.EOF itself",
			"the limit-enforcing reader returns io.EOF of its own ("+joinStr(synth)+"): once exactly 'limit' bytes were consumed the rest of a longer body is cut off silently instead of being rejected - depending on where the chunk boundaries fall")
	}

	// ---------------------------------------------------------------- C10.5
	// The resource_exhausted error must reach the client: wherever a limit error is constructed at
	// request time it is handed to a reporter, or returned to the caller (whose handling C09.4
	// checks).  Parking it in an adapter's error cell alone makes the backend's write fail but
	// tells the client nothing (defect D18: a declared Content-Length above the limit produced an
	// empty successful response).
	c.Rule("C10.5", "a constructed limit error is reported to the client or returned, never only stored", 5)
	isLimitCtor := func(cal *ssa.Function) bool {
		return cal != nil && p.inScope(cal) && cal.Signature.Results().Len() == 1 && isErrorType(cal.Signature.Results().At(0).Type()) && buildsRex(cal, 0)
	}
	reporters := map[*ssa.Function]bool{}
	for _, n := range []string{"(*responseWriter).reportError", "(*operation).reportError", "(*responseWriter).reportEnd"} {
		if f := p.Func(n); f != nil {
			reporters[f] = true
		}
	}
	// functions that only ever run under the backend's read of the request body
	var bodyReads []*ssa.Function
	for _, ra := range readerAdapters(p) {
		bodyReads = append(bodyReads, ra.read)
	}
	underBodyRead := func(fn *ssa.Function) bool {
		for _, rd := range bodyReads {
			if p.OnlyCalledWithin(fn, rd) {
				return true
			}
		}
		return false
	}
	reach = p.RequestTimeReach()
	for _, fn := range p.Funcs {
		if !reach[fn] || !p.inScope(fn) || isLimitCtor(fn) {
			continue
		}
		for _, call := range Calls(fn) {
			cv, ok := call.(*ssa.Call)
			if !ok {
				continue
			}
			// a constructor: a static callee that always returns a (non-nil) resource_exhausted error
			if sc := call.Common().StaticCallee(); sc == nil || !isLimitCtor(sc) || !NeverNilError(cv, 0) {
				continue
			}
			c.CountSite()
			reported, returned := false, false
			seenV := map[ssa.Value]bool{}
			var follow func(v ssa.Value, depth int)
			follow = func(v ssa.Value, depth int) {
				if seenV[v] || depth > 4 {
					return
				}
				seenV[v] = true
				for _, ref := range *v.Referrers() {
					switch r := ref.(type) {
					case *ssa.Return:
						returned = true
					case ssa.CallInstruction:
						for _, cal := range p.CalleesAt(r) {
							if reporters[cal] {
								reported = true
							}
						}
					case *ssa.Phi:
						follow(r, depth+1)
					case *ssa.MakeInterface:
						follow(r, depth+1)
					case *ssa.ChangeInterface:
						follow(r, depth+1)
					case *ssa.Store:
						// a named result / local spilled to memory: follow its loads
						if al, isAl := r.Addr.(*ssa.Alloc); isAl {
							for _, ar := range *al.Referrers() {
								if ld, isLd := ar.(*ssa.UnOp); isLd && ld.Op == token.MUL {
									follow(ld, depth+1)
								}
							}
						}
					}
				}
			}
			follow(cv, 0)
			// An error returned from code that only ever runs under the backend's read of the
			// request body ends up in the backend handler's hands, not the client's: there it must
			// be reported as well (by this function, or by the caller that receives it).
			if !reported && returned && underBodyRead(fn) {
				viaCaller := len(p.Callers(fn)) > 0
				for _, e := range p.Callers(fn) {
					if e.Kind != "static" {
						viaCaller = false
						continue
					}
					repInCaller := false
					if cv2, ok := e.Site.(*ssa.Call); ok {
						saveRep, saveRet := reported, returned
						reported, returned = false, false
						seenV = map[ssa.Value]bool{}
						follow(cv2, 0)
						repInCaller = reported
						reported, returned = saveRep, saveRet
					}
					if !repInCaller {
						viaCaller = false
					}
				}
				if !viaCaller {
					returned = false
				}
			}
			c.Check(reported || returned, "C10.5", FuncName(fn), "limit-error-reaches-client", call.Pos(),
				"the limit error is passed to a reporter or returned to the caller",
				"a resource_exhausted error is constructed but neither reported nor returned (only stored): the client is not told that the message exceeded the limit")
		}
	}
}

// counterBounded: every store to the counter field (outside Close methods) is a
// constant, derives from the counter itself, or is checked against the limit.
func counterBounded(p *Prog, lc *limCtx, fld *types.Var) bool {
	key := "cb|" + fieldOwner(fld, p) + "." + N(fld)
	if v, ok := p.memo[key]; ok {
		return v.(bool)
	}
	all := true
	n := 0
	for _, fn := range p.Funcs {
		for _, st := range StoresToField(fn, fld) {
			n++
			if baseFresh(st.Addr.(*ssa.FieldAddr).X) {
				continue
			}
			ok := true
			for _, l := range Origins(st.Val) {
				switch {
				case l.Kind == "const":
				case l.Kind == "load" && l.Field == fld:
				case l.Kind == "load" && lc.checkedAt(l.V, st.Block()):
				case l.Kind == "call" && IsCallTo(l.Call, "(*bytes.Buffer).Len"):
				case l.Kind == "other" || l.Kind == "call":
					// n returned by a write: only ever subtracted
					sub := false
					for _, op := range l.Ops {
						if op == token.SUB {
							sub = true
						}
					}
					if !sub {
						ok = false
					}
				default:
					if !lc.bounded(st.Val, st.Block()) {
						ok = false
					}
				}
			}
			if !ok && !lc.bounded(st.Val, st.Block()) {
				all = false
			}
		}
	}
	res := all && n > 0
	p.memo[key] = res
	return res
}

// storesToElems: values stored into the elements of a local array (a variadic argument list).
func storesToElems(al *ssa.Alloc) []ssa.Value {
	var out []ssa.Value
	if al.Referrers() == nil {
		return nil
	}
	for _, ref := range *al.Referrers() {
		ia, ok := ref.(*ssa.IndexAddr)
		if !ok || ia.Referrers() == nil {
			continue
		}
		for _, rr := range *ia.Referrers() {
			if st, ok := rr.(*ssa.Store); ok && st.Addr == ssa.Value(ia) {
				out = append(out, st.Val)
			}
		}
	}
	return out
}

package vg

import (
	"go/token"
	"go/types"
	"strings"

	"golang.org/x/tools/go/ssa"
)

func init() {
	register(&PropertySpec{
		ID: "C17",
		Explanation: "Decides: (C17.1) NewTranscoder returns either (nil, error) or (transcoder, nil), and inside everything reachable from it every error result of a module function is tested and, on the non-nil edge, leads only to returns of a non-nil error (no configuration error is swallowed) wherever the caller itself can return an error; " +
			"(C17.2) the validations the property lists exist as error edges: unknown codec / compressor name, empty protocol / codec set, duplicate method, duplicate route, selector that applied to no method (with the flag reset for every rule), REST-only service without bindings (evaluated after rule registration), repeated field as path variable, wildcard selector not at a name boundary; " +
			"(C17.3) a rule is recorded for a method only on paths where the method name equals the selector, or the selector was a wildcard and the name has the selector's prefix; " +
			"(C17.4) per-service options start from a copy of the defaults made anew for every service, service options are applied after the defaults, and option setters replace the shared maps with fresh ones instead of mutating them. " +
			"Not decided: that the accept/reject boundary is exactly right for all configurations, reachability of every accepted binding by URL.",
		Run: runC17,
	})
}

func errorResultIndex(sig *types.Signature) int {
	res := sig.Results()
	for i := res.Len() - 1; i >= 0; i-- {
		if types.Identical(res.At(i).Type(), types.Universe.Lookup("error").Type()) {
			return i
		}
	}
	return -1
}

// succReturnsOnlyErrors: every return reachable from the successor block yields a
// non-nil-constant error (and at least one return is reachable without leaving
// through a loop back into normal processing).
func succReturnsOnlyErrors(fn *ssa.Function, b *ssa.BasicBlock, ei int) (bool, []ssa.Instruction) {
	if len(b.Instrs) == 0 {
		return false, nil
	}
	badReturn := func(in ssa.Instruction) bool {
		ret, ok := in.(*ssa.Return)
		if !ok {
			return false
		}
		rv := ReturnValues(ret)
		return ei < len(rv) && IsNilConst(rv[ei])
	}
	// search from the very first instruction of b
	first := b.Instrs[0]
	if badReturn(first) {
		return false, []ssa.Instruction{first}
	}
	found, path := PathQuery{Target: badReturn}.Search(fn, first)
	return !found, path
}

// runC17Wildcard: C17.5.  A template with anything after a '**' is invalid (the trie lets '**'
// swallow the rest of the path, so what follows could never be reached).  The parser notes '**'
// in a flag when a segment is parsed; every iteration that goes on to parse a further segment
// must test that flag and fail.
func runC17Wildcard(c *Ctx) {
	p := c.P
	c.Rule("C17.5", "no path segment can follow a double wildcard: each further-segment iteration tests the seen-'**' flag and errors", 1)
	flag := p.MustField("pathParser", "seenDoubleStar")
	// the segment parser: the function that sets the flag
	var segParsers []*ssa.Function
	for _, fn := range p.Funcs {
		for _, st := range StoresToField(fn, flag) {
			if b, ok := ConstBool(st.Val); ok && b {
				segParsers = append(segParsers, fn)
				break
			}
		}
	}
	if len(segParsers) == 0 {
		c.Bad("C17.5", "pathParser", "flag-set", token.NoPos, "no function records that a double wildcard was seen: shape changed")
		return
	}
	// flagEdge: the If tests the flag; returns the successor index on which the flag is set
	flagEdge := func(in ssa.Instruction) (int, bool) {
		iff, ok := in.(*ssa.If)
		if !ok {
			return 0, false
		}
		cond, neg := iff.Cond, false
		for {
			if u, isU := cond.(*ssa.UnOp); isU && u.Op == token.NOT {
				cond, neg = u.X, !neg
				continue
			}
			break
		}
		if LoadedField(cond) != flag {
			return 0, false
		}
		if neg {
			return 1, true
		}
		return 0, true
	}
	isFlagIf := func(in ssa.Instruction) bool {
		_, ok := flagEdge(in)
		return ok
	}
	nLoops := 0
	for _, fn := range p.Funcs {
		if !p.inScope(fn) {
			continue
		}
		for _, call := range Calls(fn) {
			isSeg := false
			for _, sp := range segParsers {
				if call.Common().StaticCallee() == sp {
					isSeg = true
				}
			}
			if !isSeg {
				continue
			}
			// is the call on a cycle?
			onCycle, _ := PathQuery{Target: func(in ssa.Instruction) bool { return in == ssa.Instruction(call) }}.Search(fn, call)
			if !onCycle {
				continue
			}
			nLoops++
			unguarded, path := PathQuery{Target: func(in ssa.Instruction) bool { return in == ssa.Instruction(call) }, Avoid: isFlagIf}.Search(fn, call)
			c.Check(!unguarded, "C17.5", FuncName(fn), "further-segment-tests-flag", call.Pos(),
				"every way round the segment loop passes the test of the seen-'**' flag",
				"the segment loop can start a further segment without testing whether a '**' was already seen ("+witnessString(p, path)+"): templates like /a/**/** are accepted and their bindings are unreachable")
			ei := errorResultIndex(fn.Signature)
			ForEachInstr(fn, func(in ssa.Instruction) {
				if !isFlagIf(in) || ei < 0 {
					return
				}
				si, _ := flagEdge(in)
				okErr, w := succReturnsOnlyErrors(fn, in.Block().Succs[si], ei)
				c.Check(okErr, "C17.5", FuncName(fn), "flag-edge-errors", in.Pos(),
					"the seen-'**' edge only leads to error returns", "the seen-'**' edge can return success: "+witnessString(p, w))
			})
		}
	}
	if nLoops == 0 {
		c.Bad("C17.5", "pathParser", "segment-loop", token.NoPos, "no loop over path segments found: shape changed")
	}
}

func runC17(c *Ctx) {
	// clause shared with C20: a resolver that does not know a type falls back to dynamic messages however it says not-found
	defer c.ImportRules("C20", "C20.1")
	// clause shared with C15: the route's template is not rewritten by requests
	defer c.ImportRules("C15", "C15.1")
	// clause shared with C20: the configured schema, not a compiled-in namesake, supplies the message types
	defer c.ImportRules("C20", "C20.4")
	p := c.P
	defer runC17RulesAccumulate(c)
	defer runC17VerdictPerItem(c)
	defer runC17NoSharedDefaults(c)
	// clause shared with C06: every accepted binding is reachable (sibling alternatives are tried)
	defer c.ImportRules("C06", "C06.2")
	defer runC17Wildcard(c)
	ctor := p.MustFunc("NewTranscoder")
	reach := p.Reach(ctor)

	// ---------------------------------------------------------------- C17.1
	c.Rule("C17.1", "an error means no transcoder; configuration errors are never swallowed", 10)
	ForEachInstr(ctor, func(in ssa.Instruction) {
		ret, ok := in.(*ssa.Return)
		if !ok || len(ret.Results) != 2 {
			return
		}
		nilT, nilE := IsNilConst(ret.Results[0]), IsNilConst(ret.Results[1])
		c.Check(nilT != nilE, "C17.1", FuncName(ctor), "return-shape", ret.Pos(),
			"returns exactly one of (transcoder) and (error)", "NewTranscoder can return a transcoder together with an error, or neither")
	})
	for _, fn := range SortedFuncs(reach) {
		if !p.inScope(fn) {
			continue
		}
		myErr := errorResultIndex(fn.Signature)
		for _, call := range Calls(fn) {
			callees := p.CalleesAt(call)
			if len(callees) == 0 || call.Common().IsInvoke() {
				// interface invokes are resolver lookups whose failure legitimately selects a fallback
				// (NotFound -> dynamic type; resolver chain): outside the validator set by construction
				continue
			}
			ei := -1
			for _, cal := range callees {
				if p.inScope(cal) {
					if e := errorResultIndex(cal.Signature); e >= 0 {
						ei = e
					}
				}
			}
			if ei < 0 {
				continue
			}
			c.CountSite()
			cv, isCall := call.(*ssa.Call)
			if !isCall {
				c.Bad("C17.1", FuncName(fn), "deferred-error:"+CalleeName(call), call.Pos(), "an error-returning configuration step is deferred or run asynchronously: its error is lost")
				continue
			}
			var errVal ssa.Value
			if cv.Call.Signature().Results().Len() == 1 {
				errVal = cv
			} else {
				for _, ref := range *cv.Referrers() {
					if ex, ok := ref.(*ssa.Extract); ok && ex.Index == ei {
						errVal = ex
					}
				}
			}
			if myErr < 0 {
				c.Exception(FuncName(fn)+" -> "+CalleeName(call), "caller has no error result: a failure selects a fallback by design")
				continue
			}
			if errVal == nil {
				c.Bad("C17.1", FuncName(fn), "error-discarded:"+CalleeName(call), call.Pos(), "the error result of a configuration step is discarded")
				continue
			}
			// returned directly?
			direct := false
			var iff *ssa.If
			var nonNilSucc int
			for _, ref := range *errVal.Referrers() {
				switch r := ref.(type) {
				case *ssa.Return:
					direct = true
				case *ssa.BinOp:
					if (r.Op == token.NEQ || r.Op == token.EQL) && (IsNilConst(r.X) || IsNilConst(r.Y)) {
						for _, rr := range *r.Referrers() {
							if i2, ok := rr.(*ssa.If); ok {
								iff = i2
								if r.Op == token.NEQ {
									nonNilSucc = 0
								} else {
									nonNilSucc = 1
								}
							}
						}
					}
				}
			}
			if direct && iff == nil {
				c.OK("C17.1", FuncName(fn), "error-returned:"+CalleeName(call), call.Pos(), "the error is returned to the caller as is")
				continue
			}
			if iff == nil {
				c.Bad("C17.1", FuncName(fn), "error-untested:"+CalleeName(call), call.Pos(), "the error result of a configuration step is neither tested against nil nor returned")
				continue
			}
			ok, path := succReturnsOnlyErrors(fn, iff.Block().Succs[nonNilSucc], myErr)
			c.Check(ok, "C17.1", FuncName(fn), "error-propagated:"+CalleeName(call), call.Pos(),
				"on the non-nil edge every reachable return yields a non-nil error",
				"on the non-nil edge a return with a nil error is reachable (configuration error swallowed): "+witnessString(p, path))
		}
	}

	// ---------------------------------------------------------------- C17.2
	c.Rule("C17.2", "the listed validations exist as error edges", 9)
	regSvc := p.MustFunc("(*Transcoder).registerService")
	regRules := p.MustFunc("(*Transcoder).registerRules")
	insert := p.MustFunc("(*routeTrie).insert")
	regMethod := p.MustFunc("(*Transcoder).registerMethod")
	makeTarget := p.MustFunc("makeTarget")
	_ = errorResultIndex(regSvc.Signature)
	// (i) unknown names
	for _, pair := range [][2]string{{"codecs", "codec"}, {"compressors", "compressor"}} {
		fld := p.MustField("Transcoder", pair[0])
		found := false
		for _, g := range errorHelpersOf(p, regSvc) {
			g, gEi := g, errorResultIndex(g.Signature)
			ForEachInstr(g, func(in ssa.Instruction) {
				lk, ok := in.(*ssa.Lookup)
				if !ok || !lk.CommaOk || LoadedField(lk.X) != fld {
					return
				}
				for _, ref := range *lk.Referrers() {
					ex, ok := ref.(*ssa.Extract)
					if !ok || ex.Index != 1 {
						continue
					}
					for _, r2 := range *ex.Referrers() {
						if iff, ok := r2.(*ssa.If); ok {
							good, path := succReturnsOnlyErrors(g, iff.Block().Succs[1], gEi)
							found = true
							c.Check(good, "C17.2", FuncName(regSvc), "unknown-"+pair[1]+"-rejected", lk.Pos(),
								"a configured "+pair[1]+" name missing from the transcoder's table is an error",
								"an unknown "+pair[1]+" name does not lead to an error: "+witnessString(p, path))
						}
					}
				}
			})
		}
		if !found {
			c.Bad("C17.2", FuncName(regSvc), "unknown-"+pair[1]+"-rejected", regSvc.Pos(), "no membership test of configured "+pair[1]+" names in the transcoder's table")
		}
	}
	// (ii) empty sets
	for _, fname := range []string{"protocols", "codecNames"} {
		fld := p.MustField("serviceOptions", fname)
		found := false
		for _, g := range errorHelpersOf(p, regSvc) {
			g, gEi := g, errorResultIndex(g.Signature)
			ForEachInstr(g, func(in ssa.Instruction) {
				b, ok := in.(*ssa.BinOp)
				if !ok || b.Op != token.EQL {
					return
				}
				lc, ok := b.X.(*ssa.Call)
				if !ok || CalleeName(lc) != "builtin len" || LoadedFieldAny(lc.Call.Args[0]) != fld {
					return
				}
				if k, isK := ConstInt(b.Y); !isK || k != 0 {
					return
				}
				for _, r := range *b.Referrers() {
					if iff, ok := r.(*ssa.If); ok {
						good, path := succReturnsOnlyErrors(g, iff.Block().Succs[0], gEi)
						found = true
						c.Check(good, "C17.2", FuncName(regSvc), "empty-"+fname+"-rejected", b.Pos(),
							"an empty "+fname+" set is an error", "an empty "+fname+" set does not lead to an error: "+witnessString(p, path))
					}
				}
			})
		}
		if !found {
			c.Bad("C17.2", FuncName(regSvc), "empty-"+fname+"-rejected", regSvc.Pos(), "no test for an empty "+fname+" set")
		}
	}
	// (iii)/(iv) duplicates: the 'exists' edge returns an error
	dupCheck := func(fn *ssa.Function, label string, isTable func(lk *ssa.Lookup) bool) {
		found := false
		ei := errorResultIndex(fn.Signature)
		ForEachInstr(fn, func(in ssa.Instruction) {
			lk, ok := in.(*ssa.Lookup)
			if !ok || !isTable(lk) {
				return
			}
			for _, ref := range *lk.Referrers() {
				var cond ssa.Value
				existsSucc := -1
				switch r := ref.(type) {
				case *ssa.Extract:
					if r.Index == 1 {
						cond, existsSucc = r, 0
					}
				case *ssa.BinOp:
					if r.Op == token.NEQ && IsNilConst(r.Y) {
						cond, existsSucc = r, 0
					} else if r.Op == token.EQL && IsNilConst(r.Y) {
						cond, existsSucc = r, 1
					}
				}
				if cond == nil {
					continue
				}
				for _, r2 := range *cond.Referrers() {
					if iff, ok := r2.(*ssa.If); ok {
						good, path := succReturnsOnlyErrors(fn, iff.Block().Succs[existsSucc], ei)
						found = true
						c.Check(good, "C17.2", FuncName(fn), label, lk.Pos(),
							"an existing entry for the same key is an error", "an existing entry does not lead to an error: "+witnessString(p, path))
					}
				}
			}
		})
		if !found {
			c.Bad("C17.2", FuncName(fn), label, fn.Pos(), "no duplicate test found")
		}
	}
	methodsFld := p.MustField("Transcoder", "methods")
	dupCheck(regMethod, "duplicate-method-rejected", func(lk *ssa.Lookup) bool { return lk.CommaOk && LoadedField(lk.X) == methodsFld })
	dupCheck(insert, "duplicate-route-rejected", func(lk *ssa.Lookup) bool {
		n, ok := lk.X.Type().(*types.Named)
		return ok && N(n.Obj()) == "routeMethods"
	})
	// (v) selector that applied to nothing, flag reset per rule
	{
		ei := errorResultIndex(regRules.Signature)
		var selCall *ssa.Call
		for _, call := range Calls(regRules) {
			if cv, ok := call.(*ssa.Call); ok && cv.Call.StaticCallee() != nil && N(cv.Call.StaticCallee()) == "GetSelector" {
				if selCall == nil || cv.Block().Dominates(selCall.Block()) {
					selCall = cv
				}
			}
		}
		found := false
		ForEachInstr(regRules, func(in ssa.Instruction) {
			iff, ok := in.(*ssa.If)
			if !ok || selCall == nil {
				return
			}
			// condition is a boolean phi of constants (the 'applied' flag), possibly negated
			cond := iff.Cond
			neg := false
			if u, ok := cond.(*ssa.UnOp); ok && u.Op == token.NOT {
				cond, neg = u.X, true
			}
			ph, ok := cond.(*ssa.Phi)
			if !ok || !isBoolFlagPhi(ph) {
				return
			}
			notAppliedSucc := 1
			if neg {
				notAppliedSucc = 0
			}
			good, _ := succReturnsOnlyErrors(regRules, iff.Block().Succs[notAppliedSucc], ei)
			if !good {
				return
			}
			// must be a flag set in the method loop: some phi in its chain has a true edge
			found = true
			c.OK("C17.2", FuncName(regRules), "unapplied-selector-rejected", iff.Pos(), "a rule whose selector applied to no method is an error")
			// reset per rule: no phi of the flag's chain may sit in a block that dominates the per-rule selector read
			carried := false
			seen := map[*ssa.Phi]bool{}
			var walk func(x *ssa.Phi)
			walk = func(x *ssa.Phi) {
				if seen[x] {
					return
				}
				seen[x] = true
				if x.Block() != selCall.Block() && x.Block().Dominates(selCall.Block()) {
					carried = true
				}
				if x.Block() == selCall.Block() {
					carried = true
				}
				for _, e := range x.Edges {
					if pe, ok := e.(*ssa.Phi); ok {
						walk(pe)
					}
				}
			}
			walk(ph)
			c.Check(!carried, "C17.2", FuncName(regRules), "applied-flag-reset-per-rule", iff.Pos(),
				"the 'applied' flag is re-initialised for every rule (no loop-carried value across rules)",
				"the 'applied' flag is carried across rules: once one rule matched, later rules that match nothing are accepted")
		})
		if !found {
			c.Bad("C17.2", FuncName(regRules), "unapplied-selector-rejected", regRules.Pos(), "no error edge for a rule selector that applied to no method")
		}
		// wildcard must be at a name boundary: HasSuffix(x, ".") false edge is an error
		okSuffix := false
		for _, call := range Calls(regRules) {
			cv, ok := call.(*ssa.Call)
			if !ok || !IsCallTo(cv, "strings.HasSuffix") {
				continue
			}
			if s, _ := ConstString(cv.Call.Args[1]); s != "." {
				continue
			}
			for _, ref := range *cv.Referrers() {
				var iff *ssa.If
				failSucc := 1
				switch r := ref.(type) {
				case *ssa.If:
					iff = r
				case *ssa.UnOp:
					for _, r2 := range *r.Referrers() {
						if i2, ok := r2.(*ssa.If); ok {
							iff, failSucc = i2, 0
						}
					}
				}
				if iff != nil {
					if good, _ := succReturnsOnlyErrors(regRules, iff.Block().Succs[failSucc], ei); good {
						okSuffix = true
					}
				}
			}
		}
		c.Check(okSuffix, "C17.2", FuncName(regRules), "wildcard-at-name-boundary", regRules.Pos(),
			"a wildcard selector whose prefix does not end at a '.' is an error", "no error edge for a wildcard selector that does not end at a name boundary")
	}
	// (vi) REST-only without bindings, evaluated after rule registration
	{
		httpRuleFld := p.MustField("methodConfig", "httpRule")
		loads := LoadsOfField(ctor, httpRuleFld)
		if len(loads) == 0 {
			c.Bad("C17.2", FuncName(ctor), "rest-only-needs-binding", ctor.Pos(), "NewTranscoder never inspects the methods' HTTP rules: a REST-only service without bindings is accepted")
		}
		for _, ld := range loads {
			isReg := func(in ssa.Instruction) bool {
				ci, ok := in.(ssa.CallInstruction)
				if !ok {
					return false
				}
				for _, cal := range p.CalleesAt(ci) {
					if cal == regRules {
						return true
					}
				}
				return false
			}
			// registration may be skipped on the edge where the rule list handed to it is known to
			// be empty (the guard 'no rules: nothing to do' may sit at the call site)
			var ruleArgs []ssa.Value
			for _, call := range Calls(ctor) {
				if isReg(call) {
					args := call.Common().Args
					ruleArgs = append(ruleArgs, args[len(args)-1])
				}
			}
			emptyRulesEdge := func(from *ssa.BasicBlock, succ int) bool {
				iff, ok := from.Instrs[len(from.Instrs)-1].(*ssa.If)
				if !ok {
					return true
				}
				b, ok := iff.Cond.(*ssa.BinOp)
				if !ok {
					return true
				}
				lc, ok := b.X.(*ssa.Call)
				if !ok || CalleeName(lc) != "builtin len" {
					return true
				}
				k, isK := ConstInt(b.Y)
				if !isK || k != 0 {
					return true
				}
				isRules := false
				for _, ra := range ruleArgs {
					if lc.Call.Args[0] == ra || PathOf(lc.Call.Args[0]) == PathOf(ra) {
						isRules = true
					}
				}
				if !isRules {
					return true
				}
				emptySucc := -1
				switch b.Op {
				case token.GTR, token.NEQ:
					emptySucc = 1
				case token.EQL, token.LEQ:
					emptySucc = 0
				}
				return succ != emptySucc
			}
			found, path := PathQuery{Target: func(in ssa.Instruction) bool { return in == ssa.Instruction(ld) }, Avoid: isReg, EdgeOK: emptyRulesEdge}.Search(ctor, nil)
			c.Check(!found, "C17.2", FuncName(ctor), "rest-only-after-rules", ld.Pos(),
				"the REST-only check reads the bindings only after WithRules rules were registered",
				"the REST-only check can run before the WithRules rules are registered (servable configurations rejected): "+witnessString(p, path))
		}
		okZero := false
		ForEachInstr(ctor, func(in ssa.Instruction) {
			b, ok := in.(*ssa.BinOp)
			if !ok || b.Op != token.EQL {
				return
			}
			if k, isK := ConstInt(b.Y); !isK || k != 0 {
				return
			}
			if _, isPhi := b.X.(*ssa.Phi); !isPhi {
				return
			}
			for _, r := range *b.Referrers() {
				if iff, ok := r.(*ssa.If); ok {
					if good, _ := succReturnsOnlyErrors(ctor, iff.Block().Succs[0], 1); good {
						okZero = true
					}
				}
			}
		})
		c.Check(okZero, "C17.2", FuncName(ctor), "rest-only-needs-binding", ctor.Pos(),
			"a REST-only service with zero bound methods is an error", "no error edge for a REST-only service without bindings")
	}
	// (vii) repeated field as path variable
	{
		okList := false
		for _, mfn := range SortedFuncs(p.Reach(makeTarget)) {
			if !p.inScope(mfn) || FuncName(mfn) == "resolvePathToFieldDescriptors" {
				continue
			}
			ei := errorResultIndex(mfn.Signature)
			if ei < 0 {
				continue
			}
			for _, call := range Calls(mfn) {
				cv, ok := call.(*ssa.Call)
				if !ok || !cv.Call.IsInvoke() || N(cv.Call.Method) != "IsList" {
					continue
				}
				for _, ref := range *cv.Referrers() {
					if iff, ok := ref.(*ssa.If); ok {
						if good, _ := succReturnsOnlyErrors(mfn, iff.Block().Succs[0], ei); good {
							okList = true
						}
					}
				}
			}
		}
		c.Check(okList, "C17.2", FuncName(makeTarget), "repeated-variable-rejected", makeTarget.Pos(),
			"a repeated field used as a path variable is an error", "no error edge for a repeated field used as a path variable")
	}

	// (viii) (defect D53) a path variable must name a field a URL segment can be assigned to: the
	// same predicate that setParameter/getParameter use at request time (`isParameterType`: scalars
	// and well-known types with a scalar JSON form; not maps, not other messages) is applied to
	// the variable's leaf field at registration, and its false outcome leads only to error returns
	{
		okParam := false
		isParam := p.MustFunc("isParameterType")
		for _, mfn := range SortedFuncs(p.Reach(makeTarget)) {
			if !p.inScope(mfn) || FuncName(mfn) == "resolvePathToFieldDescriptors" {
				continue
			}
			ei := errorResultIndex(mfn.Signature)
			if ei < 0 {
				continue
			}
			for _, call := range Calls(mfn) {
				cv, ok := call.(*ssa.Call)
				if !ok || cv.Call.StaticCallee() != isParam {
					continue
				}
				for _, ref := range *cv.Referrers() {
					if iff, ok := ref.(*ssa.If); ok {
						// `if !isParameterType(f) { return error }` : the condition is the call itself, false edge = Succs[1]
						if good, _ := succReturnsOnlyErrors(mfn, iff.Block().Succs[1], ei); good {
							okParam = true
						}
					}
					if un, ok := ref.(*ssa.UnOp); ok && un.Op == token.NOT {
						for _, r2 := range *un.Referrers() {
							if iff, ok := r2.(*ssa.If); ok {
								if good, _ := succReturnsOnlyErrors(mfn, iff.Block().Succs[0], ei); good {
									okParam = true
								}
							}
						}
					}
				}
			}
		}
		c.Check(okParam, "C17.2", FuncName(makeTarget), "non-parameter-variable-rejected", makeTarget.Pos(),
			"a path variable whose leaf field is not a parameter type (map, plain message) is an error", "no error edge for a path variable that names a map or message field: NewTranscoder accepts a binding that can never be served (every request fails in setParameter, or the variable is silently dropped)")
	}

	// ---------------------------------------------------------------- C17.3
	c.Rule("C17.3", "a rule binds a method only on an exact name match, or a prefix match under a wildcard selector", 1)
	{
		// locate: FullName call (method name), the recording MapUpdate
		var nameCall *ssa.Call
		for _, call := range Calls(regRules) {
			if cv, ok := call.(*ssa.Call); ok && cv.Call.IsInvoke() && N(cv.Call.Method) == "FullName" {
				nameCall = cv
			}
		}
		var record []*ssa.MapUpdate
		ForEachInstr(regRules, func(in ssa.Instruction) {
			if mu, ok := in.(*ssa.MapUpdate); ok {
				if _, isMake := strip(mu.Map).(*ssa.MakeMap); isMake {
					record = append(record, mu)
				}
			}
		})
		if nameCall == nil || len(record) == 0 {
			c.Unknown("C17.3", FuncName(regRules), "shape", regRules.Pos(), "could not locate the method-name read and the rule-recording store")
		} else {
			fromName := func(v ssa.Value) bool {
				for _, l := range Origins(v) {
					if l.Kind == "call" && l.Call == ssa.CallInstruction(nameCall) {
						return true
					}
				}
				return false
			}
			isRecord := func(in ssa.Instruction) bool {
				for _, mu := range record {
					if in == ssa.Instruction(mu) {
						return true
					}
				}
				return false
			}
			paths, ok := EnumPaths(nameCall.Block(), nil, isRecord, 0)
			if !ok || len(paths) == 0 {
				c.Unknown("C17.3", FuncName(regRules), "paths", nameCall.Pos(), "could not enumerate paths from the method-name read to the rule-recording store")
			}
			for _, cp := range paths {
				exact, prefix, wild := false, false, false
				for cond, truth := range cp.Truth {
					switch x := cond.(type) {
					case *ssa.BinOp:
						if (x.Op == token.EQL && truth || x.Op == token.NEQ && !truth) && (fromName(x.X) || fromName(x.Y)) && isStringType(x.X.Type()) {
							exact = true
						}
					case *ssa.Call:
						if IsCallTo(x, "strings.HasPrefix") && truth && fromName(x.Call.Args[0]) {
							prefix = true
						}
					case *ssa.Phi:
						if truth && wildcardDerived(x) {
							wild = true
						}
					}
				}
				// wildcard condition may also dominate the whole region directly
				for _, f := range FactsAt(nameCall.Block()) {
					if isWildcardCmp(f) {
						wild = true
					}
				}
				c.Check(exact || (prefix && wild), "C17.3", FuncName(regRules), "binding-path", cp.End.Pos(),
					"the rule is recorded only after an exact name comparison, or a prefix test under a wildcard selector",
					"a rule can be recorded for a method on a path with neither an exact name match nor (wildcard selector and prefix match): a selector binds methods it does not name")
			}
		}
	}

	// ---------------------------------------------------------------- C17.4
	c.Rule("C17.4", "per-service options: fresh copy of defaults per service, applied after defaults, setters replace shared maps", 4)
	{
		soT := p.MustNamed("serviceOptions")
		// the Alloc of serviceOptions that receives a whole-struct store from another serviceOptions alloc
		var defaults, resolved *ssa.Alloc
		var copySt *ssa.Store
		ForEachInstr(ctor, func(in ssa.Instruction) {
			st, ok := in.(*ssa.Store)
			if !ok {
				return
			}
			dst, ok := st.Addr.(*ssa.Alloc)
			if !ok || !types.Identical(dst.Type().(*types.Pointer).Elem(), soT) {
				return
			}
			if u, ok := st.Val.(*ssa.UnOp); ok && u.Op == token.MUL {
				if src, ok := u.X.(*ssa.Alloc); ok && types.Identical(src.Type().(*types.Pointer).Elem(), soT) {
					defaults, resolved, copySt = src, dst, st
				}
			}
		})
		if copySt == nil {
			c.Bad("C17.4", FuncName(ctor), "defaults-copied", ctor.Pos(), "no struct copy of the default service options into a per-service value found")
		} else {
			inLoop, _ := MayReach(ctor, copySt, func(in ssa.Instruction) bool { return in == ssa.Instruction(copySt) })
			c.Check(inLoop, "C17.4", FuncName(ctor), "defaults-copied-per-service", copySt.Pos(),
				"the defaults are copied anew inside the per-service loop", "the defaults are copied once outside the per-service loop: one service's options leak into the next")
			// applyToService on defaults happens before the copy; on resolved after
			applyOn := func(al *ssa.Alloc) []ssa.CallInstruction {
				var out []ssa.CallInstruction
				for _, call := range Calls(ctor) {
					cc := call.Common()
					if cc.IsInvoke() && N(cc.Method) == "applyToService" && len(cc.Args) == 1 && cc.Args[0] == ssa.Value(al) {
						out = append(out, call)
					}
				}
				return out
			}
			dApply, rApply := applyOn(defaults), applyOn(resolved)
			okOrder := len(dApply) > 0 && len(rApply) > 0
			for _, d := range dApply {
				// a defaults-apply may not be reachable after the copy
				if found, _ := MayReach(ctor, copySt, func(in ssa.Instruction) bool { return in == ssa.Instruction(d) }); found {
					okOrder = false
				}
			}
			for _, r := range rApply {
				pq := PathQuery{Target: func(in ssa.Instruction) bool { return in == ssa.Instruction(r) }, Avoid: func(in ssa.Instruction) bool { return in == ssa.Instruction(copySt) }}
				if found, _ := pq.Search(ctor, nil); found {
					okOrder = false
				}
			}
			c.Check(okOrder, "C17.4", FuncName(ctor), "service-options-after-defaults", copySt.Pos(),
				"default options are applied before the copy and service options after it (per-service options override defaults)",
				"the order default-options -> copy -> service-options is not respected")
			// registerService receives the resolved value
			okArg := false
			for _, call := range Calls(ctor) {
				for _, cal := range p.CalleesAt(call) {
					if cal == regSvc {
						for _, a := range call.Common().Args {
							if u, ok := a.(*ssa.UnOp); ok && u.X == ssa.Value(resolved) {
								okArg = true
							}
						}
					}
				}
			}
			c.Check(okArg, "C17.4", FuncName(ctor), "resolved-options-used", copySt.Pos(),
				"the service is registered with the resolved per-service options", "the service is not registered with the resolved per-service options")
		}
		// setters replace maps
		sof := p.MustNamed("serviceOptionFunc")
		nSet := 0
		for _, fn := range p.Funcs {
			if fn.Parent() == nil || fn.Signature.Params().Len() != 1 || !types.Identical(fn.Signature.Params().At(0).Type(), sof.Underlying().(*types.Signature).Params().At(0).Type()) {
				continue
			}
			// other in-place mutations of a map held by the options: delete / clear / maps.* helpers
			for _, call := range Calls(fn) {
				if !IsCallTo(call, "builtin delete", "builtin clear", "maps.Copy", "maps.DeleteFunc", "maps.Insert") || len(call.Common().Args) == 0 {
					continue
				}
				fld := LoadedField(call.Common().Args[0])
				if fld == nil || fieldOwner(fld, p) != "serviceOptions" {
					continue
				}
				nSet++
				fresh := false
				for _, st := range StoresToField(fn, fld) {
					if _, isMake := strip(st.Val).(*ssa.MakeMap); isMake && st.Block().Dominates(call.Block()) {
						fresh = true
					}
				}
				c.Check(fresh, "C17.4", FuncName(fn), "setter-replaces-map:"+N(fld)+":"+CalleeName(call), call.Pos(),
					"the option setter stores a fresh map before changing it", "the option setter changes the existing (default, shared) map in place ("+CalleeName(call)+"): one service's option alters the defaults of all services, whatever the order of registration")
			}
			ForEachInstr(fn, func(in ssa.Instruction) {
				mu, ok := in.(*ssa.MapUpdate)
				if !ok {
					return
				}
				fld := LoadedField(mu.Map)
				if fld == nil || fieldOwner(fld, p) != "serviceOptions" {
					return
				}
				nSet++
				fresh := false
				for _, st := range StoresToField(fn, fld) {
					if _, isMake := strip(st.Val).(*ssa.MakeMap); isMake && (st.Block().Dominates(mu.Block())) {
						fresh = true
					}
				}
				c.Check(fresh, "C17.4", FuncName(fn), "setter-replaces-map:"+N(fld), mu.Pos(),
					"the option setter stores a fresh map before filling it", "the option setter writes into the existing (default, shared) map: one service's option mutates the defaults of all services")
			})
		}
		if nSet == 0 {
			c.Bad("C17.4", "service options", "setter-replaces-map", token.NoPos, "no map-filling option setters found: shape changed")
		}
	}
}

// LoadedFieldAny is LoadedField also looking through a Field (value) selection.
func LoadedFieldAny(v ssa.Value) *types.Var {
	if f := LoadedField(v); f != nil {
		return f
	}
	return nil
}

func isBoolFlagPhi(ph *ssa.Phi) bool {
	b, ok := ph.Type().Underlying().(*types.Basic)
	if !ok || b.Info()&types.IsBoolean == 0 {
		return false
	}
	seen := map[*ssa.Phi]bool{}
	hasTrue := false
	var walk func(x *ssa.Phi) bool
	walk = func(x *ssa.Phi) bool {
		if seen[x] {
			return true
		}
		seen[x] = true
		for _, e := range x.Edges {
			switch ev := e.(type) {
			case *ssa.Const:
				if v, ok := ConstBool(ev); ok && v {
					hasTrue = true
				}
			case *ssa.Phi:
				if !walk(ev) {
					return false
				}
			default:
				return false
			}
		}
		return true
	}
	return walk(ph) && hasTrue
}

func isWildcardCmp(f Fact) bool {
	cmp, ok := f.AsCmp()
	if !ok {
		if call, isCall := f.Cond.(*ssa.Call); isCall && f.Truth && IsCallTo(call, "strings.Contains", "strings.HasSuffix") {
			if s, _ := ConstString(call.Call.Args[1]); s == "*" {
				return true
			}
		}
		return false
	}
	call, isCall := cmp.X.(*ssa.Call)
	if !isCall || !IsCallTo(call, "strings.Index", "strings.IndexByte", "strings.IndexRune", "strings.LastIndex") {
		return false
	}
	if s, isS := ConstString(call.Call.Args[1]); isS && s != "*" {
		return false
	} else if !isS {
		if k, isK := ConstInt(call.Call.Args[1]); !isK || k != '*' {
			return false
		}
	}
	k, isK := ConstInt(cmp.Y)
	return isK && (cmp.Op == token.GEQ && k == 0 || cmp.Op == token.GTR && k == -1 || cmp.Op == token.NEQ && k == -1)
}

// wildcardDerived: a boolean phi whose every true-constant edge arrives under a
// wildcard test (strings.Index(selector,"*") >= 0 and the like).
func wildcardDerived(ph *ssa.Phi) bool {
	anyTrue := false
	for i, e := range ph.Edges {
		v, isC := ConstBool(e)
		if !isC {
			if pe, ok := e.(*ssa.Phi); ok && wildcardDerived(pe) {
				anyTrue = true
				continue
			}
			return false
		}
		if !v {
			continue
		}
		anyTrue = true
		under := false
		for _, f := range FactsOnEdge(ph.Block().Preds[i], ph.Block()) {
			if isWildcardCmp(f) {
				under = true
			}
		}
		if !under {
			return false
		}
	}
	return anyTrue
}

// runC17RulesAccumulate: C17.6 (seed C17g).  Several rules may select the same method (an exact
// selector and a wildcard one, or two additional bindings); each of them is a binding the
// configuration promises to serve.  Where rule registration records 'this rule applies to this
// method' in a map keyed by the method, the stored value extends what is already recorded under
// that key (append to the looked-up entry) - a plain overwrite keeps only the last rule and the
// earlier ones are dropped without an error: NewTranscoder accepts bindings it answers with 404.
func runC17RulesAccumulate(c *Ctx) {
	p := c.P
	c.Rule("C17.6", "rules recorded per method accumulate; a later rule for the same method does not replace an earlier one", 1)
	reg := p.MustFunc("(*Transcoder).registerRules")
	mcT := types.NewPointer(p.MustNamed("methodConfig"))
	n := 0
	for _, fn := range SortedFuncs(p.Reach(reg)) {
		if !p.inScope(fn) {
			continue
		}
		ForEachInstr(fn, func(in ssa.Instruction) {
			mu, ok := in.(*ssa.MapUpdate)
			if !ok {
				return
			}
			mt, isMap := mu.Map.Type().Underlying().(*types.Map)
			if !isMap || !types.Identical(mt.Key(), mcT) {
				return
			}
			if _, fresh := strip(mu.Map).(*ssa.MakeMap); !fresh {
				return // only the local bookkeeping table of the registration
			}
			n++
			acc := false
			if call, isCall := mu.Value.(*ssa.Call); isCall && IsCallTo(call, "builtin append") && len(call.Call.Args) > 0 {
				if lk, isLk := strip(call.Call.Args[0]).(*ssa.Lookup); isLk && lk.X == mu.Map && lk.Index == mu.Key {
					acc = true
				}
			}
			c.Check(acc, "C17.6", FuncName(fn), "rules-per-method-accumulate", mu.Pos(),
				"the entry recorded for a method is the previous entry extended by this rule",
				"the table of rules per method is overwritten, not extended: when two rules select the same method only the last one is registered and the earlier binding is dropped without an error - NewTranscoder accepts a configuration it then answers with 404")
		})
	}
	if n == 0 {
		c.OK("C17.6", FuncName(reg), "rules-per-method-accumulate", reg.Pos(), "rule registration keeps no per-method table (each rule is registered where it is matched)")
	}
}

// runC17NoSharedDefaults: C17.7 (seed C17h).  Option setters write into the maps held by the
// options value (WithCompression, WithCodec: opts.compressors[name] = ...).  Those maps are
// created per NewTranscoder call.  A package-level map stored into such a struct field is one
// map shared by every Transcoder of the process: a name registered for one Transcoder becomes
// known to all others - a configuration that must be rejected ("compression algorithm x is not
// known") is accepted, depending on what was constructed before.
func runC17NoSharedDefaults(c *Ctx) {
	p := c.P
	c.Rule("C17.7", "no package-level map is aliased into configuration state (defaults are built per Transcoder)", 1)
	bad, seen := 0, 0
	for _, fn := range p.Funcs {
		if !p.inScope(fn) || N(fn) == "init" {
			continue
		}
		ForEachInstr(fn, func(in ssa.Instruction) {
			st, ok := in.(*ssa.Store)
			if !ok {
				return
			}
			if _, isFA := st.Addr.(*ssa.FieldAddr); !isFA {
				return
			}
			if _, isMap := st.Val.Type().Underlying().(*types.Map); !isMap {
				return
			}
			seen++
			for _, l := range Origins(st.Val) {
				if l.Kind == "global" || (l.Kind == "load" && strings.HasPrefix(l.Path, "g:")) {
					bad++
					c.Bad("C17.7", FuncName(fn), "global-map-into-field", st.Pos(),
						"a package-level map is stored into a struct field: it becomes shared, mutable configuration of every Transcoder in the process (option setters write into these maps), so what one NewTranscoder call registers changes which configurations another one accepts")
				}
			}
		})
	}
	if bad == 0 {
		c.OK("C17.7", "package", "global-map-into-field", token.NoPos, itoa(seen)+" stores of maps into struct fields examined: none aliases a package-level map")
	}
}

// naturalLoops: header -> body blocks (header included) of every natural loop of fn.
func naturalLoops(fn *ssa.Function) map[*ssa.BasicBlock]map[*ssa.BasicBlock]bool {
	out := map[*ssa.BasicBlock]map[*ssa.BasicBlock]bool{}
	for _, b := range fn.Blocks {
		for _, h := range b.Succs {
			if !h.Dominates(b) {
				continue
			}
			body := out[h]
			if body == nil {
				body = map[*ssa.BasicBlock]bool{h: true}
				out[h] = body
			}
			work := []*ssa.BasicBlock{b}
			for len(work) > 0 {
				x := work[len(work)-1]
				work = work[:len(work)-1]
				if body[x] {
					continue
				}
				body[x] = true
				work = append(work, x.Preds...)
			}
		}
	}
	return out
}

// runC17VerdictPerItem: C17.8 (seed C17n).  NewTranscoder judges each service (each rule, each
// method) on its own: whether one item is servable cannot depend on which items were looked at
// before it, or the same set of services is accepted in one order and rejected in another.
// Structural: inside a loop of configuration-time code, a count that decides 'reject' (an integer
// compared with a constant, one arm of which returns only errors) is not carried from one
// iteration of that loop to the next - it is not a header phi of the loop, induction variables
// (`i = i + c` on the back edge) excepted.
func runC17VerdictPerItem(c *Ctx) {
	p := c.P
	c.Rule("C17.8", "a count that decides the rejection of one item is not carried over from the items before it", 1)
	ctor := p.MustFunc("NewTranscoder")
	n := 0
	for _, fn := range SortedFuncs(p.Reach(ctor)) {
		if !p.inScope(fn) || len(fn.Blocks) == 0 {
			continue
		}
		ei := errorResultIndex(fn.Signature)
		if ei < 0 {
			continue
		}
		loops := naturalLoops(fn)
		if len(loops) == 0 {
			continue
		}
		for _, b := range fn.Blocks {
			if len(b.Instrs) == 0 {
				continue
			}
			iff, ok := b.Instrs[len(b.Instrs)-1].(*ssa.If)
			if !ok {
				continue
			}
			cmp, ok := iff.Cond.(*ssa.BinOp)
			if !ok {
				continue
			}
			var v ssa.Value
			if _, isC := cmp.Y.(*ssa.Const); isC && isIntegerLike(cmp.X.Type()) {
				v = cmp.X
			} else if _, isC := cmp.X.(*ssa.Const); isC && isIntegerLike(cmp.Y.Type()) {
				v = cmp.Y
			}
			if v == nil {
				continue
			}
			rejects := false
			for _, s := range b.Succs {
				if ok, _ := succReturnsOnlyErrors(fn, s, ei); ok {
					rejects = true
				}
			}
			if !rejects {
				continue
			}
			for h, body := range loops {
				if !body[b] {
					continue
				}
				n++
				// does v depend on a value carried around this loop?
				seen := map[ssa.Value]bool{}
				var carried func(x ssa.Value, depth int) *ssa.Phi
				carried = func(x ssa.Value, depth int) *ssa.Phi {
					if depth > 8 || seen[x] {
						return nil
					}
					seen[x] = true
					switch y := x.(type) {
					case *ssa.Phi:
						if y.Block() == h {
							// induction variable?
							ind := true
							for i, e := range y.Edges {
								if !body[h.Preds[i]] {
									continue // entry edge
								}
								bo, isB := e.(*ssa.BinOp)
								if !isB || (bo.Op != token.ADD && bo.Op != token.SUB) || (bo.X != ssa.Value(y) && bo.Y != ssa.Value(y)) {
									ind = false
								} else if _, isK := bo.Y.(*ssa.Const); !isK {
									if _, isK2 := bo.X.(*ssa.Const); !isK2 {
										ind = false
									}
								}
							}
							if ind {
								return nil
							}
							return y
						}
						if !body[y.Block()] {
							return nil
						}
						for _, e := range y.Edges {
							if ph := carried(e, depth+1); ph != nil {
								return ph
							}
						}
					case *ssa.BinOp:
						if ph := carried(y.X, depth+1); ph != nil {
							return ph
						}
						return carried(y.Y, depth+1)
					case *ssa.Convert:
						return carried(y.X, depth+1)
					}
					return nil
				}
				ph := carried(v, 0)
				c.Check(ph == nil, "C17.8", FuncName(fn), "rejecting-count-is-per-item", iff.Pos(),
					"the count that decides the rejection is started afresh for each item of the loop",
					"the count compared here is carried from one iteration of the enclosing loop to the next: whether this item is rejected depends on the items before it (an unservable service is accepted when it follows a servable one)")
			}
		}
	}
	if n == 0 {
		c.Bad("C17.8", FuncName(ctor), "rejecting-count-is-per-item", ctor.Pos(), "no count-based rejection inside a loop of the configuration code any more: shape changed")
	}
}

// errorHelpersOf: fn and the functions of the shipped packages it calls statically (two levels)
// that return an error - the places a validation of fn may have been moved to by 'extract
// function' (refactoring B26_r6).  C17.1 shows that an error such a helper returns is not
// swallowed on the way up.
func errorHelpersOf(p *Prog, fn *ssa.Function) []*ssa.Function {
	out := []*ssa.Function{fn}
	seen := map[*ssa.Function]bool{fn: true}
	frontier := []*ssa.Function{fn}
	for depth := 0; depth < 2; depth++ {
		var next []*ssa.Function
		for _, f := range frontier {
			for _, call := range Calls(f) {
				g := call.Common().StaticCallee()
				if g == nil || seen[g] || !p.inScope(g) || len(g.Blocks) == 0 || errorResultIndex(g.Signature) < 0 {
					continue
				}
				seen[g] = true
				out = append(out, g)
				next = append(next, g)
			}
		}
		frontier = next
	}
	return out
}

package vg

import (
	"go/token"
	"go/types"
	"net/http"
	"net/textproto"
	"strings"

	"golang.org/x/tools/go/ssa"
)

func init() {
	register(&PropertySpec{
		ID: "C05",
		Explanation: "Decides a frame condition on header maps for every function reachable from Transcoder.ServeHTTP: " +
			"(C05.1) every mutation of an http.Header (Set/Add/Del, index assignment, delete, maps.Copy) either uses a constant key from the protocol control-key table, or is a relocation: key derived from the key of a range over a header map (optionally adding/removing a constant prefix) with the ranged value list moved whole or element by element; nothing else may touch a header map, so application metadata is never renamed, dropped or rewritten; " +
			"(C05.2) relocation functions that extract from a live header map into a fresh one delete each moved key from the source in the same iteration; " +
			"(C05.3) every RPC client protocol's response encoders consume responseEnd.trailers (range / maps.Copy / store into the end-stream metadata); " +
			"(C05.4) a function that reads a gRPC status key from a map deletes that key from the same map on every path, and the function that extracts the status removes the whole status key set on every return; " +
			"(C05.9) keys taken from a header map's own key set are used with direct indexing; (C05.10) a function that cuts a header value at commas trims every item it collects (announced trailer names select which headers are trailers). " +
			"Not decided: canonicalisation/case of arbitrary keys, '-bin' value encoding, ordering of values, REST clients (no trailer position defined).",
		Assumptions: []string{"net/http delivers Trailer:-prefixed header entries as HTTP trailers (http.TrailerPrefix contract)"},
		Run:         runC05,
	})
}

// controlKeys are the protocol control headers the transcoder is allowed to
// set or delete by name (canonical form).
var controlKeys = map[string]bool{
	"Content-Type": true, "Content-Encoding": true, "Accept-Encoding": true, "Content-Length": true,
	"Trailer": true, "Te": true,
	"Connect-Protocol-Version": true, "Connect-Timeout-Ms": true, "Connect-Content-Encoding": true, "Connect-Accept-Encoding": true,
	"Grpc-Encoding": true, "Grpc-Accept-Encoding": true, "Grpc-Timeout": true,
	"Grpc-Status": true, "Grpc-Message": true, "Grpc-Status-Details-Bin": true,
	"X-Server-Timeout": true,
}

var grpcStatusKeys = []string{"Grpc-Status", "Grpc-Message", "Grpc-Status-Details-Bin"}

func constKeys(v ssa.Value) ([]string, bool) {
	var out []string
	for _, l := range Origins(v) {
		if l.Kind != "const" || len(l.Ops) > 0 {
			return nil, false
		}
		s, ok := ConstString(l.V)
		if !ok {
			return nil, false
		}
		out = append(out, s)
	}
	return out, len(out) > 0
}

func runC05(c *Ctx) {
	defer runC05RawKeysIndexedDirectly(c)
	defer runC05ListItemsTrimmed(c)
	// clause shared with C04: the gRPC-Web trailer block is read as HTTP/1 header lines
	defer c.ImportRules("C04", "C04.6")
	p := c.P
	// clause shared with C03: the trailer frame is decompressed by its own envelope flag (otherwise
	// an uncompressed trailer frame in a compressed stream loses every trailer)
	defer c.ImportRules("C03", "C03.12")
	reach := p.RequestTimeReach()

	c.Rule("C05.1", "header maps are changed only under constant control keys or by key-preserving relocation of ranged entries", 40)
	c.Rule("C05.2", "extracting relocations delete every moved key from the live source map in the same iteration", 2)
	type reloc struct {
		m   HeaderMutation
		rng *ssa.Range
	}
	var relocs []reloc
	type move struct {
		m   HeaderMutation
		src ssa.Value
	}
	var moves []move
	for _, fn := range SortedFuncs(reach) {
		if !p.inScope(fn) {
			continue
		}
		for _, m := range HeaderMutations(fn) {
			c.CountSite()
			desc := m.Op
			if m.Op == "maps.Copy" {
				// whole-map copy: keys and value lists preserved by construction - but a copy
				// REPLACES the value list of a key the destination already has; that is fine
				// only for a destination created in this function (defect D38)
				c.Check(isFresh(m.Map), "C05.1", FuncName(fn), "maps.Copy", m.Instr.Pos(),
					"whole header map copied with unchanged keys and value lists into a map created here",
					"maps.Copy into a header map that may already hold entries (a parameter / the live response header): the value list of any key present on both sides is replaced - a response header with the same name as a trailer loses its values")
				continue
			}
			if m.Key == nil {
				c.Bad("C05.1", FuncName(fn), desc, m.Instr.Pos(), "bulk mutation of a header map ("+desc+") that is not a key-preserving copy")
				continue
			}
			if keys, ok := constKeys(m.Key); ok {
				if isFresh(m.Map) && m.Op != "Del" && m.Op != "delete" {
					c.OK("C05.1", FuncName(fn), desc+":build-fresh:"+strings.Join(keys, "|"), m.Instr.Pos(), "entry of a header map constructed in this function")
					continue
				}
				allCtl := true
				for _, k := range keys {
					if !controlKeys[textproto.CanonicalMIMEHeaderKey(k)] {
						allCtl = false
					}
				}
				c.Check(allCtl, "C05.1", FuncName(fn), desc+":"+strings.Join(keys, "|"), m.Instr.Pos(),
					"constant protocol control key", "header mutation with a constant key that is not a protocol control header: application metadata "+strings.Join(keys, "|")+" is rewritten or removed")
				continue
			}
			// computed key: must be a relocation of ranged entries
			rk, okK := rangeKeyOf(m.Key)
			if !okK || !isHTTPHeader(rk.X.Type()) {
				// dst[k] = src[k] ; delete(src, k): an entry moved under its own key, whatever
				// selected k (a set of announced trailer names, say)
				if src, ok := sameKeyLookup(m.Val, m.Key); ok && m.Op == "index" {
					c.OK("C05.1", FuncName(fn), desc+":move-same-key", m.Instr.Pos(), "an entry moved to another header map under its own key, value list unchanged")
					moves = append(moves, move{m, src})
					continue
				}
				if m.Op == "delete" || m.Op == "Del" {
					second := false
					for _, m2 := range HeaderMutations(fn) {
						if src, ok := sameKeyLookup(m2.Val, m2.Key); ok && m2.Op == "index" && m2.Key == m.Key && PathOf(src) == PathOf(m.Map) {
							second = true
						}
					}
					if second {
						c.OK("C05.1", FuncName(fn), desc+":moved-key", m.Instr.Pos(), "deletes the key of the entry that was moved")
						continue
					}
				}
				// writes into a fresh map that is being parsed/constructed are not mutations of transported metadata
				if isFresh(m.Map) && (m.Op == "Add" || m.Op == "Set" || m.Op == "index") {
					c.OK("C05.1", FuncName(fn), desc+":build-fresh", m.Instr.Pos(), "entries added to a header map constructed in this function (parsing/assembly, not transported metadata)")
					continue
				}
				// the key is a parameter of a small helper ('read the header, then delete it' -
				// refactoring B28_r1): decided at the call sites, all of which must be static and
				// pass constant control keys
				if prm, isPrm := strip(m.Key).(*ssa.Parameter); isPrm {
					idx := -1
					for i, q := range fn.Params {
						if q == prm {
							idx = i
						}
					}
					edges := p.Callers(fn)
					allOK := idx >= 0 && len(edges) > 0
					var passed []string
					for _, e := range edges {
						if e.Kind != "static" || e.Site == nil || idx >= len(e.Site.Common().Args) {
							allOK = false
							break
						}
						keys, isK := constKeys(e.Site.Common().Args[idx])
						if !isK {
							allOK = false
							break
						}
						for _, k := range keys {
							if !controlKeys[textproto.CanonicalMIMEHeaderKey(k)] {
								allOK = false
							}
							passed = append(passed, k)
						}
					}
					if allOK {
						c.OK("C05.1", FuncName(fn), desc+":key-parameter", m.Instr.Pos(), "the key is a parameter; every call site passes a constant protocol control key")
						continue
					}
				}
				c.Bad("C05.1", FuncName(fn), desc+":computed-key", m.Instr.Pos(),
					"header mutation with a computed key that is not derived from the key of a ranged header map: application metadata may be renamed or dropped")
				continue
			}
			if m.Op == "delete" || m.Op == "Del" {
				// deleting the ranged key itself: fine only as the second half of a move (checked by C05.2 pairing below)
				c.OK("C05.1", FuncName(fn), desc+":ranged-key", m.Instr.Pos(), "deletes the key of the entry being relocated")
				continue
			}
			// value must be the ranged value (whole) or an element of it
			okV := false
			if rv, ok := rangeValOf(m.Val); ok && rv == rk {
				okV = true
			}
			if rv, ok := sliceElemOfRangeVal(m.Val); ok && rv == rk && m.Op == "Add" {
				okV = true
			}
			// element of a nested range over the value list
			if !okV && m.Op == "Add" {
				if rv, ok := nestedElemOf(m.Val); ok && rv == rk {
					okV = true
				}
			}
			// dst[key] = append(dst[key], vals...): the ranged value list appended to what the
			// destination already holds under the same key (nothing lost on either side)
			if !okV && m.Op == "index" {
				if ap, ok := m.Val.(*ssa.Call); ok {
					if b, isB := ap.Call.Value.(*ssa.Builtin); isB && b.Name() == "append" && len(ap.Call.Args) == 2 {
						if rv, ok := rangeValOf(ap.Call.Args[1]); ok && rv == rk {
							// first operand: the destination's own entry under the same key
							if lk, ok := strip(ap.Call.Args[0]).(*ssa.Lookup); ok && lk.X == m.Map && lk.Index == m.Key {
								okV = true
							}
						}
					}
				}
			}
			c.Check(okV, "C05.1", FuncName(fn), desc+":relocate", m.Instr.Pos(),
				"relocation: key derived from the ranged key, value list of the same entry moved unchanged",
				"relocation stores a value that is not the ranged entry's own value list (values may be truncated, merged or replaced)")
			if okV {
				relocs = append(relocs, reloc{m, rk})
			}
		}
	}
	// C05.2: extract shape = ranged source is a parameter (live map) and destination is fresh
	for _, r := range relocs {
		fn := r.m.Fn
		srcIsParam := false
		for _, l := range Origins(r.rng.X) {
			if l.Kind == "param" {
				srcIsParam = true
			}
		}
		if !srcIsParam || !isFresh(r.m.Map) {
			continue
		}
		// from the insertion, every path to the next iteration (the range's Next) or exit passes delete(src, key)
		isDel := func(in ssa.Instruction) bool {
			ci, ok := in.(ssa.CallInstruction)
			if !ok {
				return false
			}
			name := CalleeName(ci)
			if name != "builtin delete" && name != "(net/http.Header).Del" {
				return false
			}
			args := ci.Common().Args
			if PathOf(args[0]) != PathOf(r.rng.X) {
				return false
			}
			rk, ok := rangeKeyOf(args[1])
			return ok && rk == r.rng
		}
		isNextOrExit := func(in ssa.Instruction) bool {
			if nx, ok := in.(*ssa.Next); ok && nx.Iter == ssa.Value(r.rng) {
				return true
			}
			return IsExit(in)
		}
		found, path := PathQuery{Target: isNextOrExit, Avoid: isDel}.Search(fn, r.m.Instr)
		c.Check(!found, "C05.2", FuncName(fn), "move-deletes-source", r.m.Instr.Pos(),
			"each extracted entry is deleted from the live source map before the next iteration",
			"an entry copied out of the live header map is left behind in it (delivered twice: as header and as trailer): "+witnessString(p, path))
	}

	// the same for entries moved under their own key (dst[k] = src[k])
	for _, mv := range moves {
		fn := mv.m.Fn
		isDel := func(in ssa.Instruction) bool {
			ci, ok := in.(ssa.CallInstruction)
			if !ok {
				return false
			}
			name := CalleeName(ci)
			if name != "builtin delete" && name != "(net/http.Header).Del" {
				return false
			}
			args := ci.Common().Args
			return PathOf(args[0]) == PathOf(mv.src) && args[1] == mv.m.Key
		}
		isNextOrExit := func(in ssa.Instruction) bool {
			if _, ok := in.(*ssa.Next); ok {
				return true
			}
			return IsExit(in)
		}
		found, path := PathQuery{Target: isNextOrExit, Avoid: isDel}.Search(fn, mv.m.Instr)
		c.Check(!found, "C05.2", FuncName(fn), "move-deletes-source", mv.m.Instr.Pos(),
			"each moved entry is deleted from the source map before the next iteration",
			"an entry copied out of the live header map is left behind in it (delivered twice: as header and as trailer): "+witnessString(p, path))
	}

	// ---- C05.3
	c.Rule("C05.3", "every RPC client protocol's response encoders consume responseEnd.trailers", 5)
	trailersFld := p.MustField("responseEnd", "trailers")
	cph := p.Iface("clientProtocolHandler")
	if cph == nil {
		fatalf("anchor=clientProtocolHandler interface not found")
	}
	for _, t := range p.Implementers(cph) {
		name := typeName(t)
		protoFn := p.MethodOf(t, "protocol")
		if protoFn != nil && returnsConstNamed(protoFn, "ProtocolREST") {
			c.Exception(name, "REST clients have no trailer position defined by the property")
			continue
		}
		a := p.MethodOf(t, "addProtocolResponseHeaders")
		e := p.MethodOf(t, "encodeEnd")
		if a == nil || e == nil {
			fatalf("anchor=%s: response encoder methods not found", name)
		}
		consumed := false
		var where string
		for _, fn := range SortedFuncs(p.Reach(a, e)) {
			for _, ld := range LoadsOfField(fn, trailersFld) {
				for _, ref := range *ld.Referrers() {
					switch r := ref.(type) {
					case *ssa.Range:
						consumed, where = true, FuncName(fn)+": ranged"
					case *ssa.Store:
						if r.Val == ssa.Value(ld) {
							consumed, where = true, FuncName(fn)+": stored into "+AddrPath(r.Addr)
						}
					case ssa.CallInstruction:
						if IsCallTo(r, "maps.Copy") && len(r.Common().Args) == 2 && r.Common().Args[1] == ssa.Value(ld) {
							consumed, where = true, FuncName(fn)+": maps.Copy source"
						}
					case *ssa.ChangeType, *ssa.MakeInterface:
						consumed, where = true, FuncName(fn)+": converted and passed on"
					}
				}
			}
		}
		c.Check(consumed, "C05.3", name, "consumes-trailers", a.Pos(),
			"response encoders place the end's trailers ("+where+")",
			"neither addProtocolResponseHeaders nor encodeEnd of this client protocol reads responseEnd.trailers: application trailers never reach this kind of client")
	}

	defer runC05more(c)
	// ---- C05.4
	c.Rule("C05.4", "a gRPC status key read from a map is deleted from that map on every path", 3)
	for _, fn := range SortedFuncs(reach) {
		if !p.inScope(fn) {
			continue
		}
		for _, call := range Calls(fn) {
			if !IsCallTo(call, "(net/http.Header).Get") {
				continue
			}
			key, ok := ConstString(call.Common().Args[1])
			if !ok {
				continue
			}
			key = textproto.CanonicalMIMEHeaderKey(key)
			isStatus := false
			for _, k := range grpcStatusKeys {
				if k == key {
					isStatus = true
				}
			}
			if !isStatus {
				continue
			}
			mp := PathOf(call.Common().Args[0])
			isDel := func(in ssa.Instruction) bool {
				ci, ok := in.(ssa.CallInstruction)
				if !ok || !IsCallTo(ci, "(net/http.Header).Del") {
					return false
				}
				k2, ok := ConstString(ci.Common().Args[1])
				return ok && textproto.CanonicalMIMEHeaderKey(k2) == key && PathOf(ci.Common().Args[0]) == mp
			}
			okDel, path := MustPassToExit(fn, call, isDel, IsReturn, nil)
			c.Check(okDel, "C05.4", FuncName(fn), "read-then-delete:"+key, call.Pos(),
				"the status key is deleted from the map it was read from on every path",
				"status key "+key+" is read but can remain in the map that is then used as application trailers: "+witnessString(p, path))
			// Round 8 (seed C05n): the map a status was extracted from goes on as the
			// application's trailers, whatever the status said.  So the function that reads
			// Grpc-Status removes the WHOLE key set on every path - also on the early
			// 'status 0' return, on which the message and the details are never looked at
			// (a peer may send `grpc-message: OK` with a success).
			if key == grpcStatusKeys[0] {
				for _, other := range grpcStatusKeys[1:] {
					other := other
					delOther := func(in ssa.Instruction) bool {
						ci, ok := in.(ssa.CallInstruction)
						if !ok || !IsCallTo(ci, "(net/http.Header).Del") {
							return false
						}
						k2, ok := ConstString(ci.Common().Args[1])
						return ok && textproto.CanonicalMIMEHeaderKey(k2) == other && PathOf(ci.Common().Args[0]) == mp
					}
					okAll, path := MustPassToExit(fn, nil, delOther, IsReturn, nil)
					c.Check(okAll, "C05.4", FuncName(fn), "status-extraction-removes:"+other, call.Pos(),
						"every return of the function that extracts the status has removed "+other+" from the same map",
						"the function reads Grpc-Status from a map but a path returns with "+other+" still in it; the map goes on as application trailers: "+witnessString(p, path))
				}
			}
		}
	}
}

func runC05more(c *Ctx) {
	p := c.P
	// ---- C05.5 trailer-key sets are keyed canonically on both the write and the read side
	c.Rule("C05.5", "the announced-trailer key set is written and looked up with canonical header keys", 2)
	hk := p.MustNamed("headerKeys")
	isHK := func(t types.Type) bool { n, ok := t.(*types.Named); return ok && n == hk }
	canonical := func(v ssa.Value) (bool, string) {
		ls := Origins(v)
		if len(ls) == 0 {
			return false, "no origin"
		}
		for _, l := range ls {
			switch {
			case l.Kind == "call" && IsCallTo(l.Call, "net/textproto.CanonicalMIMEHeaderKey", "net/http.CanonicalHeaderKey"):
			case l.Kind == "other":
				// key of a range over an http.Header (canonical by net/http's construction) or over a headerKeys set
				ex, ok := l.V.(*ssa.Extract)
				if !ok {
					return false, l.String()
				}
				nx, ok := ex.Tuple.(*ssa.Next)
				if !ok || ex.Index != 1 {
					return false, l.String()
				}
				r, ok := nx.Iter.(*ssa.Range)
				if !ok || !(isHTTPHeader(r.X.Type()) || isHK(r.X.Type())) {
					return false, l.String()
				}
			default:
				return false, l.String()
			}
		}
		return true, ""
	}
	for _, fn := range p.Funcs {
		ForEachInstr(fn, func(in ssa.Instruction) {
			switch x := in.(type) {
			case *ssa.MapUpdate:
				if isHK(x.Map.Type()) {
					ok, why := canonical(x.Key)
					c.Check(ok, "C05.5", FuncName(fn), "set-insert", x.Pos(),
						"keys enter the trailer-key set in canonical form", "a key is inserted into the announced-trailer set without canonicalisation ("+why+"): a trailer declared in another spelling (lower case after an HTTP/2 hop) is never recognised and is silently dropped")
				}
			case *ssa.Lookup:
				if isHK(x.X.Type()) {
					ok, why := canonical(x.Index)
					c.Check(ok, "C05.5", FuncName(fn), "set-lookup", x.Pos(),
						"the trailer-key set is consulted with a canonical key", "the announced-trailer set is consulted with a key that is not canonical ("+why+")")
				}
			}
		})
	}

	// ---- C05.6 an end created by header extraction carries the trailers extracted there
	// ---------------------------------------------------------------- C05.7
	// (defect D37) Extracting trailers from a header map consumes them (the keys are deleted).  A
	// second extraction from the same map on the same path yields nothing - and if its result is
	// stored over the first one, the trailers are lost.
	c.Rule("C05.7", "trailers are extracted from a header map at most once per path", 2)
	{
		ext := p.MustFunc("httpExtractTrailers")
		nFn := 0
		for _, fn := range p.Funcs {
			if !p.inScope(fn) {
				continue
			}
			var calls []ssa.CallInstruction
			for _, call := range Calls(fn) {
				if call.Common().StaticCallee() == ext {
					calls = append(calls, call)
				}
			}
			if len(calls) == 0 {
				continue
			}
			nFn++
			twice := ""
			for _, a := range calls {
				for _, b := range calls {
					if a == b {
						continue
					}
					ha, hb := a.Common().Args[0], b.Common().Args[0]
					if ha != hb && PathOf(ha) != PathOf(hb) {
						continue
					}
					if reach, _ := (PathQuery{Target: func(in ssa.Instruction) bool { return in == ssa.Instruction(b) }}).Search(fn, a); reach {
						twice = p.Pos(a.Pos()) + " then " + p.Pos(b.Pos())
					}
				}
			}
			c.Check(twice == "", "C05.7", FuncName(fn), "extract-once", fn.Pos(),
				"no path extracts the trailers of the same header map twice",
				"a path extracts the trailers of the same header map twice ("+twice+"): the first extraction removed them, the second finds nothing, and what it returns replaces what was captured - the handler's trailers are dropped")
		}
		if nFn == 0 {
			c.Bad("C05.7", FuncName(ext), "extract-once", ext.Pos(), "the trailer extractor is never called: shape changed")
		}
	}

	// ---------------------------------------------------------------- C05.8
	// The trailer extractor has two sources: keys the handler announced (Trailer: X, then X) and
	// keys in net/http's "Trailer:X" form.  A path that returns without having visited one of them
	// (a shortcut for 'trailers were announced, no need to scan') drops the other kind.
	c.Rule("C05.8", "the trailer extractor takes announced and 'Trailer:'-prefixed trailers on every path", 2)
	{
		ext := p.MustFunc("httpExtractTrailers")
		var hdrP, setP ssa.Value
		hkT := p.MustNamed("headerKeys")
		for _, pr := range ext.Params {
			if isHTTPHeader(pr.Type()) && hdrP == nil {
				hdrP = pr
			}
			if types.Identical(pr.Type(), hkT) {
				setP = pr
			}
		}
		if hdrP == nil || setP == nil {
			fatalf("anchor=httpExtractTrailers: header / announced-keys parameters not found")
		}
		var rets []*ssa.BasicBlock
		for _, b := range ext.Blocks {
			if len(b.Instrs) > 0 {
				if _, ok := b.Instrs[len(b.Instrs)-1].(*ssa.Return); ok {
					rets = append(rets, b)
				}
			}
		}
		var prefixedL, announcedL *mapLoop
		for _, l := range mapLoops(ext) {
			overHdr := sameMapValue(l.rng.X, hdrP)
			overSet := sameMapValue(l.rng.X, setP)
			for b := range l.in {
				for _, in := range b.Instrs {
					mu, ok := in.(*ssa.MapUpdate)
					if !ok || !isHTTPHeader(mu.Map.Type()) || sameMapValue(mu.Map, hdrP) {
						continue
					}
					form, fok := keyForm(mu.Key, l.isKey, b, 0)
					switch {
					case overHdr && fok && form == "K-"+quote(http.TrailerPrefix):
						prefixedL = l
					case overSet && fok && form == "K":
						if src, ok := sameKeyLookup(mu.Value, mu.Key); ok && sameMapValue(src, hdrP) {
							announcedL = l
						}
					case overHdr && fok && form == "K":
						for _, f := range FactsAt(b) {
							ex, isEx := f.Cond.(*ssa.Extract)
							if !isEx || !f.Truth || ex.Index != 1 {
								continue
							}
							if lk, isLk := ex.Tuple.(*ssa.Lookup); isLk && sameMapValue(lk.X, setP) && l.isKey(strip(lk.Index)) {
								announcedL = l
							}
						}
					}
				}
			}
		}
		onEvery := func(l *mapLoop) bool {
			if l == nil {
				return false
			}
			for _, r := range rets {
				if !l.head.Dominates(r) {
					return false
				}
			}
			return len(rets) > 0
		}
		c.Check(onEvery(prefixedL), "C05.8", FuncName(ext), "prefixed-trailers-on-every-path", ext.Pos(),
			"every return is preceded by the loop that moves the 'Trailer:'-prefixed entries out of the header map",
			"a path returns without scanning the header map for 'Trailer:'-prefixed entries (or no such loop exists): trailers a handler sets in that form are dropped on it")
		c.Check(onEvery(announcedL), "C05.8", FuncName(ext), "announced-trailers-on-every-path", ext.Pos(),
			"every return is preceded by the loop that moves the announced trailer keys out of the header map",
			"a path returns without moving the announced trailer keys out of the header map (or no such loop exists): announced trailers are dropped on it")
	}

	c.Rule("C05.6", "a response end created while extracting headers carries the trailers extracted there", 2)
	sph := p.Iface("serverProtocolHandler")
	endF := p.MustField("responseMeta", "end")
	trailersF := p.MustField("responseEnd", "trailers")
	reT := p.MustNamed("responseEnd")
	seenFn := map[*ssa.Function]bool{}
	for _, t := range p.Implementers(sph) {
		m := p.MethodOf(t, "extractProtocolResponseHeaders")
		for _, fn := range SortedFuncs(p.Reach(m)) {
			if !p.inScope(fn) || seenFn[fn] || fn.Parent() != nil {
				continue
			}
			seenFn[fn] = true
			isExtractorCall := func(call ssa.CallInstruction) bool {
				for _, cal := range p.CalleesAt(call) {
					if FuncName(cal) == "httpExtractTrailers" || FuncName(cal) == "connectExtractUnaryTrailers" {
						return true
					}
				}
				return false
			}
			hasExtractor := false
			for _, call := range Calls(fn) {
				if isExtractorCall(call) {
					hasExtractor = true
				}
			}
			if !hasExtractor {
				continue
			}
			ForEachInstr(fn, func(in ssa.Instruction) {
				al, ok := in.(*ssa.Alloc)
				if !ok || !types.Identical(al.Type().(*types.Pointer).Elem(), reT) {
					return
				}
				// is it stored into responseMeta.end?
				intoMeta := false
				for _, ref := range *al.Referrers() {
					if st, ok := ref.(*ssa.Store); ok && st.Val == ssa.Value(al) {
						if fa, ok := st.Addr.(*ssa.FieldAddr); ok && FieldOfAddr(fa) == endF {
							intoMeta = true
						}
					}
				}
				if !intoMeta {
					return
				}
				c.CountSite()
				setsTrailers := func(x ssa.Instruction) bool {
					st, ok := x.(*ssa.Store)
					if !ok {
						return false
					}
					fa, ok := st.Addr.(*ssa.FieldAddr)
					if !ok || FieldOfAddr(fa) != trailersF {
						return false
					}
					for _, l := range Origins(st.Val) {
						if l.Kind == "call" && isExtractorCall(l.Call) {
							return true
						}
					}
					return false
				}
				okT, path := MustPassToExit(fn, al, setsTrailers, IsReturn, nil)
				if !okT {
					// path-sensitive second look: the trailers may be stored under a later
					// 'if meta.end != nil' that is always true on paths that created the end
					cps, okE := EnumPaths(al.Block(), nil, IsReturn, 0)
					if okE {
						okT = true
						for _, cp := range cps {
							sets := false
							for _, b := range cp.Blocks {
								for _, x := range b.Instrs {
									if setsTrailers(x) {
										sets = true
									}
								}
							}
							if sets {
								continue
							}
							infeasible := false
							for cond, truth := range cp.Truth {
								b, isB := cond.(*ssa.BinOp)
								if !isB || !IsNilConst(b.Y) || LoadedField(b.X) != endF {
									continue
								}
								if b.Op == token.NEQ && !truth || b.Op == token.EQL && truth {
									infeasible = true // 'end is nil' after it was just created
								}
							}
							if !infeasible {
								okT = false
							}
						}
					}
				}
				c.Check(okT, "C05.6", FuncName(fn), "end-carries-extracted-trailers", al.Pos(),
					"on every path from creating the end to the return the extracted trailers are stored into it",
					"header extraction creates a response end but a path returns without putting the extracted trailers into it ("+witnessString(p, path)+"): trailers of a failing backend response are lost because pending trailers are ignored once an end exists")
			})
		}
	}
}

// nestedElemOf: v is the element variable of `for _, val := range vals` where
// vals is the value of a ranged header map.  go/ssa lowers a slice range to
// index arithmetic: val = *IndexAddr(vals, i).
func nestedElemOf(v ssa.Value) (*ssa.Range, bool) {
	u, ok := v.(*ssa.UnOp)
	if !ok || u.Op != token.MUL {
		return nil, false
	}
	ia, ok := u.X.(*ssa.IndexAddr)
	if !ok {
		return nil, false
	}
	return rangeValOf(ia.X)
}

// returnsConstNamed: every return of fn is the named constant (by value match
// against the package-level constant of that name).
func returnsConstNamed(fn *ssa.Function, constName string) bool {
	obj, ok := fn.Pkg.Pkg.Scope().Lookup(constName).(*types.Const)
	if !ok {
		return false
	}
	all := true
	n := 0
	ForEachInstr(fn, func(in ssa.Instruction) {
		if ret, ok := in.(*ssa.Return); ok && len(ret.Results) == 1 {
			n++
			cst, ok := ret.Results[0].(*ssa.Const)
			if !ok || cst.Value == nil || cst.Value.ExactString() != obj.Val().ExactString() {
				all = false
			}
		}
	})
	return all && n > 0
}

// sameKeyLookup: val is src[key] (plain or comma-ok) for a header map src and
// the very key value `key`.
func sameKeyLookup(val, key ssa.Value) (ssa.Value, bool) {
	if val == nil || key == nil {
		return nil, false
	}
	v := strip(val)
	if ex, ok := v.(*ssa.Extract); ok && ex.Index == 0 {
		v = ex.Tuple
	}
	lk, ok := v.(*ssa.Lookup)
	if !ok || !isHTTPHeader(lk.X.Type()) {
		return nil, false
	}
	if lk.Index != key && strip(lk.Index) != strip(key) {
		return nil, false
	}
	return lk.X, true
}

// runC05RawKeysIndexedDirectly: C05.9 (seed C05l).  Inside the transcoder header and trailer names
// are not always canonical: grpc-go announces trailers as "Trailer:" + lower-case key, a Connect
// end-of-stream frame keeps the backend's spelling.  A key obtained by iterating over a header
// map (directly, or over its sorted key list) is the map's literal key; handing it to Get /
// Values / Del - which canonicalise their argument first - misses every entry whose key is not
// already canonical, and the trailer with all its values silently disappears.  Such keys are
// used with the map's own index / delete only.
func runC05RawKeysIndexedDirectly(c *Ctx) {
	p := c.P
	c.Rule("C05.9", "a key taken from a header map's own key set is used with direct indexing, not with canonicalising accessors", 1)
	// rawKeyOf: the header map whose literal key v is, if any
	rawKeyOf := func(v ssa.Value) ssa.Value {
		v = strip(v)
		if ex, ok := v.(*ssa.Extract); ok && ex.Index == 1 {
			if nx, ok := ex.Tuple.(*ssa.Next); ok {
				if rng, ok := nx.Iter.(*ssa.Range); ok {
					if _, isMap := rng.X.Type().Underlying().(*types.Map); isMap {
						return rng.X
					}
				}
			}
		}
		if ld, ok := v.(*ssa.UnOp); ok && ld.Op == token.MUL {
			if ia, ok := ld.X.(*ssa.IndexAddr); ok {
				for _, o := range Origins(ia.X) {
					call, isCall := o.V.(*ssa.Call)
					if !isCall || !IsCallTo(call, "slices.Sorted", "slices.Collect") || len(call.Call.Args) != 1 {
						continue
					}
					for _, o2 := range Origins(call.Call.Args[0]) {
						if kc, isK := o2.V.(*ssa.Call); isK && IsCallTo(kc, "maps.Keys") && len(kc.Call.Args) == 1 {
							return kc.Call.Args[0]
						}
					}
				}
			}
		}
		return nil
	}
	isHeader := func(v ssa.Value) bool {
		return isNamed(v.Type(), "net/http", "Header")
	}
	n := 0
	for _, fn := range p.Funcs {
		if !p.inScope(fn) {
			continue
		}
		ForEachInstr(fn, func(in ssa.Instruction) {
			// direct uses: counted as instances
			switch x := in.(type) {
			case *ssa.Lookup:
				if m := rawKeyOf(x.Index); m != nil && isHeader(m) && sameMapValue(m, x.X) {
					n++
					c.OK("C05.9", FuncName(fn), "raw-key-indexed-directly", x.Pos(), "literal key used with the map's own index")
				}
			case *ssa.MapUpdate:
				if m := rawKeyOf(x.Key); m != nil && isHeader(m) && sameMapValue(m, x.Map) {
					n++
					c.OK("C05.9", FuncName(fn), "raw-key-indexed-directly", x.Pos(), "literal key used with the map's own index")
				}
			case ssa.CallInstruction:
				cc := x.Common()
				if bi, ok := cc.Value.(*ssa.Builtin); ok && bi.Name() == "delete" && len(cc.Args) == 2 {
					if m := rawKeyOf(cc.Args[1]); m != nil && isHeader(m) && sameMapValue(m, cc.Args[0]) {
						n++
						c.OK("C05.9", FuncName(fn), "raw-key-indexed-directly", x.Pos(), "literal key used with delete on the map itself")
					}
					return
				}
				if !IsCallTo(x, "(net/http.Header).Get", "(net/http.Header).Values", "(net/http.Header).Del") || len(cc.Args) != 2 {
					return
				}
				m := rawKeyOf(cc.Args[1])
				if m == nil || !sameMapValue(m, cc.Args[0]) {
					return
				}
				n++
				c.Bad("C05.9", FuncName(fn), "raw-key-indexed-directly", x.Pos(),
					"a key taken from this header map's own key set is handed to "+N(cc.StaticCallee())+", which canonicalises its argument before the lookup: entries whose name is not in canonical form (grpc-go's lower-case \"Trailer:\"-prefixed trailers, a Connect end-of-stream frame's metadata) are not found, and the header or trailer disappears with all its values")
			}
		})
	}
	_ = n
}

// appendedElems: the element values of `append(s, e1, e2...)` (the variadic operand is a slice
// over a fresh array whose cells were stored individually).  ok=false for `append(s, other...)`.
func appendedElems(call *ssa.Call) ([]ssa.Value, bool) {
	b, isB := call.Call.Value.(*ssa.Builtin)
	if !isB || b.Name() != "append" || len(call.Call.Args) != 2 {
		return nil, false
	}
	sl, ok := call.Call.Args[1].(*ssa.Slice)
	if !ok {
		return nil, false
	}
	al, ok := sl.X.(*ssa.Alloc)
	if !ok {
		return nil, false
	}
	var out []ssa.Value
	for _, ref := range *al.Referrers() {
		ia, ok := ref.(*ssa.IndexAddr)
		if !ok {
			continue
		}
		for _, r2 := range *ia.Referrers() {
			if st, ok := r2.(*ssa.Store); ok && st.Addr == ia {
				out = append(out, st.Val)
			}
		}
	}
	return out, len(out) > 0
}

// runC05ListItemsTrimmed: C05.10 (seed C05m).  A header whose value is a comma-separated list
// (`Trailer: Grpc-Status, X-A, X-B`; Accept-Encoding; Connect-Accept-Encoding) carries optional
// blanks around EVERY item (RFC 9110 5.6.1).  The announced trailer names select which response
// headers are application trailers, so a name that keeps its leading blank matches no header and
// the trailer - with all its values - is dropped without a trace.  A function that cuts strings
// at ',' and collects the pieces therefore trims each PIECE: whatever it appends to its result is
// the value of a trimming call (strings.TrimSpace / strings.Trim* / textproto.TrimString);
// trimming the whole line first and appending raw sub-slices is not the same thing.
func runC05ListItemsTrimmed(c *Ctx) {
	p := c.P
	c.Rule("C05.10", "a function that cuts a header value at commas trims every item it collects", 1)
	isCommaCut := func(call ssa.CallInstruction) bool {
		if !IsCallTo(call, "strings.IndexByte", "strings.Index", "strings.Cut", "strings.Split", "strings.SplitN", "strings.SplitSeq", "strings.IndexRune") {
			return false
		}
		args := call.Common().Args
		if len(args) < 2 {
			return false
		}
		if s, ok := ConstString(args[1]); ok {
			return s == ","
		}
		if n, ok := ConstInt(args[1]); ok {
			return n == ','
		}
		return false
	}
	isTrim := func(v ssa.Value) bool {
		call, ok := strip(v).(*ssa.Call)
		return ok && IsCallTo(call, "strings.TrimSpace", "strings.Trim", "strings.TrimFunc", "net/textproto.TrimString")
	}
	n := 0
	for _, fn := range p.Funcs {
		if !p.inScope(fn) {
			continue
		}
		cuts := false
		for _, call := range Calls(fn) {
			if isCommaCut(call) {
				cuts = true
			}
		}
		if !cuts {
			continue
		}
		ForEachInstr(fn, func(in ssa.Instruction) {
			call, ok := in.(*ssa.Call)
			if !ok {
				return
			}
			elems, ok := appendedElems(call)
			if !ok {
				return
			}
			sl, isSl := call.Type().Underlying().(*types.Slice)
			if !isSl {
				return
			}
			if bt, isB := sl.Elem().Underlying().(*types.Basic); !isB || bt.Kind() != types.String {
				return
			}
			for _, e := range elems {
				n++
				// a phi of trimmed values is as good as a trimmed value
				good := true
				for _, o := range phiLeaves(e) {
					if !isTrim(o) {
						good = false
					}
				}
				c.Check(good, "C05.10", FuncName(fn), "list-item-trimmed", call.Pos(),
					"the collected item is the result of a trimming call",
					"this function cuts a string at ',' and collects a piece that was not trimmed by itself: in `A, B` the second name keeps its leading blank and matches no header key")
			}
		})
	}
	if n == 0 {
		c.Bad("C05.10", "package", "list-item-trimmed", token.NoPos, "no function cuts a string at ',' and collects the pieces any more: shape changed")
	}
}

// phiLeaves: v, or the non-phi values a phi chooses between.
func phiLeaves(v ssa.Value) []ssa.Value {
	seen := map[ssa.Value]bool{}
	var out []ssa.Value
	var walk func(ssa.Value)
	walk = func(x ssa.Value) {
		if seen[x] {
			return
		}
		seen[x] = true
		if ph, ok := x.(*ssa.Phi); ok {
			for _, e := range ph.Edges {
				walk(e)
			}
			return
		}
		out = append(out, x)
	}
	walk(v)
	return out
}

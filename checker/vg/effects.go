package vg

import (
	"go/token"
	"go/types"
	"strings"

	"golang.org/x/tools/go/ssa"
)

// ------------------------------------------------------------------ type tests

func isNamed(t types.Type, pkg, name string) bool {
	if p, ok := t.(*types.Pointer); ok {
		t = p.Elem()
	}
	n, ok := t.(*types.Named)
	if !ok {
		if a, ok := t.(*types.Alias); ok {
			return isNamed(types.Unalias(a), pkg, name)
		}
		return false
	}
	return N(n.Obj()) == name && n.Obj().Pkg() != nil && n.Obj().Pkg().Path() == pkg
}

func isHTTPHeader(t types.Type) bool { return isNamed(t, "net/http", "Header") }

func isPtrTo(t types.Type, pkg, name string) bool {
	p, ok := t.(*types.Pointer)
	return ok && isNamed(p.Elem(), pkg, name)
}

func fieldOwner(f *types.Var, p *Prog) string {
	// owner struct name for fields of root-package named structs
	if f == nil {
		return ""
	}
	scope := p.Root.Pkg.Scope()
	for _, name := range scope.Names() {
		tn, ok := scope.Lookup(name).(*types.TypeName)
		if !ok {
			continue
		}
		st, ok := tn.Type().Underlying().(*types.Struct)
		if !ok {
			continue
		}
		for i := 0; i < st.NumFields(); i++ {
			if st.Field(i) == f {
				return N(tn)
			}
		}
	}
	return ""
}

// ------------------------------------------------------------------- freshness

// isFresh reports whether every origin of the pointer/map value v is an object
// created in the same function (Alloc, make, composite literal, or the result
// of a constructor-like call that returns a new object).
func isFresh(v ssa.Value) bool {
	ls := Origins(v)
	if len(ls) == 0 {
		return false
	}
	nonNil := 0
	for _, l := range ls {
		if l.Kind != "nil" {
			nonNil++
		}
	}
	if nonNil == 0 {
		return false
	}
	for _, l := range ls {
		switch l.Kind {
		case "alloc", "nil":
			continue
		case "other":
			switch l.V.(type) {
			case *ssa.MakeMap, *ssa.MakeSlice, *ssa.MakeChan:
				continue
			}
			return false
		case "call":
			if IsCallTo(l.Call, "(net/http.Header).Clone", "net/url.ParseQuery", "(*net/url.URL).Query", "bytes.NewBuffer", "errors.New", "fmt.Errorf") {
				continue
			}
			return false
		default:
			return false
		}
	}
	return true
}

// --------------------------------------------------------------- header effects

// HeaderMutation is one instruction that changes the contents of an http.Header.
type HeaderMutation struct {
	Fn    *ssa.Function
	Instr ssa.Instruction
	Map   ssa.Value // the header map
	Key   ssa.Value // may be nil (maps.Copy)
	Val   ssa.Value // may be nil (Del/delete)
	Op    string    // Set | Add | Del | index | delete | maps.Copy
}

// HeaderMutations enumerates the header mutations in fn.
func HeaderMutations(fn *ssa.Function) []HeaderMutation {
	var out []HeaderMutation
	ForEachInstr(fn, func(in ssa.Instruction) {
		switch x := in.(type) {
		case *ssa.MapUpdate:
			if isHTTPHeader(x.Map.Type()) {
				out = append(out, HeaderMutation{fn, in, x.Map, x.Key, x.Value, "index"})
			}
		case ssa.CallInstruction:
			cc := x.Common()
			name := CalleeName(x)
			switch name {
			case "(net/http.Header).Set", "(net/http.Header).Add":
				out = append(out, HeaderMutation{fn, in, cc.Args[0], cc.Args[1], cc.Args[2], strings.TrimPrefix(name, "(net/http.Header).")})
			case "(net/http.Header).Del":
				out = append(out, HeaderMutation{fn, in, cc.Args[0], cc.Args[1], nil, "Del"})
			case "(net/textproto.MIMEHeader).Set", "(net/textproto.MIMEHeader).Add", "(net/textproto.MIMEHeader).Del":
				out = append(out, HeaderMutation{fn, in, cc.Args[0], cc.Args[1], nil, "textproto"})
			case "builtin delete":
				if isHTTPHeader(cc.Args[0].Type()) {
					out = append(out, HeaderMutation{fn, in, cc.Args[0], cc.Args[1], nil, "delete"})
				}
			case "maps.Copy":
				if len(cc.Args) == 2 && isHTTPHeader(cc.Args[0].Type()) {
					out = append(out, HeaderMutation{fn, in, cc.Args[0], nil, cc.Args[1], "maps.Copy"})
				}
			case "maps.DeleteFunc", "maps.Insert", "clear", "builtin clear":
				if len(cc.Args) > 0 && isHTTPHeader(cc.Args[0].Type()) {
					out = append(out, HeaderMutation{fn, in, cc.Args[0], nil, nil, name})
				}
			}
		}
	})
	return out
}

// rangeKeyOf: if v is (derived from) the key of a range over a map, returns the
// Range instruction.  Derivations accepted: string concatenation with
// constants, strings.TrimPrefix / CutPrefix / textproto.CanonicalMIMEHeaderKey
// of the key, string(bytes) conversions.
func rangeKeyOf(v ssa.Value) (*ssa.Range, bool) {
	var rng *ssa.Range
	ok := true
	seen := map[ssa.Value]bool{}
	var walk func(v ssa.Value)
	walk = func(v ssa.Value) {
		if seen[v] {
			return
		}
		seen[v] = true
		for _, l := range Origins(v) {
			switch l.Kind {
			case "const":
			case "other":
				if ex, isEx := l.V.(*ssa.Extract); isEx {
					if nx, isNext := ex.Tuple.(*ssa.Next); isNext && ex.Index == 1 {
						if r, isR := nx.Iter.(*ssa.Range); isR {
							if rng != nil && rng != r {
								ok = false
							}
							rng = r
							continue
						}
					}
				}
				ok = false
			case "call":
				if IsCallTo(l.Call, "strings.TrimPrefix", "strings.CutPrefix", "net/textproto.CanonicalMIMEHeaderKey", "net/http.CanonicalHeaderKey") && l.Index == 0 {
					walk(l.Call.Common().Args[0])
					if len(l.Call.Common().Args) > 1 {
						if _, isC := ConstString(l.Call.Common().Args[1]); !isC {
							ok = false
						}
					}
					continue
				}
				ok = false
			default:
				ok = false
			}
		}
	}
	walk(v)
	return rng, ok && rng != nil
}

// rangeValOf: v is the value of a range over a map (possibly the element of a
// nested range over that value).
func rangeValOf(v ssa.Value) (*ssa.Range, bool) {
	for _, l := range Origins(v) {
		if l.Kind != "other" {
			return nil, false
		}
		ex, isEx := l.V.(*ssa.Extract)
		if !isEx {
			// element of a nested slice range: UnOp(*IndexAddr(slice, i))
			return nil, false
		}
		nx, isNext := ex.Tuple.(*ssa.Next)
		if !isNext || ex.Index != 2 {
			return nil, false
		}
		r, isR := nx.Iter.(*ssa.Range)
		if !isR {
			return nil, false
		}
		return r, true
	}
	return nil, false
}

// sliceElemOfRangeVal: v = vals[i] where vals is a range value of a header map.
func sliceElemOfRangeVal(v ssa.Value) (*ssa.Range, bool) {
	u, ok := v.(*ssa.UnOp)
	if !ok || u.Op != token.MUL {
		return nil, false
	}
	ia, ok := u.X.(*ssa.IndexAddr)
	if !ok {
		return nil, false
	}
	return rangeValOf(ia.X)
}

// ---------------------------------------------------------------- field effects

// FieldWrite is a store through a field address.
type FieldWrite struct {
	Fn    *ssa.Function
	Store *ssa.Store
	Field *types.Var
	Base  ssa.Value // pointer to the struct
	Fresh bool
}

// FieldWrites enumerates stores to struct fields in fn.
func FieldWrites(fn *ssa.Function) []FieldWrite {
	var out []FieldWrite
	ForEachInstr(fn, func(in ssa.Instruction) {
		st, ok := in.(*ssa.Store)
		if !ok {
			return
		}
		fa, ok := st.Addr.(*ssa.FieldAddr)
		if !ok {
			return
		}
		out = append(out, FieldWrite{fn, st, FieldOfAddr(fa), fa.X, baseFresh(fa.X)})
	})
	return out
}

// baseFresh follows nested field addresses (&x.a.b) to the root pointer.
func baseFresh(v ssa.Value) bool {
	for {
		if fa, ok := v.(*ssa.FieldAddr); ok {
			v = fa.X
			continue
		}
		break
	}
	return isFresh(v)
}

package vg

import (
	"go/token"
	"go/types"
	"sort"
	"strings"

	"golang.org/x/tools/go/ssa"
)

func init() {
	register(&PropertySpec{
		ID: "C14",
		Explanation: "Decides structural necessary conditions of isolation and race freedom: " +
			"(C14.1) pooled-buffer ownership: after a non-deferred Put no use of that buffer and no second Put is reachable, two deferred Puts never release the same buffer; a buffer that was read from a field cell and released is cleared from that cell (or the owner's terminal error cell is set) on every path to the exit (release-then-clear), the three in-place stage helpers release exactly the temporary on error paths and exactly the old buffer (then re-store the cell) on success paths, and the adapters touch their buffer-aliasing fields only under a dominating 'error cell is nil' test (nothing is read or written after Close released the buffer); " +
			"(C14.2) structs that own a sync.Mutex lock it (with deferred unlock) before any other field access in their exported methods, and their unexported helpers are called only from those methods (one reasoned pre-publication exception); " +
			"(C14.3) lock-set check across the two sides of a stream: every field of the response writer that is stored from code reachable from a request-body adapter's Read (the handler's reader goroutine) without a lock shared with the writer side is a race candidate; the family that exists today (reader-side reportError) is a confirmed data race recorded as known finding KF-1, keyed per (reader root, field) so any new shared cell or new reader-side path is still reported. " +
			"Not decided: equality of per-RPC results under all interleavings, races inside dependencies.",
		Assumptions: []string{"sync.Pool hands an object to one Get at a time; a buffer Put twice can be handed to two RPCs"},
		Run:         runC14,
	})
}

// prePublication: the call site lies in handle (or in a helper called only from handle, up to a
// small depth) at a point no handler dispatch can precede.
func prePublication(p *Prog, handle *ssa.Function, site ssa.CallInstruction, depth int) bool {
	if site == nil || depth > 3 {
		return false
	}
	fn := site.Parent()
	isDisp := func(in ssa.Instruction) bool {
		ci, ok := in.(ssa.CallInstruction)
		return ok && isHandlerDispatch(ci)
	}
	// no dispatch in fn can be followed by the site
	var disps []ssa.Instruction
	ForEachInstr(fn, func(in ssa.Instruction) {
		if isDisp(in) {
			disps = append(disps, in)
		}
	})
	for _, d := range disps {
		if found, _ := (PathQuery{Target: func(in ssa.Instruction) bool { return in == ssa.Instruction(site) }}).Search(fn, d); found {
			return false
		}
	}
	if fn == handle {
		return true
	}
	es := p.Callers(fn)
	if len(es) == 0 {
		return false
	}
	for _, e := range es {
		if e.Kind != "static" || !prePublication(p, handle, e.Site, depth+1) {
			return false
		}
	}
	return true
}

// runC14MarshalAppend: C14.4 (defect D24).  message.encode hands a pooled buffer's bytes as
// `base` to a marshal-append function, releases the message's previous buffer, and wraps the
// result (adopting it when it outgrew the buffer).  That is only sound if the result was grown
// from `base`: a function in that role that returns some other slice - e.g. the bytes field of
// the message, which aliases the buffer the message was decoded from - makes the message keep
// using an array that is already back in the pool.
func runC14MarshalAppend(c *Ctx) {
	p := c.P
	c.Rule("C14.4", "functions in the marshal-append role return a slice grown from the base they were given", 4)
	n := 0
	for _, fn := range p.Funcs {
		if !p.inScope(fn) || fn.Signature.Recv() == nil {
			continue
		}
		nm := N(fn)
		if nm != "prepareMarshalledRequest" && nm != "prepareMarshalledResponse" {
			continue
		}
		// the []byte parameter
		var base *ssa.Parameter
		for _, prm := range fn.Params {
			if sl, ok := prm.Type().Underlying().(*types.Slice); ok {
				if b, ok := sl.Elem().Underlying().(*types.Basic); ok && b.Kind() == types.Uint8 {
					base = prm
				}
			}
		}
		if base == nil || fn.Signature.Results().Len() != 2 {
			continue
		}
		var fromBase func(v ssa.Value, depth int) bool
		fromBase = func(v ssa.Value, depth int) bool {
			if depth > 5 {
				return false
			}
			switch x := v.(type) {
			case *ssa.Parameter:
				return x == base
			case *ssa.Const:
				return x.IsNil()
			case *ssa.Phi:
				for _, e := range x.Edges {
					if !fromBase(e, depth+1) {
						return false
					}
				}
				return len(x.Edges) > 0
			case *ssa.Slice:
				return fromBase(x.X, depth+1)
			case *ssa.Extract:
				return fromBase(x.Tuple, depth+1)
			case *ssa.Call:
				cc := x.Common()
				if b, ok := cc.Value.(*ssa.Builtin); ok && b.Name() == "append" {
					return fromBase(cc.Args[0], depth+1)
				}
				// a callee in the same role: MarshalAppend*(base, ...) / prepareMarshalled*(op, base, ...)
				name := ""
				if cc.IsInvoke() {
					name = N(cc.Method)
				} else if sc := cc.StaticCallee(); sc != nil {
					name = N(sc)
				}
				if strings.HasPrefix(name, "MarshalAppend") || strings.HasPrefix(name, "prepareMarshalled") {
					for _, a := range cc.Args {
						if sl, ok := a.Type().Underlying().(*types.Slice); ok {
							if bb, ok := sl.Elem().Underlying().(*types.Basic); ok && bb.Kind() == types.Uint8 {
								return fromBase(a, depth+1)
							}
						}
					}
				}
			}
			return false
		}
		ForEachInstr(fn, func(in ssa.Instruction) {
			ret, ok := in.(*ssa.Return)
			if !ok || ret.Block() == fn.Recover {
				return
			}
			rv := ReturnValues(ret)
			if len(rv) != 2 || !IsNilConst(rv[1]) {
				return // error return
			}
			n++
			c.Check(fromBase(rv[0], 0), "C14.4", FuncName(fn), "result-grown-from-base", ret.Pos(),
				"the marshalled form is the base buffer, an append to it, or what a marshal-append callee made of it",
				"the marshalled form returned is not grown from the base buffer (it may alias the buffer the message was decoded from): message.encode releases that buffer and adopts the result, so the message and the pool share one backing array")
		})
	}
	if n == 0 {
		c.Bad("C14.4", "preparers", "result-grown-from-base", token.NoPos, "no body preparer in the marshal-append role found: shape changed")
	}
}

func runC14(c *Ctx) {
	p := c.P
	defer c.ImportRules("C11", "C11.13")
	// clause shared with C15: a pooled (de)compressor is handed back exactly once
	defer c.ImportRules("C15", "C15.2")
	defer runC14MarshalAppend(c)
	// clause shared with C03 (see DESIGN.md section 6a)
	defer c.ImportRules("C03", "C03.13")
	bpPut := p.MustFunc("(*bufferPool).Put")
	bpGet := p.MustFunc("(*bufferPool).Get")
	isPut := func(in ssa.Instruction) (ssa.CallInstruction, ssa.Value, bool) {
		ci, ok := in.(ssa.CallInstruction)
		if !ok {
			return nil, nil, false
		}
		for _, cal := range p.CalleesAt(ci) {
			if cal == bpPut {
				args := ci.Common().Args
				return ci, args[len(args)-1], true
			}
		}
		return nil, nil, false
	}
	fromGet := func(v ssa.Value) bool {
		ls := Origins(v)
		if len(ls) == 0 {
			return false
		}
		for _, l := range ls {
			if l.Kind != "call" {
				return false
			}
			ok := false
			for _, cal := range p.CalleesAt(l.Call) {
				if cal == bpGet || FuncName(cal) == "(*bufferPool).Wrap" {
					ok = true
				}
			}
			if !ok {
				return false
			}
		}
		return true
	}
	// fieldCellOf: the buffer value was read from a receiver/owner field (possibly through a type assertion or a limitWriter)
	fieldCellOf := func(v ssa.Value) (path string, fld *types.Var) {
		for _, l := range Origins(v) {
			if l.Kind == "load" && l.Field != nil {
				return l.Path, l.Field
			}
		}
		return "", nil
	}

	c.Rule("C14.1", "pooled buffers: no use or second release after Put, release-then-clear, swap discipline, no access after Close", 25)
	// unguardedPutters[cell field]: functions that Put a buffer loaded from this cell without a dominating
	// 'err == nil' test of the owner.  The "set the terminal error cell instead of clearing" idiom is only
	// sound for a release site if no OTHER function can release the same cell regardless of the error cell.
	unguardedPutters := map[*types.Var][]*ssa.Function{}
	for _, fn := range p.Funcs {
		ForEachInstr(fn, func(in ssa.Instruction) {
			ci, b, ok := isPut(in)
			if !ok || fromGet(b) {
				return
			}
			_, fld := fieldCellOf(b)
			if fld == nil {
				return
			}
			guarded := false
			for _, f := range FactsAt(ci.Block()) {
				if cmp, ok := f.AsCmp(); ok && cmp.Op == token.EQL && IsNilConst(cmp.Y) {
					if ef := LoadedField(cmp.X); ef != nil && N(ef) == "err" {
						guarded = true
					}
				}
			}
			if !guarded {
				unguardedPutters[fld] = append(unguardedPutters[fld], fn)
			}
		})
	}
	errIdiomOKFor := func(fld *types.Var, self *ssa.Function) bool {
		if N(self) == "Close" {
			return true // terminal: nothing of the adapter runs after Close
		}
		for _, f := range unguardedPutters[fld] {
			if f != self {
				// a helper only reachable through a guarded caller is fine: all its callers test err first
				allGuarded := len(p.Callers(f)) > 0
				for _, e := range p.Callers(f) {
					g := false
					for _, fct := range FactsAt(e.Site.Block()) {
						if cmp, ok := fct.AsCmp(); ok && cmp.Op == token.EQL && IsNilConst(cmp.Y) {
							if ef := LoadedField(cmp.X); ef != nil && N(ef) == "err" {
								g = true
							}
						}
					}
					if !g {
						allGuarded = false
					}
				}
				if !allGuarded {
					return false
				}
			}
		}
		return true
	}
	for _, fn := range p.Funcs {
		var puts []ssa.CallInstruction
		var bufs []ssa.Value
		ForEachInstr(fn, func(in ssa.Instruction) {
			if ci, b, ok := isPut(in); ok {
				puts = append(puts, ci)
				bufs = append(bufs, b)
			}
		})
		if len(puts) == 0 || fn == bpPut {
			continue
		}
		for i, put := range puts {
			b := bufs[i]
			c.CountSite()
			_, isDefer := put.(*ssa.Defer)
			// (b') (seed C14k) the buffer's bytes must not outlive the release: a slice obtained from
			// buf.Bytes() that is stored into a field (directly, or wrapped in a reader made from it)
			// still points into the array that the next RPC taking this buffer overwrites
			{
				escaped := token.NoPos
				ForEachInstr(fn, func(in ssa.Instruction) {
					bc, ok := in.(*ssa.Call)
					if !ok || !IsCallTo(bc, "(*bytes.Buffer).Bytes") || !(strip(bc.Call.Args[0]) == strip(b) || sameBuffer(bc.Call.Args[0], b)) {
						return
					}
					seenV := map[ssa.Value]bool{}
					var follow func(v ssa.Value, depth int)
					follow = func(v ssa.Value, depth int) {
						if depth > 5 || seenV[v] || v.Referrers() == nil {
							return
						}
						seenV[v] = true
						for _, ref := range *v.Referrers() {
							switch r := ref.(type) {
							case *ssa.Store:
								if _, isFA := r.Addr.(*ssa.FieldAddr); isFA && r.Val == v {
									escaped = r.Pos()
								}
								// a local cell (go/ssa spills results to cells when the function defers)
								if al, isAl := r.Addr.(*ssa.Alloc); isAl && r.Val == v && al.Referrers() != nil {
									for _, ar := range *al.Referrers() {
										if ld, isLd := ar.(*ssa.UnOp); isLd && ld.Op == token.MUL {
											follow(ld, depth+1)
										}
									}
								}
							case *ssa.Return:
								// handed to the caller by the very function that releases the buffer
								// (seed C14o: `defer pool.Put(dst) ... return dst.Bytes(), nil`)
								escaped = r.Pos()
							case *ssa.MakeInterface, *ssa.Slice, *ssa.ChangeType, *ssa.ChangeInterface, *ssa.Phi:
								follow(r.(ssa.Value), depth+1)
							case *ssa.Call:
								// constructors of readers over the slice
								if IsCallTo(r, "bytes.NewReader", "bytes.NewBuffer") {
									follow(r, depth+1)
								}
							}
						}
					}
					follow(bc, 0)
				})
				if escaped != token.NoPos {
					c.Bad("C14.1", FuncName(fn), "bytes-outlive-put", put.Pos(),
						"a slice of this buffer's bytes is stored into a field or returned to the caller ("+p.Pos(escaped)+") and the buffer is returned to the pool here: the stored slice still points into the array that the next RPC taking the buffer overwrites, so one RPC's backend can read another RPC's request")
				}
			}
			// (b) use after put / double put
			if !isDefer {
				use := func(in ssa.Instruction) bool {
					if in == ssa.Instruction(put) {
						return false
					}
					if _, isDbg := in.(*ssa.DebugRef); isDbg {
						return false
					}
					var ops []*ssa.Value
					for _, op := range in.Operands(ops) {
						if *op != nil && strip(*op) == strip(b) {
							// storing nil over the cell is not a use; the operand is the buffer itself only if it is the value
							return true
						}
					}
					return false
				}
				found, path := PathQuery{Target: use}.Search(fn, put)
				c.Check(!found, "C14.1", FuncName(fn), "no-use-after-put", put.Pos(),
					"after the buffer is returned to the pool it is not used again on any path", "the buffer is used (or released again) after it was returned to the pool: "+witnessString(p, path))
			} else {
				for j, other := range puts {
					if j == i {
						continue
					}
					if sameBuffer(bufs[j], b) {
						c.Bad("C14.1", FuncName(fn), "double-put", put.Pos(), "the same buffer is released by this deferred Put and by another Put at "+p.Pos(other.Pos()))
					}
				}
			}
			// (c) release-then-clear
			cellPath, cellFld := fieldCellOf(b)
			if fromGet(b) {
				// a temporary that was published into a field cell before being released is no longer local
				published := false
				ForEachInstr(fn, func(in ssa.Instruction) {
					st, ok := in.(*ssa.Store)
					if !ok || !instrBefore(st, put) {
						return
					}
					if fa, ok := st.Addr.(*ssa.FieldAddr); ok && (strip(st.Val) == strip(b)) {
						published = true
						cellPath, cellFld = AddrPath(st.Addr), FieldOfAddr(fa)
					}
				})
				if !published {
					continue // local temporary
				}
			}
			if cellFld == nil {
				if _, isParam := strip(b).(*ssa.Parameter); isParam {
					continue // ownership passed in by the caller (bufferPool wrappers)
				}
				// a closure (typically deferred) that releases a variable of the enclosing function:
				// the buffer is whatever was assigned to that variable there
				if vals, parent, ok := capturedValues(fn, strip(b)); ok {
					double := token.NoPos
					for _, v := range vals {
						ForEachInstr(parent, func(pin ssa.Instruction) {
							pc, arg, isP := isPut(pin)
							if !isP {
								return
							}
							if sameBuffer(arg, v) || strip(arg) == strip(v) {
								double = pc.Pos()
							}
						})
					}
					c.Check(double == token.NoPos, "C14.1", FuncName(fn), "double-put", put.Pos(),
						"the closure releases a variable of the enclosing function; none of the buffers assigned to it is released a second time there",
						"this closure releases whatever the enclosing function's variable holds when it runs, and one of the buffers assigned to that variable is also released by the enclosing function itself ("+p.Pos(double)+"): the same buffer enters the pool twice and is handed to two RPCs")
					continue
				}
				c.Unknown("C14.1", FuncName(fn), "released-buffer-origin", put.Pos(), "cannot determine where the released buffer comes from")
				continue
			}
			clears := func(in ssa.Instruction) bool {
				st, ok := in.(*ssa.Store)
				if !ok {
					return false
				}
				fa, ok := st.Addr.(*ssa.FieldAddr)
				if !ok {
					return false
				}
				f := FieldOfAddr(fa)
				if f == cellFld && AddrPath(st.Addr) == cellPath {
					return strip(st.Val) != strip(b)
				}
				// terminal error cell of the same owner: accepted only if every OTHER function that releases a
				// buffer read from this cell does so under a dominating 'err == nil' test of that owner
				if N(f) == "err" && !IsNilConst(st.Val) && strings.HasPrefix(cellPath, PathOf(fa.X)+".") && errIdiomOKFor(cellFld, fn) {
					return true
				}
				return false
			}
			okClear, path := MustPassToExit(fn, put, clears, IsReturn, nil)
			c.Check(okClear, "C14.1", FuncName(fn), "release-then-clear:"+N(cellFld), put.Pos(),
				"on every path to the exit the cell that held the released buffer is overwritten (or the owner's terminal error cell is set)",
				"a released buffer stays referenced by "+cellPath+" on a path to the exit ("+witnessString(p, path)+"): a later call can use or release a buffer another RPC already owns")
		}
	}
	// (d) swap discipline of the in-place stage helpers
	msgT := types.NewPointer(p.MustNamed("message"))
	mbuf := p.MustField("message", "buf")
	for _, name := range []string{"decompress", "compress", "encode"} {
		fn := p.MethodOf(msgT, name)
		paths, ok := EnumPaths(fn.Blocks[0], nil, IsReturn, 0)
		if !ok {
			c.Unknown("C14.1", FuncName(fn), "swap:paths", fn.Pos(), "too many paths")
			continue
		}
		good := true
		var why string
		for _, cp := range paths {
			ret := cp.End.(*ssa.Return)
			isErr := !IsNilConst(cp.Deref(ret.Results[0]))
			var kinds []string
			gotTemp, stored := false, false
			for _, b := range cp.Blocks {
				for _, in := range b.Instrs {
					if ci, ok := in.(ssa.CallInstruction); ok {
						for _, cal := range p.CalleesAt(ci) {
							if cal == bpGet {
								gotTemp = true
							}
						}
					}
					if _, bv, ok := isPut(in); ok {
						if _, isDefer := in.(*ssa.Defer); isDefer {
							kinds = append(kinds, "deferred")
						} else if LoadedField(bv) == mbuf {
							kinds = append(kinds, "old")
							stored = false
						} else {
							kinds = append(kinds, "temp")
						}
					}
					if st, ok := in.(*ssa.Store); ok {
						if fa, ok := st.Addr.(*ssa.FieldAddr); ok && FieldOfAddr(fa) == mbuf {
							stored = true
						}
					}
				}
			}
			k := strings.Join(kinds, ",")
			switch {
			case !gotTemp:
				if k != "" {
					good, why = false, "a path without a temporary buffer releases "+k
				}
			case isErr:
				if k != "temp" {
					good, why = false, "an error path releases ["+k+"], expected exactly the temporary (the message keeps its buffer)"
				}
			default:
				if k != "old" || !stored {
					good, why = false, "a success path releases ["+k+"] / re-stores the cell: "+boolStr(stored)+"; expected exactly the old buffer followed by storing the new one"
				}
			}
		}
		c.Check(good, "C14.1", FuncName(fn), "swap-discipline", fn.Pos(),
			"error paths release exactly the temporary, success paths exactly the old buffer and then re-store the cell ("+itoa(len(paths))+" paths)", why)
	}
	// (f) adapters touch buffer-aliasing fields only while their error cell is nil
	type adapterMethod struct {
		typ, method string
	}
	for _, am := range []adapterMethod{{"envelopingReader", "Read"}, {"transformingReader", "Read"}, {"envelopingWriter", "Write"}, {"transformingWriter", "Write"}, {"errorWriter", "Write"}} {
		n := p.MustNamed(am.typ)
		fn := p.MethodOf(types.NewPointer(n), am.method)
		if fn == nil {
			fatalf("anchor=%s.%s not found", am.typ, am.method)
		}
		st := n.Underlying().(*types.Struct)
		var errF *types.Var
		alias := map[*types.Var]bool{}
		for i := 0; i < st.NumFields(); i++ {
			f := st.Field(i)
			if N(f) == "err" {
				errF = f
			}
			if N(f) == "w" || N(f) == "r" || N(f) == "rw" {
				continue
			}
			if isPtrTo(f.Type(), "bytes", "Buffer") || isNamed(f.Type(), "io", "Reader") || isNamed(f.Type(), "io", "Writer") {
				alias[f] = true
			}
		}
		for _, call := range Calls(fn) {
			cc := call.Common()
			var recv ssa.Value
			if cc.IsInvoke() {
				recv = cc.Value
			} else if sc := cc.StaticCallee(); sc != nil && sc.Signature.Recv() != nil && len(cc.Args) > 0 {
				recv = cc.Args[0]
			}
			f := LoadedField(recv)
			if recv == nil || !alias[f] {
				continue
			}
			if _, isParam := strip(recv).(*ssa.UnOp).X.(*ssa.FieldAddr).X.(*ssa.Parameter); !isParam {
				continue
			}
			c.CountSite()
			guarded := false
			if errF != nil {
				for _, fct := range FactsAt(call.Block()) {
					if cmp, ok := fct.AsCmp(); ok && cmp.Op == token.EQL && IsNilConst(cmp.Y) && LoadedField(cmp.X) == errF {
						guarded = true
					}
				}
			} else {
				// types without an error cell use the buffer field itself as the closed marker
				for _, fct := range FactsAt(call.Block()) {
					if cmp, ok := fct.AsCmp(); ok && cmp.Op == token.NEQ && IsNilConst(cmp.Y) && LoadedField(cmp.X) == f {
						guarded = true
					}
				}
			}
			c.Check(guarded, "C14.1", FuncName(fn), "access-only-while-open:"+N(f), call.Pos(),
				"the buffer-aliasing field is touched only under a dominating 'error cell == nil' (not closed / not failed) test",
				"the adapter reads or writes through "+N(f)+" without a dominating test of its error cell: after Close released the buffer to the pool, another RPC's bytes can be read or overwritten")
		}
	}

	// ---------------------------------------------------------------- C14.2
	c.Rule("C14.2", "mutex-owning adapters lock before touching their fields; helpers are called only under the lock", 4)
	handle := p.MustFunc("(*operation).handle")
	scope := p.Root.Pkg.Scope()
	for _, name := range scope.Names() {
		tn, ok := scope.Lookup(name).(*types.TypeName)
		if !ok || p.isTestFile(tn.Pos()) {
			continue
		}
		n, ok := tn.Type().(*types.Named)
		if !ok {
			continue
		}
		st, ok := n.Underlying().(*types.Struct)
		if !ok {
			continue
		}
		var muF *types.Var
		for i := 0; i < st.NumFields(); i++ {
			if isNamed(st.Field(i).Type(), "sync", "Mutex") || isNamed(st.Field(i).Type(), "sync", "RWMutex") {
				muF = st.Field(i)
			}
		}
		if muF == nil {
			continue
		}
		ms := p.SSA.MethodSets.MethodSet(types.NewPointer(n))
		locked := map[*ssa.Function]bool{}
		var methods []*ssa.Function
		for i := 0; i < ms.Len(); i++ {
			m := p.MethodOf(types.NewPointer(n), N(ms.At(i).Obj()))
			if m != nil && m.Blocks != nil {
				methods = append(methods, m)
			}
		}
		isLock := func(in ssa.Instruction) bool {
			ci, ok := in.(*ssa.Call)
			if !ok || !IsCallTo(ci, "(*sync.Mutex).Lock", "(*sync.RWMutex).Lock") {
				return false
			}
			fa, ok := ci.Call.Args[0].(*ssa.FieldAddr)
			return ok && FieldOfAddr(fa) == muF
		}
		isDeferUnlock := func(in ssa.Instruction) bool {
			d, ok := in.(*ssa.Defer)
			if !ok || !IsCallTo(d, "(*sync.Mutex).Unlock", "(*sync.RWMutex).Unlock") {
				return false
			}
			fa, ok := d.Call.Args[0].(*ssa.FieldAddr)
			return ok && FieldOfAddr(fa) == muF
		}
		// fields that are never stored outside the composite literal that creates the adapter
		// are immutable after publication: reading them needs no lock (e.g. the wrapped body,
		// which Close must close BEFORE locking, because Read holds the lock while blocked)
		immutable := func(f *types.Var) bool {
			key := "immut|" + fieldOwner(f, p) + "." + N(f)
			if v, ok := p.memo[key]; ok {
				return v.(bool)
			}
			res := true
			for _, fn := range p.Funcs {
				for _, w := range FieldWrites(fn) {
					if w.Field == f && !w.Fresh {
						res = false
					}
				}
			}
			p.memo[key] = res
			return res
		}
		touchesField := func(in ssa.Instruction) bool {
			fa, ok := in.(*ssa.FieldAddr)
			if !ok || FieldOfAddr(fa) == muF {
				return false
			}
			_, isRecv := fa.X.(*ssa.Parameter)
			if !isRecv || fa.X != ssa.Value(in.Parent().Params[0]) {
				return false
			}
			if immutable(FieldOfAddr(fa)) {
				// only loads of an immutable field are harmless
				onlyLoads := true
				for _, ref := range *fa.Referrers() {
					if u, isLoad := ref.(*ssa.UnOp); !isLoad || u.Op != token.MUL {
						onlyLoads = false
					}
				}
				if onlyLoads {
					return false
				}
			}
			return true
		}
		for _, m := range methods {
			hasLock := false
			ForEachInstr(m, func(in ssa.Instruction) {
				if isLock(in) {
					hasLock = true
				}
			})
			if !hasLock {
				continue
			}
			locked[m] = true
			f1, path1 := PathQuery{Target: touchesField, Avoid: isLock}.Search(m, nil)
			c.Check(!f1, "C14.2", FuncName(m), "lock-before-fields", m.Pos(),
				"no field of the receiver is touched before the mutex is locked", "a receiver field is touched before the lock is taken: "+witnessString(p, path1))
			var lockIn ssa.Instruction
			ForEachInstr(m, func(in ssa.Instruction) {
				if isLock(in) && lockIn == nil {
					lockIn = in
				}
			})
			okU, path2 := MustPassToExit(m, lockIn, isDeferUnlock, IsExit, nil)
			// the deferred unlock must directly follow: no return between Lock and Defer
			c.Check(okU, "C14.2", FuncName(m), "deferred-unlock", m.Pos(),
				"Unlock is deferred on every path after Lock", "a path after Lock leaves without the deferred Unlock: "+witnessString(p, path2))
		}
		for _, m := range methods {
			if locked[m] {
				continue
			}
			touches := false
			ForEachInstr(m, func(in ssa.Instruction) {
				if touchesField(in) {
					touches = true
				}
			})
			if !touches {
				continue
			}
			// a caller holds the lock itself, or is another unlocked helper of the same adapter
			// every call of which comes from under the lock (refactoring B21_r6: prepareNext ->
			// prepareBodyAsMessage)
			isMethod := map[*ssa.Function]bool{}
			for _, mm := range methods {
				isMethod[mm] = true
			}
			var underLock func(fn *ssa.Function, depth int) bool
			underLock = func(fn *ssa.Function, depth int) bool {
				if locked[fn] {
					return true
				}
				if depth > 3 || !isMethod[fn] {
					return false
				}
				es := p.Callers(fn)
				if len(es) == 0 {
					return false
				}
				for _, e2 := range es {
					if e2.Kind != "static" || !(underLock(e2.Caller, depth+1) || prePublication(p, handle, e2.Site, 0)) {
						return false
					}
				}
				return true
			}
			for _, e := range p.Callers(m) {
				okCaller := underLock(e.Caller, 0)
				if !okCaller && prePublication(p, handle, e.Site, 0) {
					c.Exception(FuncName(e.Caller)+" -> "+FuncName(m), "pre-publication: called (within the request handler, possibly through its helpers) before the handler is dispatched, the adapter is not yet visible to another goroutine")
					okCaller = true
				}
				c.Check(okCaller, "C14.2", FuncName(m), "helper-called-under-lock:"+FuncName(e.Caller), e.Site.Pos(),
					"the unlocked helper is called from a method that holds the lock (or before publication)", "a helper that touches the adapter's fields without locking is called from "+FuncName(e.Caller)+", which does not hold the adapter's mutex")
			}
		}
	}

	// ---------------------------------------------------------------- C14.3
	c.Rule("C14.3", "response-writer cells stored from the reader side without a shared lock (race candidates; KF-1 family is a known finding)", 1)
	rwN := p.MustNamed("responseWriter")
	rwFields := map[*types.Var]bool{}
	{
		st := rwN.Underlying().(*types.Struct)
		for i := 0; i < st.NumFields(); i++ {
			rwFields[st.Field(i)] = true
		}
	}
	// does the writer side lock anything the reader side holds? (today: no lock at all on responseWriter)
	rwHasMutex := false
	{
		st := rwN.Underlying().(*types.Struct)
		for i := 0; i < st.NumFields(); i++ {
			if isNamed(st.Field(i).Type(), "sync", "Mutex") || isNamed(st.Field(i).Type(), "sync", "RWMutex") {
				rwHasMutex = true
			}
		}
	}
	// invariant that justifies ignoring class-hierarchy guesses for invokes on the underlying
	// writer: responseWriter.delegate is only ever the caller's writer, never a responseWriter.
	delegF := p.MustField("responseWriter", "delegate")
	opWriterF := p.MustField("operation", "writer")
	okDeleg := true
	nDeleg := 0
	for _, fn := range p.Funcs {
		for _, st := range StoresToField(fn, delegF) {
			nDeleg++
			if LoadedField(st.Val) != opWriterF {
				okDeleg = false
			}
			// the operation's writer is replaced by the responseWriter only after this store
			for _, st2 := range StoresToField(fn, opWriterF) {
				if instrBefore(st2, st) {
					okDeleg = false
				}
			}
		}
	}
	c.Check(okDeleg && nDeleg == 1, "C14.3", "responseWriter.delegate", "delegate-is-callers-writer", delegF.Pos(),
		"responseWriter.delegate is stored once, from the operation's original writer, before the operation's writer is replaced (so invokes on it never re-enter the response writer)",
		"responseWriter.delegate may hold something other than the caller's original writer: the reachability used by the lock-set rule is no longer justified")
	nCand := 0
	for _, ra := range readerAdapters(p) {
		roots := []*ssa.Function{ra.read}
		if cl := p.MethodOf(types.NewPointer(ra.typ), "Close"); cl != nil {
			roots = append(roots, cl)
		}
		for _, root := range roots {
			cells := map[string]ssa.Instruction{}
			for _, fn := range SortedFuncs(p.ReachModuleIfaces(root)) {
				if !p.inScope(fn) {
					continue
				}
				for _, w := range FieldWrites(fn) {
					if !rwFields[w.Field] || w.Fresh {
						continue
					}
					if _, seen := cells[N(w.Field)]; !seen {
						cells[N(w.Field)] = w.Store
					}
				}
			}
			var names []string
			for k := range cells {
				names = append(names, k)
			}
			sort.Strings(names)
			for _, k := range names {
				nCand++
				if rwHasMutex {
					c.Unknown("C14.3", FuncName(root), "responseWriter."+k, cells[k].Pos(), "responseWriter now owns a mutex: the lock-set rule must be extended to verify that both sides hold it")
					continue
				}
				c.Bad("C14.3", FuncName(root), "responseWriter."+k, cells[k].Pos(),
					"responseWriter."+k+" is stored from code reachable from the request-body adapter (the handler's reader goroutine) while the writer side accesses it without any common lock: data race in a full-duplex stream")
			}
		}
	}
	if nCand == 0 {
		c.OK("C14.3", "reader adapters", "no-cross-side-writes", token.NoPos, "no response-writer field is stored from the reader side")
	}
}

// capturedValues: v is a load of a free variable of the closure fn; returns the values the
// enclosing function stores into the captured variable.
func capturedValues(fn *ssa.Function, v ssa.Value) ([]ssa.Value, *ssa.Function, bool) {
	ld, ok := v.(*ssa.UnOp)
	if !ok || ld.Op != token.MUL {
		return nil, nil, false
	}
	fv, ok := ld.X.(*ssa.FreeVar)
	if !ok || fn.Parent() == nil {
		return nil, nil, false
	}
	idx := -1
	for i, f := range fn.FreeVars {
		if f == fv {
			idx = i
		}
	}
	if idx < 0 {
		return nil, nil, false
	}
	parent := fn.Parent()
	var out []ssa.Value
	found := false
	ForEachInstr(parent, func(in ssa.Instruction) {
		mc, ok := in.(*ssa.MakeClosure)
		if !ok || mc.Fn != ssa.Value(fn) || idx >= len(mc.Bindings) {
			return
		}
		al, ok := mc.Bindings[idx].(*ssa.Alloc)
		if !ok {
			return
		}
		found = true
		for _, ref := range *al.Referrers() {
			if st, ok := ref.(*ssa.Store); ok && st.Addr == ssa.Value(al) && !IsNilConst(st.Val) {
				out = append(out, st.Val)
			}
		}
	})
	return out, parent, found
}

package vg

import (
	"fmt"
	"go/ast"
	"go/constant"
	"go/token"
	"go/types"
	"net/textproto"
	"sort"
	"strconv"
	"strings"

	"golang.org/x/tools/go/ssa"
)

func init() {
	register(&PropertySpec{
		ID: "C04",
		Explanation: "Decides: (C04.1) every index into a fixed-size lookup table (package-level array, constant string) with a non-constant index is proven in range from the index's type, shape (mask/shift) and dominating comparisons - no out-of-range RPC code can crash the status mapping; " +
			"(C04.2) the RPC->HTTP table (extracted from the composite literal) and the HTTP->RPC function (its full table for statuses 100..599 obtained by constant folding) equal the mapping published by the Connect/gRPC specifications, which is written out in the checker; " +
			"(C04.3) every server protocol's response-header extraction reaches the HTTP->RPC mapping (bare HTTP failures are mapped, not hard-coded); " +
			"(C04.4) the gRPC status keys written by the trailer encoder are exactly those read by the trailer decoder, grpc-message passes the percent-encoder on write and the decoder on read, and the status code written is the error's own code; " +
			"(C04.5) the percent-encoder's escape set (folded over all 256 bytes) is exactly the gRPC spec's (bytes outside 0x20..0x7E, and '%'), and the hex helpers are the hex alphabet. " +
			"Not decided: byte-level preservation of arbitrary messages and details, JSON error body syntax, behaviour of connect.Error.",
		Assumptions: []string{"connect.Code values 0..16 are the canonical gRPC codes", "reference tables in the checker transcribe the Connect protocol's HTTP<->code mapping"},
		Run:         runC04,
	})
}

// published Connect mapping RPC code -> HTTP status (index = code)
var refRPCToHTTP = []int64{200, 499, 500, 400, 504, 404, 409, 403, 429, 400, 409, 400, 501, 500, 503, 500, 401}

func refHTTPToRPC(status int64) int64 {
	switch status {
	case 200:
		return 0
	case 400:
		return 13 // internal
	case 401:
		return 16 // unauthenticated
	case 403:
		return 7 // permission_denied
	case 404:
		return 12 // unimplemented
	case 429, 502, 503, 504:
		return 14 // unavailable
	}
	return 2 // unknown
}

// tableLookups enumerates indexing operations into fixed-size tables with a
// non-constant index in fn.
type tableLookup struct {
	in    ssa.Instruction
	index ssa.Value
	n     int64
	table string
}

func tableLookups(fn *ssa.Function) []tableLookup {
	var out []tableLookup
	ForEachInstr(fn, func(in ssa.Instruction) {
		switch x := in.(type) {
		case *ssa.IndexAddr:
			if _, isConst := ConstInt(x.Index); isConst {
				return
			}
			if g, ok := x.X.(*ssa.Global); ok {
				if arr, ok := g.Type().Underlying().(*types.Pointer).Elem().Underlying().(*types.Array); ok {
					out = append(out, tableLookup{in, x.Index, arr.Len(), "array " + N(g)})
				}
			}
		case *ssa.Index:
			if _, isConst := ConstInt(x.Index); isConst {
				return
			}
			if s, ok := ConstString(x.X); ok {
				out = append(out, tableLookup{in, x.Index, int64(len(s)), fmt.Sprintf("string %q", s)})
			} else if arr, ok := x.X.Type().Underlying().(*types.Array); ok {
				if _, isGlobalLoad := strip(x.X).(*ssa.UnOp); isGlobalLoad {
					out = append(out, tableLookup{in, x.Index, arr.Len(), "array value"})
				}
			}
		}
	})
	return out
}

func checkTableLookups(c *Ctx, rule string) {
	p := c.P
	for _, fn := range p.Funcs {
		for _, tl := range tableLookups(fn) {
			c.CountSite()
			iv := IntervalOf(tl.index, tl.in.Block())
			ok := iv.Lo >= 0 && iv.Hi < tl.n
			c.Check(ok, rule, FuncName(fn), "index:"+tl.table, tl.in.Pos(),
				fmt.Sprintf("index proven within [0,%d): derived interval [%d,%d]", tl.n, iv.Lo, iv.Hi),
				fmt.Sprintf("index into %s (length %d) is not proven in range: derived interval is [%d,%d] - an out-of-range value panics", tl.table, tl.n, iv.Lo, iv.Hi))
		}
	}
}

// globalArrayLiteral extracts the constant elements of a package-level array/slice literal.
func globalArrayLiteral(p *Prog, name string) ([]int64, token.Pos, bool) {
	for _, file := range p.RootPkg.Syntax {
		for _, decl := range file.Decls {
			gd, ok := decl.(*ast.GenDecl)
			if !ok || gd.Tok != token.VAR {
				continue
			}
			for _, spec := range gd.Specs {
				vs := spec.(*ast.ValueSpec)
				for i, nm := range vs.Names {
					if nm.Name != name || i >= len(vs.Values) {
						continue
					}
					cl, ok := vs.Values[i].(*ast.CompositeLit)
					if !ok {
						return nil, nm.Pos(), false
					}
					var out []int64
					for _, el := range cl.Elts {
						if kv, isKV := el.(*ast.KeyValueExpr); isKV {
							_ = kv
							return nil, nm.Pos(), false
						}
						tv, ok := p.RootPkg.TypesInfo.Types[el]
						if !ok || tv.Value == nil {
							return nil, nm.Pos(), false
						}
						v, exact := constant.Int64Val(tv.Value)
						if !exact {
							return nil, nm.Pos(), false
						}
						out = append(out, v)
					}
					return out, nm.Pos(), true
				}
			}
		}
	}
	return nil, token.NoPos, false
}

func runC04(c *Ctx) {
	// clause shared with C03: the final frame is decompressed by its own flag, not the stream's declaration
	defer c.ImportRules("C03", "C03.12")
	defer runC04MessageDecodeKeepsCode(c)
	defer runC04DetailAlphabet(c)
	// clause shared with C05: announced trailer names are recorded in canonical form
	defer c.ImportRules("C05", "C05.5")
	p := c.P
	// clauses this property shares with others (see DESIGN.md section 6a)
	defer c.ImportRules("C03", "C03.4", "C03.9")
	// clause shared with C20: the resolver that renders error details falls back to the global registry
	defer c.ImportRules("C20", "C20.10")

	c.Rule("C04.1", "every non-constant index into a fixed-size lookup table is proven in range", 3)
	checkTableLookups(c, "C04.1")

	// ---- C04.2
	c.Rule("C04.2", "the RPC<->HTTP code tables equal the published mapping", 2)
	fromRPC := p.MustFunc("httpStatusCodeFromRPC")
	toRPC := p.MustFunc("httpStatusCodeToRPC")
	// which global does fromRPC index?
	var tableName string
	for _, tl := range tableLookups(fromRPC) {
		if g, ok := tl.in.(*ssa.IndexAddr).X.(*ssa.Global); ok {
			tableName = N(g)
		}
	}
	if tableName == "" {
		c.Unknown("C04.2", FuncName(fromRPC), "table-shape", fromRPC.Pos(), "RPC->HTTP function does not index a package-level array: table shape not recognised")
	} else {
		vals, pos, ok := globalArrayLiteral(p, tableName)
		if !ok {
			c.Unknown("C04.2", tableName, "table-literal", pos, "RPC->HTTP table is not a literal of constants")
		} else {
			same := len(vals) == len(refRPCToHTTP)
			var diffs []string
			for i := 0; i < len(vals) && i < len(refRPCToHTTP); i++ {
				if vals[i] != refRPCToHTTP[i] {
					same = false
					diffs = append(diffs, fmt.Sprintf("code %d -> %d (published: %d)", i, vals[i], refRPCToHTTP[i]))
				}
			}
			c.Check(same, "C04.2", tableName, "rpc-to-http", pos,
				fmt.Sprintf("all %d rows equal the published RPC->HTTP mapping", len(vals)),
				fmt.Sprintf("RPC->HTTP table differs from the published mapping (rows: %d, published: %d): %s", len(vals), len(refRPCToHTTP), strings.Join(diffs, "; ")))
		}
		// the function returns the table element in range and 500 otherwise
		okShape := true
		ForEachInstr(fromRPC, func(in ssa.Instruction) {
			ret, ok := in.(*ssa.Return)
			if !ok {
				return
			}
			for _, l := range Origins(ret.Results[0]) {
				switch l.Kind {
				case "const":
					if v, _ := ConstInt(l.V); v != 500 {
						okShape = false
					}
				case "load":
					if !strings.HasSuffix(l.Path, "[]") || !strings.Contains(l.Path, tableName) {
						okShape = false
					}
				default:
					okShape = false
				}
			}
		})
		c.Check(okShape, "C04.2", FuncName(fromRPC), "returns-table-or-500", fromRPC.Pos(),
			"returns the table row for in-range codes and 500 for out-of-range codes",
			"RPC->HTTP function returns something other than the table row or the 500 fallback")
	}
	// fold HTTP->RPC over 100..599
	var diffs []string
	folded := 0
	for s := int64(100); s <= 599; s++ {
		res, err := p.Fold(toRPC, fInt64(s, types.Typ[types.Int]))
		if err != nil || len(res) != 1 || res[0].k != fInt {
			c.Unknown("C04.2", FuncName(toRPC), "fold", toRPC.Pos(), fmt.Sprintf("HTTP->RPC function could not be folded for status %d: %v", s, err))
			diffs = nil
			break
		}
		folded++
		if res[0].i != refHTTPToRPC(s) {
			diffs = append(diffs, fmt.Sprintf("%d -> %d (published: %d)", s, res[0].i, refHTTPToRPC(s)))
		}
	}
	if folded == 500 {
		c.Check(len(diffs) == 0, "C04.2", FuncName(toRPC), "http-to-rpc", toRPC.Pos(),
			"the folded table for statuses 100..599 equals the published HTTP->RPC mapping (401 unauthenticated, 403 permission_denied, 404 unimplemented, 429/502/503/504 unavailable, 400 internal, 200 ok, else unknown)",
			"HTTP->RPC mapping differs from the published one: "+strings.Join(diffs, "; "))
	}

	// ---- C04.3
	c.Rule("C04.3", "every server protocol's response-header extraction reaches the HTTP->RPC mapping", 5)
	sph := p.Iface("serverProtocolHandler")
	if sph == nil {
		fatalf("anchor=serverProtocolHandler interface not found")
	}
	for _, t := range p.Implementers(sph) {
		m := p.MethodOf(t, "extractProtocolResponseHeaders")
		if m == nil {
			fatalf("anchor=%s.extractProtocolResponseHeaders", typeName(t))
		}
		r := p.Reach(m)
		c.Check(r[toRPC], "C04.3", typeName(t), "maps-bare-http-failures", m.Pos(),
			"extraction (incl. the body-unmarshalling closure it returns) reaches the HTTP->RPC mapping",
			"this server protocol never consults the HTTP->RPC mapping: a bare HTTP failure from such a backend gets a hard-coded code instead of the published one")
	}
	// the body closures may not hard-code a code for unparsable bodies: every connect.NewError in a
	// closure created by an extract method takes its code from the mapping or from the parsed error
	for _, t := range p.Implementers(sph) {
		m := p.MethodOf(t, "extractProtocolResponseHeaders")
		for _, fn := range SortedFuncs(p.Reach(m)) {
			if fn.Parent() != m {
				continue
			}
			for _, call := range Calls(fn) {
				if !IsCallTo(call, "connectrpc.com/connect.NewError", "connectrpc.com/connect.NewWireError") {
					continue
				}
				codeArg := call.Common().Args[0]
				hard := false
				for _, l := range Origins(codeArg) {
					if l.Kind == "const" {
						hard = true
					}
				}
				c.Check(!hard, "C04.3", FuncName(fn), "no-hardcoded-code", call.Pos(),
					"error code of the body-unmarshalling closure is computed (mapping or parsed body)",
					"the closure that interprets a failed response body hard-codes an RPC code instead of mapping the HTTP status")
			}
		}
	}

	// ---- C04.4
	c.Rule("C04.4", "gRPC status keys are written and read as a pair; grpc-message is percent-encoded on write and decoded on read; the written code is the error's code", 5)
	wr := p.MustFunc("grpcWriteEndToTrailers")
	rd := p.MustFunc("grpcExtractErrorFromTrailer")
	enc := p.MustFunc("grpcPercentEncode")
	dec := p.MustFunc("grpcPercentDecode")
	// the writer / reader and the helpers only they call (a block may have been extracted)
	within := func(root *ssa.Function) []*ssa.Function {
		out := []*ssa.Function{root}
		for _, fn := range p.Funcs {
			if fn != root && p.inScope(fn) && p.OnlyCalledWithin(fn, root) {
				out = append(out, fn)
			}
		}
		return out
	}
	written := map[string]bool{}
	for _, wfn := range within(wr) {
		for _, m := range HeaderMutations(wfn) {
			if m.Key == nil {
				continue
			}
			if ks, ok := constKeys(m.Key); ok {
				for _, k := range ks {
					written[textproto.CanonicalMIMEHeaderKey(k)] = true
				}
			}
		}
	}
	read := map[string]bool{}
	deleted := map[string]bool{}
	for _, rfn := range within(rd) {
		for _, call := range Calls(rfn) {
			if IsCallTo(call, "(net/http.Header).Get", "(net/http.Header).Values") {
				if k, ok := ConstString(call.Common().Args[1]); ok {
					read[textproto.CanonicalMIMEHeaderKey(k)] = true
				}
			}
			if IsCallTo(call, "(net/http.Header).Del") {
				if k, ok := ConstString(call.Common().Args[1]); ok {
					deleted[textproto.CanonicalMIMEHeaderKey(k)] = true
				}
			}
		}
	}
	c.Check(setEq(written, read) && setEq(read, deleted) && len(read) == 3, "C04.4", FuncName(wr)+"/"+FuncName(rd), "key-sets-agree", wr.Pos(),
		"encoder writes and decoder reads+deletes the same keys: "+setStr(read),
		"status key sets disagree: written "+setStr(written)+", read "+setStr(read)+", deleted "+setStr(deleted))
	// grpc-message on write passes the encoder; status is Itoa(int(err.Code())) or const "0"
	for _, m := range HeaderMutations(wr) {
		if m.Key == nil || m.Val == nil {
			continue
		}
		k, _ := ConstString(m.Key)
		switch textproto.CanonicalMIMEHeaderKey(k) {
		case "Grpc-Message":
			ok := true
			for _, l := range Origins(m.Val) {
				switch {
				case l.Kind == "const":
					if s, _ := ConstString(l.V); s != "" {
						ok = false
					}
				case l.Kind == "call" && len(p.CalleesAt(l.Call)) == 1 && p.CalleesAt(l.Call)[0] == enc:
					// argument must be the error's message
					arg := l.Call.Common().Args[0]
					if ac, isCall := arg.(*ssa.Call); !isCall || !IsCallTo(ac, "(*connectrpc.com/connect.Error).Message") {
						ok = false
					}
				default:
					ok = false
				}
			}
			c.Check(ok, "C04.4", FuncName(wr), "message-percent-encoded", m.Instr.Pos(),
				"grpc-message is the percent-encoding of the error's message (or empty on success)",
				"grpc-message is written without passing the error's message through the percent-encoder")
		case "Grpc-Status":
			ok := true
			for _, l := range Origins(m.Val) {
				switch {
				case l.Kind == "const":
					if s, _ := ConstString(l.V); s != "0" {
						ok = false
					}
				case l.Kind == "call" && IsCallTo(l.Call, "strconv.Itoa", "strconv.FormatInt", "strconv.FormatUint"):
					fromCode := false
					for _, la := range Origins(l.Call.Common().Args[0]) {
						if la.Kind == "call" && IsCallTo(la.Call, "(*connectrpc.com/connect.Error).Code") && len(la.Ops) == 0 {
							fromCode = true
						} else {
							ok = false
						}
					}
					if !fromCode {
						ok = false
					}
				default:
					ok = false
				}
			}
			c.Check(ok, "C04.4", FuncName(wr), "status-is-error-code", m.Instr.Pos(),
				"grpc-status is \"0\" on success and the decimal of the error's own code otherwise",
				"grpc-status is not the unmodified code of the error being relayed")
		}
	}
	// on read: the message read flows into the decoder, and the code into NewWireError unchanged
	okDec := false
	for _, call := range Calls(rd) {
		cal := p.CalleesAt(call)
		if len(cal) == 1 && cal[0] == dec {
			for _, l := range Origins(call.Common().Args[0]) {
				if l.Kind == "call" && IsCallTo(l.Call, "(net/http.Header).Get") {
					if k, _ := ConstString(l.Call.Common().Args[1]); textproto.CanonicalMIMEHeaderKey(k) == "Grpc-Message" {
						okDec = true
					}
				}
			}
		}
	}
	c.Check(okDec, "C04.4", FuncName(rd), "message-percent-decoded", rd.Pos(),
		"the grpc-message read from the trailers is passed through the percent-decoder",
		"the grpc-message read from the trailers is not percent-decoded")
	for _, call := range Calls(rd) {
		if !IsCallTo(call, "connectrpc.com/connect.NewWireError") {
			continue
		}
		ok := true
		n := 0
		for _, l := range Origins(call.Common().Args[0]) {
			n++
			if len(l.Ops) > 0 {
				ok = false
			}
			switch {
			case l.Kind == "call" && IsCallTo(l.Call, "strconv.ParseUint", "strconv.ParseInt", "strconv.Atoi") && l.Index == 0:
			case l.Kind == "call" && strings.HasSuffix(CalleeName(l.Call), ".GetCode"):
			default:
				ok = false
			}
		}
		c.Check(ok && n > 0, "C04.4", FuncName(rd), "code-relayed-unchanged", call.Pos(),
			"the relayed error's code is the parsed grpc-status (or the status proto's code) without arithmetic",
			"the relayed error's code is not the unmodified numeric grpc-status")
	}

	// ---- C04.6
	runC04Trailers(c)
	// ---- C04.7
	runC04StrictStatus(c)
	// ---- C04.8
	runC04NonZeroCode(c)
	runC04Base64Tolerant(c)
	runC04FallbackAfterParse(c)

	// ---- C04.5
	c.Rule("C04.5", "the percent-encoding escape set and hex helpers are exactly the gRPC spec's", 4)
	byteT := types.Typ[types.Uint8]
	if esc := p.Func("grpcShouldEscape"); esc != nil {
		var bad []string
		okFold := true
		for b := int64(0); b < 256; b++ {
			res, err := p.Fold(esc, fInt64(b, byteT))
			if err != nil || len(res) != 1 || res[0].k != fBool {
				okFold = false
				c.Unknown("C04.5", FuncName(esc), "fold", esc.Pos(), fmt.Sprintf("escape predicate could not be folded for byte %d: %v", b, err))
				break
			}
			want := b < 0x20 || b > 0x7E || b == '%'
			if res[0].b != want {
				bad = append(bad, fmt.Sprintf("0x%02X escaped=%v (spec: %v)", b, res[0].b, want))
			}
		}
		if okFold {
			c.Check(len(bad) == 0, "C04.5", FuncName(esc), "escape-set", esc.Pos(),
				"escape set over all 256 bytes equals the gRPC spec (outside 0x20..0x7E, and '%')",
				"percent-encoder escape set differs from the gRPC spec: "+strings.Join(bad, "; "))
		}
	} else {
		fatalf("anchor=grpcShouldEscape not found")
	}
	hexAlphabet := "0123456789abcdefABCDEF"
	if ih, uh := p.Func("ishex"), p.Func("unhex"); ih != nil && uh != nil {
		var bad []string
		okFold := true
		for b := int64(0); b < 256; b++ {
			r1, e1 := p.Fold(ih, fInt64(b, byteT))
			r2, e2 := p.Fold(uh, fInt64(b, byteT))
			if e1 != nil || e2 != nil || r1[0].k != fBool || r2[0].k != fInt {
				okFold = false
				c.Unknown("C04.5", "ishex/unhex", "fold", ih.Pos(), "hex helpers could not be folded")
				break
			}
			isHex := strings.IndexByte(hexAlphabet, byte(b)) >= 0
			if r1[0].b != isHex {
				bad = append(bad, fmt.Sprintf("ishex(0x%02X)=%v", b, r1[0].b))
			}
			if isHex {
				var want int64
				fmt.Sscanf(string(rune(b)), "%x", &want)
				if r2[0].i != want {
					bad = append(bad, fmt.Sprintf("unhex(%q)=%d", rune(b), r2[0].i))
				}
			}
		}
		if okFold {
			c.Check(len(bad) == 0, "C04.5", "ishex/unhex", "hex-tables", ih.Pos(),
				"ishex accepts exactly the 22 hex digits and unhex returns their values",
				"hex helper tables are wrong: "+strings.Join(bad, "; "))
		}
	} else {
		fatalf("anchor=ishex/unhex not found")
	}
	// the constant alphabet used for encoding
	if obj, ok := p.Lookup("upperhex").(*types.Const); ok {
		c.Check(constant.StringVal(obj.Val()) == "0123456789ABCDEF", "C04.5", "upperhex", "alphabet", obj.Pos(),
			"encoding alphabet is 0123456789ABCDEF", "encoding alphabet is not the upper-case hex alphabet")
	} else {
		fatalf("anchor=upperhex constant not found")
	}
	// the encoder emits '%', hi nibble, lo nibble
	okNib := 0
	for _, fn := range []*ssa.Function{enc, p.MustFunc("pathEscape")} {
		for _, tl := range tableLookups(fn) {
			if b, ok := tl.index.(*ssa.BinOp); ok {
				if k, isK := ConstInt(b.Y); isK && (b.Op == token.SHR && k == 4 || b.Op == token.AND && k == 15) {
					okNib++
				}
			}
		}
	}
	c.Check(okNib == 4, "C04.5", "grpcPercentEncode/pathEscape", "nibbles", enc.Pos(),
		"both percent-encoders index the alphabet with byte>>4 and byte&15",
		fmt.Sprintf("percent-encoders do not index the alphabet with exactly byte>>4 and byte&15 (found %d of 4 expected lookups)", okNib))
}

func setEq(a, b map[string]bool) bool {
	if len(a) != len(b) {
		return false
	}
	for k := range a {
		if !b[k] {
			return false
		}
	}
	return true
}

func setStr(a map[string]bool) string {
	var ks []string
	for k := range a {
		ks = append(ks, k)
	}
	sort.Strings(ks)
	return "{" + strings.Join(ks, ", ") + "}"
}

// constBytes evaluates a constant byte-slice / string operand: []byte("x"), []byte{'x', ...}, "x", 'x'.
func constBytes(v ssa.Value) (string, bool) {
	switch x := v.(type) {
	case *ssa.Const:
		if s, ok := ConstString(x); ok {
			return s, true
		}
		if k, ok := ConstInt(x); ok && k >= 0 && k < 256 {
			return string([]byte{byte(k)}), true
		}
	case *ssa.Convert:
		return constBytes(x.X)
	case *ssa.Slice:
		elems := sliceLiteralElems(x)
		if len(elems) == 0 {
			return "", false
		}
		// sliceLiteralElems has no order guarantee: order by index address
		type ie struct {
			i int64
			b byte
		}
		var out []ie
		al, _ := x.X.(*ssa.Alloc)
		if al == nil {
			return "", false
		}
		for _, ref := range *al.Referrers() {
			ia, ok := ref.(*ssa.IndexAddr)
			if !ok {
				continue
			}
			idx, ok := ConstInt(ia.Index)
			if !ok {
				return "", false
			}
			for _, r2 := range *ia.Referrers() {
				if st, ok := r2.(*ssa.Store); ok && st.Addr == ssa.Value(ia) {
					k, ok := ConstInt(st.Val)
					if !ok {
						return "", false
					}
					out = append(out, ie{idx, byte(k)})
				}
			}
		}
		sort.Slice(out, func(i, j int) bool { return out[i].i < out[j].i })
		bs := make([]byte, len(out))
		for i, e := range out {
			bs[i] = e.b
		}
		return string(bs), true
	}
	return "", false
}

// runC04Trailers: C04.6.  gRPC-Web carries the status in an in-body trailer block formatted as
// HTTP/1 header lines: lines end in CRLF, name and value are separated by the first ':' and
// whitespace around the value is optional.  The reader must accept exactly that.
func runC04Trailers(c *Ctx) {
	p := c.P
	c.Rule("C04.6", "the gRPC-Web in-body trailer block is read as HTTP/1 header lines: CRLF lines, split at the first ':', value trimmed", 3)
	gw := p.MustNamed("grpcWebServerProtocol")
	dec := p.MethodOf(gw, "decodeEndFromMessage")
	if dec == nil {
		fatalf("anchor=grpcWebServerProtocol.decodeEndFromMessage not found")
	}
	splitFns := []string{"bytes.Cut", "bytes.Index", "bytes.IndexByte", "bytes.SplitN", "bytes.Split", "strings.Cut", "strings.Index", "strings.IndexByte", "strings.SplitN", "strings.Split", "bytes.IndexRune", "strings.IndexRune"}
	var seps []string
	nLine, nKV := 0, 0
	for _, fn := range SortedFuncs(p.Reach(dec)) {
		if !p.inScope(fn) {
			continue
		}
		for _, call := range Calls(fn) {
			if !IsCallTo(call, splitFns...) || len(call.Common().Args) < 2 {
				continue
			}
			sep, ok := constBytes(call.Common().Args[1])
			if !ok {
				continue
			}
			seps = append(seps, sep)
			switch {
			case strings.Contains(sep, "\n") || strings.Contains(sep, "\r"):
				nLine++
				c.Check(sep == "\r\n" || sep == "\n", "C04.6", FuncName(fn), "line-separator", call.Pos(),
					"trailer lines are split at CRLF", "the trailer block is split at "+strconv.Quote(sep)+", not at line ends")
			case strings.Contains(sep, ":"):
				nKV++
				c.Check(sep == ":", "C04.6", FuncName(fn), "name-value-separator", call.Pos(),
					"name and value are separated at the first ':' alone (the following space is optional on the wire)",
					"trailer lines are split at "+strconv.Quote(sep)+": a conforming backend that writes 'grpc-status:5' (no space) is answered with 'malformed trailer' and its status is lost")
			}
		}
	}
	if nKV == 0 {
		c.Unknown("C04.6", FuncName(dec), "name-value-separator", dec.Pos(), "no constant name/value separator found in the recognised splitting calls (separators seen: "+strconv.Quote(strings.Join(seps, "|"))+")")
	}
	// the value added to the trailer map is whitespace-trimmed
	trimFns := []string{"strings.TrimSpace", "bytes.TrimSpace", "net/textproto.TrimString", "net/textproto.TrimBytes", "strings.Trim", "strings.TrimLeft", "bytes.Trim", "bytes.TrimLeft"}
	nAdd := 0
	for _, fn := range SortedFuncs(p.Reach(dec)) {
		if !p.inScope(fn) || fn != dec {
			continue
		}
		for _, hm := range HeaderMutations(fn) {
			if hm.Val == nil || (hm.Op != "Add" && hm.Op != "Set" && hm.Op != "index") {
				continue
			}
			nAdd++
			trimmed := false
			vals := append([]ssa.Value{hm.Val}, sliceLiteralElems(hm.Val)...)
			for _, v := range vals {
				for _, l := range Origins(v) {
					if l.Kind == "call" && IsCallTo(l.Call, trimFns...) {
						trimmed = true
					}
				}
			}
			c.Check(trimmed, "C04.6", FuncName(fn), "value-trimmed", hm.Instr.Pos(),
				"the trailer value is whitespace-trimmed before it is stored", "the trailer value is stored untrimmed: 'grpc-status: 5' yields the value \" 5\" and the status does not parse")
		}
	}
	if nAdd == 0 {
		c.Unknown("C04.6", FuncName(dec), "value-trimmed", dec.Pos(), "no store into the trailer map found in the recognised form")
	}
}

// runC04StrictStatus: C04.7.  An HTTP error body is taken for a google.rpc.Status only if it IS
// one: the JSON parser used for it must reject unknown fields, otherwise every JSON object
// "parses" (to code 0 = OK) and the fallback that maps the HTTP status is never taken.
func runC04StrictStatus(c *Ctx) {
	p := c.P
	c.Rule("C04.7", "error bodies are parsed strictly into google.rpc.Status (unknown fields are not discarded)", 1)
	n := 0
	for _, fn := range p.Funcs {
		if !p.inScope(fn) {
			continue
		}
		for _, call := range Calls(fn) {
			if !IsCallTo(call, "(google.golang.org/protobuf/encoding/protojson.UnmarshalOptions).Unmarshal") {
				continue
			}
			args := call.Common().Args
			if len(args) < 3 {
				continue
			}
			// target is a *status.Status
			isStatus := false
			for _, l := range Origins(args[2]) {
				if l.Kind == "alloc" {
					if pt, ok := l.V.Type().(*types.Pointer); ok {
						if nm, ok := pt.Elem().(*types.Named); ok && nm.Obj().Name() == "Status" && nm.Obj().Pkg() != nil && strings.HasSuffix(nm.Obj().Pkg().Path(), "rpc/status") {
							isStatus = true
						}
					}
				}
			}
			if !isStatus {
				continue
			}
			n++
			optsT, _ := args[0].Type().(*types.Named)
			var discardF *types.Var
			if optsT != nil {
				if st, ok := optsT.Underlying().(*types.Struct); ok {
					for i := 0; i < st.NumFields(); i++ {
						if st.Field(i).Name() == "DiscardUnknown" {
							discardF = st.Field(i)
						}
					}
				}
			}
			strict := discardF != nil
			if discardF != nil {
				var kinds []string
				for _, l := range StructFieldOriginsAt(args[0], discardF, call) {
					kinds = append(kinds, l.Kind)
					if l.Kind == "nil" {
						continue // zero value of the options struct: DiscardUnknown is false
					}
					if k, isK := ConstBool(l.V); l.Kind != "const" || !isK || k {
						strict = false
					}
				}
				if !strict {
					c.Note("C04.7 options origins: %v", kinds)
				}
			}
			c.Check(strict, "C04.7", FuncName(fn), "status-body-parsed-strictly", call.Pos(),
				"the options used to parse an error body as google.rpc.Status do not discard unknown fields",
				"an error body is parsed as google.rpc.Status with DiscardUnknown (or options of unknown origin): any JSON object is accepted as a Status with code 0, the HTTP-status fallback is skipped and a failing backend answer is relayed as OK")
		}
	}
	if n == 0 {
		c.Bad("C04.7", "http", "status-body-parsed-strictly", token.NoPos, "no protojson parse of an error body into google.rpc.Status found: shape changed")
	}
}

// runC04NonZeroCode: C04.8 (defect D35).  Code 0 is "OK": an error value with code 0 is rendered
// as grpc-status 0 / HTTP 200.  Wherever an error is built from data a backend sent (a parsed
// error body, a status proto, a parsed status header), the code handed to connect.NewError /
// NewWireError is a non-zero constant, the HTTP->RPC mapping, or a value the path knows to be
// non-zero.
func runC04NonZeroCode(c *Ctx) {
	p := c.P
	c.Rule("C04.8", "an error built from a backend's failure data never gets code 0", 4)
	mapFn := p.MustFunc("httpStatusCodeToRPC")
	var nonZero func(v ssa.Value, at *ssa.BasicBlock, depth int) bool
	nonZero = func(v ssa.Value, at *ssa.BasicBlock, depth int) bool {
		if depth > 4 {
			return false
		}
		v = strip(v)
		if k, ok := ConstInt(v); ok {
			return k != 0
		}
		if call, ok := v.(*ssa.Call); ok {
			if call.Call.StaticCallee() == mapFn {
				return true // the mapping yields OK only for 200, which the callers exclude
			}
		}
		for _, f := range p.FactsAtInter(at) {
			cmp, ok := f.AsCmp()
			if !ok {
				continue
			}
			k, isK := ConstInt(cmp.Y)
			if !isK || k != 0 {
				continue
			}
			if !(sameQuantity(cmp.X, v) || strip(cmp.X) == v) {
				continue
			}
			if cmp.Op == token.NEQ || cmp.Op == token.GTR {
				return true
			}
		}
		// a parameter of a helper: non-zero if every caller passes a value known to be non-zero
		if pr, ok := v.(*ssa.Parameter); ok {
			idx := -1
			for i, q := range pr.Parent().Params {
				if q == pr {
					idx = i
				}
			}
			callers := p.Callers(pr.Parent())
			if idx < 0 || len(callers) == 0 {
				return false
			}
			for _, e := range callers {
				if e.Kind != "static" || e.Site == nil || idx >= len(e.Site.Common().Args) {
					return false
				}
				if !nonZero(e.Site.Common().Args[idx], e.Site.Block(), depth+1) {
					return false
				}
			}
			return true
		}
		if ph, ok := v.(*ssa.Phi); ok {
			for i, e := range ph.Edges {
				if i >= len(ph.Block().Preds) || !nonZero(e, ph.Block().Preds[i], depth+1) {
					// the edge may carry the fact itself (if x == 0 { x = other })
					okEdge := false
					for _, f := range FactsOnEdge(ph.Block().Preds[i], ph.Block()) {
						if cmp, ok := f.AsCmp(); ok && (cmp.Op == token.NEQ || cmp.Op == token.GTR) {
							if k, isK := ConstInt(cmp.Y); isK && k == 0 && (sameQuantity(cmp.X, e) || strip(cmp.X) == strip(e)) {
								okEdge = true
							}
						}
					}
					if !okEdge {
						return false
					}
				}
			}
			return len(ph.Edges) > 0
		}
		return false
	}
	// scope: everything reachable from the server protocols' response interpretation
	sph := p.Iface("serverProtocolHandler")
	scope := map[*ssa.Function]bool{}
	for _, t := range p.Implementers(sph) {
		for _, mn := range []string{"extractProtocolResponseHeaders", "extractEndFromTrailers", "decodeEndFromMessage"} {
			if m := p.MethodOf(t, mn); m != nil {
				for fn := range p.Reach(m) {
					if p.inScope(fn) {
						scope[fn] = true
					}
				}
				// closures created there (body unmarshallers)
				for _, fn := range p.Funcs {
					top := fn
					for top.Parent() != nil {
						top = top.Parent()
					}
					if top == m {
						scope[fn] = true
						for f2 := range p.Reach(fn) {
							if p.inScope(f2) {
								scope[f2] = true
							}
						}
					}
				}
			}
		}
	}
	n := 0
	for _, fn := range SortedFuncs(scope) {
		for _, call := range Calls(fn) {
			if !IsCallTo(call, "connectrpc.com/connect.NewError", "connectrpc.com/connect.NewWireError") {
				continue
			}
			code := call.Common().Args[0]
			if _, isConst := strip(code).(*ssa.Const); isConst {
				if k, _ := ConstInt(strip(code)); k != 0 {
					continue // a fixed, non-zero code
				}
			}
			n++
			c.Check(nonZero(code, call.Block(), 0), "C04.8", FuncName(fn), "error-code-non-zero", call.Pos(),
				"the code is the HTTP->RPC mapping, or a parsed value the path knows to be non-zero",
				"an error is built from a backend's failure data with a code that may be 0 (a body or status that parses but names no code): code 0 is rendered as grpc-status 0 / HTTP 200 and the client sees success")
		}
	}
	if n == 0 {
		c.Bad("C04.8", "server-protocols", "error-code-non-zero", token.NoPos, "no error is built from parsed backend data: shape changed")
	}
}

// runC04Base64Tolerant: C04.9 (defect D44).  Base64 text that arrives from a peer (error details of
// a Connect error, the message of a Connect GET, bytes fields in query parameters) may be padded
// or not: the Connect protocol and proto3 JSON both require receivers to accept either form.  A
// decode with one fixed alphabet/padding variant therefore needs a second attempt with the other
// padding on its failure edge, or an encoding selected from the input; a lone strict decode
// silently loses the value (the error is usually swallowed: 'seems a waste to fail').
func runC04Base64Tolerant(c *Ctx) {
	p := c.P
	c.Rule("C04.9", "base64 text from a peer is decoded tolerantly: padded and unpadded forms are both accepted", 2)
	// padding variant of an encoding value: "raw" (no padding), "padded", "both" (selected from the input)
	var variant func(v ssa.Value, depth int) string
	variant = func(v ssa.Value, depth int) string {
		if depth > 5 {
			return "?"
		}
		switch x := v.(type) {
		case *ssa.UnOp:
			if g, ok := x.X.(*ssa.Global); ok && g.Pkg != nil && g.Pkg.Pkg.Path() == "encoding/base64" {
				switch g.Name() {
				case "RawStdEncoding", "RawURLEncoding":
					return "raw"
				case "StdEncoding", "URLEncoding":
					return "padded"
				}
			}
		case *ssa.Phi:
			seen := map[string]bool{}
			for _, e := range x.Edges {
				seen[variant(e, depth+1)] = true
			}
			if seen["?"] {
				return "?"
			}
			if seen["both"] || (seen["raw"] && seen["padded"]) {
				return "both"
			}
			for k := range seen {
				return k
			}
		case *ssa.Call:
			if IsCallTo(x, "(encoding/base64.Encoding).WithPadding") {
				if k, ok := ConstInt(x.Call.Args[1]); ok && k == -1 {
					return "raw"
				}
				return "padded"
			}
		}
		return "?"
	}
	type site struct {
		call ssa.CallInstruction
		v    string
		in   ssa.Value
	}
	n := 0
	for _, fn := range SortedFuncs(p.RequestTimeReach()) {
		if !p.inScope(fn) {
			continue
		}
		var sites []site
		for _, call := range Calls(fn) {
			if !IsCallTo(call, "(*encoding/base64.Encoding).DecodeString", "(*encoding/base64.Encoding).Decode", "(*encoding/base64.Encoding).AppendDecode") {
				continue
			}
			args := call.Common().Args
			sites = append(sites, site{call, variant(args[0], 0), args[len(args)-1]})
		}
		for i, st := range sites {
			n++
			c.CountSite()
			construct := "base64-decode"
			if i > 0 {
				construct += "|#" + itoa(i+1)
			}
			if st.v == "both" {
				c.OK("C04.9", FuncName(fn), construct, st.call.Pos(), "the encoding is chosen from the input: padded and unpadded text are both decodable")
				continue
			}
			// a partner decode of the same input with the other padding, one of them on the failure edge of the other
			ok := false
			for j, o := range sites {
				if i == j || o.v == st.v || o.v == "?" || st.v == "?" {
					continue
				}
				if o.in != st.in && PathOf(o.in) != PathOf(st.in) {
					continue
				}
				first, second := st.call, o.call
				if !(first.Block() == second.Block() && instrBefore(first, second) || first.Block() != second.Block() && first.Block().Dominates(second.Block())) {
					first, second = second, first
				}
				if first.Block().Dominates(second.Block()) {
					ok = true
				}
			}
			c.Check(ok, "C04.9", FuncName(fn), construct, st.call.Pos(),
				"this decode has a partner decode of the same text with the other padding variant",
				"base64 text from a peer is decoded with one fixed padding variant ("+st.v+") and nothing else is tried: the other form, which receivers must accept, fails - and the value (an error detail, a message) is lost")
		}
	}
	if n == 0 {
		c.Bad("C04.9", "package", "base64-decode", token.NoPos, "no base64 decode site found: shape changed")
	}
}

// runC04FallbackAfterParse: C04.10 (seed C04g).  A server protocol's error-body unmarshaller (the
// closure handed back by extractProtocolResponseHeaders) turns the collected body into the RPC
// error; guessing the code from the HTTP status is the fallback for a body that does not parse.
// The fallback is therefore reached only through the parse attempt - not through a shortcut that
// looks at something else first (an exact Content-Type match, say: `application/json;
// charset=utf-8` is JSON too) and skips the parse, which throws away code, message and details of
// a perfectly good error body.
func runC04FallbackAfterParse(c *Ctx) {
	p := c.P
	c.Rule("C04.10", "an error body's HTTP-status fallback is reached only after the body failed to parse", 1)
	mapFn := p.MustFunc("httpStatusCodeToRPC")
	n := 0
	for _, fn := range p.Funcs {
		if fn.Parent() == nil || !p.inScope(fn) {
			continue
		}
		// the unmarshaller shape: (Codec, *bytes.Buffer, *responseEnd)
		sig := fn.Signature
		if sig.Params().Len() != 3 || !isPtrTo(sig.Params().At(2).Type(), RootPath, "responseEnd") {
			continue
		}
		isParse := func(in ssa.Instruction) bool {
			ci, ok := in.(ssa.CallInstruction)
			if !ok {
				return false
			}
			name := CalleeName(ci)
			return name == "encoding/json.Unmarshal" || strings.HasSuffix(name, ".Unmarshal") || strings.Contains(name, "Unmarshal")
		}
		hasParse := false
		ForEachInstr(fn, func(in ssa.Instruction) {
			if isParse(in) {
				hasParse = true
			}
		})
		if !hasParse {
			continue // delegates the whole decision (REST: httpErrorFromResponse)
		}
		for _, call := range Calls(fn) {
			if !IsCallTo(call, "connectrpc.com/connect.NewError", "connectrpc.com/connect.NewWireError") {
				continue
			}
			fromStatus := false
			for _, l := range Origins(call.Common().Args[0]) {
				if l.Kind == "call" && l.Call.Common().StaticCallee() == mapFn {
					fromStatus = true
				}
			}
			if !fromStatus {
				continue
			}
			n++
			found, path := PathQuery{Target: func(in ssa.Instruction) bool { return in == ssa.Instruction(call) }, Avoid: isParse}.Search(fn, nil)
			c.Check(!found, "C04.10", FuncName(fn), "fallback-only-after-parse", call.Pos(),
				"every path to the HTTP-status fallback passes the attempt to parse the body",
				"the error code is guessed from the HTTP status on a path that never tried to parse the body ("+witnessString(p, path)+"): a well-formed error body (e.g. labelled `application/json; charset=utf-8`) loses its code, message and details")
		}
	}
	if n == 0 {
		c.Bad("C04.10", "server-protocols", "fallback-only-after-parse", token.NoPos, "no error-body unmarshaller with an HTTP-status fallback found: shape changed")
	}
}

// runC04MessageDecodeKeepsCode: C04.11 (defect D68).  The gRPC specification on grpc-message:
// "When decoding invalid values, implementations MUST NOT error or throw away the message. At
// worst, the implementation can abort decoding the status message altogether such that the user
// would receive the raw percent-encoded form."  So where the trailer interpreter percent-decodes
// the value of Grpc-Message, the decoder's failure edge must not manufacture an error of its own:
// in the blocks that know the decode error is non-nil no connect error is built with a constant
// code (that would replace the backend's code by "internal" because of one stray '%').
func runC04MessageDecodeKeepsCode(c *Ctx) {
	p := c.P
	c.Rule("C04.11", "a grpc-message that cannot be percent-decoded does not replace the backend's code", 1)
	n := 0
	for _, fn := range p.Funcs {
		if !p.inScope(fn) {
			continue
		}
		// the value of the Grpc-Message header/trailer
		var msgVals []ssa.Value
		for _, call := range Calls(fn) {
			if !IsCallTo(call, "(net/http.Header).Get") {
				continue
			}
			if k, ok := ConstString(call.Common().Args[1]); ok && strings.EqualFold(k, "Grpc-Message") {
				if v := call.Value(); v != nil {
					msgVals = append(msgVals, v)
				}
			}
		}
		if len(msgVals) == 0 {
			continue
		}
		for _, call := range Calls(fn) {
			sc := call.Common().StaticCallee()
			if sc == nil || !p.inScope(sc) || len(call.Common().Args) != 1 || errorResultIndex(sc.Signature) != 1 {
				continue
			}
			fromMsg := false
			for _, o := range Origins(call.Common().Args[0]) {
				for _, mv := range msgVals {
					if o.V == mv {
						fromMsg = true
					}
				}
			}
			if !fromMsg || call.Value() == nil {
				continue
			}
			n++
			// the error component
			var errVal ssa.Value
			for _, ref := range *call.Value().Referrers() {
				if ex, ok := ref.(*ssa.Extract); ok && ex.Index == 1 {
					errVal = ex
				}
			}
			bad := token.NoPos
			if errVal != nil {
				for _, b := range fn.Blocks {
					knows := false
					for _, f := range FactsAt(b) {
						if cmp, ok := f.AsCmp(); ok && cmp.Op == token.NEQ && IsNilConst(cmp.Y) && cmp.X == errVal {
							knows = true
						}
					}
					if !knows {
						continue
					}
					for _, in := range b.Instrs {
						ci, ok := in.(ssa.CallInstruction)
						if !ok || !IsCallTo(ci, "connectrpc.com/connect.NewError", "connectrpc.com/connect.NewWireError") {
							continue
						}
						if _, isK := ConstInt(ci.Common().Args[0]); isK {
							bad = ci.Pos()
						}
					}
				}
			}
			c.Check(bad == token.NoPos, "C04.11", FuncName(fn), "undecodable-message-keeps-code", call.Pos(),
				"no error with a constant code is built where the percent-decoding of grpc-message failed",
				"where the percent-decoding of grpc-message failed, an error with a constant code is built ("+p.Pos(bad)+"): one stray '%' in the backend's status message replaces the backend's code (gRPC: implementations MUST NOT error on an undecodable grpc-message; at worst the raw form is delivered)")
		}
	}
	if n == 0 {
		c.Bad("C04.11", "package", "undecodable-message-keeps-code", token.NoPos, "no percent-decoding of the Grpc-Message trailer found: shape changed")
	}
}

// runC04DetailAlphabet: C04.12 (seed C04l).  In a Connect error (unary error body, end-of-stream
// frame) each detail's bytes travel as base64 in the STANDARD alphabet, unpadded; clients decode
// with exactly that (connect-go: RawStdEncoding, padding tolerated).  The same file also uses
// the URL-safe alphabet - for the GET `message` parameter - so the two are one completion apart.
// A wire-format table check like C04.5/C04.6: wherever a base64 encoding result is stored into
// the value field of the wire form of an error detail, the encoder is base64.RawStdEncoding or
// base64.StdEncoding.
func runC04DetailAlphabet(c *Ctx) {
	p := c.P
	c.Rule("C04.12", "error detail bytes are base64 in the standard alphabet", 1)
	n := 0
	for _, fn := range p.Funcs {
		if !p.inScope(fn) {
			continue
		}
		ForEachInstr(fn, func(in ssa.Instruction) {
			st, ok := in.(*ssa.Store)
			if !ok {
				return
			}
			fa, ok := st.Addr.(*ssa.FieldAddr)
			if !ok {
				return
			}
			owner := fa.X.Type()
			if pt, isP := owner.(*types.Pointer); isP {
				owner = pt.Elem()
			}
			nm, isN := owner.(*types.Named)
			if !isN || !strings.Contains(strings.ToLower(N(nm.Obj())), "detail") || nm.Obj().Pkg() == nil || nm.Obj().Pkg().Path() != RootPath {
				return
			}
			for _, o := range Origins(st.Val) {
				call, isCall := o.V.(*ssa.Call)
				if !isCall || !IsCallTo(call, "(*encoding/base64.Encoding).EncodeToString") {
					continue
				}
				n++
				enc := ""
				for _, ro := range Origins(call.Call.Args[0]) {
					if g, isG := globalOf(ro.V); isG {
						enc = g.Name()
					}
				}
				c.Check(enc == "RawStdEncoding" || enc == "StdEncoding", "C04.12", FuncName(fn), "detail-alphabet", call.Pos(),
					"the detail bytes are encoded with base64."+enc,
					"the bytes of an error detail are encoded with base64."+enc+" instead of the standard alphabet: a detail whose bytes contain a 6-bit group 62 or 63 comes out with '-' / '_' where clients expect '+' / '/', and cannot be decoded - code and message arrive, the details do not")
			}
		})
	}
	if n == 0 {
		c.Bad("C04.12", "package", "detail-alphabet", token.NoPos, "no base64 encoding of an error detail's bytes found: shape changed")
	}
}

package vg

import (
	"go/token"
	"go/types"
	"sort"

	"golang.org/x/tools/go/ssa"
)

func init() {
	register(&PropertySpec{
		ID: "C15",
		Explanation: "Decides a frame argument for history independence: (C15.1) no function reachable from Transcoder.ServeHTTP writes - outside the construction of a fresh object - any field, map or slice element of the configuration graph rooted at Transcoder (all struct types reachable from its fields), nor any package-level variable; the same query rooted at NewTranscoder must find the registration writes (positive control); " +
			"(C15.2) the only objects that survive an RPC, the pooled buffers and pooled (de)compressors, are reset on every path between leaving the pool and first use, and their return to the pool is deferred on every path; the sync.Pools are touched only by those wrappers; " +
			"(C15.3) the buffer pool refuses buffers above a constant capacity; (C15.4) no sync.Once / sync.Map / atomic state, no package-level variable written after init; " +
			"(C15.5) the outcome is a function of the request at all: no request-time loop over a Go map (whose iteration order the runtime randomises per loop) lets that order reach the outcome - its iterations commute (writes keyed one-to-one by the entry's key, idempotent set insertions, deletions, counters, existence tests) or the keys are sorted first. " +
			"Not decided: behaviour that depends on buffer capacity, state inside connect/protobuf/gzip, what a backend handler keeps.",
		Assumptions: []string{"sync.Pool returns either a previously Put object or a New one", "(*bytes.Buffer).Reset empties the buffer; Compressor/Decompressor.Reset re-initialises state as documented by connect",
			"C15.5: the keys of an http.Header handed to the library are in canonical form (as net/http produces them), so that Header.Set/Add/Del under distinct keys touch distinct entries; protoreflect's Range over message fields is not examined"},
		Run: runC15,
	})
}

// configTypes returns the struct types of the root package reachable from the
// fields of Transcoder (through pointers, maps, slices, arrays, embedded).
func configTypes(p *Prog) map[*types.Named]bool {
	out := map[*types.Named]bool{}
	var visit func(t types.Type)
	seen := map[types.Type]bool{}
	visit = func(t types.Type) {
		if seen[t] {
			return
		}
		seen[t] = true
		switch x := t.(type) {
		case *types.Named:
			if x.Obj().Pkg() == nil || x.Obj().Pkg().Path() != RootPath {
				return
			}
			if _, ok := x.Underlying().(*types.Struct); ok {
				out[x] = true
			}
			visit(x.Underlying())
		case *types.Alias:
			visit(types.Unalias(x))
		case *types.Pointer:
			visit(x.Elem())
		case *types.Slice:
			visit(x.Elem())
		case *types.Array:
			visit(x.Elem())
		case *types.Map:
			visit(x.Key())
			visit(x.Elem())
		case *types.Struct:
			for i := 0; i < x.NumFields(); i++ {
				visit(x.Field(i).Type())
			}
		}
	}
	visit(p.MustNamed("Transcoder"))
	return out
}

func structOfField(p *Prog, cfg map[*types.Named]bool) map[*types.Var]*types.Named {
	out := map[*types.Var]*types.Named{}
	for n := range cfg {
		st := n.Underlying().(*types.Struct)
		for i := 0; i < st.NumFields(); i++ {
			out[st.Field(i)] = n
		}
	}
	return out
}

type sharedWrite struct {
	fn   *ssa.Function
	in   ssa.Instruction
	what string
}

// sharedWrites finds non-construction writes to configuration state and globals in fn.
func sharedWrites(p *Prog, fn *ssa.Function, cfgField map[*types.Var]*types.Named) []sharedWrite {
	var out []sharedWrite
	var originFromCfg func(v ssa.Value) (string, bool)
	originFromCfg = func(v ssa.Value) (string, bool) {
		for _, l := range Origins(v) {
			// library functions whose result shares the backing array of their operand (seed
			// C15n: slices.Clip protects a later append, not an element store)
			if l.Kind == "call" && IsCallTo(l.Call, "slices.Clip", "slices.Grow") && len(l.Call.Common().Args) > 0 {
				if w, ok := originFromCfg(l.Call.Common().Args[0]); ok {
					return w, true
				}
			}
			if l.Kind == "load" && l.Field != nil {
				if n, ok := cfgField[l.Field]; ok {
					return N(n.Obj()) + "." + N(l.Field), true
				}
			}
			if l.Kind == "global" {
				return "global " + N(l.V), true
			}
		}
		return "", false
	}
	ForEachInstr(fn, func(in ssa.Instruction) {
		switch x := in.(type) {
		case *ssa.Store:
			switch a := x.Addr.(type) {
			case *ssa.FieldAddr:
				f := FieldOfAddr(a)
				if n, ok := cfgField[f]; ok && !baseFresh(a.X) {
					out = append(out, sharedWrite{fn, in, "field " + N(n.Obj()) + "." + N(f)})
				}
			case *ssa.Global:
				if a.Pkg != nil && p.ModPkgs[a.Pkg.Pkg] != nil {
					out = append(out, sharedWrite{fn, in, "package variable " + N(a)})
				}
			case *ssa.IndexAddr:
				if w, ok := originFromCfg(a.X); ok {
					out = append(out, sharedWrite{fn, in, "element of " + w})
				}
			}
		case *ssa.MapUpdate:
			if w, ok := originFromCfg(x.Map); ok {
				out = append(out, sharedWrite{fn, in, "map entry of " + w})
			}
		case ssa.CallInstruction:
			name := CalleeName(x)
			args := x.Common().Args
			switch name {
			case "builtin delete", "builtin clear":
				if w, ok := originFromCfg(args[0]); ok {
					out = append(out, sharedWrite{fn, in, name + " on " + w})
				}
			case "builtin append":
				// appending to a clipped slice (cap == len) always allocates
				seenAp := map[ssa.Value]bool{}
				var clippedOnly func(v ssa.Value) bool
				clippedOnly = func(v ssa.Value) bool {
					if seenAp[v] {
						return true
					}
					seenAp[v] = true
					ls := Origins(v)
					for _, l := range ls {
						switch {
						case l.Kind == "call" && IsCallTo(l.Call, "slices.Clip"):
						case l.Kind == "call" && CalleeName(l.Call) == "builtin append" && clippedOnly(l.Call.Common().Args[0]):
						default:
							return false
						}
					}
					return len(ls) > 0
				}
				clipped := clippedOnly(args[0])
				if w, ok := originFromCfg(args[0]); ok && !clipped {
					out = append(out, sharedWrite{fn, in, "append to " + w + " (may write the shared backing array)"})
				}
			case "builtin copy":
				if w, ok := originFromCfg(args[0]); ok {
					out = append(out, sharedWrite{fn, in, "copy into " + w})
				}
			case "sort.Strings", "sort.Slice", "slices.Sort", "slices.SortFunc", "slices.Reverse", "sort.Sort", "sort.Stable",
				"slices.SortStableFunc", "slices.Compact", "slices.CompactFunc", "slices.Delete", "slices.DeleteFunc", "slices.Insert", "slices.Replace",
				"maps.Copy", "maps.DeleteFunc", "maps.Insert":
				if len(args) > 0 {
					if w, ok := originFromCfg(args[0]); ok {
						out = append(out, sharedWrite{fn, in, name + " in place on " + w})
					}
				}
			}
		}
	})
	return out
}

func runC15(c *Ctx) {
	p := c.P
	// clauses this property shares with others (see DESIGN.md section 6a)
	defer c.ImportRules("C14", "C14.1", "C14.4")
	defer c.ImportRules("C03", "C03.13")
	cfg := configTypes(p)
	cfgField := structOfField(p, cfg)
	var cfgNames []string
	for n := range cfg {
		cfgNames = append(cfgNames, N(n.Obj()))
	}
	sort.Strings(cfgNames)
	c.Note("configuration graph types: %s", joinStr(cfgNames))
	if len(cfgNames) < 5 {
		fatalf("anchor=configuration graph: only %d struct types reachable from Transcoder", len(cfgNames))
	}

	c.Rule("C15.1", "nothing reachable from ServeHTTP writes the configuration graph or a package variable (outside fresh construction)", 20)
	reach := p.RequestTimeReach()
	for _, fn := range SortedFuncs(reach) {
		if !p.inScope(fn) {
			continue
		}
		ws := sharedWrites(p, fn, cfgField)
		if len(ws) == 0 {
			c.Trivial("C15.1", FuncName(fn), "no-shared-writes", fn.Pos(), "no write to configuration state or package variables")
			continue
		}
		for _, w := range ws {
			c.Bad("C15.1", FuncName(fn), w.what, w.in.Pos(),
				"request-time code writes state that outlives the RPC ("+w.what+"): the outcome of later RPCs can depend on this one")
		}
	}
	// positive control: the same matcher finds the registration writes under NewTranscoder
	ctor := p.MustFunc("NewTranscoder")
	nCtl := 0
	for _, fn := range SortedFuncs(p.Reach(ctor)) {
		if p.inScope(fn) {
			nCtl += len(sharedWrites(p, fn, cfgField))
		}
	}
	c.Check(nCtl >= 5, "C15.1", "NewTranscoder", "positive-control", ctor.Pos(),
		"the same matcher finds "+itoa(nCtl)+" configuration writes under NewTranscoder (so it can see such writes)",
		"positive control failed: the matcher finds only "+itoa(nCtl)+" configuration writes under NewTranscoder")

	// ---- C15.2
	c.Rule("C15.2", "pooled buffers and (de)compressors are reset between pool and first use; Put is deferred; pools touched only by their wrappers", 6)
	bpGet := p.MustFunc("(*bufferPool).Get")
	bpPut := p.MustFunc("(*bufferPool).Put")
	// (a) bufferPool.Get resets pool-derived buffers
	nRet := 0
	ForEachInstr(bpGet, func(in ssa.Instruction) {
		ret, ok := in.(*ssa.Return)
		if !ok || len(ret.Results) != 1 {
			return
		}
		var poolGet ssa.CallInstruction
		for _, l := range Origins(ret.Results[0]) {
			if l.Kind == "call" && IsCallTo(l.Call, "(*sync.Pool).Get") {
				poolGet = l.Call
			}
		}
		if poolGet == nil {
			c.Trivial("C15.2", FuncName(bpGet), "return-fresh", ret.Pos(), "returns a newly allocated buffer")
			return
		}
		nRet++
		isReset := func(x ssa.Instruction) bool {
			ci, ok := x.(ssa.CallInstruction)
			if !ok || !IsCallTo(ci, "(*bytes.Buffer).Reset") {
				return false
			}
			for _, l := range Origins(ci.Common().Args[0]) {
				if l.Kind == "call" && l.Call == poolGet {
					return true
				}
			}
			return false
		}
		found, path := PathQuery{Target: func(x ssa.Instruction) bool { return x == ssa.Instruction(ret) }, Avoid: isReset}.Search(bpGet, poolGet)
		c.Check(!found, "C15.2", FuncName(bpGet), "reset-before-return", ret.Pos(),
			"a buffer taken from the pool is Reset on every path before it is handed out",
			"a buffer taken from the pool can be handed out without Reset (stale bytes of an earlier RPC): "+witnessString(p, path))
	})
	if nRet == 0 {
		c.Bad("C15.2", FuncName(bpGet), "reset-before-return", bpGet.Pos(), "bufferPool.Get has no return of a pool-derived buffer: anchor shape changed")
	}
	// (b) compressor / decompressor discipline
	cpT := p.MustNamed("compressionPool")
	cpFields := map[*types.Var]bool{}
	{
		st := cpT.Underlying().(*types.Struct)
		for i := 0; i < st.NumFields(); i++ {
			if isNamed(st.Field(i).Type(), "sync", "Pool") {
				cpFields[st.Field(i)] = true
			}
		}
	}
	poolUsers := map[*ssa.Function]bool{}
	for _, fn := range p.Funcs {
		for _, call := range Calls(fn) {
			if !IsCallTo(call, "(*sync.Pool).Get") {
				continue
			}
			recv := call.Common().Args[0]
			fa, ok := recv.(*ssa.FieldAddr)
			if !ok || !cpFields[FieldOfAddr(fa)] {
				continue
			}
			poolUsers[fn] = true
			c.CountSite()
			poolFld := FieldOfAddr(fa)
			fromGet := func(v ssa.Value) bool {
				for _, l := range Origins(v) {
					if l.Kind == "call" && l.Call == call {
						return true
					}
				}
				return false
			}
			isReset := func(x ssa.Instruction) bool {
				ci, ok := x.(ssa.CallInstruction)
				if !ok {
					return false
				}
				cc := ci.Common()
				if cc.IsInvoke() && N(cc.Method) == "Reset" && fromGet(cc.Value) {
					return true
				}
				// handed to a helper of the shipped packages that resets it before anything else
				// (refactoring B27_r1: compressInto(comp, dst, src))
				if g := cc.StaticCallee(); g != nil && !cc.IsInvoke() && p.inScope(g) && len(g.Blocks) > 0 {
					for i, a := range cc.Args {
						if fromGet(a) && i < len(g.Params) && resetsParamFirst(g, g.Params[i]) {
							return true
						}
					}
				}
				return false
			}
			isUse := func(x ssa.Instruction) bool {
				ci, ok := x.(ssa.CallInstruction)
				if !ok {
					return false
				}
				if _, isDefer := x.(*ssa.Defer); isDefer {
					return false
				}
				if isReset(x) {
					return false
				}
				cc := ci.Common()
				if cc.IsInvoke() && fromGet(cc.Value) && N(cc.Method) != "Reset" {
					return true
				}
				if !cc.IsInvoke() {
					for _, a := range cc.Args {
						if fromGet(a) && !IsCallTo(ci, "(*sync.Pool).Put") {
							return true
						}
					}
				}
				return false
			}
			found, path := PathQuery{Target: isUse, Avoid: isReset}.Search(fn, call)
			c.Check(!found, "C15.2", FuncName(fn), "reset-before-use:"+N(poolFld), call.Pos(),
				"the pooled "+N(poolFld)+" object is Reset on every path before its first use",
				"the pooled object can be used without Reset (state of an earlier, possibly failed, RPC leaks in): "+witnessString(p, path))
			isDeferPut := func(x ssa.Instruction) bool {
				d, ok := x.(*ssa.Defer)
				if !ok || !IsCallTo(d, "(*sync.Pool).Put") {
					return false
				}
				fa2, ok := d.Call.Args[0].(*ssa.FieldAddr)
				return ok && FieldOfAddr(fa2) == poolFld && fromGet(d.Call.Args[1])
			}
			okPut, path2 := MustPassToExit(fn, call, isDeferPut, IsExit, nil)
			// and nothing but the defer may sit between Get and the defer that can return/panic: any call
			c.Check(okPut, "C15.2", FuncName(fn), "deferred-put:"+N(poolFld), call.Pos(),
				"returning the object to its own pool is deferred on every path (also after a Reset error)",
				"a path leaves the function without the pooled object's Put having been deferred: "+witnessString(p, path2))
			// ... and the deferred Put is the only one: an additional explicit Put of the same
			// object (on an error path, 'to be tidy') returns it twice, and the next two RPCs
			// share one (de)compressor (seed C14j)
			extra := ""
			for _, pc := range Calls(fn) {
				if _, isDefer := pc.(*ssa.Defer); isDefer || !IsCallTo(pc, "(*sync.Pool).Put") {
					continue
				}
				if fa2, ok := pc.Common().Args[0].(*ssa.FieldAddr); ok && FieldOfAddr(fa2) == poolFld && fromGet(pc.Common().Args[1]) {
					extra = p.Pos(pc.Pos())
				}
			}
			c.Check(extra == "", "C15.2", FuncName(fn), "put-exactly-once:"+N(poolFld), call.Pos(),
				"the object is returned to the pool by the deferred Put alone",
				"besides the deferred Put the object is also put back explicitly ("+extra+"): on that path it enters the pool twice and two later RPCs are handed the same object - one resets it while the other is still reading from it")
		}
	}
	// (c) who may touch the pools
	for _, fn := range p.Funcs {
		for _, call := range Calls(fn) {
			if !IsCallTo(call, "(*sync.Pool).Get", "(*sync.Pool).Put") {
				continue
			}
			recv := call.Common().Args[0]
			owner := ""
			switch a := recv.(type) {
			case *ssa.FieldAddr:
				f := FieldOfAddr(a)
				owner = fieldOwner(f, p) + "." + N(f)
			}
			okWho := false
			switch {
			case owner == "bufferPool.Pool":
				okWho = fn == bpGet || fn == bpPut
			case owner == "compressionPool.compressors" || owner == "compressionPool.decompressors":
				okWho = poolUsers[fn]
			}
			c.Check(okWho, "C15.2", FuncName(fn), "pool-access:"+owner+":"+CalleeName(call), call.Pos(),
				"the sync.Pool is accessed only by its reset-enforcing wrapper",
				"a sync.Pool ("+owner+") is accessed outside its wrapper: objects can enter or leave the pool without the reset discipline")
		}
	}

	// ---- C15.3
	c.Rule("C15.3", "the buffer pool does not retain buffers above a constant capacity", 1)
	for _, call := range Calls(bpPut) {
		if !IsCallTo(call, "(*sync.Pool).Put") {
			continue
		}
		ok := false
		for _, f := range FactsAt(call.Block()) {
			cmp, isCmp := f.AsCmp()
			if !isCmp {
				continue
			}
			x, y, op := cmp.X, cmp.Y, cmp.Op
			if _, isConst := ConstInt(x); isConst {
				x, y, op = y, x, flip(op)
			}
			if _, isConst := ConstInt(y); !isConst {
				continue
			}
			if capCall, isCall := x.(*ssa.Call); isCall && IsCallTo(capCall, "(*bytes.Buffer).Cap") && (op == token.LEQ || op == token.LSS) {
				ok = true
			}
		}
		c.Check(ok, "C15.3", FuncName(bpPut), "cap-guard", call.Pos(),
			"Pool.Put is dominated by a capacity test against a constant",
			"Pool.Put is not guarded by a capacity bound: one huge message changes the memory behaviour of every later RPC")
	}

	// ---- C15.4
	c.Rule("C15.4", "no other cross-request channel: no sync.Once/sync.Map/atomics; package variables are written only by package initialisation", 1)
	bad := 0
	scope := p.Root.Pkg.Scope()
	for _, name := range scope.Names() {
		obj := scope.Lookup(name)
		if p.isTestFile(obj.Pos()) {
			continue
		}
		switch o := obj.(type) {
		case *types.Var:
			if isSyncState(o.Type()) {
				bad++
				c.Bad("C15.4", "package", "var "+N(o), o.Pos(), "package-level synchronisation/caching primitive "+o.Type().String())
			}
		case *types.TypeName:
			if st, ok := o.Type().Underlying().(*types.Struct); ok {
				for i := 0; i < st.NumFields(); i++ {
					if isSyncState(st.Field(i).Type()) {
						bad++
						c.Bad("C15.4", name, "field "+N(st.Field(i)), st.Field(i).Pos(), "struct field of type "+st.Field(i).Type().String()+" is cross-request state outside the pools")
					}
				}
			}
		}
	}
	for _, fn := range p.Funcs {
		if N(fn) == "init" || fn.Synthetic != "" {
			continue
		}
		ForEachInstr(fn, func(in ssa.Instruction) {
			if st, ok := in.(*ssa.Store); ok {
				if g, ok := st.Addr.(*ssa.Global); ok && g.Pkg == p.Root {
					bad++
					c.Bad("C15.4", FuncName(fn), "store global "+N(g), st.Pos(), "package variable written outside package initialisation")
				}
			}
		})
	}
	// state hidden in closures: a local sync primitive, or a captured variable that a closure
	// built at construction time writes when it is invoked later (a memo shared by all requests)
	reachRT := p.RequestTimeReach()
	for _, fn := range p.Funcs {
		if !p.inScope(fn) {
			continue
		}
		ForEachInstr(fn, func(in ssa.Instruction) {
			switch x := in.(type) {
			case *ssa.Alloc:
				if isSyncState(x.Type().(*types.Pointer).Elem()) {
					bad++
					c.Bad("C15.4", FuncName(fn), "local "+x.Type().(*types.Pointer).Elem().String(), x.Pos(), "a local "+x.Type().(*types.Pointer).Elem().String()+" (captured by a closure it outlives the call): cross-request state outside the pools")
				}
			case ssa.CallInstruction:
				if IsCallTo(x, "sync.OnceFunc", "sync.OnceValue", "sync.OnceValues") {
					bad++
					c.Bad("C15.4", FuncName(fn), "call "+CalleeName(x), x.Pos(), "a once-memo is cross-request state outside the pools")
				}
			case *ssa.Store:
				fv, isFV := x.Addr.(*ssa.FreeVar)
				if !isFV || fn.Parent() == nil {
					return
				}
				// the closure's outermost enclosing function
				top := fn
				for top.Parent() != nil {
					top = top.Parent()
				}
				if reachRT[top] {
					return // created and run within one request
				}
				bad++
				c.Bad("C15.4", FuncName(fn), "store captured "+fv.Name(), x.Pos(), "a closure created outside request handling writes its captured variable "+fv.Name()+" when invoked: the value is shared by every later request")
			}
		})
	}
	if bad == 0 {
		c.OK("C15.4", "package", "no-cross-request-state", token.NoPos, "no sync.Once/sync.Map/atomic cells and no package variable stores outside init in the root package")
	}
	runC15MapOrder(c)
}

// runC15MapOrder: rule C15.5.
func runC15MapOrder(c *Ctx) {
	p := c.P
	c.Rule("C15.5", "no request-time loop over a Go map lets the randomised iteration order reach the outcome of the RPC", 4)
	reach := p.RequestTimeReach()
	for _, fn := range SortedFuncs(reach) {
		if !p.inScope(fn) {
			continue
		}
		loops := mapLoops(fn)
		ord := map[string]int{}
		for _, l := range loops {
			c.CountSite()
			what := "range " + aliasTypeString(types.TypeString(l.rng.X.Type(), shortQual))
			ord[what]++
			construct := what
			if ord[what] > 1 {
				construct += "|#" + itoa(ord[what])
			}
			issues, facts := p.analyseMapLoop(l)
			if len(issues) == 0 {
				c.OK("C15.5", FuncName(fn), construct, l.rng.Pos(), "the iterations of this loop over a map commute", facts...)
				continue
			}
			for _, is := range issues {
				pos := is.pos
				if pos == token.NoPos {
					pos = l.rng.Pos()
				}
				c.Bad("C15.5", FuncName(fn), construct+"|"+is.construct, pos,
					"the result of this loop over a map depends on Go's randomised iteration order: "+is.what+"; the same request then has different outcomes from run to run", facts...)
			}
		}
		for _, call := range unsortedMapIterators(fn) {
			c.CountSite()
			c.Bad("C15.5", FuncName(fn), "call "+CalleeName(call), call.Pos(),
				"an iterator over a map's entries is consumed in map order (not handed to slices.Sorted*): the randomised order can reach the outcome")
		}
	}
	// positive control: the same analysis, applied to construction-time code (where the order of
	// a map loop can only select which configuration error is reported, before any request),
	// recognises an order-dependent loop
	nCtl, nAll := 0, 0
	ctor := p.MustFunc("NewTranscoder")
	for _, fn := range SortedFuncs(p.Reach(ctor)) {
		if !p.inScope(fn) || reach[fn] {
			continue
		}
		for _, l := range mapLoops(fn) {
			nAll++
			if is, _ := p.analyseMapLoop(l); len(is) > 0 {
				nCtl++
			}
		}
	}
	c.Check(nCtl >= 1, "C15.5", "NewTranscoder", "positive-control", ctor.Pos(),
		"the same analysis classifies "+itoa(nCtl)+" of the "+itoa(nAll)+" construction-time map loops under NewTranscoder as order-dependent (they pick which configuration error is reported; not request time), so it can see such loops",
		"positive control failed: the analysis finds no order-dependent loop among the "+itoa(nAll)+" construction-time map loops under NewTranscoder")
}

func isSyncState(t types.Type) bool {
	if pt, ok := t.(*types.Pointer); ok {
		t = pt.Elem()
	}
	n, ok := t.(*types.Named)
	if !ok || n.Obj().Pkg() == nil {
		return false
	}
	switch n.Obj().Pkg().Path() {
	case "sync":
		return N(n.Obj()) == "Once" || N(n.Obj()) == "Map" || N(n.Obj()) == "OnceFunc"
	case "sync/atomic":
		return true
	}
	return false
}


// resetsParamFirst: on every path through g the parameter is Reset, and nothing uses it before.
func resetsParamFirst(g *ssa.Function, prm *ssa.Parameter) bool {
	is := func(v ssa.Value) bool {
		for {
			switch x := v.(type) {
			case *ssa.ChangeInterface:
				v = x.X
				continue
			case *ssa.MakeInterface:
				v = x.X
				continue
			}
			break
		}
		return v == ssa.Value(prm)
	}
	isReset := func(x ssa.Instruction) bool {
		ci, ok := x.(ssa.CallInstruction)
		return ok && ci.Common().IsInvoke() && N(ci.Common().Method) == "Reset" && is(ci.Common().Value)
	}
	isUse := func(x ssa.Instruction) bool {
		ci, ok := x.(ssa.CallInstruction)
		if !ok {
			return false
		}
		cc := ci.Common()
		if cc.IsInvoke() && is(cc.Value) && N(cc.Method) != "Reset" {
			return true
		}
		for _, a := range cc.Args {
			if is(a) {
				return true
			}
		}
		return false
	}
	if used, _ := (PathQuery{Target: isUse, Avoid: isReset}).Search(g, nil); used {
		return false
	}
	ok, _ := MustPassToExit(g, nil, isReset, IsExit, nil)
	return ok
}

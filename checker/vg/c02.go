package vg

import (
	"go/token"
	"go/types"
	"net/textproto"
	"sort"
	"strings"

	"golang.org/x/tools/go/ssa"
)

func init() {
	register(&PropertySpec{
		ID: "C02",
		Explanation: "Decides: (C02.1) the metadata handed to the target protocol's request-header encoder takes codec and compression from the negotiated SERVER side and accept-compression from the intersection with the configured compressors; " +
			"(C02.2) the negotiated server protocol, codec and request compression are stored only by validation, each either the client's own value under a positive membership test in the service's configured set (kept when acceptable) or a fallback drawn from the configuration (JSON for REST); " +
			"(C02.3) every control header a client protocol's extraction reads is deleted on all success paths by it or by validation's generic deletions (one reasoned exception); " +
			"(C02.4) each request envelope's length has the same origin as the bound on the payload bytes that follow it; " +
			"(C02.5) envelope flag tables (obtained by folding the encoders/decoders over all 256 flag bytes and all attribute combinations) are exactly the protocols' wire formats, big-endian length at offset 1; " +
			"(C02.6) every narrowing to uint32 that feeds an envelope length is dominated by a comparison of the same quantity with a limit-derived bound whose exceeding edge is an error ('Length is validated above' is checked, not believed); " +
			"(C02.7) a synthesized request envelope's compressed flag is the conjunction of the message's own was-compressed bit and the presence of a server compression (flag and bytes agree). " +
			"Not decided: syntactic validity of header values for arbitrary codec names, the request line (C07/C19), payload bytes.",
		Run: runC02,
	})
}

// genericDeletes: constant header keys deleted by fn on every path (used for validate).
func constDeletes(fn *ssa.Function) map[string]bool {
	out := map[string]bool{}
	for _, m := range HeaderMutations(fn) {
		if (m.Op == "Del" || m.Op == "delete") && m.Key != nil {
			if k, ok := ConstString(m.Key); ok {
				out[textproto.CanonicalMIMEHeaderKey(k)] = true
			}
		}
	}
	return out
}

func runC02(c *Ctx) {
	defer func() {
		c.Rule("C02.12", "a request message for a peer without envelopes is compressed whenever a compression is declared", 1)
		checkUnenvelopedCompression(c, "C02.12", true)
	}()
	// clause shared with C01: the pipeline's decision table (a message is compressed when the peer cannot be told otherwise)
	defer c.ImportRules("C01", "C01.4")
	p := c.P
	// clauses this property shares with others (see DESIGN.md section 6a)
	defer c.ImportRules("C17", "C17.4")
	defer c.ImportRules("C12", "C12.4")
	handle := p.MustFunc("(*operation).handle")
	validate := p.MustFunc("(*operation).validate")
	rmT := p.MustNamed("requestMeta")
	_ = rmT
	codecF, comprF, acceptF := p.MustField("requestMeta", "codec"), p.MustField("requestMeta", "compression"), p.MustField("requestMeta", "acceptCompression")

	// ---------------------------------------------------------------- C02.1
	c.Rule("C02.1", "request metadata for the target is built from the negotiated server side", 3)
	nSites := 0
	for _, fn := range p.Funcs {
		for _, call := range Calls(fn) {
			cc := call.Common()
			if !cc.IsInvoke() || N(cc.Method) != "addProtocolRequestHeaders" {
				continue
			}
			nSites++
			c.CountSite()
			meta := cc.Args[0]
			sideName := func(ls []Leaf, field string) bool {
				if len(ls) == 0 {
					return false
				}
				for _, l := range ls {
					if l.Kind != "call" || len(l.Ops) > 0 {
						return false
					}
					var recv ssa.Value
					lc := l.Call.Common()
					switch {
					case lc.IsInvoke() && N(lc.Method) == "Name":
						recv = lc.Value
					case lc.StaticCallee() != nil && N(lc.StaticCallee()) == "Name" && len(lc.Args) == 1:
						recv = lc.Args[0]
					default:
						return false
					}
					f := LoadedField(recv)
					if f == nil || N(f) != field || !PathOfHasSide(recv, "server") {
						return false
					}
				}
				return true
			}
			c.Check(sideName(StructFieldOriginsAt(meta, codecF, call), "codec"), "C02.1", FuncName(fn), "meta.codec", call.Pos(),
				"meta.codec is the negotiated server codec's Name()", "meta.codec handed to the target encoder is not the negotiated server codec's name: the backend gets a content-type it was not configured for")
			// "no compression" is also right when the converted request has no body at all (everything
			// went into the request line): accepted only where the store of "" is guarded by the very
			// condition under which the body is drained instead of forwarded (defect D48)
			var comprLeaves []Leaf
			for _, l := range StructFieldOriginsAt(meta, comprF, call) {
				if s, isC := ConstString(l.V); l.Kind == "const" && isC && s == "" && emptyOnlyWithoutBody(p, fn, meta, comprF) {
					continue
				}
				comprLeaves = append(comprLeaves, l)
			}
			if hasDrainDisposition(p, fn) {
				c.Check(emptyWhenWithoutBody(p, fn, meta, comprF, call), "C02.1", FuncName(fn), "meta.compression-empty-without-body", call.Pos(),
					"on the paths where the request body is drained instead of forwarded, meta.compression is reset to \"\" before the headers are written",
					"a request whose body is not forwarded (everything is in the request line) still announces the negotiated compression: Content-Encoding on zero body bytes, which are not a valid compressed stream")
			}
			c.Check(sideName(comprLeaves, "reqCompression"), "C02.1", FuncName(fn), "meta.compression", call.Pos(),
				"meta.compression is the negotiated server request-compression's Name() (or empty exactly when the request has no body)", "meta.compression handed to the target encoder is not the negotiated server compression's name")
			okAcc := false
			for _, l := range StructFieldOriginsAt(meta, acceptF, call) {
				if l.Kind == "call" {
					for _, cal := range p.CalleesAt(l.Call) {
						if FuncName(cal) == "(compressionMap).intersection" {
							okAcc = true
						}
					}
				}
			}
			c.Check(okAcc, "C02.1", FuncName(fn), "meta.acceptCompression", call.Pos(),
				"meta.acceptCompression is intersected with the transcoder's compressors", "accept-compression is passed on without intersecting it with the compressions the transcoder can handle")
		}
	}
	if nSites == 0 {
		c.Bad("C02.1", FuncName(handle), "encoder-call", handle.Pos(), "no call of the target protocol's request-header encoder found")
	}

	// ---------------------------------------------------------------- C02.2
	c.Rule("C02.2", "negotiation: client's value kept only under a membership test in the service's set; fallbacks come from the configuration", 4)
	spd := p.MustNamed("serverProtocolDetails")
	spdFields := map[*types.Var]bool{}
	{
		st := spd.Underlying().(*types.Struct)
		for i := 0; i < st.NumFields(); i++ {
			spdFields[st.Field(i)] = true
		}
	}
	memberFact := func(b *ssa.BasicBlock, setField string, keyOK func(ssa.Value) bool) bool {
		for _, f := range p.FactsAtInter(b) {
			ex, ok := f.Cond.(*ssa.Extract)
			if !ok || ex.Index != 1 || !f.Truth {
				continue
			}
			lk, ok := ex.Tuple.(*ssa.Lookup)
			if !ok || !lk.CommaOk {
				continue
			}
			fl := LoadedField(lk.X)
			if fl == nil || N(fl) != setField {
				continue
			}
			if keyOK(lk.Index) {
				return true
			}
		}
		return false
	}
	for _, fn := range p.Funcs {
		for _, w := range FieldWrites(fn) {
			if !spdFields[w.Field] || w.Fresh {
				continue
			}
			switch N(w.Field) {
			case "respCompression":
				continue // response side, set when the backend's headers are seen (C03)
			}
			if !p.OnlyCalledWithin(fn, validate) {
				c.Bad("C02.2", FuncName(fn), "store:server."+N(w.Field), w.Store.Pos(), "the negotiated server "+N(w.Field)+" is stored outside validation")
				continue
			}
			st := w.Store
			switch N(w.Field) {
			case "protocol":
				// value = X.serverHandler(o); dominated by membership of X in methodConf.protocols
				good := false
				var keyVal ssa.Value
				for _, l := range Origins(st.Val) {
					if l.Kind == "call" {
						for _, cal := range p.CalleesAt(l.Call) {
							if FuncName(cal) == "(Protocol).serverHandler" {
								keyVal = l.Call.Common().Args[0]
							}
						}
					}
				}
				if keyVal != nil {
					kOrig := originSig(keyVal)
					good = memberFact(st.Block(), "protocols", func(k ssa.Value) bool { return originSig(k) == kOrig })
				}
				c.Check(good, "C02.2", FuncName(fn), "store:server.protocol", st.Pos(),
					"the target protocol is one the service's configured protocol set contains (membership test dominates the store, same protocol value)",
					"the target protocol is chosen without a dominating membership test of that same protocol in the service's configured set: the backend can be sent a protocol it does not accept")
			case "codec":
				var kinds []string
				good := true
				for _, l := range Origins(st.Val) {
					switch {
					case l.Kind == "load" && l.Field != nil && N(l.Field) == "codec" && strings.Contains(l.Path, ".client."):
						kinds = append(kinds, "client's")
						if !memberFact(st.Block(), "codecNames", func(k ssa.Value) bool {
							f := LoadedFieldOrField(k)
							return f == codecF
						}) {
							good = false
						}
					case l.Kind == "call":
						isGet := false
						for _, cal := range p.CalleesAt(l.Call) {
							if FuncName(cal) == "(codecMap).get" {
								isGet = true
							}
						}
						if !isGet {
							good = false
							continue
						}
						name := l.Call.Common().Args[1]
						if s, ok := ConstString(name); ok {
							kinds = append(kinds, "const "+s)
							// JSON only under server.protocol == REST
							rest := false
							for _, f := range p.FactsAtInter(st.Block()) {
								if cmp, ok := f.AsCmp(); ok && cmp.Op == token.EQL {
									if k, isK := ConstInt(cmp.Y); isK {
										if obj, ok := p.Lookup("ProtocolREST").(*types.Const); ok && obj.Val().ExactString() == itoa(int(k)) {
											rest = true
										}
									}
								}
							}
							if s != "json" || !rest {
								good = false
							}
						} else if f := LoadedField(name); f != nil && N(f) == "preferredCodec" {
							kinds = append(kinds, "preferred")
						} else {
							good = false
						}
					default:
						good = false
					}
				}
				c.Check(good && len(kinds) > 0, "C02.2", FuncName(fn), "store:server.codec", st.Pos(),
					"server codec is "+joinStr(kinds)+" under the matching guard",
					"server codec is stored from a source other than {client's codec under membership in codecNames, configured preferred codec, JSON under REST target}")
			case "reqCompression":
				good := false
				for _, l := range Origins(st.Val) {
					if l.Kind == "load" && l.Field != nil && N(l.Field) == "reqCompression" && strings.Contains(l.Path, ".client.") {
						good = memberFact(st.Block(), "compressorNames", func(k ssa.Value) bool {
							f := LoadedFieldOrField(k)
							return f == comprF
						})
					}
				}
				c.Check(good, "C02.2", FuncName(fn), "store:server.reqCompression", st.Pos(),
					"the client's compression is kept only under membership in the service's compressorNames",
					"server request compression is set without a dominating membership test of the client's compression name in the service's configured set")
			}
		}
	}

	// ---------------------------------------------------------------- C02.3
	c.Rule("C02.3", "control headers read by a client protocol's extraction are deleted on every success path", 10)
	cph := p.Iface("clientProtocolHandler")
	generic := constDeletes(validate)
	for _, t := range p.Implementers(cph) {
		m := p.MethodOf(t, "extractProtocolRequestHeaders")
		for _, fn := range SortedFuncs(p.Reach(m)) {
			if !p.inScope(fn) {
				continue
			}
			ei := errorResultIndex(fn.Signature)
			for _, call := range Calls(fn) {
				if !IsCallTo(call, "(net/http.Header).Get", "(net/http.Header).Values") {
					continue
				}
				k, ok := ConstString(call.Common().Args[1])
				if !ok {
					continue
				}
				key := textproto.CanonicalMIMEHeaderKey(k)
				mp := PathOf(call.Common().Args[0])
				if _, isParam := strip(call.Common().Args[0]).(*ssa.Parameter); !isParam {
					continue // not the request header parameter
				}
				c.CountSite()
				if key == "X-Server-Timeout" && protocolConstOf(p, t) == "ProtocolREST" {
					c.Exception("restClientProtocol: X-Server-Timeout", "re-emitted with the same meaning for REST targets; cannot contradict the target's own timeout header")
					c.Trivial("C02.3", typeName(t)+"/"+FuncName(fn), "read:"+key, call.Pos(), "reasoned exception")
					continue
				}
				isDel := func(in ssa.Instruction) bool {
					ci, ok := in.(ssa.CallInstruction)
					if !ok || !IsCallTo(ci, "(net/http.Header).Del") {
						return false
					}
					k2, ok := ConstString(ci.Common().Args[1])
					return ok && textproto.CanonicalMIMEHeaderKey(k2) == key && PathOf(ci.Common().Args[0]) == mp
				}
				okExit := func(in ssa.Instruction) bool {
					ret, ok := in.(*ssa.Return)
					if !ok {
						return false
					}
					if ei < 0 || ei >= len(ret.Results) {
						return true
					}
					return IsNilConst(ret.Results[ei])
				}
				okDel, path := MustPassToExit(fn, call, isDel, okExit, nil)
				if !okDel && generic[key] {
					c.OK("C02.3", typeName(t)+"/"+FuncName(fn), "read:"+key, call.Pos(), "deleted by validation's generic deletions")
					continue
				}
				c.Check(okDel, "C02.3", typeName(t)+"/"+FuncName(fn), "read:"+key, call.Pos(),
					"the header is deleted on every success path of the function that reads it",
					"control header "+key+" is read from the client's request but survives on a success path ("+witnessString(p, path)+"): it reaches the backend next to the target protocol's own headers")
			}
		}
	}
	for _, k := range []string{"Content-Encoding", "Accept-Encoding", "Content-Length"} {
		c.Check(generic[k], "C02.3", FuncName(validate), "generic-delete:"+k, validate.Pos(),
			"validation deletes "+k+" from the request", "validation no longer deletes "+k+": the client's value contradicts the transformed body")
	}

	// ---------------------------------------------------------------- C02.4 / C02.6 / C02.7
	c.Rule("C02.4", "request envelope length and the bound on the payload that follows have the same origin", 2)
	c.Rule("C02.6", "narrowing to uint32 for an envelope length is dominated by a limit check of the same quantity", 2)
	c.Rule("C02.7", "a synthesized request envelope's compressed flag = message was compressed AND server compression present", 1)
	checkEnvelopeSites(c, "C02.4", "C02.6", "C02.7", true)
	checkSynthFlagNonEmpty(c, "C02.7", true)
	checkLengthMeasuredAfterLastEdit(c, "C02.7", true)

	// ---------------------------------------------------------------- C02.8
	c.Rule("C02.8", "content types: each target protocol writes its own wire format's Content-Type prefix; the request classifier maps each prefix to that protocol", 10)
	checkContentTypeTables(c, "C02.8", "serverProtocolHandler", "addProtocolRequestHeaders", "requestMeta")
	checkClassification(c, "C02.8")
	checkMessageContentType(c, "C02.8", "serverBodyPreparer", "prepareMarshalledRequest")

	// ---------------------------------------------------------------- C02.11
	// Writer/reader agreement: the request headers the library itself writes when it SPEAKS a wire
	// format are that format's control headers.  When it LISTENS to the same format, each of them
	// must be taken off the request (by the protocol's extraction or by validation's generic
	// deletions) - otherwise a control header of the client's protocol travels on to a backend
	// that speaks another one (defect D43: Connect-Protocol-Version on a gRPC request).
	c.Rule("C02.11", "every request control header the library writes for a wire format is removed when it receives that format", 4)
	{
		sphI := p.Iface("serverProtocolHandler")
		written := map[string]map[string]token.Pos{} // class -> key -> where
		for _, t := range p.Implementers(sphI) {
			class := contentTypeClass(p, t)
			m := p.MethodOf(t, "addProtocolRequestHeaders")
			if m == nil {
				fatalf("anchor=%s.addProtocolRequestHeaders not found", typeName(t))
			}
			if written[class] == nil {
				written[class] = map[string]token.Pos{}
			}
			for _, fn := range SortedFuncs(p.Reach(m)) {
				if !p.inScope(fn) {
					continue
				}
				for _, hm := range HeaderMutations(fn) {
					if hm.Op != "Set" && hm.Op != "Add" && hm.Op != "index" || hm.Key == nil {
						continue
					}
					if k, ok := ConstString(hm.Key); ok {
						written[class][textproto.CanonicalMIMEHeaderKey(k)] = hm.Instr.Pos()
					}
				}
			}
		}
		for _, t := range p.Implementers(cph) {
			class := contentTypeClass(p, t)
			m := p.MethodOf(t, "extractProtocolRequestHeaders")
			deleted := map[string]bool{}
			for k := range generic {
				deleted[k] = true
			}
			for _, fn := range SortedFuncs(p.Reach(m)) {
				if p.inScope(fn) {
					for k := range constDeletes(fn) {
						deleted[k] = true
					}
				}
			}
			var keys []string
			for k := range written[class] {
				keys = append(keys, k)
			}
			sort.Strings(keys)
			for _, k := range keys {
				c.CountSite()
				if k == "X-Server-Timeout" && class == "ProtocolREST" {
					c.Trivial("C02.11", typeName(t), "removes:"+k, m.Pos(), "reasoned exception (see C02.3): re-emitted with the same meaning for REST targets")
					continue
				}
				c.Check(deleted[k], "C02.11", typeName(t), "removes:"+k, m.Pos(),
					"the "+class+" control header "+k+" (written by the library's own "+class+" encoder at "+p.Pos(written[class][k])+") is removed from a received "+class+" request",
					"the library writes "+k+" as a control header of "+class+" requests ("+p.Pos(written[class][k])+") but does not remove it from a "+class+" request it receives: it travels on to a backend that speaks another protocol")
			}
		}
	}

	// family-wide control headers: the Connect specification defines Connect-Protocol-Version and
	// Connect-Timeout-Ms for every Connect request (unary POST, GET and streaming alike; the
	// "Connect-" namespace is reserved by the protocol, so neither can be application metadata).
	// Sibling cross-check: each is removed by at least two of the family's request extractions
	// (which confirms the table against the code) and must then be removed by all of them.
	{
		familyWide := map[string][]string{"ProtocolConnect": {"Connect-Protocol-Version", "Connect-Timeout-Ms"}}
		type sib struct {
			t   types.Type
			m   *ssa.Function
			del map[string]bool
		}
		fam := map[string][]sib{}
		for _, t := range p.Implementers(cph) {
			m := p.MethodOf(t, "extractProtocolRequestHeaders")
			del := map[string]bool{}
			for k := range generic {
				del[k] = true
			}
			for _, fn := range SortedFuncs(p.Reach(m)) {
				if p.inScope(fn) {
					for k := range constDeletes(fn) {
						del[k] = true
					}
				}
			}
			pc := protocolConstOf(p, t)
			fam[pc] = append(fam[pc], sib{t, m, del})
		}
		for pc, keys := range familyWide {
			for _, k := range keys {
				n := 0
				for _, sb := range fam[pc] {
					if sb.del[k] {
						n++
					}
				}
				if n < 2 {
					fatalf("anchor=family-wide control header %s: removed by %d of %d %s request extractions (table out of date)", k, n, len(fam[pc]), pc)
				}
				for _, sb := range fam[pc] {
					c.CountSite()
					c.Check(sb.del[k], "C02.11", typeName(sb.t), "removes:"+k, sb.m.Pos(),
						"the family-wide control header "+k+" is removed by this request extraction like by its "+itoa(n-1)+" sibling(s)",
						k+" is a control header of every "+pc+" request and is removed by "+itoa(n)+" of the "+itoa(len(fam[pc]))+" sibling extractions, but not by this one: it travels on to a backend that speaks another protocol")
				}
			}
		}
	}

	// ---------------------------------------------------------------- C02.10
	// (defect D23) Whether a request message counts as compressed decides whether it is
	// compressed again for the target, whose headers announce the negotiated compression for the
	// whole request.  Every (re)initialisation of a request message therefore takes that flag
	// from the envelope or from 'the client declared a compression' - never a constant.
	c.Rule("C02.10", "a request message's compressed flag comes from its envelope or from the client's declared compression", 2)
	{
		msgPT := types.NewPointer(p.MustNamed("message"))
		reset := p.MethodOf(msgPT, "reset")
		if reset == nil {
			fatalf("anchor=message.reset not found")
		}
		envComprF := p.MustField("envelope", "compressed")
		cliReqComprF := p.MustField("clientProtocolDetails", "reqCompression")
		n := 0
		for _, e := range p.Callers(reset) {
			if e.Kind != "static" || !p.inScope(e.Caller) {
				continue
			}
			args := e.Site.Common().Args
			if len(args) != 4 {
				continue
			}
			isReq, isK := ConstBool(args[2])
			if !isK || !isReq {
				continue
			}
			n++
			var why []string
			var okFlag func(v ssa.Value, depth int) bool
			okFlag = func(v ssa.Value, depth int) bool {
				if depth > 4 {
					why = append(why, "too deep")
					return false
				}
				switch x := v.(type) {
				case *ssa.BinOp:
					if (x.Op == token.NEQ) && IsNilConst(x.Y) && LoadedField(x.X) == cliReqComprF {
						return true
					}
					why = append(why, "a comparison that is not 'client request compression != nil'")
					return false
				case *ssa.Field:
					if FieldOfVal(x) == envComprF {
						return true
					}
				case *ssa.UnOp:
					if x.Op == token.MUL {
						if fa, ok := x.X.(*ssa.FieldAddr); ok && FieldOfAddr(fa) == envComprF {
							return true
						}
					}
				case *ssa.Phi:
					for _, ed := range x.Edges {
						if !okFlag(ed, depth+1) {
							return false
						}
					}
					return len(x.Edges) > 0
				case *ssa.Parameter:
					return true // judged where the helper is called
				case *ssa.Extract:
					call, ok := x.Tuple.(*ssa.Call)
					if !ok {
						break
					}
					cal := call.Call.StaticCallee()
					if cal == nil || !p.inScope(cal) || len(cal.Blocks) == 0 {
						break
					}
					ei := errorResultIndex(cal.Signature)
					all, nRet := true, 0
					ForEachInstr(cal, func(in ssa.Instruction) {
						ret, isRet := in.(*ssa.Return)
						if !isRet || ret.Block() == cal.Recover {
							return
						}
						rv := ReturnValues(ret)
						if ei >= 0 && ei < len(rv) && !IsNilConst(rv[ei]) {
							return // error return: the flag is not used
						}
						nRet++
						if x.Index >= len(rv) || !okFlag(rv[x.Index], depth+1) {
							all = false
						}
					})
					return all && nRet > 0
				case *ssa.Const:
					why = append(why, "a constant")
					return false
				}
				why = append(why, "of unrecognised origin")
				return false
			}
			good := okFlag(args[3], 0)
			c.Check(good, "C02.10", FuncName(e.Caller), "request-message-compressed-flag", e.Site.Pos(),
				"the flag derives from the message's envelope or from the client's declared request compression",
				"a request message is (re)initialised with a compressed flag that is "+joinStr(uniq(why))+": when the client declared a compression the target's headers announce it, but this message is forwarded uncompressed (e.g. the POST a GET falls back to)")
		}
		if n == 0 {
			c.Bad("C02.10", FuncName(reset), "request-message-compressed-flag", reset.Pos(), "no (re)initialisation of a request message found: shape changed")
		}
	}

	// ---------------------------------------------------------------- C02.9
	c.Rule("C02.9", "request-side adapters read only the request direction's compression cells", 5)
	checkDirectionCells(c, "C02.9", false)

	// ---------------------------------------------------------------- C02.5
	c.Rule("C02.5", "envelope flag tables equal the protocols' wire formats", 20)
	checkFlagTables(c, "C02.5")
}

// originSig renders the origin set of v as a canonical string.
func originSig(v ssa.Value) string {
	var parts []string
	for _, l := range Origins(v) {
		s := l.String()
		if l.Kind == "call" {
			s = CalleeName(l.Call) + "(" + PathOf(callRecv(l.Call)) + ")"
		}
		parts = append(parts, s)
	}
	sort.Strings(parts)
	return strings.Join(parts, "|")
}

func callRecv(c ssa.CallInstruction) ssa.Value {
	cc := c.Common()
	if cc.IsInvoke() {
		return cc.Value
	}
	if len(cc.Args) > 0 {
		return cc.Args[0]
	}
	return nil
}

// emptyOnlyWithoutBody: every store of "" into field fld of the local struct behind meta happens
// under a condition that also guards the draining of the request body (the 'no body is
// forwarded' disposition).
func emptyOnlyWithoutBody(p *Prog, fn *ssa.Function, meta ssa.Value, fld *types.Var) bool {
	u, ok := meta.(*ssa.UnOp)
	if !ok {
		return false
	}
	al, ok := u.X.(*ssa.Alloc)
	if !ok {
		return false
	}
	// conditions under which the body is drained
	drainConds := drainConditions(p, fn)
	// ... or a boolean parameter for which every caller passes its own drain condition (the
	// header-writing part of handle extracted into a helper: refactoring B21_r1)
	for i, prm := range fn.Params {
		if !isBoolType(prm.Type()) {
			continue
		}
		edges := p.Callers(fn)
		all := len(edges) > 0
		for _, e := range edges {
			if e.Kind != "static" || e.Site == nil || i >= len(e.Site.Common().Args) || !drainConditions(p, e.Caller)[e.Site.Common().Args[i]] {
				all = false
			}
		}
		if all {
			if drainConds == nil {
				drainConds = map[ssa.Value]bool{}
			}
			drainConds[prm] = true
		}
	}
	if len(drainConds) == 0 {
		return false
	}
	n := 0
	for _, ref := range *al.Referrers() {
		fa, ok := ref.(*ssa.FieldAddr)
		if !ok || FieldOfAddr(fa) != fld {
			continue
		}
		for _, rr := range *fa.Referrers() {
			st, ok := rr.(*ssa.Store)
			if !ok || st.Addr != ssa.Value(fa) {
				continue
			}
			if s, isC := ConstString(st.Val); !isC || s != "" {
				continue
			}
			n++
			guarded := false
			for _, f := range FactsAt(st.Block()) {
				if f.Truth && drainConds[f.Cond] {
					guarded = true
				}
			}
			if !guarded {
				return false
			}
		}
	}
	return n > 0
}

func hasDrainDisposition(p *Prog, fn *ssa.Function) bool {
	return len(drainConditions(p, fn)) > 0
}

// drainConditions: the values of fn under whose truth the request body is drained instead of
// forwarded - tested in fn itself, or handed as a boolean argument to a module helper that
// drains under that parameter.
func drainConditions(p *Prog, fn *ssa.Function) map[ssa.Value]bool {
	out := map[ssa.Value]bool{}
	for _, call := range Calls(fn) {
		sc := call.Common().StaticCallee()
		if sc == nil {
			continue
		}
		if N(sc) == "drainBody" {
			for _, f := range FactsAt(call.Block()) {
				if f.Truth {
					out[f.Cond] = true
				}
			}
			continue
		}
		if !p.inModule(sc) {
			continue
		}
		for _, inner := range Calls(sc) {
			isc := inner.Common().StaticCallee()
			if isc == nil || N(isc) != "drainBody" {
				continue
			}
			for _, f := range FactsAt(inner.Block()) {
				pr, ok := f.Cond.(*ssa.Parameter)
				if !ok || !f.Truth {
					continue
				}
				for i, q := range sc.Params {
					if q == pr && i < len(call.Common().Args) {
						out[call.Common().Args[i]] = true
					}
				}
			}
		}
	}
	return out
}

// emptyWhenWithoutBody: between the last unconditional store to meta.fld and the use, there is
// a branch on a condition that also guards the draining of the body whose true edge stores "".
func emptyWhenWithoutBody(p *Prog, fn *ssa.Function, meta ssa.Value, fld *types.Var, use ssa.Instruction) bool {
	u, ok := meta.(*ssa.UnOp)
	if !ok {
		return false
	}
	al, ok := u.X.(*ssa.Alloc)
	if !ok {
		return false
	}
	drainConds := drainConditions(p, fn)
	var stores []*ssa.Store
	for _, ref := range *al.Referrers() {
		if fa, ok := ref.(*ssa.FieldAddr); ok && FieldOfAddr(fa) == fld {
			for _, rr := range *fa.Referrers() {
				if st, ok := rr.(*ssa.Store); ok && st.Addr == ssa.Value(fa) {
					stores = append(stores, st)
				}
			}
		}
	}
	for _, st := range stores {
		if s, isC := ConstString(st.Val); !isC || s != "" {
			continue
		}
		for _, f := range FactsAt(st.Block()) {
			if !f.Truth || !drainConds[f.Cond] || f.If == nil {
				continue
			}
			// the branch is on the way to the use, and no other store to the field follows it
			if !f.If.Block().Dominates(use.Block()) {
				continue
			}
			later := false
			for _, o := range stores {
				if o != st && f.If.Block().Dominates(o.Block()) && o.Block() != f.If.Block() {
					if r, _ := MayReach(fn, o, func(in ssa.Instruction) bool { return in == use }); r {
						later = true
					}
				}
			}
			if !later {
				return true
			}
		}
	}
	return false
}

package vg

import (
	"go/token"

	"golang.org/x/tools/go/ssa"
)

// Path-sensitive enumeration of acyclic CFG paths with branch-condition
// bookkeeping.  Boolean phis (the SSA form of a && b, a || b stored in a
// variable) are resolved per path by the predecessor actually taken, so
// short-circuit conditions do not lose precision.  A path on which the same
// condition value would have to be both true and false is infeasible and is
// dropped.

// CFGPath is one acyclic path.
type CFGPath struct {
	Blocks []*ssa.BasicBlock
	Truth  map[ssa.Value]bool // resolved (non-phi, non-negated) condition -> truth on this path
	End    ssa.Instruction
}

// resolveCond resolves v along the path prefix (blocks so far) through phis and negations.
func resolveCond(v ssa.Value, blocks []*ssa.BasicBlock) (ssa.Value, bool) {
	neg := false
	for depth := 0; depth < 16; depth++ {
		switch x := v.(type) {
		case *ssa.UnOp:
			if x.Op == token.NOT {
				neg = !neg
				v = x.X
				continue
			}
		case *ssa.Phi:
			// find the phi's block in the path and its predecessor
			idx := -1
			for i := len(blocks) - 1; i >= 0; i-- {
				if blocks[i] == x.Block() {
					idx = i
					break
				}
			}
			if idx <= 0 {
				return v, neg
			}
			pred := blocks[idx-1]
			found := false
			for i, p := range x.Block().Preds {
				if p == pred {
					v = x.Edges[i]
					found = true
					break
				}
			}
			if !found {
				return v, neg
			}
			// the resolved value is to be interpreted at the prefix ending before the phi's block
			blocks = blocks[:idx]
			continue
		}
		return v, neg
	}
	return v, neg
}

// EnumPaths enumerates acyclic paths starting at block `start` (entered from
// `from`, which may be nil) until an instruction satisfying isEnd is met.
// limit bounds the number of paths (0 = 4096); exceeding it returns ok=false.
func EnumPaths(start *ssa.BasicBlock, from *ssa.BasicBlock, isEnd func(ssa.Instruction) bool, limit int) (paths []CFGPath, ok bool) {
	return EnumPathsSeed(start, from, nil, isEnd, limit)
}

// resolveVal resolves a (non-boolean) value through the phis whose blocks lie on the path prefix.
func resolveVal(v ssa.Value, blocks []*ssa.BasicBlock) ssa.Value {
	for depth := 0; depth < 16; depth++ {
		x, ok := v.(*ssa.Phi)
		if !ok {
			return v
		}
		idx := -1
		for i := len(blocks) - 1; i >= 0; i-- {
			if blocks[i] == x.Block() {
				idx = i
				break
			}
		}
		if idx <= 0 {
			return v
		}
		pred := blocks[idx-1]
		found := false
		for i, p := range x.Block().Preds {
			if p == pred {
				v = x.Edges[i]
				found = true
				break
			}
		}
		if !found {
			return v
		}
		blocks = blocks[:idx]
	}
	return v
}

// EnumPathsSeed is EnumPaths with branch outcomes already known on entry (seed).
func EnumPathsSeed(start *ssa.BasicBlock, from *ssa.BasicBlock, seed map[ssa.Value]bool, isEnd func(ssa.Instruction) bool, limit int) (paths []CFGPath, ok bool) {
	if limit == 0 {
		limit = 4096
	}
	ok = true
	var walk func(blocks []*ssa.BasicBlock, truth map[ssa.Value]bool)
	walk = func(blocks []*ssa.BasicBlock, truth map[ssa.Value]bool) {
		if !ok {
			return
		}
		b := blocks[len(blocks)-1]
		for _, in := range b.Instrs {
			if isEnd(in) {
				if len(paths) >= limit {
					ok = false
					return
				}
				t := map[ssa.Value]bool{}
				for k, v := range truth {
					t[k] = v
				}
				paths = append(paths, CFGPath{append([]*ssa.BasicBlock{}, blocks...), t, in})
				return
			}
		}
		if len(b.Instrs) == 0 {
			return
		}
		last := b.Instrs[len(b.Instrs)-1]
		try := func(succ *ssa.BasicBlock, cond ssa.Value, want bool) {
			for _, pb := range blocks {
				if pb == succ {
					return // acyclic paths only
				}
			}
			nt := truth
			if cond != nil {
				rv, neg := resolveCond(cond, blocks)
				w := want != neg
				if cb, isConst := ConstBool(rv); isConst {
					if cb != w {
						return // infeasible
					}
				} else {
					if old, seen := truth[rv]; seen && old != w {
						return // contradictory
					}
					// both operands constant once phis are resolved along the path: decided
					if bo, isBin := rv.(*ssa.BinOp); isBin {
						bx, by := resolveVal(bo.X, blocks), resolveVal(bo.Y, blocks)
						if IsNilConst(bx) && IsNilConst(by) && (bo.Op == token.EQL || bo.Op == token.NEQ) {
							if (bo.Op == token.EQL) != w {
								return // nil compared with nil: infeasible outcome
							}
						}
						// an error value that is never nil (errors.New, fmt.Errorf, a module
						// constructor all of whose returns build an error) compared with nil
						if bo.Op == token.EQL || bo.Op == token.NEQ {
							var other ssa.Value
							if IsNilConst(by) {
								other = bx
							} else if IsNilConst(bx) {
								other = by
							}
							if other != nil && !IsNilConst(other) && isErrorType(other.Type()) && NeverNilError(other, 0) {
								if (bo.Op == token.NEQ) != w {
									return // infeasible: the value is known to be non-nil
								}
							}
						}
						if kx, okx := ConstInt(bx); okx {
							if ky, oky := ConstInt(by); oky {
								var res, dec bool
								switch bo.Op {
								case token.EQL:
									res, dec = kx == ky, true
								case token.NEQ:
									res, dec = kx != ky, true
								case token.LSS:
									res, dec = kx < ky, true
								case token.LEQ:
									res, dec = kx <= ky, true
								case token.GTR:
									res, dec = kx > ky, true
								case token.GEQ:
									res, dec = kx >= ky, true
								}
								if dec && res != w {
									return // infeasible
								}
							}
						}
					}
					// a == b and a != b over the same operands are complementary
					if bo, isBin := rv.(*ssa.BinOp); isBin && (bo.Op == token.EQL || bo.Op == token.NEQ) {
						for k, kv := range truth {
							ko, ok := k.(*ssa.BinOp)
							if !ok || (ko.Op != token.EQL && ko.Op != token.NEQ) {
								continue
							}
							kx, ky := resolveVal(ko.X, blocks), resolveVal(ko.Y, blocks)
							bx, by := resolveVal(bo.X, blocks), resolveVal(bo.Y, blocks)
							sameOps := sameOperand(kx, bx) && sameOperand(ky, by) || sameOperand(kx, by) && sameOperand(ky, bx)
							if !sameOps {
								continue
							}
							if (ko.Op == bo.Op) != (kv == w) {
								return // contradictory
							}
						}
					}
					nt = map[ssa.Value]bool{}
					for k, v := range truth {
						nt[k] = v
					}
					nt[rv] = w
				}
			}
			walk(append(blocks, succ), nt)
		}
		switch x := last.(type) {
		case *ssa.If:
			try(b.Succs[0], x.Cond, true)
			try(b.Succs[1], x.Cond, false)
		case *ssa.Jump:
			try(b.Succs[0], nil, false)
		}
	}
	init := []*ssa.BasicBlock{}
	if from != nil {
		init = append(init, from)
	}
	t0 := map[ssa.Value]bool{}
	for k, v := range seed {
		t0[k] = v
	}
	walk(append(init, start), t0)
	return paths, ok
}

// ResolveAt resolves a value through phis along the path up to (and including)
// the block containing `at`.
func (cp CFGPath) ResolveAt(v ssa.Value, at *ssa.BasicBlock) ssa.Value {
	idx := len(cp.Blocks)
	for i, b := range cp.Blocks {
		if b == at {
			idx = i + 1
		}
	}
	for depth := 0; depth < 16; depth++ {
		ph, ok := v.(*ssa.Phi)
		if !ok {
			return v
		}
		pi := -1
		for i := idx - 1; i >= 0; i-- {
			if cp.Blocks[i] == ph.Block() {
				pi = i
				break
			}
		}
		if pi <= 0 {
			return v
		}
		pred := cp.Blocks[pi-1]
		found := false
		for i, pb := range ph.Block().Preds {
			if pb == pred {
				v = ph.Edges[i]
				found = true
				break
			}
		}
		if !found {
			return v
		}
		idx = pi
	}
	return v
}

// Deref resolves a value along the path: phis by the predecessor taken, loads of
// local allocs (named results spilled because of defers, address-taken locals)
// by the last store to that alloc on the path before the load.
func (cp CFGPath) Deref(v ssa.Value) ssa.Value {
	for depth := 0; depth < 24; depth++ {
		switch x := v.(type) {
		case *ssa.Phi:
			nv := cp.ResolveAt(x, x.Block())
			if nv == v {
				return v
			}
			v = nv
		case *ssa.UnOp:
			if x.Op != token.MUL {
				return v
			}
			al, ok := x.X.(*ssa.Alloc)
			if !ok {
				return v
			}
			var last ssa.Value
			found := false
		outer:
			for _, b := range cp.Blocks {
				for _, in := range b.Instrs {
					if in == ssa.Instruction(x) {
						found = true
						break outer
					}
					if st, ok := in.(*ssa.Store); ok && st.Addr == ssa.Value(al) {
						last = st.Val
					}
				}
			}
			if !found || last == nil {
				return v
			}
			v = last
		case *ssa.ChangeType:
			v = x.X
		case *ssa.MakeInterface:
			v = x.X
		default:
			return v
		}
	}
	return v
}

// Canon renders a pure expression canonically along the path (phis and alloc
// loads resolved) so that two computations of the same quantity compare equal.
func (cp CFGPath) Canon(v ssa.Value) string {
	return cp.canon(v, 0)
}

func (cp CFGPath) canon(v ssa.Value, depth int) string {
	if depth > 12 {
		return "?"
	}
	v = cp.Deref(v)
	switch x := v.(type) {
	case *ssa.Const:
		if x.Value == nil {
			return "nil"
		}
		return x.Value.ExactString()
	case *ssa.BinOp:
		a, b := cp.canon(x.X, depth+1), cp.canon(x.Y, depth+1)
		if (x.Op == token.ADD || x.Op == token.MUL) && a > b {
			a, b = b, a
		}
		return "(" + a + x.Op.String() + b + ")"
	case *ssa.Convert:
		if isIntegerLike(x.Type()) && isIntegerLike(x.X.Type()) {
			return cp.canon(x.X, depth+1)
		}
	case *ssa.Extract:
		return cp.canon(x.Tuple, depth+1) + "#" + itoa(x.Index)
	}
	return N(v) + "@" + N(v.Parent())
}

// TruthOf reports the recorded truth of a condition equal (after Deref of its
// operands) to the given predicate; used to look up facts by shape.
func (cp CFGPath) FindTruth(match func(cond ssa.Value) bool) (truth bool, found bool) {
	for cond, t := range cp.Truth {
		if match(cond) {
			return t, true
		}
	}
	return false, false
}

// sameOperand: identical SSA value, or two constants of equal value.
func sameOperand(a, b ssa.Value) bool {
	if a == b {
		return true
	}
	ca, okA := a.(*ssa.Const)
	cb, okB := b.(*ssa.Const)
	if !okA || !okB {
		return false
	}
	if ca.Value == nil || cb.Value == nil {
		return ca.Value == nil && cb.Value == nil
	}
	return ca.Value.ExactString() == cb.Value.ExactString()
}

// FieldConsistent reports whether the branch outcomes recorded on the path are
// consistent when repeated loads of the same receiver field are taken to yield
// the same value (valid where the function does not store the field between the
// tests): boolean fields must not be both true and false, and an integer field
// must not equal two different constants / equal and differ from the same one.
func (cp CFGPath) FieldConsistent() bool {
	boolSeen := map[string]bool{}
	eq := map[string]string{}          // field path -> constant it equals
	ne := map[string]map[string]bool{} // field path -> constants it differs from
	for cond, truth := range cp.Truth {
		if f := LoadedField(cond); f != nil {
			k := PathOf(cond)
			if old, ok := boolSeen[k]; ok && old != truth {
				return false
			}
			boolSeen[k] = truth
			continue
		}
		b, ok := cond.(*ssa.BinOp)
		if !ok || (b.Op != token.EQL && b.Op != token.NEQ) {
			continue
		}
		x, y := b.X, b.Y
		if LoadedField(x) == nil {
			x, y = y, x
		}
		if LoadedField(x) == nil {
			continue
		}
		c, isC := y.(*ssa.Const)
		if !isC || c.Value == nil {
			continue
		}
		k, cv := PathOf(x), c.Value.ExactString()
		isEq := (b.Op == token.EQL) == truth
		if isEq {
			if old, ok := eq[k]; ok && old != cv {
				return false
			}
			if ne[k][cv] {
				return false
			}
			eq[k] = cv
		} else {
			if eq[k] == cv {
				return false
			}
			if ne[k] == nil {
				ne[k] = map[string]bool{}
			}
			ne[k][cv] = true
		}
	}
	return true
}

// NeverNilError: v is an error value that cannot be the nil interface: an interface made from a
// concrete value, or the result of a module function all of whose returns are such values.
func NeverNilError(v ssa.Value, depth int) bool {
	if depth > 4 {
		return false
	}
	switch x := v.(type) {
	case *ssa.MakeInterface:
		return true
	case *ssa.ChangeInterface:
		return NeverNilError(x.X, depth+1)
	case *ssa.Phi:
		for _, e := range x.Edges {
			if !NeverNilError(e, depth+1) {
				return false
			}
		}
		return len(x.Edges) > 0
	case *ssa.Call:
		fn := x.Call.StaticCallee()
		if fn == nil || len(fn.Blocks) == 0 || fn.Signature.Results().Len() != 1 {
			return false
		}
		n := 0
		ok := true
		ForEachInstr(fn, func(in ssa.Instruction) {
			ret, isRet := in.(*ssa.Return)
			if !isRet || ret.Block() == fn.Recover {
				return
			}
			n++
			rv := ReturnValues(ret)
			if len(rv) != 1 || !NeverNilError(rv[0], depth+1) {
				ok = false
			}
		})
		return ok && n > 0
	}
	return false
}

// NilFeasible reports whether the path's recorded outcomes are consistent with values that can
// never be nil: a recorded "x == nil" where x resolves (along the path) to a never-nil error is infeasible.
func (cp CFGPath) NilFeasible() bool {
	for cond, truth := range cp.Truth {
		bo, ok := cond.(*ssa.BinOp)
		if !ok || (bo.Op != token.EQL && bo.Op != token.NEQ) {
			continue
		}
		var other ssa.Value
		switch {
		case IsNilConst(bo.Y):
			other = bo.X
		case IsNilConst(bo.X):
			other = bo.Y
		default:
			continue
		}
		isNil := (bo.Op == token.EQL) == truth
		if !isNil {
			continue
		}
		if NeverNilError(cp.ResolveAt(other, bo.Block()), 0) {
			return false
		}
	}
	return true
}

package vg

import (
	"go/token"
	"go/types"
	"sort"
	"strings"

	"golang.org/x/tools/go/ssa"
)

func init() {
	register(&PropertySpec{
		ID: "C11",
		Explanation: "Totality over all byte strings and termination are NOT statically decidable here; 'bounded time' and 'a body a standard HTTP stack can frame' are not claimed. Decided is the absence of the panic/wedge-capable constructs that can be judged locally: " +
			"(C11.1) every non-constant index into a fixed-size lookup table is proven in range (shared engine with C04.1); " +
			"(C11.2) nil-able protocol collaborators: every method call through an operation field that is filled by a comma-ok type assertion with the ok discarded (clientEnveloper, serverEnveloper, clientPreparer, serverPreparer) is justified by a dominating non-nil test of that cell, a dominating earlier call through it, a dominating test of a flag/sentinel all of whose enabling stores are themselves justified, or by all call sites of the enclosing function being justified (fixpoint); one conjunction invariant is a reasoned exception with its own structural check; the response writer's body adapter is either installed or an end was reported on every path of WriteHeader and is used only behind the error-cell test; " +
			"(C11.3) request-time code contains no explicit panic, no single-value type assertion, no go statement, and no recursion other than the listed bounded ones; " +
			"(C11.4) no division/modulo by a possibly-zero non-constant; (C11.5) the underlying writer's WriteHeader has a fixed set of call sites; (C11.6) an un-enveloped request body is turned into exactly one message (no endless stream of empty messages). " +
			"Not decided: slicing with state-dependent bounds (needs the state machines' relational invariants), panics inside dependencies on hostile input, termination. Width observations for 32-bit int are listed in the notes, not as violations.",
		Run: runC11,
	})
}

type nilCell struct {
	fld  *types.Var
	name string
}

type nilAnalysis struct {
	p       *Prog
	cells   []nilCell
	guarded map[string]bool // fn|cell
	flagOK  map[string]int  // flag|cell: 0 unknown, 1 ok, 2 no, 3 in progress
	changed bool
}

// collaborators: interface fields of operation stored from a comma-ok assertion's value only.
func collaboratorCells(p *Prog) []nilCell {
	var out []nilCell
	seen := map[*types.Var]bool{}
	for _, fn := range p.Funcs {
		for _, w := range FieldWrites(fn) {
			if fieldOwner(w.Field, p) != "operation" {
				continue
			}
			if ex, ok := w.Store.Val.(*ssa.Extract); ok && ex.Index == 0 {
				if ta, ok := ex.Tuple.(*ssa.TypeAssert); ok && ta.CommaOk && !seen[w.Field] {
					// ok result unused?
					okUsed := false
					for _, ref := range *ta.Referrers() {
						if e2, ok := ref.(*ssa.Extract); ok && e2.Index == 1 && len(*e2.Referrers()) > 0 {
							okUsed = true
						}
					}
					if !okUsed {
						seen[w.Field] = true
						out = append(out, nilCell{w.Field, N(w.Field)})
					}
				}
			}
		}
	}
	sort.Slice(out, func(i, j int) bool { return out[i].name < out[j].name })
	return out
}

func (a *nilAnalysis) invokesOn(in ssa.Instruction, cell nilCell) bool {
	ci, ok := in.(ssa.CallInstruction)
	if !ok {
		return false
	}
	cc := ci.Common()
	return cc.IsInvoke() && LoadedField(cc.Value) == cell.fld
}

// safeAt: at block b (before instruction at) the cell is known non-nil.
func (a *nilAnalysis) safeAt(fn *ssa.Function, at ssa.Instruction, cell nilCell, depth int) (bool, string) {
	b := at.Block()
	for _, f := range FactsAt(b) {
		if cmp, ok := f.AsCmp(); ok && cmp.Op == token.NEQ && IsNilConst(cmp.Y) && LoadedField(cmp.X) == cell.fld {
			return true, "dominating non-nil test"
		}
		// correlated boolean flag
		if f.Truth {
			if fl := LoadedField(f.Cond); fl != nil && a.flagCorrelated(fl, cell, depth+1) {
				return true, "dominating flag " + N(fl) + " (all enabling stores justified)"
			}
			// struct flag: X.trailer where X field's stores are results of invokes on the cell
			if fv, ok := f.Cond.(*ssa.Field); ok {
				if outer := LoadedField(fv.X); outer != nil && a.structFromCell(outer, cell) {
					return true, "dominating flag inside " + N(outer) + " (only ever produced by the collaborator itself)"
				}
			}
			if u, ok := f.Cond.(*ssa.UnOp); ok && u.Op == token.MUL {
				if inner, ok := u.X.(*ssa.FieldAddr); ok {
					if outerFA, ok := inner.X.(*ssa.FieldAddr); ok && a.structFromCell(FieldOfAddr(outerFA), cell) {
						return true, "dominating flag inside " + N(FieldOfAddr(outerFA)) + " (only ever produced by the collaborator itself)"
					}
				}
			}
		}
		// integer sentinel: G != -1
		if cmp, ok := f.AsCmp(); ok && cmp.Op == token.NEQ {
			if k, isK := ConstInt(cmp.Y); isK && k == -1 {
				if fl := LoadedField(cmp.X); fl != nil && a.sentinelCorrelated(fl, cell, depth+1) {
					return true, "dominating sentinel test " + N(fl) + " != -1 (all other stores justified)"
				}
			}
		}
	}
	// a dominating earlier invoke on the cell
	found := false
	ForEachInstr(fn, func(in ssa.Instruction) {
		if in != at && a.invokesOn(in, cell) && instrBefore(in, at) {
			found = true
		}
	})
	if found {
		return true, "dominated by an earlier call through the same collaborator"
	}
	if a.guarded[FuncName(fn)+"|"+cell.name] {
		return true, "every call site of the enclosing function is justified"
	}
	return false, ""
}

// flagCorrelated: every store of a possibly-true value to the bool field happens where the cell is safe.
func (a *nilAnalysis) flagCorrelated(fl *types.Var, cell nilCell, depth int) bool {
	b, ok := fl.Type().Underlying().(*types.Basic)
	if !ok || b.Info()&types.IsBoolean == 0 {
		return false
	}
	key := N(fl) + "@" + fieldOwner(fl, a.p) + "|" + cell.name
	switch a.flagOK[key] {
	case 1:
		return true
	case 3:
		return false
	}
	if depth > 6 {
		return false
	}
	a.flagOK[key] = 3
	all, n := true, 0
	for _, fn := range a.p.Funcs {
		for _, st := range StoresToField(fn, fl) {
			if v, isC := ConstBool(st.Val); isC && !v {
				continue
			}
			if baseFresh(st.Addr.(*ssa.FieldAddr).X) {
				continue
			}
			n++
			// value produced by a call through the cell itself is fine
			viaCell := false
			if call, ok := st.Val.(*ssa.Call); ok && a.invokesOn(call, cell) {
				viaCell = true
			}
			if viaCell {
				continue
			}
			if ok, _ := a.safeAt(fn, st, cell, depth); !ok {
				all = false
			}
		}
	}
	if all && n > 0 {
		a.flagOK[key] = 1
		return true
	}
	a.flagOK[key] = 0
	return false
}

// sentinelCorrelated: every store of a value other than the constant -1 happens where the cell is safe
// (stores in Close methods are terminal and excluded).
func (a *nilAnalysis) sentinelCorrelated(fl *types.Var, cell nilCell, depth int) bool {
	if !isIntegerLike(fl.Type()) {
		return false
	}
	key := "s:" + N(fl) + "@" + fieldOwner(fl, a.p) + "|" + cell.name
	switch a.flagOK[key] {
	case 1:
		return true
	case 3:
		return false
	}
	if depth > 6 {
		return false
	}
	a.flagOK[key] = 3
	all, n := true, 0
	for _, fn := range a.p.Funcs {
		if N(fn) == "Close" {
			continue
		}
		for _, st := range StoresToField(fn, fl) {
			if k, isK := ConstInt(st.Val); isK && k == -1 {
				continue
			}
			n++
			// inductive step: a store that is itself dominated by the sentinel test 'fl != -1'
			// preserves the invariant (fl != -1 => collaborator non-nil)
			inductive := false
			for _, f := range FactsAt(st.Block()) {
				if cmp, ok := f.AsCmp(); ok && cmp.Op == token.NEQ && LoadedField(cmp.X) == fl {
					if k, isK := ConstInt(cmp.Y); isK && k == -1 {
						inductive = true
					}
				}
			}
			if inductive {
				continue
			}
			if ok, _ := a.safeAt(fn, st, cell, depth); !ok {
				all = false
			}
		}
	}
	if all && n > 0 {
		a.flagOK[key] = 1
		return true
	}
	a.flagOK[key] = 0
	return false
}

// structFromCell: every store to the struct-typed field is the result of an invoke on the cell.
func (a *nilAnalysis) structFromCell(fl *types.Var, cell nilCell) bool {
	if fl == nil {
		return false
	}
	n := 0
	for _, fn := range a.p.Funcs {
		for _, st := range StoresToField(fn, fl) {
			n++
			ok := false
			for _, l := range Origins(st.Val) {
				if l.Kind == "call" && a.invokesOn(l.Call, cell) {
					ok = true
				} else {
					ok = false
					break
				}
			}
			if !ok {
				return false
			}
		}
	}
	return n > 0
}

func runC11(c *Ctx) {
	// clause shared with C03: one response head: error body and Content-Length agree
	defer c.ImportRules("C03", "C03.4", "C03.17")
	// clause shared with C19: the stable marshaller is only used where the codec has one
	defer c.ImportRules("C19", "C19.2")
	// clause shared with C15: pooled (de)compressors: taken, reset and handed back exactly once
	defer c.ImportRules("C15", "C15.2")
	p := c.P
	// clause shared with C08: a Read never reports more bytes than it wrote (io.Reader contract; callers panic)
	defer c.ImportRules("C08", "C08.1")
	reach := p.RequestTimeReach()

	c.Rule("C11.1", "every non-constant index into a fixed-size lookup table is proven in range", 3)
	checkTableLookups(c, "C11.1")

	// ---------------------------------------------------------------- C11.14
	runC11ConstIndex(c)

	// ---------------------------------------------------------------- C11.2
	c.Rule("C11.2", "calls through nil-able collaborators are justified", 12)
	cells := collaboratorCells(p)
	if len(cells) < 2 {
		fatalf("anchor=nil-able collaborators: found %d operation fields filled by 'x, _ = v.(I)'", len(cells))
	}
	var names []string
	for _, cl := range cells {
		names = append(names, cl.name)
	}
	c.Note("nil-able collaborator cells: %s", strings.Join(names, ", "))
	a := &nilAnalysis{p: p, cells: cells, guarded: map[string]bool{}, flagOK: map[string]int{}}
	// fixpoint of "function guarded for cell": all module call sites safe
	for iter := 0; iter < 8; iter++ {
		changed := false
		for _, fn := range p.Funcs {
			for _, cl := range cells {
				key := FuncName(fn) + "|" + cl.name
				if a.guarded[key] {
					continue
				}
				callers := p.Callers(fn)
				if len(callers) == 0 || fn.Parent() != nil {
					continue
				}
				all := true
				for _, e := range callers {
					if !p.inScope(e.Caller) {
						continue
					}
					if ok, _ := a.safeAt(e.Caller, e.Site, cl, 0); !ok {
						all = false
					}
				}
				if all {
					a.guarded[key] = true
					changed = true
					// flags may become correlated now: reset negative memo
					for k, v := range a.flagOK {
						if v == 0 {
							delete(a.flagOK, k)
						}
					}
				}
			}
		}
		if !changed {
			break
		}
	}
	ewClose := p.MustFunc("(*envelopingWriter).Close")
	for _, fn := range p.Funcs {
		if !p.inScope(fn) {
			continue
		}
		for _, cl := range cells {
			ForEachInstr(fn, func(in ssa.Instruction) {
				if !a.invokesOn(in, cl) {
					return
				}
				c.CountSite()
				method := N(in.(ssa.CallInstruction).Common().Method)
				ok, how := a.safeAt(fn, in, cl, 0)
				if !ok && fn == ewClose && cl.name == "clientEnveloper" {
					// reasoned exception (d): the state remainingBytes == -1 && mustReleaseCurrent is created only by
					// the initialiser after its clientEnveloper == nil early return
					if exOK, exWhy := envelopingCloseInvariant(p, a, cl); exOK {
						c.Exception("(*envelopingWriter).Close: clientEnveloper.encodeEnvelope", exWhy)
						ok, how = true, "conjunction invariant (remainingBytes == -1 && mustReleaseCurrent) - structurally re-checked"
					}
				}
				c.Check(ok, "C11.2", FuncName(fn), cl.name+"."+method, in.Pos(), how,
					"method call through the nil-able collaborator "+cl.name+" is not justified by a non-nil test, an earlier call, a correlated flag/sentinel or by all call sites: for protocols that do not provide it (un-enveloped / no body preparer) this is a nil-pointer panic")
			})
		}
	}
	// response writer's body adapter
	rwT := types.NewPointer(p.MustNamed("responseWriter"))
	rwWrite := p.MethodOf(rwT, "Write")
	rwWH := p.MethodOf(rwT, "WriteHeader")
	wF := p.MustField("responseWriter", "w")
	errF := p.MustField("responseWriter", "err")
	endWrittenF := p.MustField("responseWriter", "endWritten")
	headersWrittenF := p.MustField("responseWriter", "headersWritten")
	rwReport := p.MustFunc("(*responseWriter).reportError")
	flushHeaders := p.MustFunc("(*responseWriter).flushHeaders")
	{
		paths, ok := EnumPaths(rwWH.Blocks[0], nil, IsReturn, 0)
		bad := 0
		for _, cp := range paths {
			installed, reported, early := false, false, false
			for _, b := range cp.Blocks {
				for _, in := range b.Instrs {
					if st, ok := in.(*ssa.Store); ok {
						if fa, ok := st.Addr.(*ssa.FieldAddr); ok && FieldOfAddr(fa) == wF && !IsNilConst(st.Val) {
							installed = true
						}
					}
					if ci, ok := in.(ssa.CallInstruction); ok {
						for _, cal := range p.CalleesAt(ci) {
							if cal == rwReport {
								reported = true
							}
						}
					}
				}
			}
			for cond, truth := range cp.Truth {
				if truth {
					if f := LoadedField(cond); f == endWrittenF || f == headersWrittenF {
						early = true
					}
				}
			}
			if !installed && !reported && !early {
				bad++
			}
		}
		c.Check(ok && bad == 0, "C11.2", FuncName(rwWH), "adapter-installed-or-end-reported", rwWH.Pos(),
			"every path through WriteHeader installs the body adapter, reports an error (which closes the writer for data), or is the already-processed early return ("+itoa(len(paths))+" paths)",
			itoa(bad)+" path(s) through WriteHeader leave the body adapter nil without reporting an end: the next Write dereferences nil")
		ForEachInstr(rwWrite, func(in ssa.Instruction) {
			ci, ok := in.(ssa.CallInstruction)
			if !ok || !ci.Common().IsInvoke() || LoadedField(ci.Common().Value) != wF {
				return
			}
			guard := false
			for _, f := range FactsAt(in.Block()) {
				if cmp, ok := f.AsCmp(); ok && cmp.Op == token.EQL && IsNilConst(cmp.Y) && LoadedField(cmp.X) == errF {
					guard = true
				}
			}
			c.Check(guard, "C11.2", FuncName(rwWrite), "w.Write", in.Pos(),
				"the body adapter is used only behind the error-cell test (set whenever the adapter was not installed)", "responseWriter.Write uses the body adapter without testing the error cell: nil dereference after an early end")
		})
		for _, fn := range p.Funcs {
			if fn == rwWrite || !p.inScope(fn) {
				continue
			}
			ForEachInstr(fn, func(in ssa.Instruction) {
				ci, ok := in.(ssa.CallInstruction)
				if !ok || !ci.Common().IsInvoke() || LoadedField(ci.Common().Value) != wF {
					return
				}
				guard := false
				for _, f := range FactsAt(in.Block()) {
					if cmp, ok := f.AsCmp(); ok && cmp.Op == token.NEQ && IsNilConst(cmp.Y) && LoadedField(cmp.X) == wF {
						guard = true
					}
				}
				c.Check(guard, "C11.2", FuncName(fn), "w."+N(ci.Common().Method), in.Pos(),
					"the body adapter is used under a non-nil test", "the response writer's body adapter is used without a non-nil test")
			})
		}
	}

	// ---------------------------------------------------------------- C11.7
	c.Rule("C11.7", "a message treated as 'empty' on an error edge has a buffer", 2)
	msgPT := types.NewPointer(p.MustNamed("message"))
	markReady := p.MethodOf(msgPT, "markReady")
	msgReset := p.MethodOf(msgPT, "reset")
	rrm := p.MustFunc("(*operation).readRequestMessage")
	if markReady == nil || msgReset == nil {
		fatalf("anchor=message.markReady/reset not found")
	}
	// lemma A: no client protocol both prepares bodies and is enveloped
	cbp, ephI := p.Iface("clientBodyPreparer"), p.Iface("envelopedProtocolHandler")
	lemmaA := cbp != nil && ephI != nil
	if lemmaA {
		for _, t := range p.Implementers(cbp) {
			if types.Implements(t, ephI) || types.Implements(types.NewPointer(t), ephI) {
				lemmaA = false
			}
		}
	}
	// lemma B: in the message reader every return on the 'client has no envelopes' side is preceded by reset
	lemmaB := false
	{
		clientEnvFld := p.MustField("operation", "clientEnveloper")
		paths, ok := EnumPaths(rrm.Blocks[0], nil, IsReturn, 0)
		lemmaB = ok
		for _, cp := range paths {
			unenv := false
			for cond, truth := range cp.Truth {
				if b, isB := cond.(*ssa.BinOp); isB && LoadedField(b.X) == clientEnvFld && IsNilConst(b.Y) {
					if b.Op == token.NEQ && !truth || b.Op == token.EQL && truth {
						unenv = true
					}
				}
			}
			if !unenv {
				continue
			}
			hasReset := false
			for _, b := range cp.Blocks {
				for _, in := range b.Instrs {
					if ci, isC := in.(ssa.CallInstruction); isC {
						for _, cal := range p.CalleesAt(ci) {
							if cal == msgReset {
								hasReset = true
							}
						}
					}
				}
			}
			if !hasReset {
				lemmaB = false
			}
		}
	}
	prepFlag := p.MustField("operation", "clientReqNeedsPrep")
	var clientPrepCell nilCell
	for _, cl := range cells {
		if cl.name == "clientPreparer" {
			clientPrepCell = cl
		}
	}
	for _, fn := range p.Funcs {
		if !p.inScope(fn) {
			continue
		}
		for _, call := range Calls(fn) {
			isMR := false
			for _, cal := range p.CalleesAt(call) {
				if cal == markReady {
					isMR = true
				}
			}
			if !isMR {
				continue
			}
			// only the 'tolerated error' idiom: the call is dominated by a fact about an error value being non-nil / being io.EOF
			onErrEdge := false
			for _, f := range FactsAt(call.Block()) {
				if ic, ok := f.Cond.(*ssa.Call); ok && f.Truth && IsCallTo(ic, "errors.Is") {
					onErrEdge = true
				}
				if cmp, ok := f.AsCmp(); ok && cmp.Op == token.NEQ && IsNilConst(cmp.Y) && types.Identical(cmp.X.Type(), types.Universe.Lookup("error").Type()) {
					onErrEdge = true
				}
			}
			if !onErrEdge {
				continue
			}
			c.CountSite()
			// (i) a reset of the message dominates the call in this function
			domReset := false
			ForEachInstr(fn, func(in ssa.Instruction) {
				if ci, ok := in.(ssa.CallInstruction); ok && instrBefore(in, call) {
					for _, cal := range p.CalleesAt(ci) {
						if cal == msgReset && in.Block() == call.Block() {
							domReset = true
						}
					}
				}
			})
			how := "the message is reset (given a buffer) right before it is marked ready"
			ok := domReset
			if !ok {
				// (ii) the tolerated error can only come from the un-enveloped side of the reader
				flagTrue := false
				for _, f := range FactsAt(call.Block()) {
					if f.Truth && LoadedField(f.Cond) == prepFlag {
						flagTrue = true
					}
				}
				if flagTrue && lemmaA && lemmaB && clientPrepCell.fld != nil && a.flagCorrelated(prepFlag, clientPrepCell, 0) {
					ok = true
					how = "dominated by clientReqNeedsPrep: only set for body-preparing client protocols, none of which is enveloped (type-level), and the un-enveloped side of the message reader always resets the message before returning"
				}
				// (iii) a disjunction: on every edge into the block either that flag is known, or
				// 'the client's protocol has no envelopes' is known directly (defect D59)
				if !ok && lemmaA && lemmaB && clientPrepCell.fld != nil && a.flagCorrelated(prepFlag, clientPrepCell, 0) {
					cliEnvF := p.MustField("operation", "clientEnveloper")
					all := len(call.Block().Preds) > 0
					for _, pr := range call.Block().Preds {
						edgeOK := false
						for _, f := range FactsOnEdge(pr, call.Block()) {
							if f.Truth && LoadedField(f.Cond) == prepFlag {
								edgeOK = true
							}
							if cmp, isCmp := f.AsCmp(); isCmp && cmp.Op == token.EQL && IsNilConst(cmp.Y) && LoadedField(cmp.X) == cliEnvF {
								edgeOK = true
							}
						}
						if !edgeOK {
							all = false
						}
					}
					if all {
						ok = true
						how = "on every edge into this block either clientReqNeedsPrep is known (body-preparing client protocols are not enveloped) or clientEnveloper == nil is known: the un-enveloped side of the message reader always resets the message before returning"
					}
				}
			}
			c.Check(ok, "C11.7", FuncName(fn), "markReady-on-error-edge", call.Pos(), how,
				"a message is marked ready on an error edge (error tolerated as 'empty message') although the callee may have returned before giving the message a buffer: nil dereference for an empty body from an enveloped client")
		}
	}

	// ---------------------------------------------------------------- C11.8
	c.Rule("C11.8", "the re-framing writer's current sink is never left nil in a state in which Write dereferences it", 3)
	ewN := p.MustNamed("envelopingWriter")
	ewPT := types.NewPointer(ewN)
	curF2 := p.MustField("envelopingWriter", "current")
	weF := p.MustField("envelopingWriter", "writingEnvelope")
	ewErrF := p.MustField("envelopingWriter", "err")
	// a helper method of the writer that itself establishes the state on every path (helper extraction)
	establishes := map[*ssa.Function]int{} // 0 unknown, 1 yes, 2 no/in progress
	var recovers func(in ssa.Instruction) bool
	recovers = func(in ssa.Instruction) bool {
		if ci, isCall := in.(*ssa.Call); isCall {
			cal := ci.Call.StaticCallee()
			if cal == nil || cal.Signature.Recv() == nil || len(cal.Blocks) == 0 || len(ci.Call.Args) == 0 || !types.Identical(ci.Call.Args[0].Type(), ewPT) {
				return false
			}
			switch establishes[cal] {
			case 1:
				return true
			case 2:
				return false
			}
			establishes[cal] = 2
			if okH, _ := MustPassToExit(cal, nil, recovers, IsReturn, nil); okH {
				establishes[cal] = 1
				return true
			}
			return false
		}
		st, ok := in.(*ssa.Store)
		if !ok {
			return false
		}
		fa, ok := st.Addr.(*ssa.FieldAddr)
		if !ok {
			return false
		}
		switch FieldOfAddr(fa) {
		case curF2, ewErrF:
			return !IsNilConst(st.Val)
		case weF:
			b, isC := ConstBool(st.Val)
			return isC && b
		}
		return false
	}
	ems := p.SSA.MethodSets.MethodSet(ewPT)
	for i := 0; i < ems.Len(); i++ {
		m := p.MethodOf(ewPT, N(ems.At(i).Obj()))
		if m == nil || m.Blocks == nil || N(m) == "Close" {
			continue
		}
		ForEachInstr(m, func(in ssa.Instruction) {
			st, ok := in.(*ssa.Store)
			if !ok {
				return
			}
			fa, ok := st.Addr.(*ssa.FieldAddr)
			if !ok {
				return
			}
			f := FieldOfAddr(fa)
			danger := ""
			if f == weF {
				if b, isC := ConstBool(st.Val); isC && !b {
					danger = "leaves envelope mode (payload bytes will go to the current sink)"
				}
			}
			if f == curF2 && IsNilConst(st.Val) {
				danger = "clears the current sink"
			}
			if danger == "" {
				return
			}
			c.CountSite()
			okRec, path := MustPassToExit(m, st, recovers, IsReturn, nil)
			c.Check(okRec, "C11.8", FuncName(m), "sink-restored-or-closed:"+N(f), st.Pos(),
				"after this store every path to the exit installs a sink, returns to envelope mode, or sets the error cell (so Write refuses further data)",
				"the writer "+danger+" and a path returns without installing a sink or closing the writer ("+witnessString(p, path)+"): the finalising Write(nil) of responseWriter.close dereferences a nil sink")
		})
	}
	if mi := p.MethodOf(ewPT, "maybeInit"); mi != nil {
		initF := p.MustField("envelopingWriter", "initialized")
		var initSt ssa.Instruction
		ForEachInstr(mi, func(in ssa.Instruction) {
			if st, ok := in.(*ssa.Store); ok {
				if fa, ok := st.Addr.(*ssa.FieldAddr); ok && FieldOfAddr(fa) == initF {
					initSt = in
				}
			}
		})
		if initSt == nil {
			c.Bad("C11.8", FuncName(mi), "initialiser", mi.Pos(), "initialiser does not mark itself done: shape changed")
		} else {
			okI, path := MustPassToExit(mi, initSt, recovers, IsReturn, nil)
			c.Check(okI, "C11.8", FuncName(mi), "initialiser-establishes-sink", initSt.Pos(),
				"every path of the initialiser ends in envelope mode, with a sink installed, or with the error cell set",
				"a path of the initialiser leaves the writer outside envelope mode without a sink and without an error: "+witnessString(p, path))
		}
	}

	// ---------------------------------------------------------------- C11.9
	c.Rule("C11.9", "the REST route target (nil for methods without an HTTP rule) is dereferenced only where it is known to exist", 10)
	rtF := p.MustField("operation", "restTarget")
	justifiedType := func(fn *ssa.Function) bool {
		recv := fn.Signature.Recv()
		if recv == nil {
			return false
		}
		n := typeName(recv.Type())
		return n == "restClientProtocol" || n == "restServerProtocol"
	}
	derefs := func(fn *ssa.Function) []ssa.Instruction {
		var out []ssa.Instruction
		ForEachInstr(fn, func(in ssa.Instruction) {
			fa, ok := in.(*ssa.FieldAddr)
			if !ok {
				return
			}
			if LoadedField(fa.X) == rtF {
				out = append(out, in)
			}
		})
		return out
	}
	nonNilAt := func(in ssa.Instruction) bool {
		for _, f := range FactsAt(in.Block()) {
			if cmp, ok := f.AsCmp(); ok && cmp.Op == token.NEQ && IsNilConst(cmp.Y) && LoadedField(cmp.X) == rtF {
				return true
			}
		}
		return false
	}
	rtGuarded := map[*ssa.Function]bool{}
	for iter := 0; iter < 6; iter++ {
		for _, fn := range p.Funcs {
			if rtGuarded[fn] || len(derefs(fn)) == 0 || fn.Parent() != nil {
				continue
			}
			callers := p.Callers(fn)
			if len(callers) == 0 {
				continue
			}
			all := true
			for _, e := range callers {
				if !p.inScope(e.Caller) {
					continue
				}
				if !(justifiedType(e.Caller) || rtGuarded[e.Caller] || nonNilAt(e.Site)) {
					all = false
				}
			}
			if all {
				rtGuarded[fn] = true
			}
		}
	}
	for _, fn := range p.Funcs {
		if !p.inScope(fn) {
			continue
		}
		for _, in := range derefs(fn) {
			c.CountSite()
			how := ""
			switch {
			case nonNilAt(in):
				how = "dominating non-nil test"
			case justifiedType(fn):
				how = "method of the REST protocol handlers: the target exists by construction (REST clients are routed through a matched target, REST targets are refused with not-found when the method has no rule)"
			case rtGuarded[fn]:
				how = "every caller is a REST protocol handler method or tests the target first"
			}
			c.Check(how != "", "C11.9", FuncName(fn), "restTarget-deref", in.Pos(), how,
				"operation.restTarget is dereferenced in code that runs for every protocol pairing without a non-nil test: for a method without a google.api.http rule this is a nil-pointer panic")
		}
	}
	// the two lemmas behind the REST-handler justification
	{
		valFn := p.MustFunc("(*operation).validate")
		nf := p.Global("errNotFound")
		okLemma := false
		ForEachInstr(valFn, func(in ssa.Instruction) {
			ret, ok := in.(*ssa.Return)
			if !ok || len(ret.Results) == 0 {
				return
			}
			// refused = the not-found sentinel or any other error that cannot be nil (which status the
			// refusal carries is C13's business - C13.10 - not a crash question)
			if !(nf != nil && originIsGlobal(ret.Results[0], nf)) && !NeverNilError(ret.Results[0], 0) {
				return
			}
			for _, f := range FactsAt(ret.Block()) {
				if cmp, ok := f.AsCmp(); ok && cmp.Op == token.EQL && IsNilConst(cmp.Y) && LoadedField(cmp.X) == rtF {
					okLemma = true
				}
			}
		})
		c.Check(okLemma, "C11.9", FuncName(valFn), "rest-target-without-rule-refused", valFn.Pos(),
			"validation answers not-found when the chosen target is REST and the method has no route target", "validation no longer refuses a REST target for a method without a route target: the REST server handler would dereference nil")
	}

	// ---------------------------------------------------------------- C11.11
	runC11Presized(c)
	// ---------------------------------------------------------------- C11.12
	runC11NewFieldKind(c)
	// ---------------------------------------------------------------- C11.13
	runC11CloseUnblocks(c)
	runC11NullIntoPointer(c)
	runC11HalfGuard(c)
	runC11CollectIndex(c)

	// ---------------------------------------------------------------- C11.10
	c.Rule("C11.10", "a declared content length is non-negative or the -1 sentinel", 1)
	ecl := p.MustFunc("httpExtractContentLength")
	ForEachInstr(ecl, func(in ssa.Instruction) {
		ret, ok := in.(*ssa.Return)
		if !ok || len(ret.Results) != 2 || !IsNilConst(ret.Results[1]) {
			return
		}
		v := ret.Results[0]
		good := false
		if k, isK := ConstInt(v); isK && k >= -1 {
			good = true
		}
		iv := IntervalOf(v, ret.Block())
		if iv.Lo >= -1 {
			good = true
		}
		// values obtained through an Extract of a parser call: look at facts on the extract itself
		for _, f := range FactsAt(ret.Block()) {
			if cmp, ok := f.AsCmp(); ok && sameValue(cmp.X, v) {
				if k, isK := ConstInt(cmp.Y); isK && (cmp.Op == token.GEQ && k >= -1 || cmp.Op == token.GTR && k >= -2) {
					good = true
				}
			}
		}
		c.Check(good, "C11.10", FuncName(ecl), "non-negative-or-sentinel", ret.Pos(),
			"every successful return is >= -1 (derived interval / dominating comparison)",
			"the declared Content-Length can be returned negative (below the -1 sentinel): the writers use it as a slice bound and byte counter - slice bounds out of range")
	})

	// ---------------------------------------------------------------- C11.3
	c.Rule("C11.3", "no explicit crash constructs at request time; recursion only where listed", 3)
	nPanic, nAssert, nGo := 0, 0, 0
	for _, fn := range SortedFuncs(reach) {
		if !p.inScope(fn) {
			continue
		}
		ForEachInstr(fn, func(in ssa.Instruction) {
			switch x := in.(type) {
			case *ssa.Panic:
				// re-raising a recovered panic is not a crash of the transcoder's own making
				rethrow := false
				for _, l := range Origins(x.X) {
					if l.Kind == "call" && IsCallTo(l.Call, "builtin recover") {
						rethrow = true
					} else {
						rethrow = false
						break
					}
				}
				if rethrow {
					c.OK("C11.3", FuncName(fn), "re-panic", x.Pos(), "re-raises the value it recovered (the handler's own panic continues to net/http)")
					return
				}
				// a panic without a source position is not written in the source: go/ssa's lowering
				// of range-over-func (`for x := range slices.Backward(s)`) guards the iterator
				// protocol with such instructions (false alarm on refactoring B24_r5)
				if x.Pos() == token.NoPos {
					return
				}
				nPanic++
				c.Bad("C11.3", FuncName(fn), "panic", x.Pos(), "explicit panic in request-time code")
			case *ssa.TypeAssert:
				if !x.CommaOk {
					nAssert++
					c.Bad("C11.3", FuncName(fn), "single-value-assert:"+aliasTypeString(types.TypeString(x.AssertedType, shortQual)), x.Pos(), "single-value type assertion in request-time code panics when the dynamic type differs")
				}
			case *ssa.Go:
				nGo++
				c.Bad("C11.3", FuncName(fn), "go", x.Pos(), "goroutine started at request time")
			}
		})
	}
	if nPanic+nAssert+nGo == 0 {
		c.OK("C11.3", "request-time code", "no-crash-constructs", token.NoPos, "no panic(), no single-value type assertion, no go statement in "+itoa(len(reach))+" request-time functions")
	}
	// recursion: strongly connected components of the in-scope call graph (static + module-interface edges)
	allowed := map[string]string{
		"(*routeTrie).findTarget":                  "depth = number of path segments of the request",
		"(*message).advanceToStage":                "at most two levels: read->decoded->send",
		"httpEncodePathValues$1":                   "depth = nesting depth of the request message",
		"addFileRecursive":                         "construction time only; depth = import depth of the schema",
		"(fallbackResolver).FindMessageByName":     "resolver chain; depth = nesting of fallback resolvers built at construction",
		"(fallbackResolver).FindMessageByURL":      "resolver chain",
		"(fallbackResolver).FindExtensionByName":   "resolver chain",
		"(fallbackResolver).FindExtensionByNumber": "resolver chain",
		"unmarshalFieldValue":                      "one level: wrapper type -> its value field",
		"marshalFieldValue":                        "one level: wrapper type -> its value field",
	}
	selfOrMutual := map[string]bool{}
	for _, fn := range SortedFuncs(reach) {
		if !p.inScope(fn) {
			continue
		}
		// can fn reach itself through static / module-interface edges?
		seen := map[*ssa.Function]bool{}
		var work []*ssa.Function
		for _, e := range p.Callees(fn) {
			if !e.StdIface && e.Kind != "dynamic" {
				work = append(work, e.Callee)
			}
		}
		rec := false
		for len(work) > 0 && !rec {
			f := work[len(work)-1]
			work = work[:len(work)-1]
			if f == fn {
				rec = true
				break
			}
			if seen[f] || !p.inScope(f) {
				continue
			}
			seen[f] = true
			for _, e := range p.Callees(f) {
				if !e.StdIface && e.Kind != "dynamic" {
					work = append(work, e.Callee)
				}
			}
		}
		if rec {
			selfOrMutual[FuncName(fn)] = true
		}
	}
	var recNames []string
	for n := range selfOrMutual {
		recNames = append(recNames, n)
	}
	sort.Strings(recNames)
	for _, n := range recNames {
		why, ok := allowed[n]
		// members of a cycle through an allowed function are accepted with it
		if !ok {
			for an, aw := range allowed {
				if selfOrMutual[an] && cycleThrough(p, p.Func(n), p.Func(an)) {
					why, ok = "on the cycle of "+an+": "+aw, true
				}
			}
		}
		if ok {
			c.Exception(n, "recursion accepted: "+why)
			c.Trivial("C11.3", n, "recursion-listed", token.NoPos, "listed bounded recursion: "+why)
		} else {
			fn := p.Func(n)
			pos := token.NoPos
			if fn != nil {
				pos = fn.Pos()
			}
			c.Bad("C11.3", n, "recursion", pos, "request-time function is (mutually) recursive and not in the list of bounded recursions: unbounded stack growth / non-termination cannot be excluded")
		}
	}

	// ---------------------------------------------------------------- C11.4
	c.Rule("C11.4", "no division or modulo by a possibly-zero non-constant", 1)
	nDiv := 0
	for _, fn := range SortedFuncs(reach) {
		if !p.inScope(fn) {
			continue
		}
		ForEachInstr(fn, func(in ssa.Instruction) {
			switch x := in.(type) {
			case *ssa.BinOp:
				if x.Op != token.QUO && x.Op != token.REM {
					return
				}
				if !isIntegerLike(x.Type()) {
					return
				}
				nDiv++
				nonZero := true
				ls := Origins(x.Y)
				for _, l := range ls {
					k, isK := ConstInt(l.V)
					if l.Kind != "const" || !isK || k == 0 {
						nonZero = false
					}
				}
				if !nonZero {
					for _, f := range FactsAt(x.Block()) {
						if cmp, ok := f.AsCmp(); ok && sameValue(cmp.X, x.Y) {
							if k, isK := ConstInt(cmp.Y); isK && (cmp.Op == token.NEQ && k == 0 || cmp.Op == token.GTR && k >= 0) {
								nonZero = true
							}
						}
					}
				}
				c.Check(nonZero && len(ls) > 0, "C11.4", FuncName(fn), "divisor-nonzero", x.Pos(),
					"the divisor is a non-zero constant on every path (or tested)", "integer division/modulo by a value that is not known to be non-zero: panics on zero")
			case *ssa.Convert:
				sb, ok1 := x.X.Type().Underlying().(*types.Basic)
				db, ok2 := x.Type().Underlying().(*types.Basic)
				if ok1 && ok2 && sb.Info()&types.IsFloat != 0 && db.Info()&types.IsInteger != 0 {
					c.Note("observation: float->integer conversion at %s in %s (implementation-defined for NaN/out-of-range, not a panic)", p.Pos(x.Pos()), FuncName(fn))
				}
			}
		})
	}
	if nDiv == 0 {
		c.Trivial("C11.4", "request-time code", "no-division", token.NoPos, "no integer division in request-time code")
	}

	// ---------------------------------------------------------------- C11.5
	c.Rule("C11.5", "at most one response head: fixed call sites of the underlying WriteHeader, guarded flush", 3)
	allowedWH := map[string]bool{"(*responseWriter).flushHeaders": true, "(*operation).reportError": true, "(*httpError).Encode": true, "httpWriteError": true}
	headersFlushedF := p.MustField("responseWriter", "headersFlushed")
	for _, fn := range p.Funcs {
		for _, call := range Calls(fn) {
			cc := call.Common()
			if cc.IsInvoke() && N(cc.Method) == "WriteHeader" && isNamed(cc.Value.Type(), "net/http", "ResponseWriter") {
				okWH := allowedWH[FuncName(fn)]
				if !okWH && fn.Signature.Recv() != nil && isPtrTo(fn.Signature.Recv().Type(), RootPath, "responseWriter") {
					// the body of a flusher that was split into 'guard + body': a method of the
					// response writer all of whose callers are designated sites
					okWH = len(p.Callers(fn)) > 0
					for _, e := range p.Callers(fn) {
						if !allowedWH[FuncName(e.Caller)] {
							okWH = false
						}
					}
				}
				c.Check(okWH, "C11.5", FuncName(fn), "who-calls:WriteHeader", call.Pos(),
					"designated call site of the underlying WriteHeader", "the underlying ResponseWriter.WriteHeader is called outside the designated sites: a second response head can be emitted")
				if fn == flushHeaders {
					g := false
					for _, f := range FactsAt(call.Block()) {
						if !f.Truth && LoadedField(f.Cond) == headersFlushedF {
							g = true
						}
					}
					c.Check(g, "C11.5", FuncName(fn), "guard:headersFlushed", call.Pos(), "the head is written only once (headersFlushed false edge)", "flushHeaders can write the head twice")
				}
			}
		}
	}

	// ---------------------------------------------------------------- C11.6
	c.Rule("C11.6", "an un-enveloped request body is exactly one message (no endless empty messages)", 1)
	er := p.MustNamed("envelopingReader")
	prepNext := p.MethodOf(types.NewPointer(er), "prepareNext")
	curF := p.MustField("envelopingReader", "current")
	clientEnvF := p.MustField("operation", "clientEnveloper")
	serverEnvF := p.MustField("operation", "serverEnveloper")
	ForEachInstr(prepNext, func(in ssa.Instruction) {
		st, ok := in.(*ssa.Store)
		if !ok {
			return
		}
		fa, ok := st.Addr.(*ssa.FieldAddr)
		if !ok || FieldOfAddr(fa) != curF {
			return
		}
		clientNil, serverNil, curNil := false, false, false
		for _, f := range FactsAt(st.Block()) {
			cmp, ok := f.AsCmp()
			if !ok || !IsNilConst(cmp.Y) || cmp.Op != token.EQL {
				continue
			}
			switch LoadedField(cmp.X) {
			case clientEnvF:
				clientNil = true
			case serverEnvF:
				serverNil = true
			case curF:
				curNil = true
			}
		}
		if !clientNil || serverNil {
			return
		}
		c.Check(curNil, "C11.6", FuncName(prepNext), "single-message-body", st.Pos(),
			"a message source is installed for an un-enveloped client only while none was installed before",
			"for a client without envelopes a new message source can be installed after the body was already handed out: the backend's request body never ends (ServeHTTP is wedged)")
	})
}

// cycleThrough: a and b lie on a common call cycle.
func cycleThrough(p *Prog, a, b *ssa.Function) bool {
	if a == nil || b == nil {
		return false
	}
	reachFrom := func(src, dst *ssa.Function) bool {
		seen := map[*ssa.Function]bool{}
		work := []*ssa.Function{src}
		for len(work) > 0 {
			f := work[len(work)-1]
			work = work[:len(work)-1]
			if seen[f] {
				continue
			}
			seen[f] = true
			for _, e := range p.Callees(f) {
				if e.StdIface || e.Kind == "dynamic" {
					continue
				}
				if e.Callee == dst {
					return true
				}
				work = append(work, e.Callee)
			}
		}
		return false
	}
	return reachFrom(a, b) && reachFrom(b, a)
}

// envelopingCloseInvariant re-checks the invariant behind the one reasoned exception:
// the state (remainingBytes == -1 && mustReleaseCurrent) is only created where the
// client enveloper is known non-nil.
func envelopingCloseInvariant(p *Prog, a *nilAnalysis, cl nilCell) (bool, string) {
	remF := p.MustField("envelopingWriter", "remainingBytes")
	mrcF := p.MustField("envelopingWriter", "mustReleaseCurrent")
	for _, fn := range p.Funcs {
		for _, st := range StoresToField(fn, mrcF) {
			if v, isC := ConstBool(st.Val); isC && !v {
				continue
			}
			if ok, _ := a.safeAt(fn, st, cl, 0); ok {
				continue
			}
			// otherwise the same block must store remainingBytes from a non-negative (unsigned) source
			okRem := false
			for _, in := range st.Block().Instrs {
				if s2, ok := in.(*ssa.Store); ok {
					if fa, ok := s2.Addr.(*ssa.FieldAddr); ok && FieldOfAddr(fa) == remF {
						if cv, ok := s2.Val.(*ssa.Convert); ok {
							if sb, ok := cv.X.Type().Underlying().(*types.Basic); ok && sb.Info()&types.IsUnsigned != 0 {
								okRem = true
							}
						}
					}
				}
			}
			if !okRem {
				return false, ""
			}
		}
	}
	// the Close call itself must be under both facts
	return true, "the invoke is guarded by remainingBytes == -1 && mustReleaseCurrent; mustReleaseCurrent=true is stored either where clientEnveloper is known non-nil (initialiser, after its nil early-return) or together with a non-negative remainingBytes (trailer buffer), so the conjunction implies a client enveloper"
}

// runC11Presized: C11.11 (defect D19).  A function that pre-sizes its result slice from the
// number of separators in a string (make([]T, strings.Count(s, sep)+1)) and fills it while
// splitting s must visit every element, empty ones included: if the filling loop may stop because
// the REMAINDER of s is empty, "a." yields a slice whose last slot was never filled - a nil
// interface that the callers dereference.  The loop has to stop on 'no further separator'.
func runC11Presized(c *Ctx) {
	p := c.P
	c.Rule("C11.11", "a result slice pre-sized by counting separators is filled for every element: the splitting loop does not stop on an empty remainder", 0)
	n := 0
	for _, fn := range p.Funcs {
		if !p.inScope(fn) {
			continue
		}
		for _, in := range allInstrs(fn) {
			mk, ok := in.(*ssa.MakeSlice)
			if !ok {
				continue
			}
			// length derives from strings.Count(s, ...)
			var src ssa.Value
			for _, l := range Origins(mk.Len) {
				if l.Kind == "call" && IsCallTo(l.Call, "strings.Count", "bytes.Count") {
					src = l.Call.Common().Args[0]
				}
			}
			if src == nil {
				continue
			}
			// only slices of interface / pointer elements can hold a nil that is dereferenced
			et := mk.Type().Underlying().(*types.Slice).Elem()
			if _, isI := et.Underlying().(*types.Interface); !isI {
				if _, isP := et.Underlying().(*types.Pointer); !isP {
					continue
				}
			}
			returned := false
			for _, ref := range *mk.Referrers() {
				if _, isRet := ref.(*ssa.Return); isRet {
					returned = true
				}
			}
			if !returned {
				continue
			}
			n++
			// branches on "<string derived from src> == / != \"\"" that lie on a cycle with an element store
			var bad []string
			for _, x := range allInstrs(fn) {
				iff, ok := x.(*ssa.If)
				if !ok {
					continue
				}
				b, ok := iff.Cond.(*ssa.BinOp)
				if !ok || (b.Op != token.EQL && b.Op != token.NEQ) {
					continue
				}
				if s2, isS := ConstString(b.Y); !isS || s2 != "" {
					continue
				}
				if !isStringType(b.X.Type()) {
					continue
				}
				derived := false
				seen := map[ssa.Value]bool{}
				var walk func(v ssa.Value, d int)
				walk = func(v ssa.Value, d int) {
					if seen[v] || d > 6 {
						return
					}
					seen[v] = true
					if v == src {
						derived = true
						return
					}
					switch y := v.(type) {
					case *ssa.Phi:
						for _, e := range y.Edges {
							walk(e, d+1)
						}
					case *ssa.Slice:
						walk(y.X, d+1)
					}
				}
				walk(b.X, 0)
				if !derived {
					continue
				}
				// is the test inside the filling loop (on a cycle)?
				onCycle, _ := PathQuery{Target: func(y ssa.Instruction) bool { return y == ssa.Instruction(iff) }}.Search(fn, iff)
				if onCycle {
					bad = append(bad, p.Pos(iff.Pos()))
				}
			}
			c.Check(len(bad) == 0, "C11.11", FuncName(fn), "presized-slice-filled", mk.Pos(),
				"the loop that fills the pre-sized slice does not terminate on an empty remainder of the string being split",
				"the slice is sized by counting separators but the filling loop stops when the remainder is empty ("+joinStr(bad)+"): a trailing separator leaves the last slot nil and the caller dereferences it (panic on a request like '?name.=x')")
		}
	}
	if n == 0 {
		c.Trivial("C11.11", "*", "presized-slice-filled", token.NoPos, "no result slice is pre-sized by counting separators")
	}
}

func allInstrs(fn *ssa.Function) []ssa.Instruction {
	var out []ssa.Instruction
	ForEachInstr(fn, func(in ssa.Instruction) { out = append(out, in) })
	return out
}

// runC11NewFieldKind: C11.12 (defect D28).  protoreflect.Message.NewField(fd) returns a List for
// a repeated field and a Map for a map field; calling Value.Message() on it panics.  A value that
// comes from NewField may reach .Message() only if it was made where the field is known not to be
// a list (a dominating fd.IsList()==false / Cardinality()!=Repeated test), or is an element made
// from that list.
func runC11NewFieldKind(c *Ctx) {
	p := c.P
	c.Rule("C11.12", "Value.Message() is applied to a NewField result only where the field is known to be singular", 0)
	n := 0
	singularKnown := func(call ssa.CallInstruction) bool {
		for _, f := range p.FactsAtInter(call.Block()) {
			ci, ok := f.Cond.(*ssa.Call)
			if ok && ci.Call.IsInvoke() && (N(ci.Call.Method) == "IsList" || N(ci.Call.Method) == "IsMap") && !f.Truth {
				return true
			}
			if cmp, ok := f.AsCmp(); ok {
				if cc, ok := cmp.X.(*ssa.Call); ok && cc.Call.IsInvoke() && N(cc.Call.Method) == "Cardinality" {
					return true
				}
			}
		}
		return false
	}
	for _, fn := range p.Funcs {
		if !p.inScope(fn) {
			continue
		}
		for _, call := range Calls(fn) {
			if !IsCallTo(call, "(google.golang.org/protobuf/reflect/protoreflect.Value).Message") {
				continue
			}
			var fromNewField []ssa.CallInstruction
			for _, l := range p.OriginsDeep(call.Common().Args[0]) {
				if l.Kind == "call" && l.Call.Common().IsInvoke() && N(l.Call.Common().Method) == "NewField" {
					fromNewField = append(fromNewField, l.Call)
				}
			}
			if len(fromNewField) == 0 {
				continue
			}
			n++
			ok := true
			for _, nf := range fromNewField {
				if !singularKnown(nf) && !singularKnown(call) {
					ok = false
				}
			}
			c.Check(ok, "C11.12", FuncName(fn), "newfield-message-needs-singular", call.Pos(),
				"the NewField result used as a message was made where the field is known to be singular",
				"Value.Message() is called on the result of NewField(field) although the field may be repeated (NewField then returns the list): a request naming such a field - e.g. a repeated well-known-type query parameter - panics")
		}
	}
	if n == 0 {
		c.Trivial("C11.12", "*", "newfield-message-needs-singular", token.NoPos, "no NewField result is used as a message")
	}
}

// runC11CloseUnblocks: C11.13 (defect D39).  The request-body adapters hold their mutex for the
// whole of Read, including the blocking read from the client.  Close therefore must close the
// wrapped body BEFORE it takes that mutex - closing the body is what interrupts a pending Read;
// a Close that locks first waits for a Read that only it could have unblocked, and a handler
// that closes the body to stop its reader goroutine (grpc-go does) hangs.
func runC11CloseUnblocks(c *Ctx) {
	p := c.P
	c.Rule("C11.13", "Close of a request-body adapter closes the wrapped body before taking the mutex that Read holds while blocked", 2)
	for _, ra := range readerAdapters(p) {
		pt := types.NewPointer(ra.typ)
		cl := p.MethodOf(pt, "Close")
		if cl == nil {
			fatalf("anchor=%s.Close not found", typeName(pt))
		}
		rF := p.Field(N(ra.typ.Obj()), "r")
		// does Read hold a lock across the source read?  (if the adapter has no mutex nothing can block Close)
		locksInRead := false
		ForEachInstr(ra.read, func(in ssa.Instruction) {
			if ci, ok := in.(ssa.CallInstruction); ok && IsCallTo(ci, "(*sync.Mutex).Lock") {
				locksInRead = true
			}
		})
		if !locksInRead {
			c.Trivial("C11.13", FuncName(cl), "close-before-lock", cl.Pos(), "Read takes no lock")
			continue
		}
		isLock := func(in ssa.Instruction) bool {
			ci, ok := in.(ssa.CallInstruction)
			return ok && IsCallTo(ci, "(*sync.Mutex).Lock")
		}
		isBodyClose := func(in ssa.Instruction) bool {
			ci, ok := in.(ssa.CallInstruction)
			if !ok || !ci.Common().IsInvoke() || N(ci.Common().Method) != "Close" {
				return false
			}
			return rF != nil && LoadedField(ci.Common().Value) == rF
		}
		// every path from the entry to the first Lock passes the close of the wrapped body
		lockFirst, path := PathQuery{Target: isLock, Avoid: isBodyClose}.Search(cl, nil)
		hasClose := false
		ForEachInstr(cl, func(in ssa.Instruction) {
			if isBodyClose(in) {
				hasClose = true
			}
		})
		c.Check(hasClose && !lockFirst, "C11.13", FuncName(cl), "close-before-lock", cl.Pos(),
			"the wrapped body is closed on every path before the mutex is taken",
			"Close takes the adapter's mutex before closing the wrapped body ("+witnessString(p, path)+"): while a Read is blocked on the client holding that mutex, Close waits for it instead of interrupting it - a handler that closes the body to stop its reader goroutine hangs (bidi streams through grpc-go)")
	}
}

// runC11ConstIndex: C11.14 (seed C11h).  x[0], x[k] and x[len(x)-1] on a slice or string whose
// length the peer controls panic when it is shorter.  At request time every such access is
// dominated by a test that proves the length (len(x) > k, != 0, == c, >= c ...), or the operand has
// a length known by construction.  Other index shapes (loop variables) are left to the compiler's
// bounds check and C11.1's table rule; they are counted, not judged.
func runC11ConstIndex(c *Ctx) {
	p := c.P
	c.Rule("C11.14", "constant and last-element indexes into strings and byte slices are dominated by a length test", 8)
	reach := p.RequestTimeReach()
	judged, skipped := 0, 0
	for _, fn := range SortedFuncs(reach) {
		if !p.inScope(fn) {
			continue
		}
		ord := 0
		ForEachInstr(fn, func(in ssa.Instruction) {
			var x, idx ssa.Value
			switch a := in.(type) {
			case *ssa.IndexAddr:
				x, idx = a.X, a.Index
			case *ssa.Index:
				x, idx = a.X, a.Index
			case *ssa.Lookup:
				if _, isMap := a.X.Type().Underlying().(*types.Map); isMap {
					return
				}
				x, idx = a.X, a.Index
			default:
				return
			}
			// text whose length the peer controls: strings and byte slices (slices of other
			// element types are built by the library itself; arrays are checked at compile
			// time or by C11.1)
			switch xt := x.Type().Underlying().(type) {
			case *types.Slice:
				if b, isB := xt.Elem().Underlying().(*types.Basic); !isB || b.Kind() != types.Uint8 {
					return
				}
			case *types.Basic:
				if xt.Info()&types.IsString == 0 {
					return
				}
			default:
				return
			}
			// which shape?
			var need int64 = -1 // length must exceed this
			if k, isK := ConstInt(idx); isK {
				need = k
			} else if bo, isBo := idx.(*ssa.BinOp); isBo && bo.Op == token.SUB {
				if k, isK := ConstInt(bo.Y); isK && k >= 1 && isLenOfVal(bo.X, x) {
					need = k - 1
				}
			}
			if need < 0 {
				skipped++
				return
			}
			judged++
			ord++
			// length known by construction
			okLen := false
			switch d := strip(x).(type) {
			case *ssa.MakeSlice:
				if k, isK := ConstInt(d.Len); isK && k > need {
					okLen = true
				}
			case *ssa.Slice:
				if _, isArr := d.X.Type().Underlying().(*types.Pointer); isArr && d.High == nil && d.Low == nil {
					okLen = true // arr[:]
				}
				if d.High != nil && d.Low == nil {
					if k, isK := ConstInt(d.High); isK && k > need {
						okLen = true
					}
				}
			case *ssa.Const:
				if s2, isS := ConstString(d); isS && int64(len(s2)) > need {
					okLen = true
				}
			}
			// a dominating fact about len(x)
			if !okLen {
				for _, f := range p.FactsAtInter(in.Block()) {
					cmp, ok := f.AsCmp()
					if !ok {
						continue
					}
					a, b, op := cmp.X, cmp.Y, cmp.Op
					// x != "" (or the false edge of x == "")
					if s2, isS := ConstString(b); isS && s2 == "" && op == token.NEQ && need == 0 {
						if a == x || strip(a) == strip(x) || (PathOf(a) != "" && PathOf(a) == PathOf(x) && !strings.HasPrefix(PathOf(a), "v:")) {
							okLen = true
						}
					}
					if isLenOfVal(b, x) {
						a, b, op = b, a, flip(op)
					}
					if !isLenOfVal(a, x) {
						continue
					}
					k, isK := ConstInt(b)
					if !isK {
						continue
					}
					switch op {
					case token.GTR:
						okLen = okLen || k >= need
					case token.GEQ:
						okLen = okLen || k > need
					case token.NEQ:
						okLen = okLen || (k == 0 && need == 0)
					case token.EQL:
						okLen = okLen || k > need
					}
				}
			}
			construct := "index"
			if ord > 1 {
				construct += "|#" + itoa(ord)
			}
			c.Check(okLen, "C11.14", FuncName(fn), construct, in.Pos(),
				"the access is dominated by a test (or a construction) that proves the operand is long enough",
				"an element at a fixed position (or the last element) of a slice/string is read without a dominating test of its length: an empty or short value from the peer makes this index panic out of ServeHTTP")
		})
	}
	c.Note("C11.14: %d fixed-position accesses judged, %d accesses with other index shapes left to C11.1 / the compiler's bounds checks", judged, skipped)
	if judged == 0 {
		c.Bad("C11.14", "request-time code", "index", token.NoPos, "no fixed-position access found: shape changed")
	}
}

// isLenOfVal: v is len(x) for the same value x (same SSA value, same access path, or a
// conversion between string and []byte of it).
func isLenOfVal(v, x ssa.Value) bool {
	call, ok := strip(v).(*ssa.Call)
	if !ok || CalleeName(call) != "builtin len" {
		return false
	}
	a := call.Call.Args[0]
	same := func(a, b ssa.Value) bool {
		if a == b || strip(a) == strip(b) {
			return true
		}
		pa, pb := PathOf(a), PathOf(b)
		return pa != "" && pa == pb && !strings.Contains(pa, "?") && !strings.HasPrefix(pa, "v:")
	}
	if same(a, x) {
		return true
	}
	if cv, ok := x.(*ssa.Convert); ok && same(a, cv.X) {
		return true
	}
	if cv, ok := a.(*ssa.Convert); ok && same(cv.X, x) {
		return true
	}
	return false
}

// runC11NullIntoPointer: C11.15 (seed C11l).  encoding/json sets a pointer target to nil for the
// JSON literal `null` and reports no error.  Where peer-controlled JSON is unmarshalled into a
// POINTER variable (json.Unmarshal(data, &p) with p of pointer type), every later use of p that
// dereferences it is preceded by a nil test of p; unmarshalling into a struct value (&s) has no
// such case.
func runC11NullIntoPointer(c *Ctx) {
	p := c.P
	c.Rule("C11.15", "a pointer filled by json.Unmarshal is tested for nil before it is dereferenced", 0)
	reach := p.RequestTimeReach()
	for _, fn := range SortedFuncs(reach) {
		if !p.inScope(fn) {
			continue
		}
		for _, call := range Calls(fn) {
			if !IsCallTo(call, "encoding/json.Unmarshal", "(*encoding/json.Decoder).Decode") {
				continue
			}
			args := call.Common().Args
			target := strip(args[len(args)-1])
			al, ok := target.(*ssa.Alloc)
			if !ok {
				continue
			}
			inner, ok := al.Type().(*types.Pointer).Elem().(*types.Pointer)
			if !ok {
				continue // target is &struct, &slice, &map ...: null leaves/zeroes a value, no nil pointer
			}
			_ = inner
			// loads of the pointer variable after the call
			deref, tested := token.NoPos, false
			for _, ref := range *al.Referrers() {
				ld, ok := ref.(*ssa.UnOp)
				if !ok || ld.Op != token.MUL || ld.Referrers() == nil {
					continue
				}
				for _, use := range *ld.Referrers() {
					switch u := use.(type) {
					case *ssa.FieldAddr:
						deref = u.Pos()
					case *ssa.UnOp:
						if u.Op == token.MUL {
							deref = u.Pos()
						}
					case *ssa.BinOp:
						if (u.Op == token.EQL || u.Op == token.NEQ) && (IsNilConst(u.X) || IsNilConst(u.Y)) {
							tested = true
						}
					}
				}
			}
			if deref == token.NoPos {
				continue
			}
			c.Check(tested, "C11.15", FuncName(fn), "null-into-pointer", call.Pos(),
				"the pointer variable the JSON is unmarshalled into is compared with nil",
				"JSON from the peer is unmarshalled into a pointer variable that is then dereferenced ("+p.Pos(deref)+") without ever being compared with nil: for the body `null` encoding/json sets the pointer to nil and reports success, and the dereference panics out of ServeHTTP")
		}
	}
}

// runC11HalfGuard: C11.16 (seed C07n).  A field that carries messages is singular, a list or a
// MAP; lists and maps are both `Cardinality() == Repeated`, but only lists are `IsList()`.  Where
// the value read through a field accessor (Get / Mutable / NewField / an accessor function value)
// is turned into a message under a guard on that very field, the guard has to exclude both
// shapes: `Cardinality() != Repeated`, or `!IsList()` together with `!IsMap()`.  A guard that
// tests list-ness alone lets a map field through and Value.Message() panics on the map - for a
// body or response_body that names a map field.  (A belief check: sites that rely on the
// configuration-time validation of the field path carry no guard and are not judged here.)
func runC11HalfGuard(c *Ctx) {
	p := c.P
	c.Rule("C11.16", "a guard that lets an accessor result be used as a message excludes map fields as well as lists", 1)
	isFD := func(t types.Type) bool {
		return isNamed(t, "google.golang.org/protobuf/reflect/protoreflect", "FieldDescriptor")
	}
	same := func(a, b ssa.Value) bool { return a == b || strip(a) == strip(b) }
	n := 0
	for _, fn := range p.Funcs {
		if !p.inScope(fn) {
			continue
		}
		for _, call := range Calls(fn) {
			if !IsCallTo(call, "(google.golang.org/protobuf/reflect/protoreflect.Value).Message") {
				continue
			}
			var fds []ssa.Value
			for _, l := range Origins(call.Common().Args[0]) {
				if l.Kind != "call" {
					continue
				}
				cc := l.Call.Common()
				switch {
				case cc.IsInvoke() && (N(cc.Method) == "Get" || N(cc.Method) == "Mutable" || N(cc.Method) == "NewField") && len(cc.Args) == 1 && isFD(cc.Args[0].Type()):
					fds = append(fds, cc.Args[0])
				case !cc.IsInvoke() && cc.StaticCallee() == nil && len(cc.Args) == 2 && isFD(cc.Args[1].Type()):
					fds = append(fds, cc.Args[1])
				}
			}
			for _, fd := range fds {
				listFalse, mapFalse, card := false, false, false
				for _, f := range FactsAt(call.Block()) {
					if ci, ok := f.Cond.(*ssa.Call); ok && ci.Call.IsInvoke() && same(ci.Call.Value, fd) && !f.Truth {
						switch N(ci.Call.Method) {
						case "IsList":
							listFalse = true
						case "IsMap":
							mapFalse = true
						}
					}
					if cmp, ok := f.AsCmp(); ok {
						for _, side := range []ssa.Value{cmp.X, cmp.Y} {
							if cc, ok := strip(side).(*ssa.Call); ok && cc.Call.IsInvoke() && N(cc.Call.Method) == "Cardinality" && same(cc.Call.Value, fd) {
								card = true
							}
						}
					}
				}
				if !listFalse && !mapFalse && !card {
					continue // no local guard: relies on the validated field path
				}
				n++
				c.Check(card || (listFalse && mapFalse), "C11.16", FuncName(fn), "message-guard-excludes-maps", call.Pos(),
					"the guard excludes every repeated shape (cardinality test, or list and map tests together)",
					"the accessor result is used as a message under a guard that excludes lists but not maps: for a map field the accessor returns the map and Value.Message() panics")
			}
		}
	}
	if n == 0 {
		c.Bad("C11.16", "package", "message-guard-excludes-maps", token.NoPos, "no guarded use of an accessor result as a message found: shape changed")
	}
}

// runC11CollectIndex: C11.17 (seed C11n).  The 'filter and collect' loop written with an explicit
// cursor - `out := make([]T, n); k := 0; for ... { if keep { out[k] = x; k++ } }` - is in range
// only if n is at least the number of iterations: the cursor can advance once per iteration,
// whatever is known about how many items CAN match (a client may repeat `gzip` in
// Accept-Encoding as often as it likes; "the intersection is never larger than the smaller set"
// holds for sets, not for token lists).  For every store into a slice made in the same function
// whose index is such a cursor (a loop-header phi that starts at a constant and is stepped by one
// on some back edges and left alone on others - the induction variable itself is C11.11's business): the made length is the loop's own bound (the value the induction variable
// is compared with), or a dominating test proves cursor < length.  Other index shapes are left to
// C11.1 / C11.14.
func runC11CollectIndex(c *Ctx) {
	p := c.P
	c.Rule("C11.17", "a cursor that fills a pre-sized slice inside a loop cannot pass the slice's length", 0)
	sameVal := func(a, b ssa.Value) bool {
		a, b = strip(a), strip(b)
		if a == b {
			return true
		}
		ca, okA := a.(*ssa.Call)
		cb, okB := b.(*ssa.Call)
		if okA && okB && CalleeName(ca) == "builtin len" && CalleeName(cb) == "builtin len" {
			return strip(ca.Call.Args[0]) == strip(cb.Call.Args[0])
		}
		ka, okA2 := a.(*ssa.Const)
		kb, okB2 := b.(*ssa.Const)
		if okA2 && okB2 && ka.Value != nil && kb.Value != nil {
			return ka.Value.ExactString() == kb.Value.ExactString()
		}
		return false
	}
	n := 0
	for _, fn := range p.Funcs {
		if !p.inScope(fn) || len(fn.Blocks) == 0 {
			continue
		}
		var loops map[*ssa.BasicBlock]map[*ssa.BasicBlock]bool
		ForEachInstr(fn, func(in ssa.Instruction) {
			st, ok := in.(*ssa.Store)
			if !ok {
				return
			}
			ia, ok := st.Addr.(*ssa.IndexAddr)
			if !ok {
				return
			}
			mk, ok := strip(ia.X).(*ssa.MakeSlice)
			if !ok {
				return
			}
			cur, ok := ia.Index.(*ssa.Phi)
			if !ok {
				return
			}
			if loops == nil {
				loops = naturalLoops(fn)
			}
			h := cur.Block()
			body := loops[h]
			if body == nil || !body[st.Block()] {
				return
			}
			// cursor shape: entry edges constant, back edges (through phis of the body) cur or cur+1
			stepped := false
			unstepped := false // some iteration leaves the cursor alone: a cursor, not the induction variable
			shape := true
			var walk func(v ssa.Value, depth int)
			seen := map[ssa.Value]bool{}
			walk = func(v ssa.Value, depth int) {
				if seen[v] || depth > 6 {
					return
				}
				seen[v] = true
				switch x := v.(type) {
				case *ssa.Phi:
					if x == cur {
						unstepped = true
						return
					}
					if !body[x.Block()] {
						shape = false
						return
					}
					for _, e := range x.Edges {
						walk(e, depth+1)
					}
				case *ssa.BinOp:
					k, isK := x.Y.(*ssa.Const)
					if x.Op == token.ADD && x.X == ssa.Value(cur) && isK && k.Value != nil && k.Value.ExactString() == "1" {
						stepped = true
						return
					}
					shape = false
				default:
					shape = false
				}
			}
			for i, e := range cur.Edges {
				if body[h.Preds[i]] {
					walk(e, 0)
				} else if _, isK := e.(*ssa.Const); !isK {
					shape = false
				}
			}
			if !shape || !stepped || !unstepped {
				return
			}
			n++
			// (a) a dominating test proves cursor < length
			for _, f := range FactsAt(st.Block()) {
				if cmp, ok := f.AsCmp(); ok && cmp.Op == token.LSS && cmp.X == ssa.Value(cur) {
					if sameVal(cmp.Y, mk.Len) {
						c.OK("C11.17", FuncName(fn), "cursor-within-made-length", st.Pos(), "a dominating test proves the cursor is below the made length")
						return
					}
					if lc, ok := strip(cmp.Y).(*ssa.Call); ok && CalleeName(lc) == "builtin len" && strip(lc.Call.Args[0]) == ssa.Value(mk) {
						c.OK("C11.17", FuncName(fn), "cursor-within-made-length", st.Pos(), "a dominating test proves the cursor is below len of the slice")
						return
					}
				}
			}
			// (b) the made length is the loop's own bound
			bounded := false
			for b := range body {
				if len(b.Instrs) == 0 {
					continue
				}
				iff, ok := b.Instrs[len(b.Instrs)-1].(*ssa.If)
				if !ok {
					continue
				}
				cmp, ok := iff.Cond.(*ssa.BinOp)
				if !ok || cmp.Op != token.LSS {
					continue
				}
				// X is an induction value of this loop: a header phi stepped by one on every back edge, or that +1
				x := cmp.X
				if bo, ok := x.(*ssa.BinOp); ok && bo.Op == token.ADD {
					x = bo.X
				}
				ph, ok := x.(*ssa.Phi)
				if !ok || ph.Block() != h || ph == cur {
					continue
				}
				// one of the successors must leave the loop
				leaves := false
				for _, s := range b.Succs {
					if !body[s] {
						leaves = true
					}
				}
				if leaves && sameVal(cmp.Y, mk.Len) {
					bounded = true
				}
			}
			c.Check(bounded, "C11.17", FuncName(fn), "cursor-within-made-length", st.Pos(),
				"the slice was made with the loop's own bound as its length: one store per iteration fits",
				"the cursor advances up to once per iteration, but the slice was not made with the loop's bound as its length and no test keeps the cursor below it: enough matching items (repeated tokens in a peer's header) index past the end and ServeHTTP panics")
		})
	}
	if n == 0 {
		c.Trivial("C11.17", "*", "cursor-within-made-length", token.NoPos, "no pre-sized slice is filled through a cursor inside a loop (the collect loops append)")
	}
}

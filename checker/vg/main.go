package vg

import (
	"encoding/json"
	"flag"
	"fmt"
	"os"
	"os/exec"
	"runtime/debug"
	"sort"
	"strings"
	"time"
)

var registry = map[string]*PropertySpec{}

func register(s *PropertySpec) { registry[s.ID] = s }

// Main is the entry point of vgcheck.
func Main() int {
	repo := flag.String("repo", "/repo", "repository working tree to analyse")
	prop := flag.String("property", "", "property id (C01..C20)")
	tier := flag.String("tier", "quick", "quick|thorough")
	evidencePath := flag.String("evidence", "", "evidence file to write")
	knownPath := flag.String("known", "", "known findings file (read only)")
	findingsDir := flag.String("findings", "", "directory for replay files")
	replay := flag.String("replay", "", "replay file: re-evaluate that obligation on the current tree")
	only := flag.String("only", "", "restrict printed obligations to this rule id (debug)")
	dump := flag.Bool("dump", false, "print every obligation (debug)")
	list := flag.Bool("list", false, "list properties")
	decls := flag.String("decls", DefaultDeclsPath(), "declaration snapshot for rename tolerance (read only; \"none\" disables)")
	writeDecls := flag.String("write-decls", "", "write the declaration snapshot of -repo to this file and exit")
	flag.Parse()
	if *writeDecls != "" {
		DeclsPath = ""
		p := Load(*repo, "", false)
		commit := ""
		if out, err := exec.Command("git", "-C", *repo, "rev-parse", "--short", "HEAD").Output(); err == nil {
			commit = strings.TrimSpace(string(out))
		}
		if err := WriteDecls(p, *writeDecls, commit); err != nil {
			fmt.Printf("CHECKER-ERROR %v\n", err)
			return 3
		}
		return 0
	}
	if *decls != "none" {
		DeclsPath = *decls
	}
	if *list {
		var ids []string
		for id := range registry {
			ids = append(ids, id)
		}
		sort.Strings(ids)
		fmt.Println(strings.Join(ids, " "))
		return 0
	}
	var replayKey string
	if *replay != "" {
		data, err := os.ReadFile(*replay)
		if err != nil {
			fmt.Printf("CHECKER-ERROR cannot read replay file: %v\n", err)
			return 3
		}
		var r struct {
			Property   string     `json:"property"`
			Obligation Obligation `json:"obligation"`
		}
		if err := json.Unmarshal(data, &r); err != nil {
			fmt.Printf("CHECKER-ERROR bad replay file: %v\n", err)
			return 3
		}
		*prop = r.Property
		replayKey = r.Obligation.Key
	}
	if *prop == "all" {
		return runAll(*repo, *knownPath)
	}
	spec := registry[*prop]
	if spec == nil {
		fmt.Printf("CHECKER-ERROR unknown property %q\n", *prop)
		return 3
	}
	start := time.Now()
	exit := 3
	func() {
		defer func() {
			if r := recover(); r != nil {
				if ce, ok := r.(CheckerError); ok {
					fmt.Printf("CHECKER-ERROR property=%s %s\n", spec.ID, ce.Msg)
				} else {
					fmt.Printf("CHECKER-ERROR property=%s panic: %v\n%s\n", spec.ID, r, debug.Stack())
				}
				exit = 3
			}
		}()
		p := Load(*repo, "", false)
		tLoad := time.Since(start)
		p.BuildCallGraph()
		if os.Getenv("VG_TIMING") != "" {
			fmt.Fprintf(os.Stderr, "timing: load=%.1fs callgraph=%.1fs\n", tLoad.Seconds(), (time.Since(start) - tLoad).Seconds())
		}
		extra := map[string]any{}
		if *tier == "thorough" {
			p.BuildVTA()
		}
		ctx := &Ctx{P: p, Property: spec.ID, Tier: *tier}
		spec.Run(ctx)
		if *tier == "thorough" {
			thorough(ctx, spec, extra)
		}
		if replayKey != "" {
			for _, o := range ctx.obls {
				if o.Key == replayKey {
					fmt.Printf("replay: %s: %s -> %s: %s\n", o.Pos, o.Key, o.Status, o.What)
					if o.Status == Violated {
						fmt.Printf("VIOLATION property=%s replay=%s\n", spec.ID, *replay)
						exit = 1
					} else {
						exit = 0
					}
					return
				}
			}
			fmt.Printf("replay: obligation %s no longer exists on this tree\n", replayKey)
			exit = 0
			return
		}
		if *dump || *only != "" {
			for _, o := range ctx.obls {
				if *only == "" || o.Rule == *only {
					fmt.Printf("  [%s] %s %s: %s\n", o.Status, o.Pos, o.Key, o.What)
					for _, f := range o.Facts {
						fmt.Printf("        %s\n", f)
					}
				}
			}
		}
		cmdline := "vgcheck " + strings.Join(os.Args[1:], " ")
		exit = ctx.Finish(spec, start, *evidencePath, *knownPath, *findingsDir, cmdline, extra)
	}()
	return exit
}

// runAll loads the tree once and evaluates every registered property; used by
// the mutant matrix (tools/seedmatrix.sh).  No evidence is written.
func runAll(repo, knownPath string) int {
	var ids []string
	for id := range registry {
		ids = append(ids, id)
	}
	sort.Strings(ids)
	var p *Prog
	func() {
		defer func() {
			if r := recover(); r != nil {
				if ce, ok := r.(CheckerError); ok {
					fmt.Printf("CHECKER-ERROR property=all %s\n", ce.Msg)
				} else {
					fmt.Printf("CHECKER-ERROR property=all panic: %v\n", r)
				}
				p = nil
			}
		}()
		p = Load(repo, "", false)
		p.BuildCallGraph()
	}()
	if p == nil {
		return 3
	}
	worst := 0
	for _, id := range ids {
		spec := registry[id]
		exit := 3
		func() {
			defer func() {
				if r := recover(); r != nil {
					if ce, ok := r.(CheckerError); ok {
						fmt.Printf("CHECKER-ERROR property=%s %s\n", spec.ID, ce.Msg)
					} else {
						fmt.Printf("CHECKER-ERROR property=%s panic: %v\n%s\n", spec.ID, r, debug.Stack())
					}
				}
			}()
			ctx := &Ctx{P: p, Property: spec.ID, Tier: "quick"}
			spec.Run(ctx)
			exit = ctx.Finish(spec, time.Now(), "", knownPath, "", "vgcheck -property all", nil)
		}()
		if exit > worst {
			worst = exit
		}
	}
	return worst
}

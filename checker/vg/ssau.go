package vg

import (
	"fmt"
	"go/constant"
	"go/token"
	"go/types"
	"strings"

	"golang.org/x/tools/go/ssa"
)

// ForEachInstr visits every instruction of fn.
func ForEachInstr(fn *ssa.Function, f func(ssa.Instruction)) {
	for _, b := range fn.Blocks {
		for _, in := range b.Instrs {
			f(in)
		}
	}
}

// Calls returns all call-like instructions (Call, Defer, Go) of fn.
func Calls(fn *ssa.Function) []ssa.CallInstruction {
	var out []ssa.CallInstruction
	ForEachInstr(fn, func(in ssa.Instruction) {
		if c, ok := in.(ssa.CallInstruction); ok {
			out = append(out, c)
		}
	})
	return out
}

// CalleeName renders the callee of a call for matching library functions:
// "errors.Is", "(*bytes.Buffer).ReadFrom", "(net/http.Header).Del",
// "invoke io.Reader.Read".
func CalleeName(c ssa.CallInstruction) string {
	cc := c.Common()
	if cc.IsInvoke() {
		return "invoke " + aliasTypeString(types.TypeString(cc.Value.Type(), shortQual)) + "." + N(cc.Method)
	}
	if sc := cc.StaticCallee(); sc != nil {
		return QualFuncName(sc)
	}
	if b, ok := cc.Value.(*ssa.Builtin); ok {
		return "builtin " + N(b)
	}
	return "dynamic"
}

func shortQual(p *types.Package) string {
	if p.Path() == RootPath {
		return ""
	}
	return p.Path()
}

// QualFuncName is "pkgpath.F" or "(*pkgpath.T).M"; root package is unqualified.
func QualFuncName(fn *ssa.Function) string {
	if fn.Parent() != nil {
		return FuncName(fn)
	}
	if o := fn.Origin(); o != nil {
		fn = o
	}
	if recv := fn.Signature.Recv(); recv != nil {
		return "(" + aliasTypeString(types.TypeString(recv.Type(), shortQual)) + ")." + N(fn)
	}
	pk := ""
	if fn.Pkg != nil && fn.Pkg.Pkg.Path() != RootPath {
		pk = fn.Pkg.Pkg.Path() + "."
	} else if fn.Pkg == nil && fn.Object() != nil && fn.Object().Pkg() != nil && fn.Object().Pkg().Path() != RootPath {
		pk = fn.Object().Pkg().Path() + "."
	}
	return pk + N(fn)
}

// IsCallTo reports whether c statically calls one of the named functions
// (names as produced by CalleeName).
func IsCallTo(c ssa.CallInstruction, names ...string) bool {
	n := CalleeName(c)
	for _, want := range names {
		if n == want {
			return true
		}
	}
	return false
}

// ----------------------------------------------------------------- deref / paths

// strip removes value-preserving wrappers.
func strip(v ssa.Value) ssa.Value {
	for {
		switch x := v.(type) {
		case *ssa.ChangeType:
			v = x.X
		case *ssa.ChangeInterface:
			v = x.X
		case *ssa.MakeInterface:
			v = x.X
		case *ssa.Convert:
			// only integer<->integer and named<->underlying conversions preserve "the value"
			if isIntegerLike(x.X.Type()) && isIntegerLike(x.Type()) {
				v = x.X
			} else if types.Identical(x.X.Type().Underlying(), x.Type().Underlying()) {
				v = x.X
			} else {
				return v
			}
		default:
			return v
		}
	}
}

func isIntegerLike(t types.Type) bool {
	b, ok := t.Underlying().(*types.Basic)
	return ok && b.Info()&types.IsInteger != 0
}

// FieldOfAddr returns the struct field addressed by a FieldAddr.
func FieldOfAddr(fa *ssa.FieldAddr) *types.Var {
	t := fa.X.Type().Underlying().(*types.Pointer).Elem().Underlying().(*types.Struct)
	return t.Field(fa.Field)
}

// FieldOfVal returns the struct field selected by a Field instruction.
func FieldOfVal(f *ssa.Field) *types.Var {
	t := f.X.Type().Underlying().(*types.Struct)
	return t.Field(f.Field)
}

// PathOf renders a canonical access path for a value: parameters are "p0", "p1",
// field loads append ".name"; anything else becomes an opaque token that still
// compares equal for the identical SSA value.  Two loads with the same path in
// the same function denote the same memory cell (not necessarily the same value).
func PathOf(v ssa.Value) string {
	return pathOf(v, 0)
}

func pathOf(v ssa.Value, depth int) string {
	if depth > 12 || v == nil {
		return "?"
	}
	v = strip(v)
	switch x := v.(type) {
	case *ssa.Parameter:
		for i, p := range x.Parent().Params {
			if p == x {
				return fmt.Sprintf("p%d", i)
			}
		}
		return "p?"
	case *ssa.FreeVar:
		return "fv:" + N(x)
	case *ssa.Global:
		return "g:" + N(x)
	case *ssa.UnOp:
		if x.Op == token.MUL {
			switch a := x.X.(type) {
			case *ssa.FieldAddr:
				return pathOf(a.X, depth+1) + "." + N(FieldOfAddr(a))
			case *ssa.Global:
				return "g:" + N(a)
			case *ssa.FreeVar:
				return "fv:" + N(a)
			case *ssa.Alloc:
				return "*" + N(a)
			case *ssa.IndexAddr:
				return pathOf(a.X, depth+1) + "[]"
			}
			return "*" + pathOf(x.X, depth+1)
		}
	case *ssa.FieldAddr:
		return "&" + pathOf(x.X, depth+1) + "." + N(FieldOfAddr(x))
	case *ssa.Field:
		return pathOf(x.X, depth+1) + "." + N(FieldOfVal(x))
	case *ssa.Alloc:
		return "&" + N(x)
	case *ssa.TypeAssert:
		return pathOf(x.X, depth+1)
	case *ssa.Extract:
		if ta, ok := x.Tuple.(*ssa.TypeAssert); ok && x.Index == 0 {
			return pathOf(ta.X, depth+1)
		}
	case *ssa.Const:
		if x.Value == nil {
			return "nil"
		}
		return "const:" + x.Value.ExactString()
	}
	return "v:" + N(v)
}

// AddrPath renders the path of the cell an address value points to:
// for FieldAddr(x,f): path(x).f.
func AddrPath(addr ssa.Value) string {
	switch a := addr.(type) {
	case *ssa.FieldAddr:
		return PathOf(a.X) + "." + N(FieldOfAddr(a))
	case *ssa.Global:
		return "g:" + N(a)
	case *ssa.Alloc:
		return "*" + N(a)
	case *ssa.FreeVar:
		return "fv:" + N(a)
	case *ssa.IndexAddr:
		return PathOf(a.X) + "[]"
	}
	return "*" + PathOf(addr)
}

// LoadedField: if v (after stripping) is a load of a struct field, returns the
// field object.
func LoadedField(v ssa.Value) *types.Var {
	v = strip(v)
	switch x := v.(type) {
	case *ssa.UnOp:
		if x.Op == token.MUL {
			if fa, ok := x.X.(*ssa.FieldAddr); ok {
				return FieldOfAddr(fa)
			}
		}
	case *ssa.Field:
		return FieldOfVal(x)
	}
	return nil
}

// ConstInt returns the integer value of a constant.
func ConstInt(v ssa.Value) (int64, bool) {
	c, ok := strip(v).(*ssa.Const)
	if !ok || c.Value == nil {
		return 0, false
	}
	if c.Value.Kind() != constant.Int {
		return 0, false
	}
	i, exact := constant.Int64Val(c.Value)
	return i, exact
}

// ConstString returns the string value of a constant.
func ConstString(v ssa.Value) (string, bool) {
	c, ok := strip(v).(*ssa.Const)
	if !ok || c.Value == nil || c.Value.Kind() != constant.String {
		return "", false
	}
	return constant.StringVal(c.Value), true
}

// IsNilConst reports whether v is the nil constant.
func IsNilConst(v ssa.Value) bool {
	c, ok := v.(*ssa.Const)
	return ok && c.Value == nil
}

// ConstBool returns the value of a boolean constant.
func ConstBool(v ssa.Value) (bool, bool) {
	c, ok := strip(v).(*ssa.Const)
	if !ok || c.Value == nil || c.Value.Kind() != constant.Bool {
		return false, false
	}
	return constant.BoolVal(c.Value), true
}

// ------------------------------------------------------------------- origins

// Leaf is one backward-traced origin of a value.
type Leaf struct {
	Kind  string // const | nil | param | load | call | alloc | global | freevar | closure | func | other
	V     ssa.Value
	Field *types.Var          // for load of a field
	Path  string              // for load/param
	Call  ssa.CallInstruction // for call
	Index int                 // result index for call
	Ops   []token.Token       // arithmetic operators crossed on the way
}

func (l Leaf) String() string {
	switch l.Kind {
	case "const":
		return "const(" + l.V.(*ssa.Const).Value.ExactString() + ")"
	case "nil":
		return "nil"
	case "param", "load":
		return l.Kind + "(" + l.Path + ")"
	case "call":
		return fmt.Sprintf("call(%s)#%d", CalleeName(l.Call), l.Index)
	}
	return l.Kind + "(" + N(l.V) + ")"
}

// Origins traces v backwards through phis, conversions, arithmetic, slicing,
// local-aggregate stores and tuple extraction and returns the leaves.  It is a
// may-analysis: every value that can flow into v along some path is represented.
func Origins(v ssa.Value) []Leaf {
	var out []Leaf
	seen := map[ssa.Value]bool{}
	var walk func(v ssa.Value, ops []token.Token, depth int)
	walk = func(v ssa.Value, ops []token.Token, depth int) {
		if v == nil {
			return
		}
		if seen[v] {
			return
		}
		seen[v] = true
		if depth > 24 {
			out = append(out, Leaf{Kind: "other", V: v, Ops: ops})
			return
		}
		switch x := v.(type) {
		case *ssa.Const:
			if x.Value == nil {
				out = append(out, Leaf{Kind: "nil", V: v, Ops: ops})
			} else {
				out = append(out, Leaf{Kind: "const", V: v, Ops: ops})
			}
		case *ssa.Parameter:
			out = append(out, Leaf{Kind: "param", V: v, Path: PathOf(v), Ops: ops})
		case *ssa.FreeVar:
			out = append(out, Leaf{Kind: "freevar", V: v, Path: PathOf(v), Ops: ops})
		case *ssa.Global:
			out = append(out, Leaf{Kind: "global", V: v, Path: PathOf(v), Ops: ops})
		case *ssa.Function:
			out = append(out, Leaf{Kind: "func", V: v, Ops: ops})
		case *ssa.MakeClosure:
			out = append(out, Leaf{Kind: "closure", V: v, Ops: ops})
		case *ssa.Phi:
			for _, e := range x.Edges {
				walk(e, ops, depth+1)
			}
		case *ssa.ChangeType:
			walk(x.X, ops, depth+1)
		case *ssa.ChangeInterface:
			walk(x.X, ops, depth+1)
		case *ssa.MakeInterface:
			walk(x.X, ops, depth+1)
		case *ssa.Convert:
			walk(x.X, ops, depth+1)
		case *ssa.TypeAssert:
			walk(x.X, ops, depth+1)
		case *ssa.Slice:
			walk(x.X, ops, depth+1)
		case *ssa.BinOp:
			nops := append(append([]token.Token{}, ops...), x.Op)
			walk(x.X, nops, depth+1)
			walk(x.Y, nops, depth+1)
		case *ssa.Extract:
			switch t := x.Tuple.(type) {
			case *ssa.TypeAssert:
				if x.Index == 0 {
					walk(t.X, ops, depth+1)
				} else {
					out = append(out, Leaf{Kind: "other", V: v, Ops: ops})
				}
			case *ssa.Call:
				out = append(out, Leaf{Kind: "call", V: v, Call: t, Index: x.Index, Ops: ops})
			case *ssa.Lookup:
				if x.Index == 0 {
					walk(t.X, ops, depth+1)
				} else {
					out = append(out, Leaf{Kind: "other", V: v, Ops: ops})
				}
			default:
				out = append(out, Leaf{Kind: "other", V: v, Ops: ops})
			}
		case *ssa.Call:
			out = append(out, Leaf{Kind: "call", V: v, Call: x, Index: 0, Ops: ops})
		case *ssa.Alloc:
			out = append(out, Leaf{Kind: "alloc", V: v, Ops: ops})
		case *ssa.UnOp:
			if x.Op != token.MUL {
				nops := append(append([]token.Token{}, ops...), x.Op)
				walk(x.X, nops, depth+1)
				return
			}
			switch a := x.X.(type) {
			case *ssa.Alloc:
				// local variable cell: union of all stores
				for _, st := range storesTo(a) {
					walk(st, ops, depth+1)
				}
				if len(storesTo(a)) == 0 {
					out = append(out, Leaf{Kind: "alloc", V: a, Ops: ops})
				}
			case *ssa.FieldAddr:
				if base, ok := a.X.(*ssa.Alloc); ok && localAggregate(base) {
					fld := FieldOfAddr(a)
					vals := aggregateFieldStores(base, fld)
					if len(vals) == 0 {
						out = append(out, Leaf{Kind: "const", V: zeroConst(fld.Type()), Ops: ops})
					}
					for _, st := range vals {
						walk(st, ops, depth+1)
					}
					return
				}
				out = append(out, Leaf{Kind: "load", V: v, Field: FieldOfAddr(a), Path: PathOf(v), Ops: ops})
			case *ssa.Global:
				out = append(out, Leaf{Kind: "global", V: a, Path: PathOf(v), Ops: ops})
			case *ssa.FreeVar:
				out = append(out, Leaf{Kind: "freevar", V: a, Path: PathOf(v), Ops: ops})
			default:
				out = append(out, Leaf{Kind: "load", V: v, Path: PathOf(v), Ops: ops})
			}
		case *ssa.Field:
			// field of a struct value: look into local aggregates
			for _, fv := range FieldValues(x.X, FieldOfVal(x)) {
				walk(fv, ops, depth+1)
			}
		default:
			out = append(out, Leaf{Kind: "other", V: v, Ops: ops})
		}
	}
	walk(v, nil, 0)
	return out
}

func zeroConst(t types.Type) *ssa.Const {
	switch u := t.Underlying().(type) {
	case *types.Basic:
		switch {
		case u.Info()&types.IsBoolean != 0:
			return ssa.NewConst(constant.MakeBool(false), t)
		case u.Info()&types.IsString != 0:
			return ssa.NewConst(constant.MakeString(""), t)
		case u.Info()&types.IsNumeric != 0:
			return ssa.NewConst(constant.MakeInt64(0), t)
		}
	}
	return ssa.NewConst(nil, t)
}

// storesTo returns every value stored directly to the alloc cell.
func storesTo(a *ssa.Alloc) []ssa.Value {
	var out []ssa.Value
	for _, ref := range *a.Referrers() {
		if st, ok := ref.(*ssa.Store); ok && st.Addr == a {
			out = append(out, st.Val)
		}
	}
	return out
}

// localAggregate reports whether the alloc is a struct whose address is only
// used for field addressing, whole loads and whole stores (i.e. does not escape
// to a callee that could write it).
func localAggregate(a *ssa.Alloc) bool {
	if _, ok := a.Type().Underlying().(*types.Pointer).Elem().Underlying().(*types.Struct); !ok {
		return false
	}
	for _, ref := range *a.Referrers() {
		switch r := ref.(type) {
		case *ssa.FieldAddr:
		case *ssa.UnOp:
		case *ssa.Store:
			if r.Val == ssa.Value(a) {
				return false
			}
		case *ssa.DebugRef:
		default:
			// passed to a call, MakeInterface (escapes), etc.  Composite literals
			// `&T{...}` end up here too: still a local aggregate at construction
			// time as long as every field store precedes the escape; we accept
			// MakeInterface/Call/Store-of-pointer as "constructed then published".
			_ = r
		}
	}
	return true
}

// aggregateFieldStores returns the values stored into field fld of the local
// aggregate (field-sensitive, flow-insensitive), descending into whole-struct
// stores.
func aggregateFieldStores(a *ssa.Alloc, fld *types.Var) []ssa.Value {
	var out []ssa.Value
	for _, ref := range *a.Referrers() {
		switch r := ref.(type) {
		case *ssa.FieldAddr:
			if FieldOfAddr(r) != fld {
				continue
			}
			for _, rr := range *r.Referrers() {
				if st, ok := rr.(*ssa.Store); ok && st.Addr == r {
					out = append(out, st.Val)
				}
			}
		case *ssa.Store:
			if r.Addr == a {
				out = append(out, FieldValues(r.Val, fld)...)
			}
		}
	}
	return out
}

// FieldValues returns the possible values of field fld of the struct value v
// (v is a struct, not a pointer).  For opaque struct values (call results,
// loads from the heap) it returns a synthetic marker: the struct value itself.
func FieldValues(v ssa.Value, fld *types.Var) []ssa.Value {
	switch x := v.(type) {
	case *ssa.UnOp:
		if x.Op == token.MUL {
			if a, ok := x.X.(*ssa.Alloc); ok && localAggregate(a) {
				vals := aggregateFieldStores(a, fld)
				if len(vals) == 0 {
					return []ssa.Value{zeroConst(fld.Type())}
				}
				return vals
			}
		}
	case *ssa.Phi:
		var out []ssa.Value
		for _, e := range x.Edges {
			out = append(out, FieldValues(e, fld)...)
		}
		return out
	}
	return []ssa.Value{v}
}

// FieldOrigins = Origins over FieldValues; opaque struct values appear as their
// own origin (e.g. call(decodeEnvelope)#0).
func FieldOrigins(v ssa.Value, fld *types.Var) []Leaf {
	var out []Leaf
	for _, fv := range FieldValues(v, fld) {
		out = append(out, Origins(fv)...)
	}
	return out
}

// ------------------------------------------------------- dominating branch facts

// Fact is a branch condition known to hold (Truth) at a program point.
type Fact struct {
	Cond  ssa.Value
	Truth bool
	If    *ssa.If
}

// edgeDominates reports whether the CFG edge from->to dominates block b.
func edgeDominates(from, to, b *ssa.BasicBlock) bool {
	if !to.Dominates(b) {
		return false
	}
	for _, p := range to.Preds {
		if p == from {
			continue
		}
		if !to.Dominates(p) {
			return false
		}
	}
	// `to` could also be reached from `from` via both edges
	if len(from.Succs) == 2 && from.Succs[0] == from.Succs[1] {
		return false
	}
	return true
}

// FactsAt returns the branch facts that hold whenever block b executes.
func FactsAt(b *ssa.BasicBlock) []Fact {
	var out []Fact
	for d := b.Idom(); d != nil; d = d.Idom() {
		out = append(out, factsFrom(d, b)...)
	}
	return out
}

func factsFrom(d, b *ssa.BasicBlock) []Fact {
	var out []Fact
	if len(d.Instrs) == 0 {
		return nil
	}
	iff, ok := d.Instrs[len(d.Instrs)-1].(*ssa.If)
	if !ok {
		return nil
	}
	if edgeDominates(d, d.Succs[0], b) {
		out = append(out, expandFact(Fact{iff.Cond, true, iff})...)
	}
	if edgeDominates(d, d.Succs[1], b) {
		out = append(out, expandFact(Fact{iff.Cond, false, iff})...)
	}
	return out
}

// expandFact unfolds !x.
func expandFact(f Fact) []Fact {
	if u, ok := f.Cond.(*ssa.UnOp); ok && u.Op == token.NOT {
		return expandFact(Fact{u.X, !f.Truth, f.If})
	}
	return []Fact{f}
}

// FactsOnEdge returns facts holding when control flows from pred into b
// (facts at pred plus the branch taken).
func FactsOnEdge(pred, b *ssa.BasicBlock) []Fact {
	out := FactsAt(pred)
	// include pred's own dominating facts (FactsAt(pred) excludes pred itself)
	if len(pred.Instrs) > 0 {
		if iff, ok := pred.Instrs[len(pred.Instrs)-1].(*ssa.If); ok && pred.Succs[0] != pred.Succs[1] {
			if pred.Succs[0] == b {
				out = append(out, expandFact(Fact{iff.Cond, true, iff})...)
			} else if pred.Succs[1] == b {
				out = append(out, expandFact(Fact{iff.Cond, false, iff})...)
			}
		}
	}
	return out
}

// Cmp decomposes a comparison condition.
type Cmp struct {
	Op   token.Token
	X, Y ssa.Value
}

// AsCmp returns the comparison for a fact, with the operator negated when the
// fact is false.
func (f Fact) AsCmp() (Cmp, bool) {
	b, ok := f.Cond.(*ssa.BinOp)
	if !ok {
		return Cmp{}, false
	}
	op := b.Op
	switch op {
	case token.EQL, token.NEQ, token.LSS, token.LEQ, token.GTR, token.GEQ:
	default:
		return Cmp{}, false
	}
	if !f.Truth {
		op = negate(op)
	}
	return Cmp{op, b.X, b.Y}, true
}

func negate(op token.Token) token.Token {
	switch op {
	case token.EQL:
		return token.NEQ
	case token.NEQ:
		return token.EQL
	case token.LSS:
		return token.GEQ
	case token.LEQ:
		return token.GTR
	case token.GTR:
		return token.LEQ
	case token.GEQ:
		return token.LSS
	}
	return op
}

func flip(op token.Token) token.Token {
	switch op {
	case token.LSS:
		return token.GTR
	case token.LEQ:
		return token.GEQ
	case token.GTR:
		return token.LSS
	case token.GEQ:
		return token.LEQ
	}
	return op
}

// NonNilFactFor reports whether facts establish that the cell `path` is non-nil.
func NonNilFactFor(facts []Fact, path string) bool {
	for _, f := range facts {
		c, ok := f.AsCmp()
		if !ok {
			continue
		}
		if c.Op == token.NEQ {
			if IsNilConst(c.Y) && PathOf(c.X) == path || IsNilConst(c.X) && PathOf(c.Y) == path {
				return true
			}
		}
	}
	return false
}

// ------------------------------------------------------------------ path queries

// instrIndex returns the index of in within its block.
func instrIndex(in ssa.Instruction) int {
	for i, x := range in.Block().Instrs {
		if x == in {
			return i
		}
	}
	return -1
}

// PathQuery explores instruction-level control flow.
type PathQuery struct {
	// Avoid: paths may not pass through an instruction for which Avoid is true.
	Avoid func(ssa.Instruction) bool
	// Target: search succeeds when such an instruction is reached.
	Target func(ssa.Instruction) bool
	// EdgeOK, when set, filters CFG edges (from block, successor index).
	EdgeOK func(from *ssa.BasicBlock, succ int) bool
}

// Search starts *after* instruction `from` (or at the first instruction of the
// function when from is nil and fn is given) and returns a witness path of
// blocks when a Target is reachable without passing an Avoid instruction.
func (q PathQuery) Search(fn *ssa.Function, from ssa.Instruction) (bool, []ssa.Instruction) {
	type state struct {
		b *ssa.BasicBlock
		i int
	}
	var start state
	if from == nil {
		if len(fn.Blocks) == 0 {
			return false, nil
		}
		start = state{fn.Blocks[0], 0}
	} else {
		start = state{from.Block(), instrIndex(from) + 1}
	}
	visited := map[*ssa.BasicBlock]bool{}
	parent := map[*ssa.BasicBlock]*ssa.BasicBlock{}
	var found ssa.Instruction
	var scan func(s state) bool
	scan = func(s state) bool {
		for i := s.i; i < len(s.b.Instrs); i++ {
			in := s.b.Instrs[i]
			if q.Target != nil && q.Target(in) {
				found = in
				return true
			}
			if q.Avoid != nil && q.Avoid(in) {
				return false
			}
		}
		for si, succ := range s.b.Succs {
			if q.EdgeOK != nil && !q.EdgeOK(s.b, si) {
				continue
			}
			if visited[succ] {
				continue
			}
			visited[succ] = true
			parent[succ] = s.b
			if scan(state{succ, 0}) {
				return true
			}
		}
		return false
	}
	if scan(start) {
		var path []ssa.Instruction
		path = append(path, found)
		for b := found.Block(); b != nil && b != start.b; b = parent[b] {
			if len(b.Instrs) > 0 {
				path = append(path, b.Instrs[0])
			}
		}
		// reverse
		for i, j := 0, len(path)-1; i < j; i, j = i+1, j-1 {
			path[i], path[j] = path[j], path[i]
		}
		return true, path
	}
	return false, nil
}

// IsExit reports Return / Panic instructions.
func IsExit(in ssa.Instruction) bool {
	switch in.(type) {
	case *ssa.Return, *ssa.Panic:
		return true
	}
	return false
}

// IsReturn reports Return instructions.
func IsReturn(in ssa.Instruction) bool {
	_, ok := in.(*ssa.Return)
	return ok
}

// MustPassToExit reports whether every path from `from` (exclusive; nil = entry)
// to a function exit passes an instruction satisfying via.  When false, a
// witness path is returned.
func MustPassToExit(fn *ssa.Function, from ssa.Instruction, via func(ssa.Instruction) bool, exit func(ssa.Instruction) bool, edgeOK func(*ssa.BasicBlock, int) bool) (bool, []ssa.Instruction) {
	if exit == nil {
		exit = IsReturn
	}
	found, path := PathQuery{Avoid: via, Target: exit, EdgeOK: edgeOK}.Search(fn, from)
	return !found, path
}

// MayReach reports whether b is reachable from a (exclusive).
func MayReach(fn *ssa.Function, a ssa.Instruction, target func(ssa.Instruction) bool) (bool, []ssa.Instruction) {
	return PathQuery{Target: target}.Search(fn, a)
}

// ------------------------------------------------------------------ misc helpers

// ReceiverPath is "p0" for methods.
const ReceiverPath = "p0"

// StoresToField lists Store instructions in fn whose address is FieldAddr of fld.
func StoresToField(fn *ssa.Function, fld *types.Var) []*ssa.Store {
	var out []*ssa.Store
	ForEachInstr(fn, func(in ssa.Instruction) {
		if st, ok := in.(*ssa.Store); ok {
			if fa, ok := st.Addr.(*ssa.FieldAddr); ok && FieldOfAddr(fa) == fld {
				out = append(out, st)
			}
		}
	})
	return out
}

// LoadsOfField lists loads (UnOp * of FieldAddr) of fld in fn.
func LoadsOfField(fn *ssa.Function, fld *types.Var) []*ssa.UnOp {
	var out []*ssa.UnOp
	ForEachInstr(fn, func(in ssa.Instruction) {
		if u, ok := in.(*ssa.UnOp); ok && u.Op == token.MUL {
			if fa, ok := u.X.(*ssa.FieldAddr); ok && FieldOfAddr(fa) == fld {
				out = append(out, u)
			}
		}
	})
	return out
}

// describeInstr renders an instruction for reports.
func (p *Prog) describeInstr(in ssa.Instruction) string {
	s := in.String()
	if v, ok := in.(ssa.Value); ok {
		s = N(v) + " = " + s
	}
	if len(s) > 120 {
		s = s[:117] + "..."
	}
	return fmt.Sprintf("%s: %s", p.Pos(instrPos(in)), s)
}

// instrPos finds a usable position for an instruction (falls back to
// neighbours in the same block, then the function).
func instrPos(in ssa.Instruction) token.Pos {
	if in.Pos().IsValid() {
		return in.Pos()
	}
	b := in.Block()
	idx := instrIndex(in)
	for d := 1; d < len(b.Instrs); d++ {
		if idx-d >= 0 && b.Instrs[idx-d].Pos().IsValid() {
			return b.Instrs[idx-d].Pos()
		}
		if idx+d < len(b.Instrs) && b.Instrs[idx+d].Pos().IsValid() {
			return b.Instrs[idx+d].Pos()
		}
	}
	return in.Parent().Pos()
}

func witnessString(p *Prog, path []ssa.Instruction) string {
	var parts []string
	for _, in := range path {
		parts = append(parts, p.Pos(instrPos(in)))
	}
	// dedupe consecutive
	var out []string
	for i, s := range parts {
		if i == 0 || parts[i-1] != s {
			out = append(out, s)
		}
	}
	return strings.Join(out, " -> ")
}

// ReturnValues returns the values a Return yields, looking through the spill of
// named results: in functions with defers go/ssa stores each result into the
// named-result alloc right before `rundefers; return *alloc`.  For such results
// the value of the last store to that alloc in the returning block is used.
func ReturnValues(ret *ssa.Return) []ssa.Value {
	out := make([]ssa.Value, len(ret.Results))
	for i, r := range ret.Results {
		out[i] = r
		u, ok := r.(*ssa.UnOp)
		if !ok || u.Op != token.MUL {
			continue
		}
		al, ok := u.X.(*ssa.Alloc)
		if !ok {
			continue
		}
		for _, in := range ret.Block().Instrs {
			if in == ssa.Instruction(u) {
				break
			}
			if st, ok := in.(*ssa.Store); ok && st.Addr == ssa.Value(al) {
				out[i] = st.Val
			}
		}
	}
	return out
}

// instrBefore reports whether a executes before b on every path reaching b
// (a's block strictly dominates b's block, or same block and earlier).
func instrBefore(a, b ssa.Instruction) bool {
	if a.Block() == b.Block() {
		return instrIndex(a) < instrIndex(b)
	}
	return a.Block().Dominates(b.Block())
}

// FieldValuesAt returns the possible values of field fld of the local aggregate
// al at instruction use, honouring the last dominating field store (which kills
// earlier whole-struct and field stores).
func FieldValuesAt(al *ssa.Alloc, fld *types.Var, use ssa.Instruction) []ssa.Value {
	type stv struct {
		st  *ssa.Store
		val []ssa.Value
	}
	var all []stv
	for _, ref := range *al.Referrers() {
		switch r := ref.(type) {
		case *ssa.FieldAddr:
			if FieldOfAddr(r) != fld {
				continue
			}
			for _, rr := range *r.Referrers() {
				if st, ok := rr.(*ssa.Store); ok && st.Addr == ssa.Value(r) {
					all = append(all, stv{st, []ssa.Value{st.Val}})
				}
			}
		case *ssa.Store:
			if r.Addr == ssa.Value(al) {
				all = append(all, stv{r, FieldValues(r.Val, fld)})
			}
		}
	}
	var kill *stv
	for i := range all {
		s := &all[i]
		if !instrBefore(s.st, use) {
			continue
		}
		if kill == nil || instrBefore(kill.st, s.st) {
			kill = s
		}
	}
	if kill == nil {
		var out []ssa.Value
		for _, s := range all {
			out = append(out, s.val...)
		}
		if len(out) == 0 {
			out = append(out, zeroConst(fld.Type()))
		}
		return out
	}
	out := append([]ssa.Value{}, kill.val...)
	fn := use.Parent()
	for i := range all {
		s := &all[i]
		if s == kill {
			continue
		}
		after, _ := MayReach(fn, kill.st, func(in ssa.Instruction) bool { return in == ssa.Instruction(s.st) })
		before, _ := MayReach(fn, s.st, func(in ssa.Instruction) bool { return in == use })
		if after && before {
			out = append(out, s.val...)
		}
	}
	return out
}

// StructFieldOriginsAt: origins of field fld of the struct value v (as passed to
// a call at instruction use).
func StructFieldOriginsAt(v ssa.Value, fld *types.Var, use ssa.Instruction) []Leaf {
	var vals []ssa.Value
	if u, ok := v.(*ssa.UnOp); ok && u.Op == token.MUL {
		if al, ok := u.X.(*ssa.Alloc); ok && localAggregate(al) {
			vals = FieldValuesAt(al, fld, use)
		}
	}
	if vals == nil {
		vals = FieldValues(v, fld)
	}
	var out []Leaf
	for _, fv := range vals {
		out = append(out, Origins(fv)...)
	}
	return out
}

// sliceIsOverArray: the slice expression slices (a pointer to) an array of type arr.
func sliceIsOverArray(sl *ssa.Slice, arr types.Type) bool {
	pt, ok := sl.X.Type().Underlying().(*types.Pointer)
	if !ok {
		return false
	}
	return types.Identical(pt.Elem(), arr)
}

func isBoolType(t types.Type) bool {
	b, ok := t.Underlying().(*types.Basic)
	return ok && b.Kind() == types.Bool
}

func isErrorType(t types.Type) bool {
	return types.Identical(t, types.Universe.Lookup("error").Type())
}

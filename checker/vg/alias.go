package vg

// Rename tolerance.
//
// The rules name their anchors (functions, types, fields, interface methods) by the
// identifiers of the tree they were written against.  A rename leaves behaviour unchanged,
// so it must leave every verdict unchanged.  A committed snapshot of the declarations of the
// shipped packages (anchors/decls.json, written by `vgcheck -write-decls`) lets the loader
// recognise "identifier X is gone and a new identifier Y with the same shape appeared" and
// give Y the name X *inside the checker*: N(obj) returns the snapshot name of a renamed
// object, and every name the rules compare or look up goes through N.  The snapshot is never
// used to decide a property - only to resolve which declaration a rule is talking about; what
// was resolved this way is listed in the evidence.  A declaration that disappeared without a
// recognisable successor stays unresolved (exit 3), as before.

import (
	"encoding/json"
	"go/types"
	"os"
	"path/filepath"
	"regexp"
	"sort"
	"strings"

	"golang.org/x/tools/go/ssa"
)

type declField struct {
	Name string `json:"name"`
	Type string `json:"type"`
}

type declType struct {
	Pkg     string      `json:"pkg"`
	Name    string      `json:"name"`
	Kind    string      `json:"kind"` // struct | interface | other
	Fields  []declField `json:"fields,omitempty"`
	Methods []declField `json:"methods,omitempty"` // interface methods: name, signature
	Under   string      `json:"under,omitempty"`
}

type declFunc struct {
	Pkg  string   `json:"pkg"`
	Recv string   `json:"recv,omitempty"` // "T" or "*T"
	Name string   `json:"name"`
	Sig  string   `json:"sig"`
	FP   []string `json:"fp,omitempty"`
}

type declGlobal struct {
	Pkg  string `json:"pkg"`
	Name string `json:"name"`
	Type string `json:"type"`
	Kind string `json:"kind"` // var | const
}

// DeclSnapshot is the committed description of the declarations the rules were written against.
type DeclSnapshot struct {
	Commit  string       `json:"commit,omitempty"`
	Types   []declType   `json:"types"`
	Funcs   []declFunc   `json:"funcs"`
	Globals []declGlobal `json:"globals"`
}

// nameBack maps a renamed object of the analysed tree to its snapshot name.
var nameBack = map[types.Object]string{}

// typeRenames: current type name -> snapshot type name (for type strings).
var typeRenames = map[string]string{}
var typeRenameRE *regexp.Regexp

// RenamesResolved lists, for the evidence, what was resolved through the snapshot.
var RenamesResolved []string

// N is the name the rules know the object by: its snapshot name if it was renamed, else its own.
func N(x interface{ Name() string }) string {
	switch o := x.(type) {
	case *ssa.Function:
		if o == nil {
			return ""
		}
		f := o
		if og := f.Origin(); og != nil {
			f = og
		}
		if obj := f.Object(); obj != nil {
			if s, ok := nameBack[obj]; ok {
				return s
			}
		}
		return o.Name()
	case *ssa.Global:
		if obj := o.Object(); obj != nil {
			if s, ok := nameBack[obj]; ok {
				return s
			}
		}
		return o.Name()
	case types.Object:
		if s, ok := nameBack[o]; ok {
			return s
		}
		if v, isVar := o.(*types.Var); isVar && v.Origin() != v {
			if s, ok := nameBack[v.Origin()]; ok {
				return s
			}
		}
		if f, isFn := o.(*types.Func); isFn && f.Origin() != f {
			if s, ok := nameBack[f.Origin()]; ok {
				return s
			}
		}
	}
	return x.Name()
}

// aliasTypeString rewrites current type names to snapshot names inside a rendered type string.
func aliasTypeString(s string) string {
	if typeRenameRE == nil {
		return s
	}
	return typeRenameRE.ReplaceAllStringFunc(s, func(m string) string {
		if old, ok := typeRenames[m]; ok {
			return old
		}
		return m
	})
}

// sigString renders a signature by types only (parameter names do not matter).
func sigString(sig *types.Signature) string {
	var ps, rs []string
	for i := 0; i < sig.Params().Len(); i++ {
		t := types.TypeString(sig.Params().At(i).Type(), declQual)
		if sig.Variadic() && i == sig.Params().Len()-1 {
			t = "..." + strings.TrimPrefix(t, "[]")
		}
		ps = append(ps, t)
	}
	for i := 0; i < sig.Results().Len(); i++ {
		rs = append(rs, types.TypeString(sig.Results().At(i).Type(), declQual))
	}
	return "func(" + strings.Join(ps, ", ") + ") (" + strings.Join(rs, ", ") + ")"
}

func declQual(p *types.Package) string {
	if p.Path() == RootPath {
		return ""
	}
	if p.Path() == RootPath+"/vanguardgrpc" {
		return "vanguardgrpc"
	}
	return p.Path()
}

func scopePkgs(p *Prog) []*ssa.Package {
	var out []*ssa.Package
	for _, pk := range p.SSA.AllPackages() {
		if pk.Pkg.Path() == RootPath || pk.Pkg.Path() == RootPath+"/vanguardgrpc" {
			out = append(out, pk)
		}
	}
	sort.Slice(out, func(i, j int) bool { return out[i].Pkg.Path() < out[j].Pkg.Path() })
	return out
}

// fingerprint: what a function calls, which fields it touches, which string constants it uses.
func fingerprint(fn *ssa.Function) []string {
	set := map[string]bool{}
	var visit func(f *ssa.Function)
	visit = func(f *ssa.Function) {
		for _, b := range f.Blocks {
			for _, in := range b.Instrs {
				switch x := in.(type) {
				case ssa.CallInstruction:
					cc := x.Common()
					if cc.IsInvoke() {
						set["i:"+cc.Method.Name()] = true
					} else if sc := cc.StaticCallee(); sc != nil {
						if sc.Parent() == nil {
							nm := sc.Name()
							if sc.Pkg != nil {
								nm = sc.Pkg.Pkg.Name() + "." + nm
							}
							set["c:"+nm] = true
						}
					} else if bi, ok := cc.Value.(*ssa.Builtin); ok {
						set["b:"+bi.Name()] = true
					}
				case *ssa.FieldAddr:
					set["f:"+FieldOfAddr(x).Name()] = true
				case *ssa.Field:
					set["f:"+FieldOfVal(x).Name()] = true
				}
				for _, op := range in.Operands(nil) {
					if op == nil || *op == nil {
						continue
					}
					if k, ok := (*op).(*ssa.Const); ok {
						if s, isS := ConstString(k); isS && s != "" && len(s) < 80 {
							set["s:"+s] = true
						}
					}
				}
			}
		}
		for _, an := range f.AnonFuncs {
			visit(an)
		}
	}
	visit(fn)
	out := make([]string, 0, len(set))
	for k := range set {
		out = append(out, k)
	}
	sort.Strings(out)
	return out
}

// SnapshotDecls describes the declarations of the shipped packages of the loaded program (raw names).
func SnapshotDecls(p *Prog) *DeclSnapshot {
	snap := &DeclSnapshot{}
	for _, pk := range scopePkgs(p) {
		pkgName := declQual(pk.Pkg)
		scope := pk.Pkg.Scope()
		for _, name := range scope.Names() {
			switch obj := scope.Lookup(name).(type) {
			case *types.TypeName:
				if obj.IsAlias() {
					continue
				}
				n, ok := obj.Type().(*types.Named)
				if !ok {
					continue
				}
				dt := declType{Pkg: pkgName, Name: name, Kind: "other"}
				switch u := n.Underlying().(type) {
				case *types.Struct:
					dt.Kind = "struct"
					for i := 0; i < u.NumFields(); i++ {
						dt.Fields = append(dt.Fields, declField{u.Field(i).Name(), types.TypeString(u.Field(i).Type(), declQual)})
					}
				case *types.Interface:
					dt.Kind = "interface"
					for i := 0; i < u.NumExplicitMethods(); i++ {
						m := u.ExplicitMethod(i)
						dt.Methods = append(dt.Methods, declField{m.Name(), sigString(m.Type().(*types.Signature))})
					}
				default:
					dt.Under = types.TypeString(u, declQual)
				}
				snap.Types = append(snap.Types, dt)
				// methods
				for i := 0; i < n.NumMethods(); i++ {
					m := n.Method(i)
					fn := p.SSA.FuncValue(m)
					if fn == nil {
						continue
					}
					sig := m.Type().(*types.Signature)
					recv := name
					if _, isPtr := sig.Recv().Type().(*types.Pointer); isPtr {
						recv = "*" + name
					}
					snap.Funcs = append(snap.Funcs, declFunc{Pkg: pkgName, Recv: recv, Name: m.Name(), Sig: sigString(sig), FP: fingerprint(fn)})
				}
			case *types.Func:
				fn := p.SSA.FuncValue(obj)
				if fn == nil {
					continue
				}
				snap.Funcs = append(snap.Funcs, declFunc{Pkg: pkgName, Name: name, Sig: sigString(obj.Type().(*types.Signature)), FP: fingerprint(fn)})
			case *types.Var:
				snap.Globals = append(snap.Globals, declGlobal{pkgName, name, types.TypeString(obj.Type(), declQual), "var"})
			case *types.Const:
				snap.Globals = append(snap.Globals, declGlobal{pkgName, name, types.TypeString(obj.Type(), declQual), "const"})
			}
		}
	}
	return snap
}

// WriteDecls writes the snapshot of the loaded program to path.
func WriteDecls(p *Prog, path, commit string) error {
	snap := SnapshotDecls(p)
	snap.Commit = commit
	b, err := json.MarshalIndent(snap, "", " ")
	if err != nil {
		return err
	}
	return os.WriteFile(path, append(b, '\n'), 0o644)
}

func jaccard(a, b []string) float64 {
	if len(a) == 0 && len(b) == 0 {
		return 1
	}
	sa := map[string]bool{}
	for _, x := range a {
		sa[x] = true
	}
	inter, union := 0, len(sa)
	seen := map[string]bool{}
	for _, x := range b {
		if seen[x] {
			continue
		}
		seen[x] = true
		if sa[x] {
			inter++
		} else {
			union++
		}
	}
	if union == 0 {
		return 1
	}
	return float64(inter) / float64(union)
}

var identRE = regexp.MustCompile(`[A-Za-z_][A-Za-z_0-9]*`)

// translate rewrites identifiers of a snapshot type string through old->new type renames.
func translate(s string, oldToNew map[string]string) string {
	if len(oldToNew) == 0 {
		return s
	}
	return identRE.ReplaceAllStringFunc(s, func(m string) string {
		if n, ok := oldToNew[m]; ok {
			return n
		}
		return m
	})
}

// ResolveRenames compares the snapshot with the loaded program and fills nameBack.
func ResolveRenames(p *Prog, path string) {
	// entries are added, never reset: a run may load the tree more than once (thorough tier)
	// and each load has its own objects
	if path == "" {
		return
	}
	b, err := os.ReadFile(path)
	if err != nil {
		return
	}
	var snap DeclSnapshot
	if err := json.Unmarshal(b, &snap); err != nil {
		fatalf("declaration snapshot %s unreadable: %v", path, err)
	}
	cur := SnapshotDecls(p)
	pkgScope := map[string]*types.Scope{}
	for _, pk := range scopePkgs(p) {
		pkgScope[declQual(pk.Pkg)] = pk.Pkg.Scope()
	}

	// ---- types
	curTypes := map[string]declType{}
	for _, t := range cur.Types {
		curTypes[t.Pkg+"."+t.Name] = t
	}
	snapTypes := map[string]declType{}
	for _, t := range snap.Types {
		snapTypes[t.Pkg+"."+t.Name] = t
	}
	typeTokens := func(t declType) []string {
		// names and types are separate tokens, so that a type renamed together with one of
		// its fields or methods is still recognised by what did not change
		var out []string
		for i, f := range t.Fields {
			out = append(out, "fn:"+f.Name, "ft:"+itoa(i)+":"+f.Type)
		}
		for _, m := range t.Methods {
			out = append(out, "mn:"+m.Name, "mt:"+m.Type)
		}
		if t.Under != "" {
			out = append(out, "u:"+t.Under)
		}
		return out
	}
	// method names per receiver type, for types without fields
	methodsOf := func(fs []declFunc, pkg, name string) []string {
		var out []string
		for _, f := range fs {
			if f.Pkg == pkg && strings.TrimPrefix(f.Recv, "*") == name {
				out = append(out, "M:"+f.Name, "Ms:"+f.Sig)
			}
		}
		return out
	}
	oldToNewType := map[string]string{}
	usedNew := map[string]bool{}
	var missingTypes []declType
	for k, t := range snapTypes {
		if _, ok := curTypes[k]; !ok {
			missingTypes = append(missingTypes, t)
		}
	}
	sort.Slice(missingTypes, func(i, j int) bool { return missingTypes[i].Name < missingTypes[j].Name })
	unstableName := map[string]bool{}
	for _, mt := range missingTypes {
		unstableName[mt.Name] = true
	}
	for k, ct := range curTypes {
		if _, existed := snapTypes[k]; !existed {
			unstableName[ct.Name] = true
		}
	}
	for _, mt := range missingTypes {
		best, second := -1.0, -1.0
		var bestT declType
		mtTok := append(typeTokens(mt), methodsOf(snap.Funcs, mt.Pkg, mt.Name)...)
		for k, ct := range curTypes {
			if _, existed := snapTypes[k]; existed || ct.Pkg != mt.Pkg || ct.Kind != mt.Kind || usedNew[k] {
				continue
			}
			ctTok := append(typeTokens(ct), methodsOf(cur.Funcs, ct.Pkg, ct.Name)...)
			// self references differ by the very rename: neutralise both names
			// several types may be renamed at once: every identifier that is a vanished or a
			// new type name is neutralised, the type's own name first
			norm := func(toks []string, self string) []string {
				out := make([]string, len(toks))
				for i, s := range toks {
					out[i] = identRE.ReplaceAllStringFunc(s, func(m string) string {
						if m == self {
							return "SELF"
						}
						if unstableName[m] {
							return "RENAMED"
						}
						return m
					})
				}
				return out
			}
			sc := jaccard(norm(mtTok, mt.Name), norm(ctTok, ct.Name))
			if sc > best {
				second = best
				best, bestT = sc, ct
			} else if sc > second {
				second = sc
			}
		}
		nMissingKind, nNewKind := 0, 0
		for _, o := range missingTypes {
			if o.Kind == mt.Kind && o.Pkg == mt.Pkg {
				nMissingKind++
			}
		}
		for k, ct := range curTypes {
			if _, existed := snapTypes[k]; !existed && ct.Kind == mt.Kind && ct.Pkg == mt.Pkg {
				nNewKind++
			}
		}
		forced := nMissingKind == 1 && nNewKind == 1 && best >= 0.3
		if forced || best >= 0.6 && best-second >= 0.15 {
			oldToNewType[mt.Name] = bestT.Name
			usedNew[bestT.Pkg+"."+bestT.Name] = true
			if sc := pkgScope[bestT.Pkg]; sc != nil {
				if obj := sc.Lookup(bestT.Name); obj != nil {
					nameBack[obj] = mt.Name
				}
			}
			typeRenames[bestT.Name] = mt.Name
			RenamesResolved = append(RenamesResolved, "type "+mt.Name+" -> "+bestT.Name)
		}
	}
	if len(typeRenames) > 0 {
		var alts []string
		for n := range typeRenames {
			alts = append(alts, regexp.QuoteMeta(n))
		}
		sort.Strings(alts)
		typeRenameRE = regexp.MustCompile(`\b(` + strings.Join(alts, "|") + `)\b`)
	}
	curNameOfType := func(old string) string {
		if n, ok := oldToNewType[old]; ok {
			return n
		}
		return old
	}

	// ---- struct fields and interface methods
	ifaceMethodRen := map[string]string{} // old method name -> new method name (any interface)
	for _, st := range snap.Types {
		ct, ok := curTypes[st.Pkg+"."+curNameOfType(st.Name)]
		if !ok || ct.Kind != st.Kind {
			continue
		}
		sc := pkgScope[st.Pkg]
		if sc == nil {
			continue
		}
		tn, _ := sc.Lookup(ct.Name).(*types.TypeName)
		if tn == nil {
			continue
		}
		switch st.Kind {
		case "struct":
			u, _ := tn.Type().Underlying().(*types.Struct)
			if u == nil {
				continue
			}
			curByName := map[string]int{}
			for i, f := range ct.Fields {
				curByName[f.Name] = i
			}
			snapByName := map[string]bool{}
			for _, f := range st.Fields {
				snapByName[f.Name] = true
			}
			taken := map[int]bool{}
			for si, sf := range st.Fields {
				if _, ok := curByName[sf.Name]; ok {
					continue
				}
				want := translate(sf.Type, oldToNewType)
				var cands []int
				for ci, cf := range ct.Fields {
					if snapByName[cf.Name] || taken[ci] || cf.Type != want {
						continue
					}
					cands = append(cands, ci)
				}
				pick := -1
				if len(cands) == 1 {
					pick = cands[0]
				} else if len(cands) > 1 {
					// same relative position among the fields
					for _, ci := range cands {
						if ci == si {
							pick = ci
						}
					}
				}
				if pick >= 0 {
					taken[pick] = true
					nameBack[u.Field(pick)] = sf.Name
					RenamesResolved = append(RenamesResolved, "field "+st.Name+"."+sf.Name+" -> "+ct.Fields[pick].Name)
				}
			}
		case "interface":
			u, _ := tn.Type().Underlying().(*types.Interface)
			if u == nil {
				continue
			}
			curHas := map[string]bool{}
			for _, m := range ct.Methods {
				curHas[m.Name] = true
			}
			snapHas := map[string]bool{}
			for _, m := range st.Methods {
				snapHas[m.Name] = true
			}
			for _, sm := range st.Methods {
				if curHas[sm.Name] {
					continue
				}
				want := translate(sm.Type, oldToNewType)
				var cands []string
				for _, cm := range ct.Methods {
					if !snapHas[cm.Name] && cm.Type == want {
						cands = append(cands, cm.Name)
					}
				}
				if len(cands) == 1 {
					ifaceMethodRen[sm.Name] = cands[0]
					for i := 0; i < u.NumExplicitMethods(); i++ {
						if u.ExplicitMethod(i).Name() == cands[0] {
							nameBack[u.ExplicitMethod(i)] = sm.Name
						}
					}
					RenamesResolved = append(RenamesResolved, "interface method "+st.Name+"."+sm.Name+" -> "+cands[0])
				}
			}
		}
	}

	// ---- functions and methods
	type fkey struct{ pkg, recv, name string }
	curFuncs := map[fkey]declFunc{}
	for _, f := range cur.Funcs {
		curFuncs[fkey{f.Pkg, f.Recv, f.Name}] = f
	}
	snapFuncKeys := map[fkey]bool{}
	for _, f := range snap.Funcs {
		r := f.Recv
		if r != "" {
			ptr := strings.HasPrefix(r, "*")
			r = curNameOfType(strings.TrimPrefix(r, "*"))
			if ptr {
				r = "*" + r
			}
		}
		snapFuncKeys[fkey{f.Pkg, r, f.Name}] = true
	}
	lookupFunc := func(k fkey) *types.Func {
		sc := pkgScope[k.pkg]
		if sc == nil {
			return nil
		}
		if k.recv == "" {
			f, _ := sc.Lookup(k.name).(*types.Func)
			return f
		}
		tn, _ := sc.Lookup(strings.TrimPrefix(k.recv, "*")).(*types.TypeName)
		if tn == nil {
			return nil
		}
		n, _ := tn.Type().(*types.Named)
		if n == nil {
			return nil
		}
		for i := 0; i < n.NumMethods(); i++ {
			if n.Method(i).Name() == k.name {
				return n.Method(i)
			}
		}
		return nil
	}
	usedF := map[fkey]bool{}
	var missingFuncs []declFunc
	for _, f := range snap.Funcs {
		r := f.Recv
		if r != "" {
			ptr := strings.HasPrefix(r, "*")
			r = curNameOfType(strings.TrimPrefix(r, "*"))
			if ptr {
				r = "*" + r
			}
		}
		if _, ok := curFuncs[fkey{f.Pkg, r, f.Name}]; !ok {
			g := f
			g.Recv = r
			missingFuncs = append(missingFuncs, g)
		}
	}
	sort.Slice(missingFuncs, func(i, j int) bool {
		return missingFuncs[i].Recv+"."+missingFuncs[i].Name < missingFuncs[j].Recv+"."+missingFuncs[j].Name
	})
	sameRecvIgnoringPtr := func(a, b string) bool {
		return strings.TrimPrefix(a, "*") == strings.TrimPrefix(b, "*")
	}
	// callees that are themselves gone from / new in the tree say nothing about identity: when a
	// function and one of its callees are renamed together, the callee's old and new name would
	// otherwise count as a difference between the two fingerprints
	unstable := map[string]bool{}
	for _, mf := range missingFuncs {
		unstable[mf.Name] = true
	}
	for k := range curFuncs {
		if !snapFuncKeys[k] {
			unstable[k.name] = true
		}
	}
	stableFP := func(fp []string) []string {
		var out []string
		for _, e := range fp {
			if strings.HasPrefix(e, "c:") {
				if i := strings.LastIndex(e, "."); i >= 0 && unstable[e[i+1:]] {
					continue
				}
			}
			out = append(out, e)
		}
		return out
	}
	for _, mf := range missingFuncs {
		wantSig := translate(mf.Sig, oldToNewType)
		var pick *declFunc
		// an implementer of a renamed interface method
		if nn, ok := ifaceMethodRen[mf.Name]; ok && mf.Recv != "" {
			for k, cf := range curFuncs {
				if k.pkg == mf.Pkg && sameRecvIgnoringPtr(k.recv, mf.Recv) && k.name == nn && !snapFuncKeys[k] && !usedF[k] {
					c := cf
					pick = &c
				}
			}
		}
		if pick == nil {
			best, second := -1.0, -1.0
			var bestF declFunc
			nCand := 0
			for k, cf := range curFuncs {
				if snapFuncKeys[k] || usedF[k] || k.pkg != mf.Pkg {
					continue
				}
				// a method stays a method of the same type (value/pointer receiver may change);
				// a method may also become a plain function taking the receiver first, and back
				sigOK := false
				switch {
				case mf.Recv != "" && k.recv != "":
					sigOK = sameRecvIgnoringPtr(k.recv, mf.Recv) && cf.Sig == wantSig
				case mf.Recv == "" && k.recv == "":
					sigOK = cf.Sig == wantSig
				case mf.Recv != "" && k.recv == "":
					// the method became a plain function: receiver first, or dropped if it was unused
					rest := strings.TrimPrefix(wantSig, "func(")
					if cf.Sig == wantSig {
						sigOK = true
					}
					base := curNameOfType(strings.TrimPrefix(mf.Recv, "*"))
					for _, rv := range []string{base, "*" + base} {
						w := "func(" + rv + ", " + rest
						w = strings.Replace(w, ", )", ")", 1)
						if cf.Sig == w {
							sigOK = true
						}
					}
				}
				if !sigOK {
					continue
				}
				nCand++
				sc := jaccard(stableFP(mf.FP), stableFP(cf.FP))
				if sc > best {
					second = best
					best, bestF = sc, cf
				} else if sc > second {
					second = sc
				}
			}
			if nCand > 0 && best >= 0.5 && best-second >= 0.15 {
				pick = &bestF
			}
		}
		if pick == nil {
			continue
		}
		k := fkey{pick.Pkg, pick.Recv, pick.Name}
		usedF[k] = true
		if obj := lookupFunc(k); obj != nil {
			nameBack[obj] = mf.Name
			if mf.Recv != "" && pick.Recv == "" {
				methodAsFunc[obj] = mf.Recv
			}
			RenamesResolved = append(RenamesResolved, "func "+strings.TrimSpace(mf.Recv+" "+mf.Name)+" -> "+strings.TrimSpace(pick.Recv+" "+pick.Name))
		}
	}

	// ---- package-level variables and constants
	curGlob := map[string]declGlobal{}
	for _, g := range cur.Globals {
		curGlob[g.Pkg+"."+g.Name] = g
	}
	snapGlob := map[string]bool{}
	for _, g := range snap.Globals {
		snapGlob[g.Pkg+"."+g.Name] = true
	}
	for _, sg := range snap.Globals {
		if _, ok := curGlob[sg.Pkg+"."+sg.Name]; ok {
			continue
		}
		want := translate(sg.Type, oldToNewType)
		var cands []declGlobal
		for k, cg := range curGlob {
			if !snapGlob[k] && cg.Pkg == sg.Pkg && cg.Kind == sg.Kind && cg.Type == want {
				cands = append(cands, cg)
			}
		}
		if len(cands) == 1 {
			if sc := pkgScope[sg.Pkg]; sc != nil {
				if obj := sc.Lookup(cands[0].Name); obj != nil {
					nameBack[obj] = sg.Name
					RenamesResolved = append(RenamesResolved, sg.Kind+" "+sg.Name+" -> "+cands[0].Name)
				}
			}
		}
	}
	sort.Strings(RenamesResolved)
	RenamesResolved = uniq(RenamesResolved)
}

// DeclsPath is the snapshot consulted by Load ("" = none).
var DeclsPath string

// DefaultDeclsPath: $VG_DECLS, or checker/anchors/decls.json next to the binary's directory.
func DefaultDeclsPath() string {
	if s := os.Getenv("VG_DECLS"); s != "" {
		return s
	}
	exe, err := os.Executable()
	if err != nil {
		return ""
	}
	cand := filepath.Join(filepath.Dir(exe), "..", "checker", "anchors", "decls.json")
	if _, err := os.Stat(cand); err == nil {
		return cand
	}
	return ""
}

// methodAsFunc: a plain function that the snapshot knew as a method of the given receiver.
var methodAsFunc = map[types.Object]string{}

package vg

import (
	"fmt"
	"go/token"
	"go/types"
	"sort"
	"strings"

	"golang.org/x/tools/go/ssa"
)

// Envelope tables shared by C02 / C03 / C09.

// envTypes returns the envelope value types of the root package.
func envTypes(p *Prog) (envBytes *types.Named, env *types.Named) {
	return p.MustNamed("envelopeBytes"), p.MustNamed("envelope")
}

// decodeTable folds decodeEnvelope of type t for every flag byte and returns,
// per flag value, whether it is accepted and the decoded (compressed, trailer).
type decodedFlag struct {
	accepted             bool
	compressed, trailer  bool
	knownComp, knownTrlr bool
}

func decodeTable(p *Prog, t types.Type) ([256]decodedFlag, error) {
	var out [256]decodedFlag
	fn := p.MethodOf(t, "decodeEnvelope")
	if fn == nil {
		return out, fmt.Errorf("%s has no decodeEnvelope", typeName(t))
	}
	ebT, envT := envTypes(p)
	st := envT.Underlying().(*types.Struct)
	idx := map[string]int{}
	for i := 0; i < st.NumFields(); i++ {
		idx[N(st.Field(i))] = i
	}
	for b := 0; b < 256; b++ {
		args := []*fval{}
		if fn.Signature.Recv() != nil {
			args = append(args, zeroOf(fn.Signature.Recv().Type()))
		}
		args = append(args, fArrayWithByte0(ebT, int64(b)))
		res, err := p.Fold(fn, args...)
		if err != nil {
			return out, err
		}
		if len(res) != 2 {
			return out, fmt.Errorf("decodeEnvelope: unexpected result arity")
		}
		switch res[1].k {
		case fNil:
			out[b].accepted = true
		case fNonNil:
			out[b].accepted = false
		default:
			return out, fmt.Errorf("decodeEnvelope(%s): error result not decidable for flag %d", typeName(t), b)
		}
		if out[b].accepted && res[0].k == fStruct {
			if v := res[0].fields[idx["compressed"]]; v != nil && v.k == fBool {
				out[b].compressed, out[b].knownComp = v.b, true
			}
			if v := res[0].fields[idx["trailer"]]; v != nil && v.k == fBool {
				out[b].trailer, out[b].knownTrlr = v.b, true
			}
		}
	}
	return out, nil
}

// encodeTable folds encodeEnvelope of type t for the four (compressed, trailer)
// combinations and returns the flag byte emitted for each: index = c + 2*t.
func encodeTable(p *Prog, t types.Type) ([4]int64, error) {
	var out [4]int64
	fn := p.MethodOf(t, "encodeEnvelope")
	if fn == nil {
		return out, fmt.Errorf("%s has no encodeEnvelope", typeName(t))
	}
	_, envT := envTypes(p)
	st := envT.Underlying().(*types.Struct)
	for i := 0; i < 4; i++ {
		env := zeroOf(envT)
		for j := 0; j < st.NumFields(); j++ {
			switch N(st.Field(j)) {
			case "compressed":
				env.fields[j] = fBoolV(i&1 != 0)
			case "trailer":
				env.fields[j] = fBoolV(i&2 != 0)
			case "length":
				env.fields[j] = opaque(st.Field(j).Type())
			}
		}
		args := []*fval{}
		if fn.Signature.Recv() != nil {
			args = append(args, zeroOf(fn.Signature.Recv().Type()))
		}
		args = append(args, env)
		res, err := p.Fold(fn, args...)
		if err != nil {
			return out, err
		}
		if len(res) != 1 || res[0].k != fArray || res[0].fields[0] == nil || res[0].fields[0].k != fInt {
			return out, fmt.Errorf("encodeEnvelope(%s): flag byte not decidable", typeName(t))
		}
		out[i] = res[0].fields[0].i
	}
	return out, nil
}

func acceptedSet(tbl [256]decodedFlag) []int {
	var out []int
	for b, d := range tbl {
		if d.accepted {
			out = append(out, b)
		}
	}
	return out
}

func intsStr(xs []int) string {
	var parts []string
	for _, x := range xs {
		parts = append(parts, fmt.Sprintf("0x%02X", x))
	}
	return "{" + strings.Join(parts, ",") + "}"
}

func sameInts(a, b []int) bool {
	if len(a) != len(b) {
		return false
	}
	sort.Ints(a)
	sort.Ints(b)
	for i := range a {
		if a[i] != b[i] {
			return false
		}
	}
	return true
}

// specFlags gives, per protocol constant, the flag values a peer of that protocol may
// legitimately put on the wire in a RESPONSE stream (the request stream is always {0,1}),
// and the bit that marks the end-of-stream frame.
var specResponseFlags = map[string][]int{
	"ProtocolGRPC":    {0, 1},
	"ProtocolGRPCWeb": {0, 1, 0x80, 0x81},
	"ProtocolConnect": {0, 1, 2, 3},
}
var specTrailerBit = map[string]int{"ProtocolGRPC": 0, "ProtocolGRPCWeb": 0x80, "ProtocolConnect": 2}

// checkFlagTables emits the flag-table obligations under the given rule id.
func checkFlagTables(c *Ctx, rule string) {
	p := c.P
	eph := p.Iface("envelopedProtocolHandler")
	seph := p.Iface("serverEnvelopedProtocolHandler")
	if eph == nil || seph == nil {
		fatalf("anchor=envelopedProtocolHandler interfaces not found")
	}
	for _, t := range p.Implementers(eph) {
		name := typeName(t)
		pc := protocolConstOf(p, t)
		isServer := types.Implements(t, seph) || types.Implements(types.NewPointer(t), seph)
		dec, err := decodeTable(p, t)
		if err != nil {
			c.Unknown(rule, name, "decode-table", p.MethodOf(t, "decodeEnvelope").Pos(), "flag table could not be derived: "+err.Error())
			continue
		}
		enc, err := encodeTable(p, t)
		if err != nil {
			c.Unknown(rule, name, "encode-table", p.MethodOf(t, "encodeEnvelope").Pos(), "flag table could not be derived: "+err.Error())
			continue
		}
		acc := acceptedSet(dec)
		dpos := p.MethodOf(t, "decodeEnvelope").Pos()
		epos := p.MethodOf(t, "encodeEnvelope").Pos()
		if isServer {
			// decodes RESPONSE frames of the backend; encodes REQUEST frames to the backend
			want := specResponseFlags[pc]
			c.Check(sameInts(acc, append([]int{}, want...)), rule, name, "decode-accepts", dpos,
				"accepts exactly the flag bytes "+intsStr(want)+" a "+pc+" backend may send; all other of the 256 values are errors",
				"accepted flag bytes "+intsStr(acc)+" differ from what a "+pc+" backend may send "+intsStr(want))
			okBits := true
			for _, b := range acc {
				d := dec[b]
				if !d.knownComp || !d.knownTrlr || d.compressed != (b&1 != 0) || d.trailer != (specTrailerBit[pc] != 0 && b&specTrailerBit[pc] != 0) {
					okBits = false
				}
			}
			c.Check(okBits, rule, name, "decode-bits", dpos,
				"bit 0 decodes to 'compressed' and the protocol's end-of-stream bit to 'trailer'", "flag bits are decoded into the wrong envelope attributes")
			okEnc := enc[0] == 0 && enc[1] == 1 && enc[2] == 0 && enc[3] == 1
			c.Check(okEnc, rule, name, "encode-request-flags", epos,
				"request frames carry flag 0 or 1 only (the trailer attribute never reaches the request stream)",
				fmt.Sprintf("request-frame encoder emits flags %v for (compressed,trailer) in {FF,TF,FT,TT}; only 0/1 are valid in a request stream", enc))
		} else {
			// decodes REQUEST frames of the client; encodes RESPONSE frames to the client
			c.Check(sameInts(acc, []int{0, 1}), rule, name, "decode-accepts", dpos,
				"accepts exactly flag bytes {0x00,0x01} in a client's request stream; all other of the 256 values are errors",
				"accepted request flag bytes are "+intsStr(acc)+", not {0x00,0x01}: an end-of-stream/invalid frame from the client is treated as a message")
			okBits := true
			for _, b := range acc {
				d := dec[b]
				if !d.knownComp || d.compressed != (b&1 != 0) || (d.knownTrlr && d.trailer) {
					okBits = false
				}
			}
			c.Check(okBits, rule, name, "decode-bits", dpos, "bit 0 decodes to 'compressed'; never a trailer", "request flag bits are decoded into the wrong envelope attributes")
			tb := int64(specTrailerBit[pc])
			okEnc := enc[0] == 0 && enc[1] == 1 && enc[2] == tb && enc[3] == tb|1
			c.Check(okEnc, rule, name, "encode-response-flags", epos,
				fmt.Sprintf("response frames carry bit 0 for compression and 0x%02X for end-of-stream", tb),
				fmt.Sprintf("response-frame encoder emits flags %v for (compressed,trailer) in {FF,TF,FT,TT}; the %s wire format requires [0 1 %d %d]", enc, pc, tb, tb|1))
		}
		// length: big endian at offset 1 in both directions
		for _, mname := range []string{"decodeEnvelope", "encodeEnvelope"} {
			m := p.MethodOf(t, mname)
			ok := false
			for _, fn := range SortedFuncs(p.Reach(m)) {
				for _, call := range Calls(fn) {
					n := CalleeName(call)
					if n != "(encoding/binary.bigEndian).Uint32" && n != "(encoding/binary.bigEndian).PutUint32" {
						continue
					}
					if sl, isSl := call.Common().Args[1].(*ssa.Slice); isSl {
						if lo, isK := ConstInt(sl.Low); isK && lo == 1 && sl.High == nil {
							if mname == "encodeEnvelope" {
								if f := LoadedFieldOrField(call.Common().Args[2]); f != nil && N(f) == "length" {
									ok = true
								}
							} else {
								ok = true
							}
						}
					}
				}
			}
			c.Check(ok, rule, name, "length-bigendian-offset1:"+mname, m.Pos(),
				"the 32-bit length is big-endian in bytes 1..4", "the envelope length is not read/written as big-endian uint32 at offset 1")
		}
	}
}

// LoadedFieldOrField: the struct field a value was read from (pointer load or value Field).
func LoadedFieldOrField(v ssa.Value) *types.Var {
	if f := LoadedField(v); f != nil {
		return f
	}
	if u, ok := v.(*ssa.UnOp); ok && u.Op == token.MUL {
		if fa, ok := u.X.(*ssa.FieldAddr); ok {
			return FieldOfAddr(fa)
		}
	}
	return nil
}

package vg

import (
	"fmt"
	"go/token"
	"go/types"
	"net/textproto"
	"strings"

	"golang.org/x/tools/go/ssa"
)

func init() {
	register(&PropertySpec{
		ID: "C12",
		Explanation: "Decides: (C12.1) the sentinel meaning 'valid header, effectively unbounded' (the errors.New package variable returned by a timeout decoder) is filtered (errors.Is / == on the false edge) before it can be returned by any request-header extraction, by validate, or be handed to an HTTP-error constructor - so a syntactically valid timeout is never rejected through it; " +
			"(C12.2) requestMeta.timeout/hasTimeout are stored only under extraction, hasTimeout=true only after a non-empty header test and a successful decode, the meta reaches the target encoder as a whole-struct copy whose deadline fields are never re-stored; " +
			"(C12.3) each of the target protocols' request-header encoders writes its own timeout header under meta.hasTimeout from its own encoder applied to meta.timeout, and each client protocol's extraction reaches its own decoder; " +
			"(C12.4) every duration->string encoder reaches its formatter only through truncating operations (integer division, Duration.Milliseconds/Seconds) - never addition, multiplication or rounding up - and the gRPC unit table used for encoding agrees with the one used for decoding, with each unit selected exactly below 10^8 units (8 digits). " +
			"Not decided: numeric error bounds of each encoding, clamping thresholds, the REST float parse of NaN/negative/huge values, classification of every malformed string.",
		Assumptions: []string{"time.Duration.Milliseconds/Seconds and integer division truncate toward zero"},
		Run:         runC12,
	})
}

var timeoutKeyOf = map[string]string{
	"ProtocolConnect": "Connect-Timeout-Ms",
	"ProtocolGRPC":    "Grpc-Timeout",
	"ProtocolGRPCWeb": "Grpc-Timeout",
	"ProtocolREST":    "X-Server-Timeout",
}

// protocolConstOf returns the name of the Protocol constant a handler's protocol() returns.
func protocolConstOf(p *Prog, t types.Type) string {
	m := p.MethodOf(t, "protocol")
	if m == nil {
		return ""
	}
	for name := range timeoutKeyOf {
		if returnsConstNamed(m, name) {
			return name
		}
	}
	return ""
}

// sliceLiteralElems returns the element values of a []T{...} literal value.
func sliceLiteralElems(v ssa.Value) []ssa.Value {
	sl, ok := v.(*ssa.Slice)
	if !ok {
		return nil
	}
	al, ok := sl.X.(*ssa.Alloc)
	if !ok {
		return nil
	}
	var out []ssa.Value
	for _, ref := range *al.Referrers() {
		if ia, ok := ref.(*ssa.IndexAddr); ok {
			for _, r2 := range *ia.Referrers() {
				if st, ok := r2.(*ssa.Store); ok && st.Addr == ssa.Value(ia) {
					out = append(out, st.Val)
				}
			}
		}
	}
	return out
}

func runC12(c *Ctx) {
	p := c.P
	defer runC12ParseFailureRejects(c)
	defer runC12DigitCountAfterZeros(c)
	defer runC12CountSpelledInDigits(c)

	// ---------------------------------------------------------------- C12.1
	c.Rule("C12.1", "the 'no timeout' sentinel is filtered before it can become a rejection", 3)
	// sentinels: package-level error variables created by errors.New that some function returns
	// alongside a Duration result (a timeout decoder).
	var sentinels []*ssa.Global
	for _, m := range p.Root.Members {
		g, ok := m.(*ssa.Global)
		if !ok || p.isTestFile(g.Pos()) {
			continue
		}
		if !types.Identical(g.Type().(*types.Pointer).Elem(), types.Universe.Lookup("error").Type()) {
			continue
		}
		for _, fn := range p.Funcs {
			res := fn.Signature.Results()
			if res.Len() != 2 || !isNamed(res.At(0).Type(), "time", "Duration") {
				continue
			}
			ForEachInstr(fn, func(in ssa.Instruction) {
				if ret, ok := in.(*ssa.Return); ok && len(ret.Results) == 2 && originIsGlobal(ret.Results[1], g) {
					dup := false
					for _, s := range sentinels {
						if s == g {
							dup = true
						}
					}
					if !dup {
						sentinels = append(sentinels, g)
					}
				}
			})
		}
	}
	if len(sentinels) == 0 {
		c.Trivial("C12.1", "package", "no-sentinel", token.NoPos, "no timeout decoder returns a package-level sentinel error: nothing to filter")
	}
	runC12SentinelConditions(c, sentinels)
	runC12ExactDecoders(c)
	cph := p.Iface("clientProtocolHandler")
	if cph == nil {
		fatalf("anchor=clientProtocolHandler not found")
	}
	validate := p.MustFunc("(*operation).validate")
	for _, g := range sentinels {
		// may-return fixpoint
		may := map[*ssa.Function]bool{}
		errIdx := func(fn *ssa.Function) int {
			res := fn.Signature.Results()
			for i := res.Len() - 1; i >= 0; i-- {
				if types.Identical(res.At(i).Type(), types.Universe.Lookup("error").Type()) {
					return i
				}
			}
			return -1
		}
		// tainted: the value v may be the sentinel at the point of use `at`
		tainted := func(v ssa.Value, at *ssa.BasicBlock) bool {
			for _, l := range Origins(v) {
				src := false
				var srcVal ssa.Value
				switch l.Kind {
				case "global":
					if l.V == ssa.Value(g) {
						src, srcVal = true, nil
					}
				case "call":
					for _, cal := range p.CalleesAt(l.Call) {
						if may[cal] && l.Index == errIdx(cal) {
							src = true
						}
					}
					srcVal = l.V
				}
				if !src {
					continue
				}
				// filtered if a dominating fact says errors.Is(srcVal, g) is false / srcVal != g
				filtered := false
				if srcVal != nil {
					for _, f := range FactsAt(at) {
						if call, ok := f.Cond.(*ssa.Call); ok && !f.Truth && IsCallTo(call, "errors.Is") {
							if call.Call.Args[0] == srcVal && originIsGlobal(call.Call.Args[1], g) {
								filtered = true
							}
						}
						if cmp, ok := f.AsCmp(); ok && cmp.Op == token.NEQ {
							if cmp.X == srcVal && originIsGlobal(cmp.Y, g) || cmp.Y == srcVal && originIsGlobal(cmp.X, g) {
								filtered = true
							}
						}
					}
				}
				if !filtered {
					return true
				}
			}
			return false
		}
		for changed := true; changed; {
			changed = false
			for _, fn := range p.Funcs {
				if may[fn] {
					continue
				}
				ei := errIdx(fn)
				if ei < 0 {
					continue
				}
				ForEachInstr(fn, func(in ssa.Instruction) {
					if ret, ok := in.(*ssa.Return); ok && ei < len(ret.Results) && !may[fn] {
						if tainted(ret.Results[ei], ret.Block()) {
							may[fn] = true
							changed = true
						}
					}
				})
			}
		}
		var names []string
		for _, fn := range SortedFuncs(may) {
			names = append(names, FuncName(fn))
		}
		c.Note("sentinel %s: functions that may return it unfiltered: %s", N(g), joinStr(names))
		// (a) no extraction impl, nor validate, may return it
		for _, t := range p.Implementers(cph) {
			m := p.MethodOf(t, "extractProtocolRequestHeaders")
			if m == nil {
				fatalf("anchor=%s.extractProtocolRequestHeaders", typeName(t))
			}
			c.Check(!may[m], "C12.1", FuncName(m), "sentinel-not-returned:"+N(g), m.Pos(),
				"request-header extraction cannot return the 'effectively unbounded' sentinel as an error",
				"request-header extraction may return the sentinel "+N(g)+" (meaning: valid header, no effective deadline) as an error; validation turns it into a rejection of a syntactically valid timeout")
		}
		c.Check(!may[validate], "C12.1", FuncName(validate), "sentinel-not-returned:"+N(g), validate.Pos(),
			"validate cannot fail with the sentinel", "validate may return the sentinel "+N(g)+": the request is rejected")
		// (b) no tainted value reaches an HTTP-error constructor / reporter
		for _, fn := range p.Funcs {
			for _, call := range Calls(fn) {
				isSink := false
				for _, cal := range p.CalleesAt(call) {
					switch FuncName(cal) {
					case "newHTTPError", "(*operation).reportError", "(*responseWriter).reportError", "malformedRequestError", "asHTTPError":
						isSink = true
					}
				}
				if !isSink {
					continue
				}
				for _, a := range call.Common().Args {
					vals := []ssa.Value{a}
					vals = append(vals, sliceLiteralElems(a)...)
					for _, v := range vals {
						if tainted(v, call.Block()) {
							c.Bad("C12.1", FuncName(fn), "sentinel-to-error-sink:"+CalleeName(call), call.Pos(),
								"a value that may be the sentinel "+N(g)+" is turned into an error response")
						}
					}
				}
			}
		}
	}

	// ---------------------------------------------------------------- C12.2
	c.Rule("C12.2", "the deadline cell is written only by extraction, set only after a successful decode of a non-empty header, and copied whole to the encoder", 6)
	timeoutFld := p.MustField("requestMeta", "timeout")
	hasFld := p.MustField("requestMeta", "hasTimeout")
	extractReach := map[*ssa.Function]bool{}
	for _, t := range p.Implementers(cph) {
		for fn := range p.Reach(p.MethodOf(t, "extractProtocolRequestHeaders")) {
			extractReach[fn] = true
		}
	}
	for _, fn := range p.Funcs {
		sts := append(StoresToField(fn, timeoutFld), StoresToField(fn, hasFld)...)
		for _, st := range sts {
			fld := FieldOfAddr(st.Addr.(*ssa.FieldAddr))
			if !extractReach[fn] {
				c.Bad("C12.2", FuncName(fn), "store:"+N(fld), st.Pos(),
					"requestMeta."+N(fld)+" is stored outside request-header extraction: the deadline handed to the backend can differ from the client's")
				continue
			}
			if fld == hasFld {
				b, isConst := ConstBool(st.Val)
				if !isConst {
					// the flag may be handed up by a helper of the extraction (refactorings B23_r4,
					// B28_r2: `timeout, has, err := connectExtractTimeout(headers)`): then every
					// return of the helper yields a constant there, and `true` only where the same
					// two facts hold
					if ex, isEx := st.Val.(*ssa.Extract); isEx {
						if call, isCall := ex.Tuple.(*ssa.Call); isCall {
							if g := call.Call.StaticCallee(); g != nil && p.inScope(g) && extractReach[g] {
								okAll, why := true, ""
								nRet := 0
								ForEachInstr(g, func(in ssa.Instruction) {
									ret, isRet := in.(*ssa.Return)
									if !isRet {
										return
									}
									rv := ReturnValues(ret)
									if ex.Index >= len(rv) {
										okAll, why = false, "result not found"
										return
									}
									kb, isK := ConstBool(rv[ex.Index])
									if !isK {
										okAll, why = false, "a return of "+FuncName(g)+" yields a computed flag"
										return
									}
									nRet++
									if kb {
										ne, de, _ := timeoutFactsAt(p, ret.Block())
										if !ne || !de {
											okAll, why = false, "a return of "+FuncName(g)+" answers 'has a timeout' without a non-empty header and a successful decode"
										}
									}
								})
								c.Check(okAll && nRet > 0, "C12.2", FuncName(fn), "store:hasTimeout", st.Pos(),
									"hasTimeout is the flag "+FuncName(g)+" returns: constant on every return, true only after a non-empty header and a successful decode",
									"hasTimeout is taken from "+FuncName(g)+": "+why)
								continue
							}
						}
					}
				}
				if !isConst || !b {
					c.Bad("C12.2", FuncName(fn), "store:hasTimeout", st.Pos(), "hasTimeout is stored from a non-constant or false value")
					continue
				}
				// dominated by non-empty test and by err==nil of a decode call
				nonEmpty, decoded := false, false
				var used []string
				for _, f := range FactsAt(st.Block()) {
					cmp, ok := f.AsCmp()
					if !ok {
						continue
					}
					if s, isS := ConstString(cmp.Y); isS && s == "" && cmp.Op == token.NEQ {
						if fromHeaderGet(p, cmp.X) {
							nonEmpty = true
							used = append(used, "header value != \"\"")
						}
					}
					if IsNilConst(cmp.Y) && cmp.Op == token.EQL {
						for _, l := range Origins(cmp.X) {
							if l.Kind == "call" && l.Index >= 1 {
								decoded = true
								used = append(used, "decode error == nil ("+CalleeName(l.Call)+")")
							}
						}
					}
				}
				c.Check(nonEmpty && decoded, "C12.2", FuncName(fn), "store:hasTimeout", st.Pos(),
					"hasTimeout=true only after a non-empty header and a successful decode",
					"hasTimeout=true is not dominated by both a non-empty header test and a successful decode: a request without (or with a malformed) timeout could reach the backend with one", used...)
			} else {
				// timeout value must come from a decoder / parser result, not a constant alone
				fromCall := false
				for _, l := range Origins(st.Val) {
					if l.Kind == "call" {
						fromCall = true
					}
				}
				c.Check(fromCall, "C12.2", FuncName(fn), "store:timeout", st.Pos(),
					"timeout value originates from the header decoder", "timeout is stored from a value that does not originate from decoding the client's header")
			}
		}
	}
	// operation.reqMeta stored from the extraction result; handle copies it whole and does not re-store deadline fields
	reqMetaFld := p.MustField("operation", "reqMeta")
	for _, fn := range p.Funcs {
		for _, st := range StoresToField(fn, reqMetaFld) {
			ok := false
			for _, l := range Origins(st.Val) {
				if l.Kind == "call" && l.Index == 0 && strings.HasSuffix(CalleeName(l.Call), ".extractProtocolRequestHeaders") {
					ok = true
				}
			}
			c.Check(ok, "C12.2", FuncName(fn), "store:operation.reqMeta", st.Pos(),
				"operation.reqMeta is the extraction result itself", "operation.reqMeta is stored from something other than the extraction result")
		}
	}
	sph := p.Iface("serverProtocolHandler")
	for _, fn := range p.Funcs {
		for _, call := range Calls(fn) {
			cc := call.Common()
			if !cc.IsInvoke() || N(cc.Method) != "addProtocolRequestHeaders" {
				continue
			}
			c.CountSite()
			meta := cc.Args[0]
			// whole-struct origin must be load of operation.reqMeta; deadline fields not re-stored
			ok := false
			var why string
			if u, isLoad := meta.(*ssa.UnOp); isLoad && u.Op == token.MUL {
				if al, isAlloc := u.X.(*ssa.Alloc); isAlloc {
					whole := storesTo(al)
					for _, w := range whole {
						if LoadedField(w) == reqMetaFld {
							ok = true
						}
					}
					for _, ref := range *al.Referrers() {
						if fa, isFA := ref.(*ssa.FieldAddr); isFA {
							f := FieldOfAddr(fa)
							if f == timeoutFld || f == hasFld {
								for _, r2 := range *fa.Referrers() {
									if _, isSt := r2.(*ssa.Store); isSt {
										ok = false
										why = "the copy's " + N(f) + " field is overwritten before encoding"
									}
								}
							}
						}
					}
				} else if LoadedField(meta) == reqMetaFld {
					ok = true
				}
			}
			c.Check(ok, "C12.2", FuncName(fn), "meta-copied-whole", call.Pos(),
				"the meta handed to the target encoder is a whole copy of operation.reqMeta with untouched deadline fields",
				"the meta handed to the target encoder is not an untouched copy of the extracted one ("+why+")")
		}
	}

	// ---------------------------------------------------------------- C12.3
	c.Rule("C12.3", "every target protocol encodes the deadline under hasTimeout with its own encoder; every client protocol reaches its decoder", 10)
	encoderOfKey := map[string]string{"Connect-Timeout-Ms": "connectEncodeTimeout", "Grpc-Timeout": "grpcEncodeTimeout", "X-Server-Timeout": "restEncodeTimeout"}
	decoderOfKey := map[string]string{"Connect-Timeout-Ms": "connectExtractTimeout", "Grpc-Timeout": "grpcDecodeTimeout", "X-Server-Timeout": "restDecodeTimeout"}
	for _, t := range p.Implementers(sph) {
		pc := protocolConstOf(p, t)
		key := timeoutKeyOf[pc]
		if key == "" {
			fatalf("anchor=%s.protocol(): constant not recognised", typeName(t))
		}
		m := p.MethodOf(t, "addProtocolRequestHeaders")
		found, guarded, encoded := false, false, false
		var pos token.Pos = m.Pos()
		for _, fn := range SortedFuncs(p.Reach(m)) {
			for _, hm := range HeaderMutations(fn) {
				if hm.Key == nil || hm.Val == nil {
					continue
				}
				k, ok := ConstString(hm.Key)
				if !ok || textproto.CanonicalMIMEHeaderKey(k) != key {
					continue
				}
				found = true
				pos = hm.Instr.Pos()
				for _, f := range FactsAt(hm.Instr.Block()) {
					if f.Truth && LoadedField(f.Cond) == hasFld {
						guarded = true
					}
				}
				vals := append([]ssa.Value{hm.Val}, sliceLiteralElems(hm.Val)...)
				for _, v := range vals {
					for _, l := range Origins(v) {
						if l.Kind != "call" {
							continue
						}
						cal := p.CalleesAt(l.Call)
						if len(cal) == 1 && FuncName(cal[0]) == encoderOfKey[key] && LoadedField(l.Call.Common().Args[0]) == timeoutFld {
							encoded = true
						}
					}
				}
			}
		}
		c.Check(found && guarded && encoded, "C12.3", typeName(t), "encodes:"+key, pos,
			"writes "+key+" under meta.hasTimeout from "+encoderOfKey[key]+"(meta.timeout)",
			fmt.Sprintf("target protocol does not write %s under meta.hasTimeout from %s(meta.timeout) (header written: %v, guarded: %v, own encoder on meta.timeout: %v): the deadline is lost or altered", key, encoderOfKey[key], found, guarded, encoded))
	}
	for _, t := range p.Implementers(cph) {
		pc := protocolConstOf(p, t)
		key := timeoutKeyOf[pc]
		m := p.MethodOf(t, "extractProtocolRequestHeaders")
		reaches := false
		for fn := range p.Reach(m) {
			if FuncName(fn) == decoderOfKey[key] {
				reaches = true
			}
		}
		c.Check(reaches, "C12.3", typeName(t), "decodes:"+key, m.Pos(),
			"extraction reaches "+decoderOfKey[key], "client protocol never decodes its timeout header "+key+": the client's deadline is dropped")
	}

	// ---------------------------------------------------------------- C12.4
	c.Rule("C12.4", "duration encoders only truncate; gRPC unit tables agree between encoder and decoder", 4)
	for _, name := range []string{"grpcEncodeTimeout", "connectEncodeTimeout", "restEncodeTimeout"} {
		fn := p.MustFunc(name)
		n := 0
		for _, call := range Calls(fn) {
			if !IsCallTo(call, "strconv.FormatInt", "strconv.FormatFloat", "strconv.Itoa", "strconv.FormatUint") {
				continue
			}
			n++
			var bad []string
			fromParam := false
			for _, l := range Origins(call.Common().Args[0]) {
				for _, op := range l.Ops {
					if op != token.QUO {
						bad = append(bad, "operator "+op.String())
					}
				}
				switch l.Kind {
				case "param":
					fromParam = true
				case "const":
				case "call":
					if IsCallTo(l.Call, "(time.Duration).Milliseconds", "(time.Duration).Seconds", "(time.Duration).Microseconds", "(time.Duration).Nanoseconds") {
						if _, isParam := strip(l.Call.Common().Args[0]).(*ssa.Parameter); isParam {
							fromParam = true
						}
					} else {
						bad = append(bad, "call "+CalleeName(l.Call))
					}
				default:
					bad = append(bad, l.String())
				}
			}
			if IsCallTo(call, "strconv.FormatFloat") {
				// a fixed precision rounds to nearest (can exceed the client's value); only the exact shortest form is accepted
				if k, isK := ConstInt(call.Common().Args[2]); !isK || k != -1 {
					bad = append(bad, "FormatFloat with a fixed precision (rounds to nearest)")
				}
			}
			c.Check(len(bad) == 0 && fromParam, "C12.4", name, "truncating-path", call.Pos(),
				"the formatted number derives from the duration only through integer division / truncating accessors",
				"the formatted number is derived with non-truncating operations ("+strings.Join(bad, ", ")+"): the encoded deadline can exceed the client's")
		}
		if n == 0 {
			c.Bad("C12.4", name, "truncating-path", fn.Pos(), "encoder has no recognised number formatter: shape changed")
		}
	}
	// gRPC unit table agreement
	encFn := p.MustFunc("grpcEncodeTimeout")
	lookup := p.MustFunc("grpcTimeoutUnitLookup")
	var sizePhi, unitPhi *ssa.Phi
	ForEachInstr(encFn, func(in ssa.Instruction) {
		if ph, ok := in.(*ssa.Phi); ok {
			if isNamed(ph.Type(), "time", "Duration") {
				sizePhi = ph
			} else if b, ok := ph.Type().Underlying().(*types.Basic); ok && b.Kind() == types.Uint8 {
				unitPhi = ph
			}
		}
	})
	if sizePhi == nil || unitPhi == nil || sizePhi.Block() != unitPhi.Block() {
		c.Unknown("C12.4", "grpcEncodeTimeout", "unit-table", encFn.Pos(), "could not extract the (size, unit) table of the gRPC timeout encoder")
	} else {
		var prm ssa.Value = encFn.Params[0]
		nNoThreshold := 0
		var maxSize int64
		for i := range sizePhi.Edges {
			if sz, ok := ConstInt(sizePhi.Edges[i]); ok && sz > maxSize {
				maxSize = sz
			}
		}
		for i := range sizePhi.Edges {
			size, ok1 := ConstInt(sizePhi.Edges[i])
			unit, ok2 := ConstInt(unitPhi.Edges[i])
			if !ok1 || !ok2 {
				c.Unknown("C12.4", "grpcEncodeTimeout", "unit-table-row", sizePhi.Pos(), "non-constant (size, unit) row")
				continue
			}
			res, err := p.Fold(lookup, fInt64(unit, types.Typ[types.Uint8]))
			agree := err == nil && len(res) == 1 && res[0].k == fInt && res[0].i == size
			c.Check(agree, "C12.4", "grpcEncodeTimeout", fmt.Sprintf("unit-table-row:%c", rune(unit)), sizePhi.Pos(),
				fmt.Sprintf("unit %q encodes in steps of %d ns, which is what the decoder's unit table says", rune(unit), size),
				fmt.Sprintf("encoder uses %d ns per %q but the decoder's unit table disagrees: the deadline changes across the hop", size, rune(unit)))
			// threshold: this row is selected only when timeout < size*1e8
			pred := sizePhi.Block().Preds[i]
			var k int64 = -1
			for _, f := range FactsOnEdge(pred, sizePhi.Block()) {
				cmp, ok := f.AsCmp()
				if !ok {
					continue
				}
				x, y, op := cmp.X, cmp.Y, cmp.Op
				if y == prm {
					x, y, op = y, x, flip(op)
				}
				if x != prm {
					continue
				}
				if v, isC := ConstInt(y); isC {
					// exclusive upper bound on the duration
					switch op {
					case token.LSS:
					case token.LEQ:
						v++
					default:
						continue
					}
					if k == -1 || v < k {
						k = v
					}
				}
			}
			if k == -1 {
				nNoThreshold++
				if nNoThreshold > 1 || size != maxSize {
					c.Bad("C12.4", "grpcEncodeTimeout", fmt.Sprintf("unit-threshold:%c", rune(unit)), sizePhi.Pos(),
						fmt.Sprintf("unit %q has no recognisable upper threshold although it is not the largest unit: its value can need more than 8 digits", rune(unit)))
					continue
				}
				// default row (largest unit) has no upper threshold
				c.Trivial("C12.4", "grpcEncodeTimeout", fmt.Sprintf("unit-threshold:%c", rune(unit)), sizePhi.Pos(), "largest unit: no upper threshold")
				continue
			}
			c.Check(k == size*100000000, "C12.4", "grpcEncodeTimeout", fmt.Sprintf("unit-threshold:%c", rune(unit)), sizePhi.Pos(),
				"unit is selected exactly for durations below 10^8 units (at most 8 digits)",
				fmt.Sprintf("unit %q is selected for durations below %d ns, not %d ns (10^8 units): value can need more than 8 digits or lose precision needlessly", rune(unit), k, size*100000000))
		}
	}
}

// runC12SentinelConditions: C12.5 (defect D22).  'No deadline' is a stronger statement than any
// deadline: a decoder may answer it only (a) for an absent header, or (b) for a count of its
// largest unit that does not fit a time.Duration - exactly MaxInt64/unit - and only after the
// syntactic checks (at most 8 digits) have passed.  A smaller threshold silently drops valid
// deadlines (the backend runs unbounded); testing it before the digit check accepts malformed
// headers.
func runC12SentinelConditions(c *Ctx, sentinels []*ssa.Global) {
	p := c.P
	c.Rule("C12.5", "a timeout decoder answers 'no deadline' only for an absent header or a count that cannot be represented", 1)
	n := 0
	for _, g := range sentinels {
		for _, fn := range p.Funcs {
			res := fn.Signature.Results()
			if res.Len() != 2 || !isNamed(res.At(0).Type(), "time", "Duration") || len(fn.Params) != 1 || !isStringType(fn.Params[0].Type()) {
				continue
			}
			paths, ok := EnumPaths(fn.Blocks[0], nil, IsReturn, 0)
			if !ok {
				c.Unknown("C12.5", FuncName(fn), "paths", fn.Pos(), "too many paths")
				continue
			}
			for _, cp := range paths {
				ret := cp.End.(*ssa.Return)
				if len(ret.Results) != 2 || !originIsGlobal(cp.Deref(ret.Results[1]), g) && !originIsGlobal(ret.Results[1], g) {
					continue
				}
				n++
				empty := false
				var unitK, capK int64 = 0, -1
				digitsChecked := false
				for cond, truth := range cp.Truth {
					b, isB := cond.(*ssa.BinOp)
					if !isB {
						continue
					}
					if s2, isS := ConstString(b.Y); isS && s2 == "" && b.X == ssa.Value(fn.Params[0]) && (b.Op == token.EQL && truth || b.Op == token.NEQ && !truth) {
						empty = true
					}
					k, isK := ConstInt(b.Y)
					if !isK {
						continue
					}
					if isNamed(b.X.Type(), "time", "Duration") && (b.Op == token.EQL && truth || b.Op == token.NEQ && !truth) {
						unitK = k
					}
					if !isNamed(b.X.Type(), "time", "Duration") && isIntegerLike(b.X.Type()) {
						// count > K (true): the cap;  count > 99999999 (false): digit check passed
						if b.Op == token.GTR && truth {
							if capK == -1 || k > capK {
								capK = k
							}
						}
						if b.Op == token.GEQ && truth {
							if capK == -1 || k-1 > capK {
								capK = k - 1
							}
						}
						if (b.Op == token.GTR && !truth && k == 99999999) || (b.Op == token.GEQ && !truth && k == 100000000) || (b.Op == token.LEQ && truth && k == 99999999) || (b.Op == token.LSS && truth && k == 100000000) {
							digitsChecked = true
						}
						// the same check on the spelling: len(digits) > 8 (false), the form the decoder has
						// since defect D69 (a count of at most 8 characters cannot exceed 99999999)
						if lc, isCall := b.X.(*ssa.Call); isCall {
							if bi, isBi := lc.Call.Value.(*ssa.Builtin); isBi && bi.Name() == "len" {
								if (b.Op == token.GTR && !truth && k == 8) || (b.Op == token.GEQ && !truth && k == 9) || (b.Op == token.LEQ && truth && k == 8) || (b.Op == token.LSS && truth && k == 9) {
									digitsChecked = true
								}
							}
						}
					}
				}
				if empty {
					c.OK("C12.5", FuncName(fn), "sentinel-for-absent-header", ret.Pos(), "'no deadline' for an empty header value")
					continue
				}
				const maxInt64 = int64(^uint64(0) >> 1)
				okCap := unitK > 0 && capK == maxInt64/unitK
				c.Check(okCap && digitsChecked, "C12.5", FuncName(fn), "sentinel-only-when-unrepresentable", ret.Pos(),
					"'no deadline' is answered only when the count exceeds MaxInt64/unit (it would overflow a Duration) and after the 8-digit check",
					"'no deadline' is answered for counts above "+itoa(int(capK))+" of a unit of "+itoa(int(unitK))+" ns (representable limit: MaxInt64/unit) or before the digit-count check (checked: "+boolStr(digitsChecked)+"): valid deadlines are dropped - the backend runs without one - or malformed headers are accepted")
			}
		}
	}
	if n == 0 {
		c.Trivial("C12.5", "package", "no-sentinel-return", token.NoPos, "no timeout decoder returns the sentinel")
	}
}

// runC12ExactDecoders: C12.6 (defect D34).  A timeout decoder (string -> time.Duration) must be
// exact and strict.  Going through a float parser accepts NaN, Inf, signs, exponents and hex
// floats as timeouts, truncation of val*1e9 can lose a whole target unit, and the float->integer
// conversion overflows silently (a huge timeout becomes an expired one).
func runC12ExactDecoders(c *Ctx) {
	p := c.P
	c.Rule("C12.6", "timeout decoders do not go through floating point; encoders never produce an empty value", 4)
	n := 0
	for _, fn := range p.Funcs {
		if !p.inScope(fn) || fn.Parent() != nil {
			continue
		}
		res := fn.Signature.Results()
		if res.Len() != 2 || !isNamed(res.At(0).Type(), "time", "Duration") || !isErrorType(res.At(1).Type()) {
			continue
		}
		if len(fn.Params) != 1 || !isStringType(fn.Params[0].Type()) {
			continue
		}
		n++
		var bad []string
		ForEachInstr(fn, func(in ssa.Instruction) {
			switch x := in.(type) {
			case ssa.CallInstruction:
				if IsCallTo(x, "strconv.ParseFloat") {
					bad = append(bad, "strconv.ParseFloat at "+p.Pos(x.Pos()))
				}
			case *ssa.Convert:
				if isFloatType(x.X.Type()) && isIntegerLike(x.Type()) {
					bad = append(bad, "float-to-integer conversion at "+p.Pos(x.Pos()))
				}
			}
		})
		c.Check(len(bad) == 0, "C12.6", FuncName(fn), "decoder-exact", fn.Pos(),
			"the decoder works on digits / integers only",
			"the timeout decoder goes through floating point ("+joinStr(bad)+"): NaN, Inf, negative, exponent and hex forms are accepted as timeouts, large values overflow to an expired deadline, and truncation can lose a whole unit of the target encoding")
	}
	if n == 0 {
		c.Bad("C12.6", "package", "decoder-exact", token.NoPos, "no timeout decoder (string -> time.Duration, error) found: shape changed")
	}
	// encoders (time.Duration -> string): an empty value means 'no timeout' to every reader, so
	// no duration - zero included - may be encoded as the empty string (defect D33)
	nEnc := 0
	for _, fn := range p.Funcs {
		if !p.inScope(fn) || fn.Parent() != nil || len(fn.Params) != 1 || !isNamed(fn.Params[0].Type(), "time", "Duration") {
			continue
		}
		res := fn.Signature.Results()
		if res.Len() != 1 || !isStringType(res.At(0).Type()) {
			continue
		}
		nEnc++
		var empties []string
		ForEachInstr(fn, func(in ssa.Instruction) {
			ret, ok := in.(*ssa.Return)
			if !ok || len(ret.Results) != 1 {
				return
			}
			for _, l := range Origins(ret.Results[0]) {
				if s2, isS := ConstString(l.V); l.Kind == "const" && isS && s2 == "" && len(l.Ops) == 0 {
					empties = append(empties, p.Pos(ret.Pos()))
				}
			}
		})
		c.Check(len(empties) == 0, "C12.6", FuncName(fn), "encoder-never-empty", fn.Pos(),
			"no duration is encoded as the empty string",
			"the timeout encoder returns the empty string ("+joinStr(empties)+"): the header is still set, and an empty value means 'no timeout' - a zero (already expired) deadline is extended to infinity")
	}
	if nEnc == 0 {
		c.Bad("C12.6", "package", "encoder-never-empty", token.NoPos, "no timeout encoder (time.Duration -> string) found: shape changed")
	}
}

func isFloatType(t types.Type) bool {
	b, ok := t.Underlying().(*types.Basic)
	return ok && b.Info()&types.IsFloat != 0
}

// runC12ParseFailureRejects: C12.7 (seed C12g).  A header value whose number does not parse is
// malformed, and a malformed timeout must be a rejection.  From every strconv.ParseInt / ParseUint /
// Atoi in request-time functions that return an error, a successful return (nil error) is reached
// only on paths that know the parse error was nil - tested on the value the parse returned, not on
// a variable that was overwritten in between ("range error: clamp and carry on" accepts
// -99999999999999999999 as the maximum timeout).
func runC12ParseFailureRejects(c *Ctx) {
	p := c.P
	c.Rule("C12.7", "a failed numeric parse never leads to a successful return", 2)
	n := 0
	for _, fn := range SortedFuncs(p.RequestTimeReach()) {
		if !p.inScope(fn) {
			continue
		}
		ei := errorResultIndex(fn.Signature)
		if ei < 0 {
			continue
		}
		ord := 0
		for _, call := range Calls(fn) {
			if !IsCallTo(call, "strconv.ParseInt", "strconv.ParseUint", "strconv.Atoi") {
				continue
			}
			cv, ok := call.(*ssa.Call)
			if !ok {
				continue
			}
			var perr ssa.Value
			for _, ref := range *cv.Referrers() {
				if ex, isEx := ref.(*ssa.Extract); isEx && ex.Index == 1 {
					perr = ex
				}
			}
			if perr == nil || perr.Referrers() == nil || len(*perr.Referrers()) == 0 {
				continue // the error is discarded on purpose (input validated beforehand): not this rule's business
			}
			n++
			ord++
			started := false
			isEnd := func(in ssa.Instruction) bool {
				if in == ssa.Instruction(call) {
					started = true
					return false
				}
				if in.Block() == call.Block() && !started {
					return false
				}
				return IsReturn(in)
			}
			paths, okP := EnumPaths(call.Block(), nil, isEnd, 0)
			construct := "parse-failure-rejects:" + CalleeName(call)
			if ord > 1 {
				construct += "|#" + itoa(ord)
			}
			if !okP {
				c.Unknown("C12.7", FuncName(fn), construct, call.Pos(), "too many paths")
				continue
			}
			bad := 0
			for _, cp := range paths {
				rv := ReturnValues(cp.End.(*ssa.Return))
				if ei >= len(rv) || !IsNilConst(cp.Deref(rv[ei])) {
					continue
				}
				knows := false
				for cond, truth := range cp.Truth {
					b, isB := cond.(*ssa.BinOp)
					if !isB || !IsNilConst(b.Y) {
						continue
					}
					if resolveVal(b.X, cp.Blocks) != perr && b.X != perr {
						continue
					}
					if b.Op == token.NEQ && !truth || b.Op == token.EQL && truth {
						knows = true
					}
				}
				if !knows {
					bad++
				}
			}
			c.Check(bad == 0, "C12.7", FuncName(fn), construct, call.Pos(),
				"every successful return after this parse knows that the parse error was nil",
				itoa(bad)+" path(s) return success after this numeric parse without knowing that its error was nil (the error was overwritten or never tested): a value that does not parse - e.g. out of range, negative overflow included - is accepted instead of rejected")
		}
	}
	if n < 2 {
		c.Bad("C12.7", "request-time code", "parse-failure-rejects", token.NoPos, "fewer than two numeric parses in error-returning request-time functions ("+itoa(n)+"): shape changed")
	}
}

// runC12DigitCountAfterZeros: C12.8 (seed C12i).  A timeout decoder may take a short cut for
// values that cannot be represented: "more digits than the largest representable number has"
// clamps to the maximum without parsing.  The short cut is only right on the digits that count -
// leading zeros stripped - otherwise `0000000000000000000005` (legal: the grammar is 1*DIGIT)
// becomes the maximum (i.e. "no deadline") instead of five seconds.  Structural: in every
// function that returns (time.Duration, error), an `if len(s) > K` whose taken edge returns
// success has s originating from strings.TrimLeft(_, "0").
func runC12DigitCountAfterZeros(c *Ctx) {
	p := c.P
	c.Rule("C12.8", "the too-many-digits short cut counts digits after leading zeros were stripped", 0)
	for _, fn := range p.Funcs {
		if !p.inScope(fn) || len(fn.Blocks) == 0 {
			continue
		}
		res := fn.Signature.Results()
		if res.Len() != 2 || res.At(0).Type().String() != "time.Duration" || !isErrorType(res.At(1).Type()) {
			continue
		}
		for _, b := range fn.Blocks {
			iff, ok := b.Instrs[len(b.Instrs)-1].(*ssa.If)
			if !ok {
				continue
			}
			bo, ok := iff.Cond.(*ssa.BinOp)
			if !ok || (bo.Op != token.GTR && bo.Op != token.GEQ) {
				continue
			}
			lc, ok := bo.X.(*ssa.Call)
			if !ok {
				continue
			}
			if bi, isB := lc.Call.Value.(*ssa.Builtin); !isB || bi.Name() != "len" {
				continue
			}
			if bt, isBasic := lc.Call.Args[0].Type().Underlying().(*types.Basic); !isBasic || bt.Info()&types.IsString == 0 {
				continue
			}
			// the taken edge returns success directly
			succ := b.Succs[0]
			ret, isRet := succ.Instrs[len(succ.Instrs)-1].(*ssa.Return)
			if !isRet || len(ret.Results) != 2 || !IsNilConst(ret.Results[1]) {
				continue
			}
			stripped := true
			for _, o := range Origins(lc.Call.Args[0]) {
				call, isCall := o.V.(*ssa.Call)
				if isCall && IsCallTo(call, "strings.TrimLeft") {
					if s, isS := ConstString(call.Call.Args[1]); isS && s == "0" {
						continue
					}
				}
				stripped = false
			}
			c.Check(stripped, "C12.8", FuncName(fn), "digit-count-after-zero-strip", bo.Pos(),
				"the digit count that clamps to the maximum is taken after leading zeros were stripped",
				"a value is clamped to the maximum duration because of the NUMBER OF DIGITS of a string that may still carry leading zeros: a zero-padded timeout (legal, 1*DIGIT) such as 0000000000000000000005 becomes 'practically no deadline' instead of five seconds")
		}
	}
}

// runC12CountSpelledInDigits: C12.9 (defect D69).  Every protocol spells the count of a timeout as
// ASCII digits only (Grpc-Timeout: 1*8DIGIT unit, Connect-Timeout-Ms: digits); strconv.ParseInt
// also accepts a sign, so a decoder that validates only the parsed number takes "+1S" and "-0S"
// for timeouts and re-encodes them for the backend.  Wherever a timeout decoder parses text with
// ParseInt/ParseUint/Atoi and looks at the parse error, the call is dominated by the true outcome
// of a digits-only validator applied to the same text (a module function string -> bool whose
// body compares bytes with '0' and '9').  Decoders that validate digit by digit in line and then
// discard the parse error (the REST decoder) are covered by C12.6/C12.7.
func runC12CountSpelledInDigits(c *Ctx) {
	p := c.P
	c.Rule("C12.9", "a timeout count is validated as ASCII digits before it is parsed", 2)
	isDigitValidator := func(fn *ssa.Function) bool {
		if fn == nil || !p.inScope(fn) || fn.Signature.Params().Len() != 1 || fn.Signature.Results().Len() != 1 {
			return false
		}
		if bt, ok := fn.Signature.Results().At(0).Type().Underlying().(*types.Basic); !ok || bt.Kind() != types.Bool {
			return false
		}
		lo, hi := false, false
		// the comparisons may sit in a closure handed to strings.ContainsFunc / IndexFunc
		// (refactoring B23_r5)
		visit := func(f func(ssa.Instruction)) {
			ForEachInstr(fn, f)
			for _, an := range fn.AnonFuncs {
				ForEachInstr(an, f)
			}
		}
		visit(func(in ssa.Instruction) {
			if b, ok := in.(*ssa.BinOp); ok {
				for _, op := range []ssa.Value{b.X, b.Y} {
					if k, isK := ConstInt(op); isK {
						if k == '0' && (b.Op == token.LSS || b.Op == token.GEQ) {
							lo = true
						}
						if k == '9' && (b.Op == token.GTR || b.Op == token.LEQ) {
							hi = true
						}
					}
				}
			}
		})
		return lo && hi
	}
	// timeout decoders: functions that read one of the timeout headers, or string -> (Duration, error)
	isDecoder := func(fn *ssa.Function) bool {
		res := fn.Signature.Results()
		if res.Len() == 2 && res.At(0).Type().String() == "time.Duration" && isErrorType(res.At(1).Type()) {
			return true
		}
		for _, call := range Calls(fn) {
			if IsCallTo(call, "(net/http.Header).Get") {
				if k, ok := ConstString(call.Common().Args[1]); ok && strings.HasSuffix(strings.ToLower(k), "timeout-ms") {
					return true
				}
			}
		}
		return false
	}
	for _, fn := range p.Funcs {
		if !p.inScope(fn) || len(fn.Blocks) == 0 || !isDecoder(fn) {
			continue
		}
		for _, call := range Calls(fn) {
			if !IsCallTo(call, "strconv.ParseInt", "strconv.ParseUint", "strconv.Atoi") || call.Value() == nil {
				continue
			}
			// is the parse error looked at?
			used := false
			for _, ref := range *call.Value().Referrers() {
				if ex, ok := ref.(*ssa.Extract); ok && ex.Index == 1 && ex.Referrers() != nil && len(*ex.Referrers()) > 0 {
					used = true
				}
			}
			if !used {
				continue
			}
			text := call.Common().Args[0]
			ok := false
			for _, f := range FactsAt(call.Block()) {
				vc, isCall := f.Cond.(*ssa.Call)
				if !isCall || !f.Truth || !isDigitValidator(vc.Call.StaticCallee()) {
					continue
				}
				if vc.Call.Args[0] == text {
					ok = true
				}
			}
			c.Check(ok, "C12.9", FuncName(fn), "count-is-ascii-digits", call.Pos(),
				"the text handed to the integer parser passed a digits-only validator",
				"the count of a timeout is handed to "+N(call.Common().StaticCallee())+" without having been validated as ASCII digits: the parser accepts a sign, so +1S / -0S / +5 are taken for timeouts and forwarded re-encoded instead of being rejected as malformed")
		}
	}
}


// timeoutFactsAt: at block b, is 'the header value is not empty' known, and 'a decode returned no error'?
func timeoutFactsAt(p *Prog, b *ssa.BasicBlock) (nonEmpty, decoded bool, used []string) {
	for _, f := range FactsAt(b) {
		cmp, ok := f.AsCmp()
		if !ok {
			continue
		}
		if s, isS := ConstString(cmp.Y); isS && s == "" && cmp.Op == token.NEQ {
			if fromHeaderGet(p, cmp.X) {
				nonEmpty = true
				used = append(used, "header value != \"\"")
			}
		}
		if IsNilConst(cmp.Y) && cmp.Op == token.EQL {
			for _, l := range Origins(cmp.X) {
				if l.Kind == "call" && l.Index >= 1 {
					decoded = true
					used = append(used, "decode error == nil ("+CalleeName(l.Call)+")")
				}
			}
		}
	}
	return
}


// fromHeaderGet: v is the value of Header.Get, directly or as the unchanged result of a helper of
// the shipped packages that reads (and may delete) the header (refactoring B28_r1).
func fromHeaderGet(p *Prog, v ssa.Value) bool {
	ls := p.OriginsDeep(v)
	if len(ls) == 0 {
		return false
	}
	for _, l := range ls {
		if l.Kind != "call" || !IsCallTo(l.Call, "(net/http.Header).Get") || len(l.Ops) > 0 {
			return false
		}
	}
	return true
}

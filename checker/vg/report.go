package vg

import (
	"crypto/sha256"
	"encoding/hex"
	"encoding/json"
	"fmt"
	"go/token"
	"os"
	"path/filepath"
	"sort"
	"strings"
	"time"
)

// Status of an obligation.
type Status string

const (
	Discharged Status = "discharged"
	Violated   Status = "violated"
	Undecided  Status = "undecided"
)

// Obligation is one rule instance.
type Obligation struct {
	Rule       string   `json:"rule"`
	Key        string   `json:"key"` // rule|function|construct|ordinal — no positions
	Pos        string   `json:"pos"`
	Status     Status   `json:"status"`
	What       string   `json:"what"`
	Facts      []string `json:"facts,omitempty"`
	Nontrivial bool     `json:"nontrivial"`
	Known      bool     `json:"known,omitempty"`
}

// RuleInfo documents one rule in the evidence.
type RuleInfo struct {
	ID        string `json:"id"`
	Text      string `json:"text"`
	Instances int    `json:"instances"`
	Floor     int    `json:"floor"`
}

// Ctx is handed to every rule.
type Ctx struct {
	P        *Prog
	Property string
	Tier     string
	obls     []*Obligation
	rules    map[string]*RuleInfo
	ruleOrd  []string
	keyCount map[string]int
	notes    []string
	funcs    map[string]bool
	sites    int
	excepts  []string
	// noImports: this context is itself being evaluated for an import
	noImports bool
}

// Rule declares a rule and its floor; must be called before emitting obligations.
func (c *Ctx) Rule(id, text string, floor int) {
	if c.rules == nil {
		c.rules = map[string]*RuleInfo{}
	}
	if _, ok := c.rules[id]; !ok {
		c.rules[id] = &RuleInfo{ID: id, Text: text, Floor: floor}
		c.ruleOrd = append(c.ruleOrd, id)
	}
}

func (c *Ctx) key(rule, fn, construct string) string {
	base := rule + "|" + fn + "|" + construct
	if c.keyCount == nil {
		c.keyCount = map[string]int{}
	}
	n := c.keyCount[base]
	c.keyCount[base] = n + 1
	if n == 0 {
		return base
	}
	return fmt.Sprintf("%s|#%d", base, n+1)
}

// Emit records an obligation.
func (c *Ctx) Emit(rule string, fn string, construct string, pos token.Pos, st Status, nontrivial bool, what string, facts ...string) *Obligation {
	ri := c.rules[rule]
	if ri == nil {
		fatalf("internal: rule %s not declared", rule)
	}
	ri.Instances++
	o := &Obligation{Rule: rule, Key: c.key(rule, fn, construct), Pos: c.P.Pos(pos), Status: st, What: what, Facts: facts, Nontrivial: nontrivial}
	c.obls = append(c.obls, o)
	if c.funcs == nil {
		c.funcs = map[string]bool{}
	}
	if fn != "" {
		c.funcs[fn] = true
	}
	return o
}

// OK / Bad / Unknown are shorthands.
func (c *Ctx) OK(rule, fn, construct string, pos token.Pos, what string, facts ...string) {
	c.Emit(rule, fn, construct, pos, Discharged, true, what, facts...)
}
func (c *Ctx) Trivial(rule, fn, construct string, pos token.Pos, what string, facts ...string) {
	c.Emit(rule, fn, construct, pos, Discharged, false, what, facts...)
}
func (c *Ctx) Bad(rule, fn, construct string, pos token.Pos, what string, facts ...string) {
	c.Emit(rule, fn, construct, pos, Violated, true, what, facts...)
}
func (c *Ctx) Unknown(rule, fn, construct string, pos token.Pos, what string, facts ...string) {
	c.Emit(rule, fn, construct, pos, Undecided, true, what, facts...)
}

// Check emits discharged or violated.
func (c *Ctx) Check(ok bool, rule, fn, construct string, pos token.Pos, okWhat, badWhat string, facts ...string) bool {
	if ok {
		c.OK(rule, fn, construct, pos, okWhat, facts...)
	} else {
		c.Bad(rule, fn, construct, pos, badWhat, facts...)
	}
	return ok
}

func (c *Ctx) Note(format string, args ...any) {
	c.notes = append(c.notes, fmt.Sprintf(format, args...))
}

func (c *Ctx) Exception(symbol, reason string) {
	c.excepts = append(c.excepts, symbol+": "+reason)
}

func (c *Ctx) CountSite() { c.sites++ }

// ImportRules adopts rules of another property that are necessary conditions of this one as
// well (shared clauses: e.g. 'every byte copied out of an envelope is accounted for' is needed
// both for chunking independence and for messages arriving intact).  The other property's rule
// set is evaluated on the same program (once per program) and the named rules' obligations are
// taken over under their own keys.
func (c *Ctx) ImportRules(from string, ruleIDs ...string) {
	spec := registry[from]
	if spec == nil {
		fatalf("internal: ImportRules from unknown property %s", from)
	}
	if c.noImports {
		return
	}
	key := "imported-run:" + from + ":" + c.Tier
	var child *Ctx
	if v, ok := c.P.memo[key]; ok {
		child = v.(*Ctx)
	} else {
		child = &Ctx{P: c.P, Property: from, Tier: c.Tier}
		// avoid import cycles: while evaluating `from`, further imports are not followed
		child.noImports = true
		spec.Run(child)
		c.P.memo[key] = child
	}
	want := map[string]bool{}
	for _, id := range ruleIDs {
		want[id] = true
		ri := child.rules[id]
		if ri == nil {
			fatalf("internal: property %s has no rule %s to import", from, id)
		}
		c.Rule(id, ri.Text+" (clause shared with "+from+")", ri.Floor)
	}
	for _, o := range child.obls {
		if !want[o.Rule] {
			continue
		}
		cp := *o
		c.obls = append(c.obls, &cp)
		c.rules[o.Rule].Instances++
	}
}

// --------------------------------------------------------------- known findings

type KnownFinding struct {
	Property string `json:"property"`
	Rule     string `json:"rule"`
	Key      string `json:"key"`
	What     string `json:"what"`
	Status   string `json:"status"` // open | fixed
	Commit   string `json:"commit,omitempty"`
	Since    string `json:"since,omitempty"`
}

type knownFile struct {
	Findings []KnownFinding `json:"findings"`
	Fixed    []string       `json:"fixed,omitempty"`
}

func loadKnown(path string) []KnownFinding {
	if path == "" {
		return nil
	}
	data, err := os.ReadFile(path)
	if err != nil {
		if os.IsNotExist(err) {
			return nil
		}
		fatalf("known findings: %v", err)
	}
	var kf knownFile
	if err := json.Unmarshal(data, &kf); err != nil {
		fatalf("known findings: %v", err)
	}
	return kf.Findings
}

// ------------------------------------------------------------------- evidence

type PropertySpec struct {
	ID          string
	Explanation string // what is decided / not decided
	Assumptions []string
	Run         func(*Ctx)
}

type evidence struct {
	PropertyID  string         `json:"property_id"`
	Tier        string         `json:"tier"`
	Seed        int            `json:"seed"`
	Level       string         `json:"level"`
	Coverage    map[string]any `json:"coverage"`
	Assumptions []string       `json:"assumptions"`
	WallS       float64        `json:"wall_s"`
	Violations  int            `json:"violations"`
}

func hashKey(k string) string {
	h := sha256.Sum256([]byte(k))
	return hex.EncodeToString(h[:8])
}

// Finish triages, writes evidence, prints the verdict and returns the exit code.
func (c *Ctx) Finish(spec *PropertySpec, start time.Time, evidencePath, knownPath, findingsDir, cmdline string, extra map[string]any) int {
	known := loadKnown(knownPath)
	openKnown := map[string]KnownFinding{}
	for _, k := range known {
		if k.Status == "open" && k.Property == spec.ID {
			openKnown[k.Key] = k
		}
	}
	var violated, undecided, discharged, knownHit, nontrivial int
	distinct := map[string]bool{}
	var floorErrs []string
	for _, id := range c.ruleOrd {
		ri := c.rules[id]
		if ri.Instances < ri.Floor {
			floorErrs = append(floorErrs, fmt.Sprintf("rule %s matched %d instance(s), floor is %d (a rule that matches nothing passes vacuously)", id, ri.Instances, ri.Floor))
		}
	}
	var vio []*Obligation
	for _, o := range c.obls {
		switch o.Status {
		case Discharged:
			discharged++
		case Undecided:
			undecided++
		case Violated:
			if _, ok := openKnown[o.Key]; ok {
				o.Known = true
				knownHit++
			} else {
				violated++
				vio = append(vio, o)
			}
		}
		if o.Nontrivial && !distinct[o.Key] {
			distinct[o.Key] = true
			nontrivial++
		}
	}
	// evidence
	var rules []RuleInfo
	for _, id := range c.ruleOrd {
		rules = append(rules, *c.rules[id])
	}
	var samples []any
	perRule := map[string]int{}
	for _, o := range c.obls {
		if o.Status != Discharged || perRule[o.Rule] < 2 {
			if len(samples) < 40 {
				samples = append(samples, o)
				perRule[o.Rule]++
			}
		}
	}
	var fnames []string
	for f := range c.funcs {
		fnames = append(fnames, f)
	}
	sort.Strings(fnames)
	cov := map[string]any{
		"explanation":         spec.Explanation,
		"obligations":         len(c.obls),
		"discharged":          discharged,
		"violated":            violated,
		"known":               knownHit,
		"undecided":           undecided,
		"evaluations":         len(c.obls),
		"distinct_nontrivial": nontrivial,
		"rule":                "one obligation per rule instance (call site, store, table row, return, path family) enumerated from the SSA/AST of /repo on this run; an obligation is non-trivial when its verdict needed at least one dominating-branch fact, origin trace, path search or table comparison (not a constant match); distinct = distinct obligation keys (rule|function|construct|ordinal)",
		"samples":             samples,
		"rules":               rules,
		"functions_analysed":  fnames,
		"call_sites_examined": c.sites,
		"packages":            len(c.P.Pkgs),
		"ssa_functions":       len(c.P.AllMod),
		"root_functions":      len(c.P.Funcs),
		"callgraph":           map[string]any{"kind": callGraphKind(c.P), "edges": countEdges(c.P)},
		"build_configs":       []string{"linux/" + archOr(c.P.GOARCH) + " tests=" + fmt.Sprint(c.P.Tests)},
		"checker_cmd":         cmdline,
		"trusted_base":        []string{"go/types type checker (go1.26.8)", "golang.org/x/tools v0.50.0 go/packages, go/ssa, callgraph/cha+vta", "the rule tables in /verif/checker/vg (control header keys, published HTTP<->RPC code tables, accepted idioms)", "structural necessary conditions only: no value-level behaviour is decided"},
		"exceptions":          c.excepts,
		"notes":               c.notes,
		"exhaustive":          true,
	}
	for k, v := range extra {
		cov[k] = v
	}
	assumptions := append([]string{"the analysed tree is what is built: linux/amd64, no build tags, non-test files of the root package and vanguardgrpc", "go/types and go/ssa model the program faithfully; reflection and unsafe are not used by the analysed code paths"}, spec.Assumptions...)
	if c.excepts == nil {
		c.excepts = []string{}
	}
	if c.notes == nil {
		c.notes = []string{}
	}
	cov["exceptions"] = c.excepts
	cov["notes"] = c.notes
	rr := RenamesResolved
	if rr == nil {
		rr = []string{}
	}
	cov["renames_resolved"] = rr
	if len(rr) > 0 {
		fmt.Printf("renames resolved through the declaration snapshot: %s\n", strings.Join(rr, "; "))
	}
	ev := evidence{PropertyID: spec.ID, Tier: c.Tier, Seed: seedFromEnv(), Level: "other", Coverage: cov,
		Assumptions: assumptions, WallS: time.Since(start).Seconds(), Violations: violated}
	if evidencePath != "" {
		_ = os.MkdirAll(filepath.Dir(evidencePath), 0o755)
		data, _ := json.MarshalIndent(ev, "", " ")
		if err := os.WriteFile(evidencePath, append(data, '\n'), 0o644); err != nil {
			fmt.Printf("CHECKER-ERROR property=%s cannot write evidence: %v\n", spec.ID, err)
			return 3
		}
	}
	// print
	fmt.Printf("property=%s tier=%s rules=%d obligations=%d discharged=%d violated=%d known=%d undecided=%d functions=%d wall=%.1fs\n",
		spec.ID, c.Tier, len(rules), len(c.obls), discharged, violated, knownHit, undecided, len(fnames), time.Since(start).Seconds())
	for _, r := range rules {
		fmt.Printf("  rule %-7s instances=%-3d floor=%d  %s\n", r.ID, r.Instances, r.Floor, r.Text)
	}
	for _, o := range c.obls {
		if o.Known {
			k := openKnown[o.Key]
			fmt.Printf("KNOWN-FINDING: property=%s %s | %s | %s\n", spec.ID, o.Key, o.Pos, k.What)
		}
	}
	exit := 0
	if len(vio) > 0 {
		exit = 1
		for _, o := range vio {
			path := ""
			if findingsDir != "" {
				dir := filepath.Join(findingsDir, spec.ID)
				_ = os.MkdirAll(dir, 0o755)
				path = filepath.Join(dir, hashKey(o.Key)+".json")
				data, _ := json.MarshalIndent(map[string]any{"property": spec.ID, "obligation": o}, "", " ")
				_ = os.WriteFile(path, append(data, '\n'), 0o644)
			}
			fmt.Printf("VIOLATION property=%s replay=%s\n", spec.ID, path)
			fmt.Printf("  %s: %s: %s\n", o.Pos, o.Key, o.What)
			for _, f := range o.Facts {
				fmt.Printf("      %s\n", f)
			}
		}
	}
	if undecided > 0 || len(floorErrs) > 0 {
		for _, e := range floorErrs {
			fmt.Printf("CHECKER-ERROR property=%s %s\n", spec.ID, e)
		}
		for _, o := range c.obls {
			if o.Status == Undecided {
				fmt.Printf("CHECKER-ERROR property=%s undecided %s: %s: %s\n", spec.ID, o.Pos, o.Key, o.What)
			}
		}
		if exit == 0 {
			exit = 3
		}
	}
	return exit
}

func archOr(a string) string {
	if a == "" {
		return "amd64"
	}
	return a
}

func callGraphKind(p *Prog) string {
	if p.UseVTA {
		return "static+CHA(module)+VTA"
	}
	return "static+CHA(module)+signature-matched function values"
}

func countEdges(p *Prog) int {
	n := 0
	for _, es := range p.callees {
		n += len(es)
	}
	return n
}

func seedFromEnv() int {
	var s int
	fmt.Sscanf(os.Getenv("VERIF_SEED"), "%d", &s)
	return s
}

func joinFacts(fs []Fact, p *Prog) []string {
	var out []string
	for _, f := range fs {
		out = append(out, fmt.Sprintf("%v=%v", strings.TrimSpace(f.Cond.String()), f.Truth))
	}
	return out
}

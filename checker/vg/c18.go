package vg

import (
	"go/token"
	"go/types"
	"net/textproto"
	"regexp"
	"sort"
	"strconv"
	"strings"

	"golang.org/x/tools/go/ssa"
)

func init() {
	register(&PropertySpec{
		ID: "C18",
		Explanation: "Decides, for every path of the SSA control-flow graphs of Transcoder.ServeHTTP and the functions it calls: " +
			"(C18.1) handler dispatch instructions (any invoke of net/http.Handler.ServeHTTP or call of a handler-shaped function value) exist only in functions reachable from ServeHTTP, never in a loop, and no path contains two dispatch events; " +
			"(C18.2) no dispatch event is reachable from a call of the setup-error reporter nor precedes one, nothing reachable from validate or the error reporters dispatches, and every dispatch in ServeHTTP is dominated by 'validate returned nil' or by 'error is the not-found sentinel and an unknown handler is configured'; " +
			"(C18.3) the cancel function deferred before any dispatch is the one paired (same context.WithCancel call) with the context attached to the request that every dispatch passes on, and those cells are written only by the constructor; " +
			"(C18.4) no go statement / timer callback exists in shipped code and the response-writer finaliser is deferred before the dispatch. " +
			"Not decided: what a handler itself does after it returns, behaviour inside net/http.",
		Assumptions: []string{
			"net/http calls ServeHTTP once per request; context.WithCancel/WithContext behave as documented",
			"call graph: static + class-hierarchy over module types + signature-matched function values (thorough: cross-checked with VTA)",
		},
		Run: runC18,
	})
}

// isHandlerDispatch reports whether the call hands a request to an http.Handler.
func isHandlerDispatch(c ssa.CallInstruction) bool {
	cc := c.Common()
	if cc.IsInvoke() {
		if N(cc.Method) != "ServeHTTP" {
			return false
		}
		return isHandlerSig(cc.Method.Type().(*types.Signature))
	}
	if sc := cc.StaticCallee(); sc != nil {
		if N(sc) == "ServeHTTP" && sc.Signature.Recv() != nil && isHandlerSig(sc.Signature) {
			return true
		}
		return false
	}
	if _, ok := cc.Value.(*ssa.Builtin); ok {
		return false
	}
	if sig, ok := cc.Value.Type().Underlying().(*types.Signature); ok {
		return isHandlerSig(sig)
	}
	return false
}

func isHandlerSig(sig *types.Signature) bool {
	if sig.Params().Len() != 2 || sig.Results().Len() != 0 {
		return false
	}
	return types.TypeString(sig.Params().At(0).Type(), nil) == "net/http.ResponseWriter" &&
		types.TypeString(sig.Params().At(1).Type(), nil) == "*net/http.Request"
}

// serveHTTP locates the transcoder entry point structurally: the method named
// ServeHTTP with handler signature on the type NewTranscoder returns.
func serveHTTP(p *Prog) *ssa.Function {
	nt := p.MustFunc("NewTranscoder")
	res := nt.Signature.Results()
	if res.Len() < 1 {
		fatalf("anchor=NewTranscoder: no results")
	}
	fn := p.MethodOf(res.At(0).Type(), "ServeHTTP")
	if fn == nil || !isHandlerSig(fn.Signature) {
		fatalf("anchor=ServeHTTP: the type returned by NewTranscoder has no http.Handler method")
	}
	return fn
}

// entryBody is the function that carries the entry point's decision logic: ServeHTTP itself, or -
// when its body was moved into a helper that only ServeHTTP calls ("split the long function") -
// that helper.  It is found by role: the function that calls the request validator.
func entryBody(p *Prog) *ssa.Function {
	entry := serveHTTP(p)
	validate := p.Func("(*operation).validate")
	if validate == nil {
		return entry
	}
	cur := entry
	for depth := 0; depth < 3; depth++ {
		callsValidate := false
		var next *ssa.Function
		for _, call := range Calls(cur) {
			for _, cal := range p.CalleesAt(call) {
				if cal == validate {
					callsValidate = true
				}
				if cal != validate && p.inScope(cal) && len(cal.Blocks) > 0 && p.OnlyCalledWithin(cal, cur) && p.Reach(cal)[validate] {
					next = cal
				}
			}
		}
		if callsValidate || next == nil {
			return cur
		}
		cur = next
	}
	return cur
}

// dispatchers computes the set D of module functions that may (transitively)
// dispatch to a handler, and the direct dispatch instructions.
func dispatchers(p *Prog) (map[*ssa.Function]bool, map[*ssa.Function][]ssa.CallInstruction) {
	direct := map[*ssa.Function][]ssa.CallInstruction{}
	for _, fn := range p.Funcs {
		for _, c := range Calls(fn) {
			if isHandlerDispatch(c) {
				direct[fn] = append(direct[fn], c)
			}
		}
	}
	D := map[*ssa.Function]bool{}
	var work []*ssa.Function
	for fn := range direct {
		D[fn] = true
		work = append(work, fn)
	}
	for len(work) > 0 {
		f := work[len(work)-1]
		work = work[:len(work)-1]
		for _, e := range p.Callers(f) {
			if !p.inScope(e.Caller) {
				continue // examples and generated code are clients of the library, not part of it
			}
			if !D[e.Caller] {
				D[e.Caller] = true
				work = append(work, e.Caller)
			}
		}
		if par := f.Parent(); par != nil && !D[par] {
			// a closure that dispatches taints its creator
			D[par] = true
			work = append(work, par)
		}
	}
	return D, direct
}

// dispatchEvents lists, for fn, the instructions that are dispatch events: direct
// dispatches and calls whose callee may dispatch.
func dispatchEvents(p *Prog, fn *ssa.Function, D map[*ssa.Function]bool) []ssa.CallInstruction {
	var out []ssa.CallInstruction
	for _, c := range Calls(fn) {
		if isHandlerDispatch(c) {
			out = append(out, c)
			continue
		}
		for _, callee := range p.CalleesAt(c) {
			if D[callee] {
				out = append(out, c)
				break
			}
		}
	}
	return out
}

func runC18(c *Ctx) {
	// clause shared with C07: a value that does not fill the template is a rejection, not a dispatch
	defer c.ImportRules("C07", "C07.5")
	p := c.P
	defer runC18MediaTypeNotPrefix(c)
	// clauses this property shares with others (see DESIGN.md section 6a)
	defer c.ImportRules("C09", "C09.1")
	defer c.ImportRules("C12", "C12.5")
	defer c.ImportRules("C12", "C12.7")
	entry := serveHTTP(p)
	D, direct := dispatchers(p)
	reach := p.Reach(entry)

	// ---- C18.1
	c.Rule("C18.1", "dispatch sites exist only under ServeHTTP, not in loops, and no path holds two dispatch events", 2)
	for _, fn := range SortedFuncs(D) {
		for _, d := range direct[fn] {
			c.CountSite()
			c.Check(reach[fn], "C18.1", FuncName(fn), "dispatch-site:"+CalleeName(d), d.Pos(),
				"handler dispatch is in a function reachable from Transcoder.ServeHTTP",
				"handler dispatch in a function that is not reachable from Transcoder.ServeHTTP: a request could be dispatched outside the one-dispatch discipline")
		}
		evs := dispatchEvents(p, fn, D)
		for _, e1 := range evs {
			isEv := func(in ssa.Instruction) bool {
				for _, e2 := range evs {
					if in == ssa.Instruction(e2) {
						return true
					}
				}
				return false
			}
			found, path := MayReach(fn, e1, isEv)
			_, isDefer := e1.(*ssa.Defer)
			_, isGo := e1.(*ssa.Go)
			if isDefer || isGo {
				c.Bad("C18.1", FuncName(fn), "deferred-or-async-dispatch:"+CalleeName(e1), e1.Pos(),
					"handler dispatch is deferred or started as a goroutine: it may run in addition to / after another dispatch")
				continue
			}
			c.Check(!found, "C18.1", FuncName(fn), "single-dispatch:"+CalleeName(e1), e1.Pos(),
				"no second dispatch event is reachable after this one on any path (loops included)",
				"a second dispatch event is reachable after this one: "+witnessString(p, path))
		}
	}
	// roots of D: functions in D without module callers must be the entry point only.
	for _, fn := range SortedFuncs(D) {
		if len(p.Callers(fn)) == 0 && fn.Parent() == nil {
			c.Check(fn == entry, "C18.1", FuncName(fn), "dispatch-root", fn.Pos(),
				"the only call-graph root that can dispatch is Transcoder.ServeHTTP",
				"a function other than Transcoder.ServeHTTP can dispatch to handlers without being called from it")
		}
	}

	// ---- C18.2
	c.Rule("C18.2", "a rejected request is never dispatched (reporter/validation cannot reach a dispatch; dispatch guarded by validation result)", 4)
	opReport := p.MustFunc("(*operation).reportError")
	rwReport := p.MustFunc("(*responseWriter).reportError")
	validate := p.MustFunc("(*operation).validate")
	for _, root := range []*ssa.Function{opReport, rwReport, validate} {
		bad := ""
		for fn := range p.Reach(root) {
			if len(direct[fn]) > 0 {
				bad = FuncName(fn)
			}
		}
		c.Check(bad == "", "C18.2", FuncName(root), "reach-no-dispatch", root.Pos(),
			"no function reachable from it contains a handler dispatch",
			"a handler dispatch is reachable from it (via "+bad+"): a request being rejected/validated could reach a handler")
	}
	isOpReport := func(in ssa.Instruction) bool {
		ci, ok := in.(ssa.CallInstruction)
		if !ok {
			return false
		}
		for _, cal := range p.CalleesAt(ci) {
			if cal == opReport {
				return true
			}
		}
		return false
	}
	for _, fn := range SortedFuncs(D) {
		evs := dispatchEvents(p, fn, D)
		isEv := func(in ssa.Instruction) bool {
			for _, e2 := range evs {
				if in == ssa.Instruction(e2) {
					return true
				}
			}
			return false
		}
		for _, call := range Calls(fn) {
			// the operation's reporter, and (seed C18l) the response writer's reporter called by the
			// dispatching function itself: once the client has been answered with an error, the
			// function must not go on to invoke the handler
			isRw := false
			if _, isDefer := call.(*ssa.Defer); !isDefer {
				for _, cal := range p.CalleesAt(call) {
					if cal == rwReport {
						isRw = true
					}
				}
			}
			if !isOpReport(call) && !isRw {
				continue
			}
			c.CountSite()
			found, path := MayReach(fn, call, isEv)
			c.Check(!found, "C18.2", FuncName(fn), "after-reject", call.Pos(),
				"no dispatch event is reachable after this setup-error report",
				"a dispatch event is reachable after the request was rejected: "+witnessString(p, path))
		}
		for _, e := range evs {
			found, path := MayReach(fn, e, isOpReport)
			c.Check(!found, "C18.2", FuncName(fn), "reject-after-dispatch:"+CalleeName(e), e.Pos(),
				"the setup-error reporter is never called after a dispatch",
				"the setup-error reporter can run after a handler was dispatched: "+witnessString(p, path))
		}
	}
	// guard of the dispatches in the entry point
	var valCall *ssa.Call
	body := entryBody(p)
	for _, call := range Calls(body) {
		for _, cal := range p.CalleesAt(call) {
			if cal == validate {
				if cv, ok := call.(*ssa.Call); ok {
					valCall = cv
				}
			}
		}
	}
	if valCall == nil {
		fatalf("anchor=validate call in ServeHTTP not found")
	}
	notFound := p.Global("errNotFound")
	if notFound == nil {
		fatalf("anchor=errNotFound global not found")
	}
	unknownFld := p.MustField("Transcoder", "unknownHandler")
	for _, e := range dispatchEvents(p, body, D) {
		facts := FactsAt(e.Block())
		errNil, isNF, hasUnknown := false, false, false
		var used []string
		for _, f := range facts {
			if cmp, ok := f.AsCmp(); ok {
				if cmp.Op == token.EQL && (cmp.X == ssa.Value(valCall) && IsNilConst(cmp.Y) || cmp.Y == ssa.Value(valCall) && IsNilConst(cmp.X)) {
					errNil = true
					used = append(used, "validate()==nil")
				}
				if cmp.Op == token.NEQ && (IsNilConst(cmp.Y) && LoadedField(cmp.X) == unknownFld || IsNilConst(cmp.X) && LoadedField(cmp.Y) == unknownFld) {
					hasUnknown = true
					used = append(used, "unknownHandler!=nil")
				}
			}
			if call, ok := f.Cond.(*ssa.Call); ok && f.Truth && IsCallTo(call, "errors.Is") {
				a0, a1 := call.Call.Args[0], call.Call.Args[1]
				if a0 == ssa.Value(valCall) && originIsGlobal(a1, notFound) {
					isNF = true
					used = append(used, "errors.Is(validate(), errNotFound)")
				}
			}
		}
		ok := errNil || (isNF && hasUnknown)
		// the dispatch must be after the validate call at all
		ok = ok && valCall.Block().Dominates(e.Block())
		c.Check(ok, "C18.2", FuncName(body), "guard:"+CalleeName(e), e.Pos(),
			"dispatch is dominated by a successful validation or by the not-found sentinel with an unknown handler configured",
			"dispatch is reachable although validation failed (neither 'validate()==nil' nor 'not-found and unknownHandler!=nil' dominates it)", used...)
	}

	// ---- C18.3
	c.Rule("C18.3", "the deferred cancel is paired with the context every dispatch passes on; cells written only by the constructor", 5)
	opT := p.MustNamed("operation")
	cancelFld := p.MustField("operation", "cancel")
	reqFld := p.MustField("operation", "request")
	newOp := p.MustFunc("(*Transcoder).newOperation")
	// (a) deferred cancel in entry, before any dispatch event, dominating all exits
	var deferCancel *ssa.Defer
	var opVal ssa.Value
	ForEachInstr(entry, func(in ssa.Instruction) {
		if d, ok := in.(*ssa.Defer); ok && !d.Call.IsInvoke() {
			if LoadedField(d.Call.Value) == cancelFld {
				deferCancel = d
				if u, ok := d.Call.Value.(*ssa.UnOp); ok {
					opVal = u.X.(*ssa.FieldAddr).X
				}
			}
		}
	})
	if deferCancel == nil {
		c.Bad("C18.3", FuncName(entry), "defer-cancel", entry.Pos(), "ServeHTTP does not defer the operation's cancel function: the context handed to the handler is not released on every exit (including panics)")
	} else {
		// dominates all returns
		domAll := true
		ForEachInstr(entry, func(in ssa.Instruction) {
			if IsExit(in) && in.Block() != entry.Recover && !deferCancel.Block().Dominates(in.Block()) {
				domAll = false
			}
		})
		c.Check(domAll, "C18.3", FuncName(entry), "defer-cancel-dominates-exits", deferCancel.Pos(),
			"deferred cancel dominates every exit of ServeHTTP", "an exit of ServeHTTP is not dominated by the deferred cancel")
		isEv := func(in ssa.Instruction) bool {
			for _, e := range dispatchEvents(p, entry, D) {
				if in == ssa.Instruction(e) {
					return true
				}
			}
			return false
		}
		found, path := PathQuery{Target: isEv, Avoid: func(in ssa.Instruction) bool { return in == ssa.Instruction(deferCancel) }}.Search(entry, nil)
		c.Check(!found, "C18.3", FuncName(entry), "defer-cancel-before-dispatch", deferCancel.Pos(),
			"every path to a dispatch event passes the deferred cancel first",
			"a dispatch event is reachable without the cancel having been deferred: "+witnessString(p, path))
		// the operation value comes from the constructor
		fromCtor := false
		for _, l := range Origins(opVal) {
			if l.Kind == "call" {
				for _, cal := range p.CalleesAt(l.Call) {
					if cal == newOp {
						fromCtor = true
					}
				}
			}
		}
		c.Check(fromCtor, "C18.3", FuncName(entry), "operation-from-constructor", deferCancel.Pos(),
			"the operation whose cancel is deferred is the constructor's result", "the deferred cancel belongs to a value that is not the constructor's result")
	}
	// (b) constructor pairing
	var wc *ssa.Call
	ForEachInstr(newOp, func(in ssa.Instruction) {
		if call, ok := in.(*ssa.Call); ok && IsCallTo(call, "context.WithCancel") {
			wc = call
		}
	})
	if wc == nil {
		c.Bad("C18.3", FuncName(newOp), "with-cancel", newOp.Pos(), "constructor does not derive a cancellable context")
	} else {
		okCancel, okReq := false, false
		for _, st := range StoresToField(newOp, cancelFld) {
			for _, l := range Origins(st.Val) {
				if l.Kind == "call" && l.Call == ssa.CallInstruction(wc) && l.Index == 1 {
					okCancel = true
				}
			}
		}
		for _, st := range StoresToField(newOp, reqFld) {
			for _, l := range Origins(st.Val) {
				if l.Kind == "call" && IsCallTo(l.Call, "(*net/http.Request).WithContext") {
					for _, la := range Origins(l.Call.Common().Args[1]) {
						if la.Kind == "call" && la.Call == ssa.CallInstruction(wc) && la.Index == 0 {
							okReq = true
						}
					}
				}
			}
		}
		c.Check(okCancel, "C18.3", FuncName(newOp), "cancel-cell", wc.Pos(),
			"operation.cancel is the CancelFunc of the constructor's context.WithCancel", "operation.cancel is not the CancelFunc returned by the constructor's context.WithCancel")
		c.Check(okReq, "C18.3", FuncName(newOp), "request-cell", wc.Pos(),
			"operation.request carries the context of the same context.WithCancel", "operation.request does not carry the context derived by the same context.WithCancel whose cancel is stored")
	}
	// (c) cells written only in the constructor
	for _, fld := range []*types.Var{cancelFld, reqFld} {
		var writers []string
		for _, fn := range p.Funcs {
			if len(StoresToField(fn, fld)) > 0 && fn != newOp {
				writers = append(writers, FuncName(fn))
			}
		}
		c.Check(len(writers) == 0, "C18.3", "operation."+N(fld), "written-only-by-constructor", fld.Pos(),
			"field is stored only by the constructor", "field is also stored by: "+joinStr(writers))
	}
	_ = opT
	// (d) every direct dispatch passes operation.request
	for _, fn := range SortedFuncs(D) {
		for _, d := range direct[fn] {
			args := d.Common().Args
			req := args[len(args)-1]
			ok := false
			all := true
			for _, l := range Origins(req) {
				if l.Kind == "load" && l.Field == reqFld {
					ok = true
				} else {
					all = false
				}
			}
			c.Check(ok && all, "C18.3", FuncName(fn), "dispatch-request:"+CalleeName(d), d.Pos(),
				"the request handed to the handler is the operation's request (carrying the cancellable context)",
				"the request handed to the handler is not (only) operation.request: its context is not the one cancelled when ServeHTTP returns")
		}
	}

	// ---- C18.4
	c.Rule("C18.4", "nothing runs after return: no go statements / timers in shipped code; response finaliser deferred before dispatch", 2)
	nGo := 0
	for _, fn := range p.Funcs {
		ForEachInstr(fn, func(in ssa.Instruction) {
			switch x := in.(type) {
			case *ssa.Go:
				nGo++
				c.Bad("C18.4", FuncName(fn), "go-statement", x.Pos(), "goroutine started by the transcoder: it can read or write after ServeHTTP returned")
			case ssa.CallInstruction:
				if IsCallTo(x, "time.AfterFunc", "time.NewTimer", "time.NewTicker", "time.After", "time.Tick", "context.AfterFunc") {
					nGo++
					c.Bad("C18.4", FuncName(fn), "timer:"+CalleeName(x), x.Pos(), "timer/callback created by the transcoder: it can fire after ServeHTTP returned")
				}
			}
		})
	}
	if nGo == 0 {
		c.OK("C18.4", "*", "no-async", token.NoPos, "no go statement, timer or AfterFunc in any shipped function (enumerated "+itoa(len(p.Funcs))+" functions)")
	}
	defer runC18Signals(c)
	closeFn := p.MustFunc("(*responseWriter).close")
	for _, fn := range SortedFuncs(D) {
		// functions that install a *responseWriter as the writer must defer its close before dispatching
		installs := false
		ForEachInstr(fn, func(in ssa.Instruction) {
			if a, ok := in.(*ssa.Alloc); ok {
				if n, ok := a.Type().(*types.Pointer).Elem().(*types.Named); ok && N(n.Obj()) == "responseWriter" {
					installs = true
				}
			}
		})
		if !installs {
			continue
		}
		isDeferClose := func(in ssa.Instruction) bool {
			d, ok := in.(*ssa.Defer)
			if !ok {
				return false
			}
			for _, cal := range p.CalleesAt(d) {
				if cal == closeFn {
					return true
				}
				// a deferred closure every normal (non-panicking) path of which closes: the only
				// way round the call is a path that panics again (defect D52: no finalising
				// while the handler's panic unwinds)
				if cal.Parent() == fn || (p.inModule(cal) && cal.Parent() == nil) {
					isClose := func(in ssa.Instruction) bool {
						ci, ok := in.(ssa.CallInstruction)
						return ok && ci.Common().StaticCallee() == closeFn
					}
					if esc, _ := (PathQuery{Target: IsReturn, Avoid: isClose}).Search(cal, nil); !esc {
						return true
					}
				}
			}
			return false
		}
		for _, d := range direct[fn] {
			found, path := PathQuery{Target: func(in ssa.Instruction) bool { return in == ssa.Instruction(d) }, Avoid: isDeferClose}.Search(fn, nil)
			c.Check(!found, "C18.4", FuncName(fn), "finaliser-deferred-before-dispatch", d.Pos(),
				"every path to the dispatch passes 'defer responseWriter.close()' (final writes happen before ServeHTTP returns, also on panic)",
				"the dispatch is reachable without the response writer's close having been deferred: "+witnessString(p, path))
		}
	}
}

// runC18Signals: C18.5.  Validation rejects (no dispatch) on headers it reads after the client
// protocol's own header extraction.  An extraction may remove such a header only if it also
// interpreted it (read it as its own compression / metadata); removing it unread silences the
// rejection and the request is dispatched.
func runC18Signals(c *Ctx) {
	p := c.P
	c.Rule("C18.5", "a header validation still inspects after protocol extraction is removed by an extraction only if that extraction interpreted it", 5)
	validate := p.MustFunc("(*operation).validate")
	var extractCall ssa.Instruction
	for _, call := range Calls(validate) {
		cc := call.Common()
		if cc.IsInvoke() && N(cc.Method) == "extractProtocolRequestHeaders" {
			extractCall = call
		}
	}
	if extractCall == nil {
		c.Bad("C18.5", FuncName(validate), "extraction-call", validate.Pos(), "validation no longer calls the client protocol's header extraction: shape changed")
		return
	}
	// headers validation reads after the extraction
	signals := map[string]bool{}
	for _, call := range Calls(validate) {
		if !IsCallTo(call, "(net/http.Header).Get", "(net/http.Header).Values") {
			continue
		}
		k, ok := ConstString(call.Common().Args[1])
		if !ok {
			continue
		}
		after, _ := PathQuery{Target: func(in ssa.Instruction) bool { return in == ssa.Instruction(call) }}.Search(validate, extractCall)
		if after {
			signals[textproto.CanonicalMIMEHeaderKey(k)] = true
		}
	}
	var sigs []string
	for k := range signals {
		sigs = append(sigs, k)
	}
	sort.Strings(sigs)
	if len(sigs) == 0 {
		c.Bad("C18.5", FuncName(validate), "signals", validate.Pos(), "validation inspects no header after the protocol extraction (the Content-Encoding rejection is gone): shape changed")
		return
	}
	cph := p.Iface("clientProtocolHandler")
	for _, t := range p.Implementers(cph) {
		m := p.MethodOf(t, "extractProtocolRequestHeaders")
		if m == nil {
			fatalf("anchor=%s.extractProtocolRequestHeaders not found", typeName(t))
		}
		reads, dels := map[string]bool{}, map[string]token.Pos{}
		for _, fn := range SortedFuncs(p.Reach(m)) {
			if !p.inScope(fn) {
				continue
			}
			for _, call := range Calls(fn) {
				if IsCallTo(call, "(net/http.Header).Get", "(net/http.Header).Values") {
					if k, ok := ConstString(call.Common().Args[1]); ok {
						reads[textproto.CanonicalMIMEHeaderKey(k)] = true
					}
				}
			}
			ForEachInstr(fn, func(in ssa.Instruction) {
				// header[K] lookups count as reads
				if lk, ok := in.(*ssa.Lookup); ok && isHTTPHeader(lk.X.Type()) {
					if k, ok := ConstString(lk.Index); ok {
						reads[textproto.CanonicalMIMEHeaderKey(k)] = true
					}
				}
			})
			for _, hm := range HeaderMutations(fn) {
				if hm.Key == nil {
					// wholesale removal (clear / maps.DeleteFunc): removes every signal
					if hm.Op == "clear" || hm.Op == "builtin clear" || hm.Op == "maps.DeleteFunc" {
						for _, k := range sigs {
							dels[k] = hm.Instr.Pos()
						}
					}
					continue
				}
				if hm.Op != "Del" && hm.Op != "delete" {
					continue
				}
				if k, ok := ConstString(hm.Key); ok {
					dels[textproto.CanonicalMIMEHeaderKey(k)] = hm.Instr.Pos()
				}
			}
		}
		for _, k := range sigs {
			pos, deleted := dels[k]
			if !deleted {
				c.OK("C18.5", typeName(t), "keeps:"+k, m.Pos(), "the extraction leaves "+k+" in place for validation to judge")
				continue
			}
			c.Check(reads[k], "C18.5", typeName(t), "removes-only-interpreted:"+k, pos,
				"the extraction removes "+k+" after reading it as this protocol's own metadata",
				"the extraction removes "+k+" without reading it: validation's rejection of a request carrying "+k+" is silenced and the request is dispatched")
		}
	}
}

func originIsGlobal(v ssa.Value, g *ssa.Global) bool {
	for _, l := range Origins(v) {
		if l.Kind == "global" && l.V == ssa.Value(g) {
			return true
		}
	}
	return false
}

func joinStr(s []string) string {
	out := ""
	for i, x := range s {
		if i > 0 {
			out += ", "
		}
		out += x
	}
	return out
}

func itoa(i int) string { return strconv.Itoa(i) }

// runC18MediaTypeNotPrefix: C18.6 (seed C18i).  Which media types the middleware serves is a
// closed table; everything else is 415.  Each entry is either a family ("application/grpc+",
// "application/connect+", "application/": the constant ends in the separator) matched as a
// prefix, or one complete media type matched for equality after the parameters were cut off.
// Matching a COMPLETE media type as a prefix lets its longer cousins in ("application/json" also
// admits application/json-seq, application/jsonl, application/json5...): those bodies are then
// handed to the JSON codec and fail with 400, or - worse - parse.  Decided over every
// strings.HasPrefix / strings.Contains in the packages: a constant operand that is a complete
// media type (type "/" subtype, no trailing separator) is a violation.
func runC18MediaTypeNotPrefix(c *Ctx) {
	p := c.P
	c.Rule("C18.6", "a complete media type is matched for equality, only families are matched as prefixes", 3)
	complete := regexp.MustCompile(`^[a-z]+/[a-z0-9.\-]+$`)
	for _, fn := range p.Funcs {
		if !p.inScope(fn) {
			continue
		}
		for _, call := range Calls(fn) {
			if !IsCallTo(call, "strings.HasPrefix", "strings.Contains") {
				continue
			}
			k, ok := ConstString(call.Common().Args[1])
			if !ok || !strings.Contains(k, "/") {
				continue
			}
			c.Check(!complete.MatchString(k), "C18.6", FuncName(fn), "media-type-family-prefix|"+k, call.Pos(),
				"the prefix "+strconv.Quote(k)+" names a family (ends in its separator)",
				"the complete media type "+strconv.Quote(k)+" is matched as a prefix / substring: longer media types that merely begin with it ("+k+"-seq, "+k+"l, "+k+"5 ...) are accepted as if they were "+k+" instead of being answered with 415")
		}
	}
}

package vg

import (
	"go/token"
	"go/types"
	"sort"
	"strings"

	"golang.org/x/tools/go/ssa"
)

func init() {
	register(&PropertySpec{
		ID: "C20",
		Explanation: "Decides necessary structural clauses of schema-source independence: (C20.1) at each message-type lookup during method registration the protoregistry.NotFound edge installs a dynamicpb type built from the method's own descriptor and does not fail; the stored type can be either; " +
			"(C20.2) shipped code never assumes generated Go types for schema-derived values: no proto.GetExtension, no single-value type assertion of a value obtained from Options()/Interface()/Message(), the HTTP-rule accessor's dynamic branch re-marshals, and field descriptors handed to protoreflect.Message accessors never come from package-level (generated-type) descriptors; " +
			"(C20.3) the gRPC registry wrapper registers every service name of GetServiceInfo via NewService with the gRPC target protocol; " +
			"(C20.4) global (generated) types are chosen as resolver only when the service's file descriptor IS the registered one (identity) and every method's types are registered. " +
			"Not decided: that dynamic and generated messages transcode identically (a metamorphic property over all traffic).",
		Run: runC20,
	})
}

// runC20ComparableResolvers: C20.6 (defect D55).  TypeResolver values are documented to be
// comparable (usable as map keys) and codec factories memoise per resolver.  The resolver a
// service gets depends on how its schema was loaded (GlobalTypes for the generated one, a
// library-made fallback for a dynamically loaded one), so every concrete type the library itself
// converts to TypeResolver must be comparable - a slice type there makes every request to a
// dynamically loaded service panic ('hash of unhashable type') while the generated one works.
func runC20ComparableResolvers(c *Ctx) {
	p := c.P
	c.Rule("C20.6", "every value the library converts to TypeResolver has a comparable (hashable) dynamic type", 2)
	tr := p.MustNamed("TypeResolver")
	n := 0
	for _, fn := range p.Funcs {
		if !p.inScope(fn) {
			continue
		}
		ord := 0
		ForEachInstr(fn, func(in ssa.Instruction) {
			mi, ok := in.(*ssa.MakeInterface)
			if !ok || !types.Identical(mi.Type(), tr) {
				return
			}
			n++
			ord++
			construct := "resolver-comparable:" + aliasTypeString(types.TypeString(mi.X.Type(), shortQual))
			pos := mi.Pos()
			if !pos.IsValid() {
				pos = fn.Pos()
			}
			c.Check(types.Comparable(mi.X.Type()), "C20.6", FuncName(fn), construct, pos,
				"the dynamic type is comparable (pointer / struct of comparables)",
				"a value of type "+mi.X.Type().String()+" is used as a TypeResolver: the type is not comparable, so a codec factory that keys a map by resolver (as the TypeResolver contract allows) panics for every service that gets this resolver - behaviour then depends on how the schema was loaded")
		})
	}
	if n < 2 {
		c.Bad("C20.6", "package", "resolver-comparable", token.NoPos, "fewer than two conversions to TypeResolver found ("+itoa(n)+"): shape changed")
	}
}

// runC20FloatWidth: C20.7 (seed C20h).  protoreflect values are kind-strict for dynamic messages
// (a float64 Value assigned to a 32-bit float field panics in dynamicpb) while generated messages
// convert silently - so a width mix-up is invisible with generated code and crashes ServeHTTP for
// the same schema loaded dynamically.  In a function that produces float Values for a width given
// by a parameter (it compares that parameter with 32), every ValueOfFloat64 is made on a path that
// knows the width is not 32, and every ValueOfFloat32 on one that knows it is.
func runC20FloatWidth(c *Ctx) {
	p := c.P
	c.Rule("C20.7", "a float value is built with the width of its field (dynamic messages reject a float64 for a 32-bit field)", 1)
	n := 0
	for _, fn := range p.Funcs {
		if !p.inScope(fn) {
			continue
		}
		// the width parameter: an int parameter compared with the constant 32
		var width *ssa.Parameter
		ForEachInstr(fn, func(in ssa.Instruction) {
			if b, ok := in.(*ssa.BinOp); ok && (b.Op == token.EQL || b.Op == token.NEQ) {
				if k, isK := ConstInt(b.Y); isK && k == 32 {
					if pr, isP := b.X.(*ssa.Parameter); isP {
						width = pr
					}
				}
			}
		})
		if width == nil {
			continue
		}
		makes := false
		for _, call := range Calls(fn) {
			if IsCallTo(call, "google.golang.org/protobuf/reflect/protoreflect.ValueOfFloat64", "google.golang.org/protobuf/reflect/protoreflect.ValueOfFloat32") {
				makes = true
			}
		}
		if !makes {
			continue
		}
		n++
		paths, ok := EnumPaths(fn.Blocks[0], nil, IsReturn, 0)
		if !ok {
			c.Unknown("C20.7", FuncName(fn), "float-width", fn.Pos(), "too many paths")
			continue
		}
		bad := 0
		for _, cp := range paths {
			is32, known := false, false
			for cond, truth := range cp.Truth {
				if b, isB := cond.(*ssa.BinOp); isB && b.X == ssa.Value(width) {
					if k, isK := ConstInt(b.Y); isK && k == 32 {
						known = true
						is32 = (b.Op == token.EQL) == truth
					}
				}
			}
			for _, blk := range cp.Blocks {
				for _, in := range blk.Instrs {
					call, isCall := in.(ssa.CallInstruction)
					if !isCall {
						continue
					}
					w64 := IsCallTo(call, "google.golang.org/protobuf/reflect/protoreflect.ValueOfFloat64")
					w32 := IsCallTo(call, "google.golang.org/protobuf/reflect/protoreflect.ValueOfFloat32")
					if w64 && !(known && !is32) || w32 && !(known && is32) {
						bad++
					}
				}
			}
		}
		c.Check(bad == 0, "C20.7", FuncName(fn), "float-width", fn.Pos(),
			"every float Value is made on a path that knows the field's width and matches it",
			itoa(bad)+" path(s) build a float Value whose width is not the one the path knows for the field (a float64 Value for a 32-bit field): generated messages convert silently, dynamic messages panic ('assigning invalid type float64') - the same schema behaves differently depending on how it was loaded")
	}
	if n == 0 {
		c.Bad("C20.7", "package", "float-width", token.NoPos, "no width-parameterised float decoder found: shape changed")
	}
}

// runC20FieldPathsOnInstantiatedType: C20.8 (defect D67).  A route's body selectors and path
// variables are resolved to FieldDescriptors once, at registration, and used on request and
// response messages at request time.  Those messages are instances of methodConfig.requestType /
// responseType, which come from the service's type resolver - and a resolver may answer with a
// type whose descriptor is another *instance* than methodDesc.Input()/Output() (the same schema
// loaded twice).  protoreflect rejects a field descriptor of another instance with a panic
// ("mismatching field" / "field descriptor does not belong to this message").  So the message
// descriptor handed to the field-path resolver at registration is the Descriptor() of the
// instantiated type; the method descriptor's Input()/Output() may serve only where the path
// knows that type is not set.
func runC20FieldPathsOnInstantiatedType(c *Ctx) {
	p := c.P
	c.Rule("C20.8", "route field paths are resolved against the descriptor of the message type that will be instantiated", 2)
	res := p.MustFunc("resolvePathToFieldDescriptors")
	mk := p.MustFunc("makeTarget")
	reqTF := p.MustField("methodConfig", "requestType")
	respTF := p.MustField("methodConfig", "responseType")
	n := 0
	for _, fn := range SortedFuncs(p.Reach(mk)) {
		if !p.inScope(fn) {
			continue
		}
		ord := 0
		for _, call := range Calls(fn) {
			if call.Common().StaticCallee() != res {
				continue
			}
			n++
			ord++
			construct := "field-path-descriptor"
			if ord > 1 {
				construct += "|#" + itoa(ord)
			}
			// every origin of the descriptor argument: Descriptor() of the instantiated type, or
			// Input()/Output() of the method descriptor on an edge that knows the type is nil
			var bad []string
			var walk func(v ssa.Value, facts []Fact, depth int)
			walk = func(v ssa.Value, facts []Fact, depth int) {
				if depth > 5 {
					bad = append(bad, "unresolved")
					return
				}
				if ph, ok := v.(*ssa.Phi); ok {
					for i, e := range ph.Edges {
						walk(e, FactsOnEdge(ph.Block().Preds[i], ph.Block()), depth+1)
					}
					return
				}
				// handed in by the callers, or handed up by a helper (refactoring B25_r1:
				// targetMessageDescriptors / makeTargetVars)
				if prm, isPrm := v.(*ssa.Parameter); isPrm {
					idx := -1
					for i, q := range prm.Parent().Params {
						if q == prm {
							idx = i
						}
					}
					edges := p.Callers(prm.Parent())
					if idx < 0 || len(edges) == 0 {
						bad = append(bad, "parameter without call sites")
						return
					}
					for _, e := range edges {
						if e.Kind != "static" || e.Site == nil || idx >= len(e.Site.Common().Args) {
							bad = append(bad, "parameter with a dynamic call site")
							return
						}
						walk(e.Site.Common().Args[idx], FactsAt(e.Site.Block()), depth+1)
					}
					return
				}
				if ex, isEx := v.(*ssa.Extract); isEx {
					if hc, isCall := ex.Tuple.(*ssa.Call); isCall {
						if g := hc.Call.StaticCallee(); g != nil && p.inScope(g) && len(g.Blocks) > 0 {
							nRet := 0
							ForEachInstr(g, func(in ssa.Instruction) {
								ret, isRet := in.(*ssa.Return)
								if !isRet {
									return
								}
								rv := ReturnValues(ret)
								if ex.Index < len(rv) {
									nRet++
									walk(rv[ex.Index], FactsAt(ret.Block()), depth+1)
								}
							})
							if nRet > 0 {
								return
							}
						}
					}
				}
				cv, ok := v.(*ssa.Call)
				if !ok || !cv.Call.IsInvoke() {
					bad = append(bad, "not a descriptor accessor: "+v.String())
					return
				}
				switch N(cv.Call.Method) {
				case "Descriptor":
					f := LoadedField(cv.Call.Value)
					if f != reqTF && f != respTF {
						bad = append(bad, "Descriptor() of something other than the instantiated request/response type")
					}
				case "Input", "Output":
					knowsNil := false
					for _, f := range facts {
						if cmp, isCmp := f.AsCmp(); isCmp && cmp.Op == token.EQL && IsNilConst(cmp.Y) {
							if lf := LoadedField(cmp.X); lf == reqTF || lf == respTF {
								knowsNil = true
							}
						}
					}
					if !knowsNil {
						bad = append(bad, "the method descriptor's "+N(cv.Call.Method)+"() is used although the instantiated type may be set")
					}
				default:
					bad = append(bad, "unexpected accessor "+N(cv.Call.Method))
				}
			}
			walk(call.Common().Args[0], FactsAt(call.Block()), 0)
			sort.Strings(bad)
			c.Check(len(bad) == 0, "C20.8", FuncName(fn), construct, call.Pos(),
				"the field path is resolved against requestType/responseType.Descriptor() (the method descriptor only where that type is known to be unset)",
				"a route's field path is resolved against a message descriptor that need not be the instance the request/response messages are made of ("+joinStr(bad)+"): with a resolver that supplies its own instance of the same schema, every REST call that binds a variable or body field panics in ServeHTTP ('mismatching field')")
		}
	}
	if n < 2 {
		c.Bad("C20.8", FuncName(mk), "field-path-descriptor", mk.Pos(), "fewer than two field-path resolutions under makeTarget ("+itoa(n)+"): shape changed")
	}
}

// runC20FallbackResolver: C20.9 and C20.10 (seeds C20j, C04i).  The resolver of a dynamically
// loaded service is a chain: the types of the service's own files first, the global registry as
// fall-back (error details, Any payloads and extensions of types the service's files do not
// import).  (C20.9) Each method of the chain asks every member the SAME question - a 'simplified'
// FindMessageByURL that re-implements URL parsing and calls FindMessageByName behaves differently
// from the generated-code path, which uses the registry's own URL handling.  (C20.10) Where the
// bespoke resolver is built, the dynamic registry is wrapped in the chain together with the
// global registry; returning the bare dynamic registry makes error details of other packages
// unresolvable for dynamically loaded services only.
func runC20FallbackResolver(c *Ctx) {
	p := c.P
	c.Rule("C20.9", "every method of the fallback resolver delegates to the same method of its members", 1)
	fb := p.MustNamed("fallbackResolver")
	n := 0
	for _, fn := range p.Funcs {
		if !p.inScope(fn) || fn.Signature.Recv() == nil || fn.Synthetic != "" {
			continue
		}
		rt := fn.Signature.Recv().Type()
		if pt, ok := rt.(*types.Pointer); ok {
			rt = pt.Elem()
		}
		if !types.Identical(rt, fb) || !strings.HasPrefix(N(fn), "Find") {
			continue
		}
		n++
		same, other := false, ""
		for _, call := range Calls(fn) {
			cc := call.Common()
			name := ""
			if cc.IsInvoke() {
				name = N(cc.Method)
			} else if sc := cc.StaticCallee(); sc != nil && sc.Signature.Recv() != nil {
				name = N(sc)
			}
			if !strings.HasPrefix(name, "Find") {
				continue
			}
			if name == N(fn) && cc.IsInvoke() {
				same = true
			} else {
				other = name
			}
		}
		c.Check(same && other == "", "C20.9", FuncName(fn), "delegates-same-question", fn.Pos(),
			"asks each member of the chain the same question ("+N(fn)+")",
			"this method of the fallback resolver does not simply ask its members the same question (it calls "+other+"): type URLs / names are then interpreted differently for dynamically loaded services than by the global registry that generated services use")
	}
	if n == 0 {
		c.Bad("C20.9", "fallbackResolver", "delegates-same-question", token.NoPos, "no Find* method on the fallback resolver: shape changed")
	}
	// C20.12 (seed C20m): protobuf-go asks a resolver and compares the answer with the
	// sentinel by IDENTITY (`err != protoregistry.NotFound` in proto/decode.go and
	// protojson/decode.go): only the sentinel itself means 'unknown extension, keep it as an
	// unknown field'; anything else - also an error that merely WRAPS the sentinel - aborts the
	// decode.  The global registry that generated services use returns the sentinel itself, so the
	// fallback resolver of dynamically loaded services has to as well: every error its Find*
	// methods return is nil, protoregistry.NotFound, or the error a member returned - unchanged.
	c.Rule("C20.12", "the fallback resolver answers 'not found' with the registry's own sentinel or a member's error, never a new or wrapping error", 1)
	n12 := 0
	for _, fn := range p.Funcs {
		if !p.inScope(fn) || fn.Signature.Recv() == nil || fn.Synthetic != "" {
			continue
		}
		rt := fn.Signature.Recv().Type()
		if pt, ok := rt.(*types.Pointer); ok {
			rt = pt.Elem()
		}
		if !types.Identical(rt, fb) || !strings.HasPrefix(N(fn), "Find") {
			continue
		}
		ei := fn.Signature.Results().Len() - 1
		ForEachInstr(fn, func(in ssa.Instruction) {
			ret, ok := in.(*ssa.Return)
			if !ok {
				return
			}
			rv := ReturnValues(ret)
			if ei < 0 || ei >= len(rv) {
				return
			}
			n12++
			bad := ""
			for _, l := range p.OriginsDeep(rv[ei]) {
				switch {
				case l.Kind == "const", l.Kind == "nil":
				case l.Kind == "global" && N(l.V) == "NotFound":
				case l.Kind == "load" && strings.HasSuffix(l.Path, "NotFound"):
				case l.Kind == "call" && l.Call.Common().IsInvoke() && strings.HasPrefix(N(l.Call.Common().Method), "Find"):
				default:
					bad = l.String()
				}
			}
			c.Check(bad == "", "C20.12", FuncName(fn), "not-found-is-the-sentinel-itself", ret.Pos(),
				"the returned error is nil, the registry's sentinel or a member's own error",
				"this return of the fallback resolver can yield an error made here ("+bad+"): protobuf-go recognises 'not found' by identity, so a payload with an unregistered extension or \"[pkg.ext]\" key fails for dynamically loaded services while generated ones treat it as an unknown field")
		})
	}
	if n12 == 0 {
		c.Bad("C20.12", "fallbackResolver", "not-found-is-the-sentinel-itself", token.NoPos, "no Find* method on the fallback resolver: shape changed")
	}
	c.Rule("C20.10", "a bespoke resolver built from the service's files falls back to the global registry", 1)
	nB := 0
	for _, fn := range p.Funcs {
		if !p.inScope(fn) {
			continue
		}
		for _, call := range Calls(fn) {
			if !IsCallTo(call, "google.golang.org/protobuf/types/dynamicpb.NewTypes") {
				continue
			}
			nB++
			// the registry must end up as an element of a fallbackResolver literal that also holds GlobalTypes
			ok := false
			var walk func(v ssa.Value, depth int)
			walk = func(v ssa.Value, depth int) {
				if depth > 6 || v.Referrers() == nil {
					return
				}
				for _, ref := range *v.Referrers() {
					switch r := ref.(type) {
					case *ssa.MakeInterface:
						walk(r, depth+1)
					case *ssa.Store:
						// stored into an element of a backing array: look at the array's other stores
						if ia, isIA := r.Addr.(*ssa.IndexAddr); isIA {
							if al, isAl := ia.X.(*ssa.Alloc); isAl {
								for _, st := range storesToElems(al) {
									for _, l := range Origins(st) {
										if g, isG := globalOf(l.V); isG && g.Pkg != nil && g.Pkg.Pkg.Path() == "google.golang.org/protobuf/reflect/protoregistry" && g.Name() == "GlobalTypes" {
											ok = true
										}
									}
								}
							}
						}
					case *ssa.ChangeInterface, *ssa.ChangeType, *ssa.Slice:
						walk(r.(ssa.Value), depth+1)
					}
				}
			}
			walk(call.Value(), 0)
			c.Check(ok, "C20.10", FuncName(fn), "bespoke-resolver-falls-back-to-global", call.Pos(),
				"the dynamic registry of the service's files is chained with protoregistry.GlobalTypes",
				"the registry built from the service's files is used on its own, without the global registry as fall-back: for a dynamically loaded service, error details / Any payloads / extensions of types outside the service's imports cannot be resolved (REST errors degrade to 'failed to marshal end error'), while the same schema registered from generated code resolves them")
		}
	}
	if nB == 0 {
		c.Bad("C20.10", "package", "bespoke-resolver-falls-back-to-global", token.NoPos, "no dynamic type registry is built anywhere: shape changed")
	}
}

func runC20(c *Ctx) {
	defer runC20ComparableResolvers(c)
	defer runC20FallbackResolver(c)
	defer runC20StatusMarshalledWithResolver(c)
	defer runC20FieldPathsOnInstantiatedType(c)
	defer runC20FloatWidth(c)
	p := c.P

	// ---------------------------------------------------------------- C20.1
	c.Rule("C20.1", "unknown message types fall back to dynamic messages built from the method's own descriptor", 2)
	regMethod := p.MustFunc("(*Transcoder).registerMethod")
	// the lookups may sit in registerMethod or in a helper it calls
	var lookupFns []*ssa.Function
	for _, fn := range SortedFuncs(p.Reach(regMethod)) {
		if p.inScope(fn) && (fn == regMethod || p.OnlyCalledWithin(fn, regMethod)) {
			lookupFns = append(lookupFns, fn)
		}
	}
	// sameDescriptor: the same value, or the same accessor invoked on the same receiver
	sameDescriptor := func(a, b ssa.Value) bool {
		if a == b {
			return true
		}
		ca, okA := a.(*ssa.Call)
		cb, okB := b.(*ssa.Call)
		if okA && okB && ca.Call.IsInvoke() && cb.Call.IsInvoke() && N(ca.Call.Method) == N(cb.Call.Method) {
			return ca.Call.Value == cb.Call.Value || PathOf(ca.Call.Value) == PathOf(cb.Call.Value)
		}
		return false
	}
	for _, lf := range lookupFns {
		lf := lf
		for _, call := range Calls(lf) {
			cv, ok := call.(*ssa.Call)
			if !ok || !cv.Call.IsInvoke() || N(cv.Call.Method) != "FindMessageByName" {
				continue
			}
			c.CountSite()
			var errVal ssa.Value
			for _, ref := range *cv.Referrers() {
				if ex, ok := ref.(*ssa.Extract); ok && ex.Index == 1 {
					errVal = ex
				}
			}
			// the descriptor whose FullName() is looked up
			var desc ssa.Value
			accessor := "descriptor"
			for _, l := range Origins(cv.Call.Args[0]) {
				if l.Kind == "call" && l.Call.Common().IsInvoke() && N(l.Call.Common().Method) == "FullName" {
					desc = l.Call.Common().Value
					if dc, ok := desc.(*ssa.Call); ok && dc.Call.IsInvoke() {
						accessor = N(dc.Call.Method)
					}
				}
			}
			var isCall *ssa.Call
			if errVal != nil {
				for _, ref := range *errVal.Referrers() {
					if ic, ok := ref.(*ssa.Call); ok && IsCallTo(ic, "errors.Is") {
						if g, ok := ic.Call.Args[1].(*ssa.UnOp); ok {
							if gl, ok := g.X.(*ssa.Global); ok && N(gl) == "NotFound" {
								isCall = ic
							}
						}
					}
				}
			}
			if isCall == nil {
				c.Bad("C20.1", FuncName(lf), "notfound-tested:"+accessor, cv.Pos(), "the type lookup's error is not tested against protoregistry.NotFound: an unknown type fails registration instead of falling back to a dynamic message")
				continue
			}
			var iff *ssa.If
			for _, ref := range *isCall.Referrers() {
				if i2, ok := ref.(*ssa.If); ok {
					iff = i2
				}
			}
			if iff == nil {
				c.Bad("C20.1", FuncName(lf), "notfound-branch:"+accessor, cv.Pos(), "the NotFound test does not control a branch")
				continue
			}
			isDyn := func(in ssa.Instruction) bool {
				dc, ok := in.(*ssa.Call)
				if !ok || !IsCallTo(dc, "google.golang.org/protobuf/types/dynamicpb.NewMessageType") {
					return false
				}
				return desc != nil && sameDescriptor(dc.Call.Args[0], desc)
			}
			succ := iff.Block().Succs[0]
			okDyn := len(succ.Instrs) > 0 && (isDyn(succ.Instrs[0]) || func() bool {
				ok, _ := MustPassToExit(lf, succ.Instrs[0], isDyn, IsReturn, nil)
				return ok
			}())
			// and no error return directly in the NotFound branch before the dynamic type is made
			c.Check(okDyn, "C20.1", FuncName(lf), "notfound-installs-dynamic:"+accessor, cv.Pos(),
				"on NotFound a dynamicpb message type of the very descriptor that was looked up is installed on every path",
				"on NotFound the looked-up type is not replaced by a dynamic message type of the same descriptor (registration fails or uses a wrong descriptor)")
		}
	}
	for _, fname := range []string{"requestType", "responseType"} {
		fld := p.MustField("methodConfig", fname)
		both := false
		for _, fn := range p.Funcs {
			for _, st := range StoresToField(fn, fld) {
				dyn, found := false, false
				for _, l := range p.OriginsDeep(st.Val) {
					if l.Kind == "call" && IsCallTo(l.Call, "google.golang.org/protobuf/types/dynamicpb.NewMessageType") {
						dyn = true
					}
					if l.Kind == "call" && l.Call.Common().IsInvoke() && N(l.Call.Common().Method) == "FindMessageByName" {
						found = true
					}
				}
				if dyn && found {
					both = true
				}
			}
		}
		c.Check(both, "C20.1", "methodConfig."+fname, "resolved-or-dynamic", fld.Pos(),
			"the stored type is the resolver's result or the dynamic fallback", "the stored message type cannot be the dynamic fallback (or cannot be the resolved type)")
	}

	// ---------------------------------------------------------------- C20.2
	c.Rule("C20.2", "no generated-type assumption on schema-derived values", 3)
	nBad := 0
	for _, fn := range p.Funcs {
		ForEachInstr(fn, func(in ssa.Instruction) {
			switch x := in.(type) {
			case ssa.CallInstruction:
				if IsCallTo(x, "google.golang.org/protobuf/proto.GetExtension") {
					nBad++
					c.Bad("C20.2", FuncName(fn), "proto.GetExtension", x.Pos(), "proto.GetExtension type-asserts to the generated Go type and panics on dynamically typed option values")
				}
				cc := x.Common()
				if cc.IsInvoke() && isNamed(cc.Value.Type(), "google.golang.org/protobuf/reflect/protoreflect", "Message") {
					switch N(cc.Method) {
					case "Get", "Set", "Has", "Clear", "Mutable", "NewField":
						c.CountSite()
						for _, l := range Origins(cc.Args[0]) {
							if l.Kind == "global" {
								nBad++
								c.Bad("C20.2", FuncName(fn), "foreign-descriptor:"+N(cc.Method), x.Pos(),
									"a field descriptor taken from a package-level variable ("+N(l.V)+") is used on a schema-derived message: for a dynamically loaded schema the descriptor does not belong to the message (panic / wrong field)")
							}
						}
					}
				}
			case *ssa.TypeAssert:
				if x.CommaOk {
					return
				}
				for _, l := range Origins(x.X) {
					if l.Kind == "call" && l.Call.Common().IsInvoke() {
						switch N(l.Call.Common().Method) {
						case "Options", "Interface", "Message", "ProtoReflect":
							nBad++
							c.Bad("C20.2", FuncName(fn), "single-value-assert", x.Pos(), "single-value type assertion on a schema-derived value ("+N(l.Call.Common().Method)+"()): panics when the schema was loaded dynamically")
						}
					}
				}
			}
		})
	}
	if nBad == 0 {
		c.OK("C20.2", "package", "no-generated-type-assumption", token.NoPos, "no proto.GetExtension, no single-value assertion on Options()/Interface()/Message() values, no package-level descriptors used on messages")
	}
	getRule := p.MustFunc("getHTTPRuleExtension")
	hasMarshal, hasUnmarshal, hasCommaOk := false, false, false
	for _, call := range Calls(getRule) {
		if IsCallTo(call, "google.golang.org/protobuf/proto.Marshal") {
			hasMarshal = true
		}
		if IsCallTo(call, "google.golang.org/protobuf/proto.Unmarshal") {
			hasUnmarshal = true
		}
	}
	ForEachInstr(getRule, func(in ssa.Instruction) {
		if ta, ok := in.(*ssa.TypeAssert); ok && ta.CommaOk {
			hasCommaOk = true
		}
	})
	c.Check(hasMarshal && hasUnmarshal && hasCommaOk, "C20.2", FuncName(getRule), "dynamic-branch-remarshals", getRule.Pos(),
		"the HTTP-rule accessor tests the generated type with comma-ok and otherwise re-marshals the dynamic value into the generated type",
		"the HTTP-rule accessor lacks the comma-ok test or the marshal/unmarshal fallback for dynamically typed options")
	// the re-marshal errors lead to (nil,false), not to a partially filled rule
	ForEachInstr(getRule, func(in ssa.Instruction) {
		ret, ok := in.(*ssa.Return)
		if !ok || len(ret.Results) != 2 {
			return
		}
		okFlag, isC := ConstBool(ret.Results[1])
		if isC && !okFlag {
			c.Check(IsNilConst(ret.Results[0]), "C20.2", FuncName(getRule), "failure-returns-nil", ret.Pos(),
				"a failed extraction returns no rule", "a failed extraction returns a rule value")
		}
	})

	// ---------------------------------------------------------------- C20.3
	c.Rule("C20.3", "the gRPC registry wrapper registers every service of GetServiceInfo through NewService with the gRPC target", 3)
	wrap := p.Func("vanguardgrpc.NewTranscoder")
	if wrap == nil {
		fatalf("anchor=vanguardgrpc.NewTranscoder not found")
	}
	var rng *ssa.Range
	ForEachInstr(wrap, func(in ssa.Instruction) {
		if r, ok := in.(*ssa.Range); ok {
			for _, l := range Origins(r.X) {
				if l.Kind == "call" && IsCallTo(l.Call, "(*google.golang.org/grpc.Server).GetServiceInfo") {
					rng = r
				}
			}
		}
	})
	if rng == nil {
		c.Bad("C20.3", "vanguardgrpc.NewTranscoder", "ranges-service-info", wrap.Pos(), "the wrapper does not iterate over the server's GetServiceInfo()")
	} else {
		okNew := false
		var newSvc *ssa.Call
		for _, call := range Calls(wrap) {
			cv, ok := call.(*ssa.Call)
			if !ok || cv.Call.StaticCallee() == nil || N(cv.Call.StaticCallee()) != "NewService" {
				continue
			}
			if rk, ok := rangeKeyOf(cv.Call.Args[0]); ok && rk == rng {
				if _, isParam := strip(cv.Call.Args[1]).(*ssa.Parameter); isParam {
					okNew, newSvc = true, cv
				}
			}
		}
		c.Check(okNew, "C20.3", "vanguardgrpc.NewTranscoder", "new-service-per-name", rng.Pos(),
			"every service name of the registry is registered via NewService(name, server)", "not every registry service name is passed to NewService with the server as handler")
		if newSvc != nil {
			// on every iteration path from the Next to the next Next, NewService is called (no filtering)
			var next *ssa.Next
			for _, ref := range *rng.Referrers() {
				if n, ok := ref.(*ssa.Next); ok {
					next = n
				}
			}
			if next != nil {
				okFlag := func(in ssa.Instruction) bool {
					ex, ok := in.(*ssa.Extract)
					return ok && ex.Tuple == ssa.Value(next) && ex.Index == 0
				}
				_ = okFlag
				found, path := PathQuery{Target: func(in ssa.Instruction) bool { return in == ssa.Instruction(next) }, Avoid: func(in ssa.Instruction) bool { return in == ssa.Instruction(newSvc) },
					EdgeOK: func(from *ssa.BasicBlock, succ int) bool {
						// leaving the loop (ok == false edge of the range's If) is not a skipped iteration
						return !(from == next.Block() && succ == 1)
					}}.Search(wrap, next)
				c.Check(!found, "C20.3", "vanguardgrpc.NewTranscoder", "no-service-skipped", next.Pos(),
					"no iteration skips the registration", "an iteration can skip NewService (a registry service is silently not served): "+witnessString(p, path))
			}
		}
		okProto := false
		for _, call := range Calls(wrap) {
			cv, ok := call.(*ssa.Call)
			if !ok || cv.Call.StaticCallee() == nil || N(cv.Call.StaticCallee()) != "WithTargetProtocols" {
				continue
			}
			for _, el := range sliceLiteralElems(cv.Call.Args[0]) {
				if k, isK := ConstInt(el); isK {
					if obj, ok := p.Lookup("ProtocolGRPC").(*types.Const); ok && obj.Val().ExactString() == itoa(int(k)) {
						okProto = true
					}
				}
			}
		}
		c.Check(okProto, "C20.3", "vanguardgrpc.NewTranscoder", "target-grpc", wrap.Pos(),
			"the wrapped services target the gRPC protocol", "the wrapped services are not configured with the gRPC target protocol")
		// the wrapper's built-in defaults come FIRST, the caller's options after them, so that the
		// caller's defaults win exactly as they would for services registered by name
		var optsParam *ssa.Parameter
		for _, prm := range wrap.Params {
			if sl, ok := prm.Type().Underlying().(*types.Slice); ok {
				if nm, ok := sl.Elem().(*types.Named); ok && N(nm.Obj()) == "TranscoderOption" {
					optsParam = prm
				}
			}
		}
		okOrder, nCalls := false, 0
		for _, call := range Calls(wrap) {
			cv, ok := call.(*ssa.Call)
			if !ok || cv.Call.StaticCallee() == nil || N(cv.Call.StaticCallee()) != "NewTranscoder" || len(cv.Call.Args) < 2 {
				continue
			}
			nCalls++
			// the options value: append(<built-ins...>, opts...)
			if ap, ok := strip(cv.Call.Args[1]).(*ssa.Call); ok {
				if b, isB := ap.Call.Value.(*ssa.Builtin); isB && b.Name() == "append" && len(ap.Call.Args) == 2 {
					if optsParam != nil && strip(ap.Call.Args[1]) == ssa.Value(optsParam) {
						// and what precedes is not the caller's slice itself
						if strip(ap.Call.Args[0]) != ssa.Value(optsParam) {
							okOrder = true
						}
					}
				}
			}
		}
		if optsParam != nil && nCalls > 0 {
			c.Check(okOrder, "C20.3", "vanguardgrpc.NewTranscoder", "caller-options-last", wrap.Pos(),
				"the caller's options are appended after the wrapper's built-in defaults (later defaults win)",
				"the caller's options do not come last in what is handed to vanguard.NewTranscoder: the wrapper's built-in codec/protocol defaults override the caller's, unlike the same services registered by name")
		}
	}

	// ---------------------------------------------------------------- C20.4
	c.Rule("C20.4", "generated types are used as resolver only for the identical registered file whose method types are all registered", 1)
	cug := p.MustFunc("canUseGlobalTypes")
	paths, ok := EnumPaths(cug.Blocks[0], nil, IsReturn, 0)
	if !ok {
		c.Unknown("C20.4", FuncName(cug), "paths", cug.Pos(), "too many paths")
	}
	nTrue := 0
	for _, cp := range paths {
		ret := cp.End.(*ssa.Return)
		v := cp.ResolveAt(ret.Results[0], ret.Block())
		if b, isC := ConstBool(v); !isC || !b {
			if !isC {
				c.Unknown("C20.4", FuncName(cug), "return", ret.Pos(), "non-constant return")
			}
			continue
		}
		nTrue++
		identity, errNil := false, false
		for cond, truth := range cp.Truth {
			b, ok := cond.(*ssa.BinOp)
			if !ok {
				continue
			}
			fromFind := func(x ssa.Value) (bool, int) {
				if ex, ok := x.(*ssa.Extract); ok {
					if call, ok := ex.Tuple.(*ssa.Call); ok && IsCallTo(call, "(*google.golang.org/protobuf/reflect/protoregistry.Files).FindFileByPath") {
						return true, ex.Index
					}
				}
				return false, 0
			}
			fx, ix := fromFind(b.X)
			fy, iy := fromFind(b.Y)
			isIdent := (fx && ix == 0 && isParentFile(b.Y)) || (fy && iy == 0 && isParentFile(b.X))
			if isIdent && (b.Op == token.NEQ && !truth || b.Op == token.EQL && truth) {
				identity = true
			}
			if fx && ix == 1 && IsNilConst(b.Y) && (b.Op == token.NEQ && !truth || b.Op == token.EQL && truth) {
				errNil = true
			}
		}
		c.Check(identity && errNil, "C20.4", FuncName(cug), "true-requires-identity", ret.Pos(),
			"returns true only when the file found in the global registry IS the service's file",
			"global (generated) types can be selected for a service whose file descriptor is merely path-equal to a registered one: a dynamically loaded schema is handled with generated types of possibly different content")
	}
	if nTrue == 0 {
		c.Bad("C20.4", FuncName(cug), "true-requires-identity", cug.Pos(), "no path returns true: shape changed")
	}
	// each method's input and output are looked up in GlobalTypes with failure => false
	nLookups := 0
	for _, call := range Calls(cug) {
		if IsCallTo(call, "(*google.golang.org/protobuf/reflect/protoregistry.Types).FindMessageByName") {
			nLookups++
		}
	}
	c.Check(nLookups >= 2, "C20.4", FuncName(cug), "method-types-checked", cug.Pos(),
		"input and output types of the methods are looked up in the global registry", "the global registry is not consulted for both input and output types of the methods")

	// ---------------------------------------------------------------- C20.5
	// A decision taken by comparing two descriptor VALUES (interface identity) separates a schema
	// loaded from a descriptor set from the same schema in generated code: the descriptors are
	// content-equal but distinct objects.  Only the resolver choice may (and must) look at identity.
	c.Rule("C20.5", "no decision by descriptor identity outside the resolver choice (schemas are compared by name / content)", 1)
	nCmp := 0
	for _, fn := range p.Funcs {
		if !p.inScope(fn) {
			continue
		}
		ForEachInstr(fn, func(in ssa.Instruction) {
			b, ok := in.(*ssa.BinOp)
			if !ok || (b.Op != token.EQL && b.Op != token.NEQ) {
				return
			}
			if IsNilConst(b.X) || IsNilConst(b.Y) {
				return
			}
			if !isDescriptorIface(b.X.Type()) || !isDescriptorIface(b.Y.Type()) {
				return
			}
			nCmp++
			if fn != cug && identityOnlySelectsFastPath(b) {
				c.Exception(FuncName(fn)+": descriptor identity", "identity only selects proto.Merge as a shortcut; the non-identical edge re-marshals the value on every path (same result by content)")
				c.OK("C20.5", FuncName(fn), "descriptor-identity-compare", b.Pos(), "identity selects a shortcut; the other edge converts by content (Marshal/Unmarshal) on every path")
				return
			}
			c.Check(fn == cug, "C20.5", FuncName(fn), "descriptor-identity-compare", b.Pos(),
				"descriptor identity is compared only where the generated-type resolver is chosen",
				"two descriptors are compared by identity: a schema loaded from a descriptor set (content-equal, distinct objects) takes the other branch than the same schema from generated code")
		})
	}
	if nCmp == 0 {
		c.Bad("C20.5", FuncName(cug), "descriptor-identity-compare", cug.Pos(), "the resolver choice no longer compares file identity (expected one identity comparison): shape changed")
	}
}

// identityOnlySelectsFastPath: the comparison feeds an If whose not-identical successor passes
// proto.Marshal on every path to a return (conversion by content), and whose identical
// successor calls proto.Merge.
func identityOnlySelectsFastPath(b *ssa.BinOp) bool {
	for _, ref := range *b.Referrers() {
		iff, ok := ref.(*ssa.If)
		if !ok {
			continue
		}
		same, diff := iff.Block().Succs[0], iff.Block().Succs[1]
		if b.Op == token.NEQ {
			same, diff = diff, same
		}
		isCall := func(names ...string) func(ssa.Instruction) bool {
			return func(in ssa.Instruction) bool {
				ci, ok := in.(ssa.CallInstruction)
				return ok && IsCallTo(ci, names...)
			}
		}
		if len(diff.Instrs) == 0 || len(same.Instrs) == 0 {
			return false
		}
		// not-identical: Marshal unavoidable
		marshalFirst := isCall("google.golang.org/protobuf/proto.Marshal")(diff.Instrs[0])
		if !marshalFirst {
			if found, _ := (PathQuery{Target: IsReturn, Avoid: isCall("google.golang.org/protobuf/proto.Marshal")}).Search(b.Parent(), diff.Instrs[0]); found {
				return false
			}
		}
		// identical: Merge
		hasMerge := false
		for _, in := range same.Instrs {
			if isCall("google.golang.org/protobuf/proto.Merge")(in) {
				hasMerge = true
			}
		}
		return hasMerge
	}
	return false
}

// isDescriptorIface: an interface type declared in protoreflect whose name ends in "Descriptor".
func isDescriptorIface(t types.Type) bool {
	n, ok := t.(*types.Named)
	if !ok {
		return false
	}
	if _, isIface := n.Underlying().(*types.Interface); !isIface {
		return false
	}
	return n.Obj().Pkg() != nil && n.Obj().Pkg().Path() == "google.golang.org/protobuf/reflect/protoreflect" && strings.HasSuffix(N(n.Obj()), "Descriptor")
}

func isParentFile(v ssa.Value) bool {
	for _, l := range Origins(v) {
		if l.Kind == "call" && l.Call.Common().IsInvoke() && N(l.Call.Common().Method) == "ParentFile" {
			return true
		}
	}
	return false
}

// runC20StatusMarshalledWithResolver: C20.11 (seed C20l).  Error details are google.protobuf.Any
// values; rendering them as JSON needs the detail's message type.  For a dynamically loaded
// service that type may exist only in the service's own resolver, so every function that has the
// operation at hand renders protobuf JSON through the operation's codec (built with that
// resolver) or through options that carry a resolver.  Options without one - a package-level
// "shared marshaller", a bare literal - fall back to the global registry and turn the error into
// `failed to marshal end error` for dynamically loaded schemas only.
func runC20StatusMarshalledWithResolver(c *Ctx) {
	p := c.P
	c.Rule("C20.11", "functions that have the operation at hand render protobuf JSON with a resolver-carrying marshaller", 0)
	opT := p.MustNamed("operation")
	for _, fn := range p.Funcs {
		if !p.inScope(fn) {
			continue
		}
		hasOp := false
		for _, prm := range fn.Params {
			if pt, ok := prm.Type().(*types.Pointer); ok && types.Identical(pt.Elem(), opT) {
				hasOp = true
			}
		}
		if !hasOp {
			continue
		}
		for _, call := range Calls(fn) {
			sc := call.Common().StaticCallee()
			if sc == nil || sc.Signature.Recv() == nil {
				continue
			}
			rt, ok := sc.Signature.Recv().Type().(*types.Named)
			if !ok || rt.Obj().Name() != "MarshalOptions" || rt.Obj().Pkg() == nil || !strings.HasSuffix(rt.Obj().Pkg().Path(), "protobuf/encoding/protojson") {
				continue
			}
			ld, ok := call.Common().Args[0].(*ssa.UnOp)
			if !ok || ld.Op != token.MUL {
				continue
			}
			var holder ssa.Value
			var where *ssa.Function
			switch x := ld.X.(type) {
			case *ssa.Global:
				holder, where = x, x.Pkg.Func("init")
			case *ssa.Alloc:
				holder, where = x, fn
			default:
				continue
			}
			set := false
			ForEachInstr(where, func(in ssa.Instruction) {
				st, ok := in.(*ssa.Store)
				if !ok {
					return
				}
				if fa, ok := st.Addr.(*ssa.FieldAddr); ok && fa.X == holder && FieldOfAddr(fa).Name() == "Resolver" && !IsNilConst(st.Val) {
					set = true
				}
			})
			c.Check(set, "C20.11", FuncName(fn), "json-marshaller-has-resolver", call.Pos(),
				"the protojson options used here carry a resolver",
				"a function that has the operation (and with it the service's resolver) at hand renders protobuf JSON with options that carry no resolver: error details whose type is known only to a dynamically loaded service's resolver cannot be rendered, the client gets 'failed to marshal end error' instead of the backend's code, message and details - for the same schema registered from generated code it works")
		}
	}
}
